"""C02 - each aggregating rule reduces exactly its own body's solution set.

Theorems: coq/Props/C02.v. Correspondence: generated stratifiable programs with 1-3
do-transform (group_by) rules per head predicate - single- and multi-atom bodies, the same
head several times, aggregation over recursive lower strata, a second aggregation level -
run through parse -> analysis -> engine.EvalProgram (Go harness `c02`) and through the model
(rewrite + C01 semi-naive strata + evalDo) inside Coq. The verdict on the PROPERTY is the
observer of Run/C02.v: Go's facts of every aggregated predicate must equal the independent
fold (spec_do) over the solutions of each rule's own body computed by the C01 `solve` from
Go's own facts of the body predicates. A second runner (`c02rw`) compares rewrite.Rewrite
(names, arities, which rules are split) with the model's `rewrite`.

Strengthened after seeding (notes/C02.md): (1) `conf_program` - key and collected columns mixing
constants that print alike across types, contain the key encoding's separators, or have equal
Constant.Hash() (same judge; floats / byte strings are opaque tagged pairs in the model);
(2) `cyc_program` + runner `c02cyc` + Run.C02.judge_cyc - programs with an aggregation edge on a
dependency cycle, run from text many times each, must be refused on every run.
Round 2: (3) `BiGen` - aggregating bodies with built-in predicate atoms that BIND variables (:match_pair :match_cons
:list:member :match_field :match_entry over pair / list / struct / map valued columns), their output variables used as
group keys and reducer arguments; judged by Run.C02.judge_bi (the built-in relations materialised in the model,
Datalog/AggBuiltin.v; same observer). All kinds of cases go through Run.C02.judge_any in one batch.

Program representation = checks/datalog_common.py plus, on a clause,
  "do": {"keys": [var, ...], "stmts": [["reduce", var, rname, [term, ...]] | ["apply", var, term]]}
  rname in count sum min max avg collect collect_distinct
Float results are shown as ["pair", ["name", "/__f64"], ["pair", ["n", m], ["n", e]]] (m * 2^e).
"""
import copy
import glob
import json
import os
import re
import sys
from concurrent.futures import ThreadPoolExecutor

from vlib.core import C, Raw, coq
from checks import datalog_common as dc

sys.setrecursionlimit(20000)
ALL_STORES = ["simple", "indexed", "multi", "array", "merged", "teeing"]
FUEL = 80
LIMIT = 5000
RED = {"count": "RCount", "sum": "RSum", "min": "RMin", "max": "RMax", "avg": "RAvg",
       "collect": "RCollect", "collect_distinct": "RCollectDistinct"}
F64 = "/__f64"
BYT = "/__bytes"


# ------------------------------------------------------------------ float and byte-string constants
# The model has names, strings, int64 numbers, pairs and lists. A float64 or a byte string that is only
# grouped, collected and compared for equality is carried through the model as an opaque tagged pair
#   float m * 2^e (m odd, or m = e = 0):  ["pair", ["name", "/__f64"], ["pair", ["n", m], ["n", e]]]
#   byte string (ASCII):                  ["pair", ["name", "/__bytes"], ["s", text]]
# (the form avg results already had); the program text gets the literal, the harness reports ["f", m, e] /
# ["b", text] and conv_const maps them back. No generated program uses the two tag names otherwise.
def flt(x):
    """Tagged pair of the python float x (finite)."""
    import math
    if x == 0:
        return ["pair", ["name", F64], ["pair", ["n", 0], ["n", 0]]]
    frac, exp = math.frexp(x)
    m, e = int(frac * (1 << 53)), exp - 53
    while m % 2 == 0:
        m //= 2
        e += 1
    return ["pair", ["name", F64], ["pair", ["n", m], ["n", e]]]


def byt(txt):
    return ["pair", ["name", BYT], ["s", txt]]


def is_flt(c):
    return c[0] == "pair" and c[1] == ["name", F64] and c[2][0] == "pair"


def is_byt(c):
    return c[0] == "pair" and c[1] == ["name", BYT] and c[2][0] == "s"


def flt_value(c):
    return float(c[2][1][1]) * 2.0 ** c[2][2][1]


def ctext(c):
    """dc.const_text extended by float and byte-string literals."""
    k = c[0]
    if is_flt(c):
        t = repr(flt_value(c))
        if "e" in t or "n" in t:
            raise ValueError("float without a plain literal: %r" % (c,))
        return t
    if is_byt(c):
        return 'b"%s"' % dc.esc(c[2][1])
    if is_tagged(c, STRUCT) or is_tagged(c, MAPT):
        body = ", ".join("%s: %s" % (ctext(e[1]), ctext(e[2])) for e in c[2][1])
        return ("{%s}" if is_tagged(c, STRUCT) else "[%s]") % body
    if k == "pair":
        return "fn:pair(%s, %s)" % (ctext(c[1]), ctext(c[2]))
    if k == "list":
        items = [ctext(x) for x in c[1]]
        if items and items[0].startswith("-"):
            return "fn:list(%s)" % ", ".join(items)
        return "[%s]" % ", ".join(items)
    return dc.const_text(c)


def fact_text(f):
    return "%s(%s)." % (dc.pred_name(f["p"]), ", ".join(ctext(c) for c in f["args"]))


def chash(c):
    """ast.Constant.Hash() (dc.const_hash extended): a float hashes to its bit pattern, a byte string like
    the string with the same content."""
    import struct
    k = c[0]
    if is_flt(c):
        return struct.unpack("<Q", struct.pack("<d", flt_value(c)))[0]
    if is_byt(c):
        return dc.fnv1_64(c[2][1].encode("utf-8"))
    if is_tagged(c, STRUCT) or is_tagged(c, MAPT):
        # entries in the canonical (sorted) order of the representation; Go's own entry order may differ, the
        # value is only used to recognise hash-equal facts (F8) among generated values
        h, sh = 0, (10 if is_tagged(c, STRUCT) else 9)
        for e in reversed(c[2][1]):
            h = dc.szudzik((chash(e) << sh) & dc.M64, h)
        return h
    if k == "pair":
        return dc.szudzik((chash(c[1]) << 7) & dc.M64, chash(c[2]))
    if k == "list":
        h = 0
        for x in reversed(c[1]):
            h = dc.szudzik((chash(x) << 8) & dc.M64, h)
        return h
    return dc.const_hash(c)


def fact_hash(pname, args):
    h = dc.fnv1_64(pname.encode())
    for c in args:
        h = dc.fnv1_64(chash(c).to_bytes(8, "little"), h)
    return h


def hash_collisions(named_facts):
    """Pairs of distinct facts (predicate name, args) with equal ast.Atom.Hash(): the trigger of F8."""
    seen, out = {}, []
    for nm, args in named_facts:
        t = "%s(%s)" % (nm, ", ".join(ctext(c) for c in args))
        h = fact_hash(nm, args)
        if h in seen and seen[h] != t:
            out.append((seen[h], t))
        seen.setdefault(h, t)
    return out


# ------------------------------------------------------------------ names <-> ids
def pid(k):
    """id_of_name of the printed predicate name (Datalog/Rewrite.v)."""
    n = 1
    for b in dc.pred_name(k).encode():
        n = n * 256 + b
    return n


def name_id(s):
    n = 1
    for b in s.encode():
        n = n * 256 + b
    return n


def id_name(n):
    bs = []
    while n > 1:
        bs.append(n % 256)
        n //= 256
    return bytes(reversed(bs)).decode("utf-8", "replace")


# ------------------------------------------------------------------ text
def do_text(d):
    parts = ["do fn:group_by(%s)" % ", ".join(dc.var_name(v) for v in d["keys"])]
    for st in d["stmts"]:
        if st[0] == "reduce":
            parts.append("let %s = fn:%s(%s)" % (dc.var_name(st[1]), st[2], ", ".join(dc.term_text(t) for t in st[3])))
        else:
            parts.append("let %s = %s" % (dc.var_name(st[1]), dc.term_text(st[2])))
    return ", ".join(parts)


def rule_text(c):
    if not c.get("do"):
        return dc.clause_text(c)
    s = dc.atom_text(c["head"]) + " :- " + ", ".join(premise_text(p) for p in c["body"])
    return s + " |> " + do_text(c["do"]) + "."


def to_mangle(prog, shuffle_rng=None):
    lines = [fact_text(f) for f in prog.get("init", [])] + [rule_text(c) for c in prog["clauses"]]
    if shuffle_rng is not None:
        # the relative order of the rules of one head is kept (it fixes the counter values;
        # not observable, but keeps replays stable); facts and other lines move freely
        facts = lines[:len(prog.get("init", []))]
        rules = lines[len(facts):]
        shuffle_rng.shuffle(facts)
        cut = shuffle_rng.randint(0, len(facts))
        lines = facts[:cut] + rules + facts[cut:]
    return "\n".join(lines) + "\n"


# ------------------------------------------------------------------ Coq terms
class RecFresh(dc._Fresh):
    def __init__(self, used):
        super().__init__(used)
        self.made = []

    def get(self):
        v = super().get()
        self.made.append(v)
        return v


def rule_vars(c):
    acc = dc.clause_vars({"head": c["head"], "body": [p for p in c["body"] if p[0] not in ("bi", "nbi")], "let": c.get("let", [])})
    for p in c["body"]:
        if p[0] in ("bi", "nbi"):
            for t in p[2]:
                dc.term_vars(t, acc)
    d = c.get("do")
    if d:
        acc |= set(d["keys"])
        for st in d["stmts"]:
            acc.add(st[1])
            for t in (st[3] if st[0] == "reduce" else [st[2]]):
                dc.term_vars(t, acc)
    return acc


def map_atom(a):
    return {"p": pid(a["p"]), "args": a["args"]}


def cq_rule(c):
    fresh = RecFresh(rule_vars(c))
    body = []
    for p in c["body"]:
        if p[0] in ("bi", "nbi"):
            # a built-in goal is an atom whose predicate id is the id of the built-in's name (Datalog/AggBuiltin.v)
            body.append(C("PAtom" if p[0] == "bi" else "PNeg",
                          C("mkAtom", name_id(p[1]), [dc.cq_term(t, fresh) for t in p[2]])))
            continue
        q = [p[0], map_atom(p[1])] + p[2:] if p[0] in ("atom", "neg") else p
        body.append(dc.cq_premise(q, fresh))
    cl = C("mkClause", dc.cq_atom(map_atom(c["head"]), fresh), body,
           [(v, dc.cq_term(t, fresh)) for v, t in c.get("let", [])])
    d = c.get("do")
    if not d:
        return C("mkRule", cl, None, list(fresh.made))
    stmts = []
    for st in d["stmts"]:
        if st[0] == "reduce":
            stmts.append(C("DReduce", st[1], Raw(RED[st[2]]), [dc.cq_term(t, fresh) for t in st[3]]))
        else:
            stmts.append(C("DApply", st[1], dc.cq_term(st[2], fresh)))
    return C("mkRule", cl, C("Some", C("mkDo", list(d["keys"]), stmts)), list(fresh.made))


def cq_const(c):
    """dc.cq_const with flat lists (a collected list can have hundreds of elements)."""
    k = c[0]
    if k == "pair":
        return C("CPair", cq_const(c[1]), cq_const(c[2]))
    if k == "list":
        return C("list_of_consts", [cq_const(x) for x in c[1]])
    return dc.cq_const(c)


def cq_fact(f):
    return (pid(f["p"]), [cq_const(c) for c in f["args"]])


def conv_const(c):
    """Harness constant -> representation; floats become tagged pairs."""
    k = c[0]
    if k in ("n", "name", "s"):
        return c
    if k == "pair":
        return ["pair", conv_const(c[1]), conv_const(c[2])]
    if k == "list":
        return ["list", [conv_const(x) for x in c[1]]]
    if k == "b":
        return byt(c[1])
    if k in ("struct", "map"):
        # entries sorted by label: one representation whatever entry order the Go constant has
        return _entries(STRUCT if k == "struct" else MAPT, [(conv_const(e[0]), conv_const(e[1])) for e in c[1]])
    if k == "f":
        if c[1] == "nan":
            return ["pair", ["name", F64], ["name", "/nan"]]
        if isinstance(c[1], str):
            raise ValueError("infinite float")
        return ["pair", ["name", F64], ["pair", ["n", c[1]], ["n", c[2]]]]
    raise ValueError("constant outside the modelled fragment: %r" % (c,))


def facts_from_go(go_facts):
    out = []
    for f in go_facts:
        nm = f["p"]
        if not (nm.startswith("p") and nm[1:].isdigit()):
            raise ValueError("unexpected predicate %r" % nm)
        out.append({"p": int(nm[1:]), "args": [conv_const(c) for c in f["args"]]})
    return out


def sort_cols(prog):
    """(predicate id, column) of the head columns filled by collect / collect_distinct."""
    out = set()
    for c in prog["clauses"]:
        d = c.get("do")
        if not d:
            continue
        lists = set(st[1] for st in d["stmts"] if st[0] == "reduce" and st[2] in ("collect", "collect_distinct"))
        for i, t in enumerate(c["head"]["args"]):
            if t[0] == "var" and t[1] in lists:
                out.add((pid(c["head"]["p"]), i))
    return sorted(out)


def cq_obs(group):
    if group["err"] == "":
        return C("OFacts", [cq_fact(f) for f in facts_from_go(group["facts"])])
    if group["err"] in ("limit", "timeout"):
        return Raw("OLimit")
    return Raw("OEvalErr")


def cq_case(prog, group, fuel=FUEL):
    return coq(C("mkCase", [cq_rule(c) for c in prog["clauses"]],
                 [[pid(p) for p in l] for l in prog["layers"]],
                 [cq_fact(f) for f in prog.get("pre", [])],
                 [cq_fact(f) for f in prog.get("init", [])], fuel,
                 [tuple(x) for x in sort_cols(prog)], cq_obs(group)))


def is_bi(prog):
    """The program has built-in predicate atoms in aggregating bodies: judged by Run.C02.judge_bi."""
    return prog.get("kind") == "builtin"


def tagged_case(prog, group):
    """Argument of Run.C02.judge_any."""
    return "(%s %s)" % ("ABuiltin" if is_bi(prog) else "APlain", cq_case(prog, group))


def go_case(prog, stores, det, shuffle_rng=None):
    sc = {}
    for pd, col in sort_cols(prog):
        sc.setdefault(id_name(pd), []).append(col)
    # sort_cols: the harness puts configurations that differ only in the element order of collected lists
    # into one group (the judge compares those columns as multisets anyway)
    return {"src": to_mangle(prog, shuffle_rng), "pre": dc.facts_text(prog.get("pre", [])),
            "stores": stores, "det": det, "limit": LIMIT, "timeout_ms": 20000, "sort_cols": sc}


def show_facts(ck, expr):
    """Evaluate a token-producing expression and render the facts (for replays)."""
    out = ck.coq_show("C02", expr)
    m = re.search(r"=\s*\[(.*?)\]\s*:\s*list Z", out, re.S)
    if not m:
        return "unparsed: " + out[-300:]
    toks = [int(x) for x in re.findall(r"-?\d+", m.group(1))]
    kind, facts = dc.parse_model_tokens(toks)
    if kind != "ok":
        return kind
    return sorted("%s(%s)" % (id_name(f["p"]), ", ".join(ctext(c) for c in f["args"])) for f in facts)


def canon_go(group):
    if group["err"]:
        return None
    return sorted("%s(%s)" % (dc.pred_name(f["p"]), ", ".join(ctext(c) for c in f["args"]))
                  for f in facts_from_go(group["facts"]))


# ------------------------------------------------------------------ stratification with aggregation edges
def stratify(clauses):
    """dc.stratify with the body atoms of a do-transform rule counted as negated
    (analysis/stratification.go:55-63)."""
    view = []
    for c in clauses:
        if c.get("do"):
            body = [["neg", p[1]] if p[0] == "atom" else p for p in c["body"]]
            view.append({"head": c["head"], "body": body, "let": []})
        else:
            view.append(c)
    return dc.stratify(view)


# ------------------------------------------------------------------ generator
class AggGen:
    """A dc.Gen program (typed columns, recursion templates, negation, arithmetic) plus
    aggregation layers on top. Avoided by construction: more than 3 aggregating rules per
    head and one head per stratum (F2b needs 11 rewritten rules in a stratum), avg when the
    program contains int64 edge values (N10), rules of an aggregated head's stratum that
    read the aggregated head (F2d), maps (N9), aggregated list/float columns as keys or in
    comparisons of later rules."""

    def __init__(self, rng, big=False):
        self.rng = rng
        self.g = dc.Gen(rng, big)
        self.prog = self.g.program()
        self.sig = dict(self.g.sig)            # pred -> column types; adds F (float) and C (collected list)
        self.features = set(self.prog["features"])
        self.extra_facts = []

    def new_pred(self, sig):
        k = self.g.npred
        self.g.npred += 1
        self.sig[k] = tuple(sig)
        return k

    def wide_edb(self):
        """An extensional predicate with enough facts for groups of several rows."""
        r = self.rng
        sig = r.choice([("N", "N"), ("A", "N"), ("N", "N", "N"), ("A", "N", "N"), ("N", "A", "N")])
        p = self.new_pred(sig)
        seen = set()
        for _ in range(r.randint(3, 10)):
            args = []
            for i, ty in enumerate(sig):
                if ty == "N":
                    args.append(dc.num(r.choice([0, 1, 2, 3]) if i == 0 else r.choice([0, 1, 2, 3, 4, 5, 7, -3, 10])))
                else:
                    args.append(dc.name(r.choice(dc.NAMES[:3])))
            f = dc.fact(p, *args)
            t = dc.fact_text(f)
            if t not in seen:
                seen.add(t)
                self.extra_facts.append(f)
        return p

    def agg_rule(self, head, keytys, coltys, lower, allow_avg, shape):
        """One aggregating rule for `head` (signature keytys + coltys) over `lower`."""
        r = self.rng
        env, nextv, body = {}, [1], []

        def fresh(ty):
            v = nextv[0]
            nextv[0] += 1
            env[v] = ty
            return v

        def bound(ty):
            return [v for v, t in env.items() if t == ty]

        usable = [p for p in lower if any(t in "NA" for t in self.sig[p])]
        need = list(keytys) + (["N"] if any(t in "NF" for t in coltys) else [])

        def add_atom(p, join=True, distinct=False):
            args = []
            for ty in self.sig[p]:
                x = r.random()
                if ty in ("F", "C"):
                    args.append(["wild"])
                elif not distinct and join and bound(ty) and x < 0.4:
                    args.append(dc.var(r.choice(bound(ty))))
                elif x < 0.47 and (not distinct or x < 0.3):
                    args.append(["wild"])
                elif x < 0.55 and ty in "NA":
                    args.append(dc.cst(self.g.scalar(ty)))
                else:
                    args.append(dc.var(fresh(ty)))
            body.append(["atom", dc.atom(p, *args)])

        def covers(p):
            return all(any(t == ty for t in self.sig[p]) for ty in need)

        good = [p for p in usable if covers(p)]
        if shape == "single":
            p = r.choice(good or usable)
            add_atom(p, join=False, distinct=True)
        elif shape == "repeat":
            # single atom with a repeated variable (the F2c shape)
            cands = [p for p in usable if any(self.sig[p].count(t) >= 2 for t in "NA")]
            if not cands:
                return None
            p = r.choice(cands)
            ty = r.choice([t for t in "NA" if self.sig[p].count(t) >= 2])
            v = fresh(ty)
            args = []
            for t in self.sig[p]:
                if t == ty:
                    args.append(dc.var(v))
                elif t in ("F", "C"):
                    args.append(["wild"])
                else:
                    args.append(dc.var(fresh(t)))
            body.append(["atom", dc.atom(p, *args)])
        else:
            n = r.choice([2, 2, 2, 3])
            add_atom(r.choice(good or usable), join=False)
            for _ in range(n - 1):
                add_atom(r.choice(usable))
        # make sure the needed types are bound
        for ty in need:
            tries = 0
            while not bound(ty) and tries < 5:
                tries += 1
                cands = [p for p in usable if ty in self.sig[p]]
                if not cands:
                    return None
                p = r.choice(cands)
                args = []
                for t in self.sig[p]:
                    if t in ("F", "C"):
                        args.append(["wild"])
                    elif t == ty and not bound(ty):
                        args.append(dc.var(fresh(t)))
                    elif bound(t) and r.random() < 0.5:
                        args.append(dc.var(r.choice(bound(t))))
                    else:
                        args.append(dc.var(fresh(t)))
                body.append(["atom", dc.atom(p, *args)])
            if not bound(ty):
                return None
        if shape in ("single", "repeat") and len(body) != 1:
            shape = "multi"
        # side conditions (they make the body a multi-premise one)
        if shape == "multi" or (shape == "single" and r.random() < 0.25):
            x = r.random()
            ns = bound("N")
            if ns and x < 0.3:
                body.append(["cmp", r.choice(["lt", "le", "gt", "ge"]), dc.var(r.choice(ns)), dc.cst(dc.num(r.choice([0, 1, 2, 3, 5])))])
                self.features.add("agg-cmp")
            elif ns and x < 0.45:
                v = fresh("N")
                body.append(["eq", dc.var(v), dc.app(r.choice(["plus", "mult", "minus"]), dc.var(r.choice(ns)), dc.cst(dc.num(r.choice([1, 2, 3]))))])
                self.features.add("agg-eq")
            elif x < 0.6:
                cands = [p for p in lower if all(bound(t) for t in self.sig[p]) and all(t in "NA" for t in self.sig[p])]
                if cands:
                    p = r.choice(cands)
                    body.append(["neg", dc.atom(p, *[dc.var(r.choice(bound(t))) for t in self.sig[p]])])
                    self.features.add("agg-neg")
            elif x < 0.7 and len(bound("N")) >= 2:
                a, b = r.sample(bound("N"), 2)
                body.append(["ineq", dc.var(a), dc.var(b)])
                self.features.add("agg-ineq")
        # the transform
        keys = []
        for ty in keytys:
            cands = [v for v in bound(ty) if v not in keys]
            if not cands:
                return None
            keys.append(r.choice(cands))
        stmts, hargs = [], [dc.var(k) for k in keys]
        body_vars = list(env)
        for ty in coltys:
            v = fresh("L")
            ns = [x for x in body_vars if env[x] == "N"]
            if ty == "N":
                kind = r.choice(["count", "sum", "sum", "min", "max"])
                if kind == "count":
                    stmts.append(["reduce", v, "count", []])
                else:
                    src = r.choice(ns)
                    if r.random() < 0.02:
                        alt = [x for x in body_vars if env[x] == "A"]
                        if alt:
                            src = r.choice(alt)      # type error: both sides must report it
                            self.features.add("agg-type-error")
                    stmts.append(["reduce", v, kind, [dc.var(src)]])
                if r.random() < 0.12:
                    w = fresh("L")
                    stmts.append(["apply", w, dc.app(r.choice(["plus", "mult"]), dc.var(v), dc.cst(dc.num(r.choice([1, 2]))))])
                    self.features.add("agg-apply")
                    v = w
            elif ty == "F":
                stmts.append(["reduce", v, "avg", [dc.var(r.choice(ns))]])
                self.features.add("avg")
            else:
                kind = r.choice(["collect", "collect_distinct", "collect_distinct"])
                srcs = [x for x in body_vars if env[x] in "NA"]
                if not srcs:
                    return None
                k = 1 if r.random() < 0.7 else 2
                args = [dc.var(r.choice(srcs)) for _ in range(k)]
                if r.random() < 0.1:
                    args[0] = dc.app("plus", dc.var(r.choice(ns)), dc.cst(dc.num(1))) if ns else args[0]
                stmts.append(["reduce", v, kind, args])
                self.features.add(kind)
            hargs.append(dc.var(v))
        if r.random() < 0.08:
            stmts.append(["reduce", fresh("L"), "count", []])     # a let the head does not use
        c = dc.clause(dc.atom(head, *hargs), body)
        c["do"] = {"keys": keys, "stmts": stmts}
        return c, ("multi" if len(body) > 1 else shape)

    def agg_layer(self, lower, allow_avg):
        r = self.rng
        nkeys = r.choice([0, 1, 1, 1, 2])
        keytys = [r.choice(["N", "N", "A"]) for _ in range(nkeys)]
        ncols = r.choice([1, 1, 2, 3])
        coltys = []
        for _ in range(ncols):
            x = r.random()
            coltys.append("N" if x < 0.6 else ("F" if x < 0.75 and allow_avg else ("C" if x >= 0.75 else "N")))
        head = self.new_pred(keytys + coltys)
        nrules = r.choice([1, 1, 2, 2, 2, 3])
        clauses, shapes = [], []
        same_shape = r.choice(["multi", "multi", None])
        for _ in range(nrules):
            shape = same_shape or r.choice(["single", "multi", "multi", "repeat"])
            if same_shape and r.random() < 0.25:
                shape = r.choice(["single", "repeat"])
            for _try in range(6):
                res = self.agg_rule(head, keytys, coltys, lower, allow_avg, shape)
                if res:
                    clauses.append(res[0])
                    shapes.append(res[1])
                    break
                shape = "multi"
        if not clauses:
            return None
        if all(t == "N" for t in keytys + coltys) and r.random() < 0.12:
            # a plain rule for the same head: its solutions must not enter any group
            cands = [p for p in lower if self.sig[p] == tuple(keytys + coltys)]
            if cands:
                vs = [dc.var(i + 1) for i in range(len(keytys + coltys))]
                clauses.insert(r.randint(0, len(clauses)), dc.clause(dc.atom(head, *vs), [["atom", dc.atom(r.choice(cands), *vs)]]))
                self.features.add("agg-plus-plain")
        nm = sum(1 for s in shapes if s == "multi")
        if nm >= 2:
            self.features.add("same-head-multi>=2")
        if len(shapes) >= 2:
            self.features.add("same-head>=2")
        for s in shapes:
            self.features.add("agg-" + s)
        return head, clauses

    def consumer_layer(self, lower, aggs):
        """A plain predicate of a higher stratum reading an aggregated one."""
        r = self.rng
        h = r.choice(aggs)
        cols = [i for i, t in enumerate(self.sig[h]) if t in "NA"]
        if not cols:
            return None
        keep = r.sample(cols, r.randint(1, min(2, len(cols))))
        args, hargs, nv = [], [], 1
        for i, t in enumerate(self.sig[h]):
            if i in keep:
                args.append(dc.var(nv))
                hargs.append((nv, t))
                nv += 1
            else:
                args.append(["wild"])
        q = self.new_pred([t for _, t in hargs])
        body = [["atom", dc.atom(h, *args)]]
        ns = [v for v, t in hargs if t == "N"]
        if ns and r.random() < 0.5:
            body.append(["cmp", r.choice(["lt", "ge"]), dc.var(r.choice(ns)), dc.cst(dc.num(r.choice([1, 2, 4])))])
        self.features.add("agg-consumer")
        return q, [dc.clause(dc.atom(q, *[dc.var(v) for v, _ in hargs]), body)]

    def program(self):
        r = self.rng
        prog = self.prog
        lower = [p for p in self.sig]
        derived = [p for l in prog["layers"] for p in l]
        for _ in range(r.choice([1, 1, 2])):
            lower.append(self.wide_edb())
        allow_avg = "int64-edge" not in self.features
        aggs = []
        for _ in range(r.choice([1, 1, 2, 2, 3])):
            # prefer derived (recursive) predicates and earlier aggregates in the bodies
            pool = lower + [p for p in derived if r.random() < 0.7] + aggs
            res = self.agg_layer(pool, allow_avg)
            if not res:
                continue
            head, cl = res
            prog["clauses"] += cl
            prog["layers"].append([head])
            lower.append(head)
            aggs.append(head)
            if len(aggs) >= 2 and any(any(p[0] == "atom" and p[1]["p"] in aggs[:-1] for p in c["body"]) for c in cl):
                self.features.add("agg-over-agg")
            if r.random() < 0.3:
                res = self.consumer_layer(lower, aggs)
                if res:
                    q, cl2 = res
                    prog["clauses"] += cl2
                    prog["layers"].append([q])
                    lower.append(q)
        for c in prog["clauses"]:
            if c.get("do") and any(p[0] == "atom" and p[1]["p"] in derived for p in c["body"]):
                if "recursive" in self.features:
                    self.features.add("agg-over-derived")
        prog["init"] = prog["init"] + self.extra_facts
        prog["features"] = sorted(self.features)
        return prog


def gen_program(rng, big=False):
    for _ in range(20):
        p = AggGen(rng, big).program()
        if any(c.get("do") for c in p["clauses"]):
            return p
    return p


# ------------------------------------------------------------------ confusable constants (strengthened after seeding)
# One aggregating rule = group by the key TUPLE OF CONSTANTS and reduce; Go groups by a printed key string
# (groupKeyString) and de-duplicates collected values through Constant.Hash() buckets. The families below put
# into one key / collected column constants that differ but (a) print alike across types, (b) contain the
# separators of the key encoding, (c) have equal Hash(). Facts stay hash-distinct (F8 is about hash-equal
# FACTS): every base fact carries a unique tag and every head a column that differs between groups.
P32, P33 = 1 << 32, 1 << 33
CONF_FAMILIES = {
    # same text, different constant types
    "type-7": [dc.num(7), dc.string("7"), byt("7"), flt(7.0), dc.string("7.0"), dc.name("/7"), dc.string("/7")],
    "type-a": [dc.name("/a"), dc.string("/a"), byt("/a"), dc.string("a"), byt("a"), dc.string('"a"'),
               dc.string('b"a"'), dc.string('\\"a\\"')],
    # the key encoding "<len>:<printed>|" and the quoting of strings
    "delim": [dc.string("a"), dc.string("a|1:b"), dc.string("b"), dc.string("|"), dc.string("1:"), dc.string("a|"),
              dc.string('a"|3:"b'), dc.string('3:"a"|'), dc.string(""), dc.string("a\\"), dc.string("a\n")],
    # Hash() = 0
    "hash-0": [dc.num(0), flt(0.0), dc.lst([]), dc.lst([dc.num(0)]), dc.pair(dc.num(0), dc.num(0)),
               dc.pair(dc.num(0), dc.num(P32)), dc.lst([dc.num(0), dc.num(0)]), dc.pair(dc.num(0), dc.num(P33))],
    # Hash() = 2^32 and the bit pattern of 1.5
    "hash-n": [dc.num(P32), dc.pair(dc.num(1 << 25), dc.num(0)), dc.pair(dc.num(0), dc.num(1 << 16)),
               flt(1.5), dc.num(4609434218613702656), dc.num(1)],
    # fnv of the text: a name, a string and a byte string with one content
    "hash-a": [dc.name("/a"), dc.string("/a"), byt("/a"), dc.name("/b"), dc.string("/b")],
    # numbers whose 2-tuples collide under the wrapping pairing function: (0,0) (0,2^32) (0,2^33)
    "tuple-0": [dc.num(0), dc.num(0), dc.num(P32), dc.num(P33), dc.num(1)],
    "zero": [dc.num(0), dc.num(0), dc.num(0), dc.num(1)],
}
CONF_PAIRS = [("type-7", "type-a"), ("type-a", "type-7"), ("type-7", "hash-0"), ("type-a", "hash-a"),
              ("delim", "delim"), ("delim", "type-a"), ("hash-0", "hash-0"), ("hash-n", "hash-0"),
              ("hash-a", "hash-n"), ("zero", "tuple-0"), ("zero", "tuple-0"), ("type-7", "tuple-0"),
              ("hash-0", "type-7"), ("hash-a", "type-a")]


def conf_program(rng):
    """p0(A, B, T, N): A, B from two families, T a unique tag, N a distinct power of two; p1(T) a subset of
    the tags. 1-3 aggregating rules group by A / B / (A,B) / (B,A) / nothing and collect A, B, (A,B), (B,N)."""
    r = rng
    fa, fb = r.choice(CONF_PAIRS)
    A, B = CONF_FAMILIES[fa], CONF_FAMILIES[fb]
    nf = r.randint(6, 12)
    sa = r.sample(A, min(len(A), r.randint(2, 4)))
    sb = r.sample(B, min(len(B), r.randint(2, 4)))
    init, tags = [], []
    for i in range(nf):
        t = dc.name("/t%d" % i)
        tags.append(t)
        init.append(dc.fact(0, copy.deepcopy(r.choice(sa)), copy.deepcopy(r.choice(sb)), t, dc.num(1 << i)))
    init += [dc.fact(1, t) for t in tags if r.random() < 0.75] or [dc.fact(1, tags[0])]
    va, vb, vt, vn = 1, 2, 3, 4
    clauses, layers, feats = [], [], {"confusable", "fam-" + fa, "fam-" + fb}
    nextp = 2
    prev = None
    for _ in range(r.choice([1, 2, 2, 3])):
        keys = r.choice([[va], [va], [vb], [va, vb], [vb, va], []])
        x = r.random()
        if x < 0.45:
            shape = "single"
            # unused positions may be wildcards: a single-atom body has one row per fact
            body = [["atom", dc.atom(0, V(va), V(vb), V(vt), V(vn))]]
        elif x < 0.75:
            shape = "multi-join"
            body = [["atom", dc.atom(0, V(va), V(vb), V(vt), V(vn))], ["atom", dc.atom(1, V(vt))]]
        else:
            shape = "multi-cmp"
            body = [["atom", dc.atom(0, V(va), V(vb), V(vt), V(vn))],
                    ["cmp", r.choice(["lt", "ge"]), V(vn), N(1 << r.randint(1, nf - 1))]]
        feats.add("conf-" + shape)
        nv = [10]

        def fresh():
            nv[0] += 1
            return nv[0]
        # the discriminating column: differs between the (disjoint) groups of this rule
        v = fresh()
        disc = r.choice([["reduce", v, "sum", [V(vn)]], ["reduce", v, "min", [V(vn)]],
                         ["reduce", v, "max", [V(vn)]], ["reduce", v, "collect", [V(vt)]]])
        stmts, hvars = [disc], [v]
        for _c in range(r.choice([0, 1, 1, 2])):
            v = fresh()
            y = r.random()
            if y < 0.2:
                stmts.append(["reduce", v, "count", []])
            else:
                kind = "collect_distinct" if y < 0.85 else "collect"
                args = r.choice([[V(vb)], [V(va)], [V(va), V(vb)], [V(vb), V(va)], [V(vb), V(vn)], [V(va), V(vb), V(va)]])
                stmts.append(["reduce", v, kind, args])
                feats.add("conf-" + kind)
            hvars.append(v)
        # a second rule for the previous head: the same key columns and the same statements over another body. A head
        # is shared only then, and only when its discriminating column determines the group's rows (sum of distinct
        # powers of two / the collected tags): two facts of the head come from the same rows (and are equal) or differ
        # in that column
        share = bool(prev) and prev[3][0][2] in ("sum", "collect") and prev[4] != shape and r.random() < 0.35
        if share:
            keys, stmts = copy.deepcopy(prev[2]), copy.deepcopy(prev[3])
            hvars = [st[1] for st in stmts]
        used = set(keys)
        for st in stmts:
            for t in st[3]:
                used.add(t[1])
        if shape == "single":
            a = body[0][1]["args"]
            for i, var_ in enumerate([va, vb, vt, vn]):
                if var_ not in used and r.random() < 0.7:
                    a[i] = ["wild"]
        if share:
            head = prev[0]
            feats.add("conf-same-head")
        else:
            head = nextp
            nextp += 1
            layers.append([head])
        prev = (head, None, list(keys), stmts, shape)
        if len(keys) >= 1:
            feats.add("conf-keyed")
        clauses.append(agg(head, [V(k) for k in keys] + [V(h) for h in hvars], body, list(keys), stmts))
    return {"clauses": clauses, "layers": layers, "init": init, "pre": [], "features": sorted(feats)}


def gen_conf_program(rng):
    """conf_program whose base facts are pairwise hash-distinct (they are, by the tag; checked anyway)."""
    for _ in range(20):
        p = conf_program(rng)
        if not hash_collisions([(dc.pred_name(f["p"]), f["args"]) for f in p["init"]]):
            return p
    return p


# ------------------------------------------------------------------ recursion through an aggregate (strengthened after seeding)
def cyc_program(rng):
    """A program whose dependency graph has a cycle through an aggregation edge: cycle predicates
    p1..pL (all (K, V)), p_i depends on p_(i+1), p_L on p1; one or two of these edges come from a
    do-transform rule, the others from plain rules (copy, arithmetic, join, let-transform). Around it:
    base facts p0, optional base rules, a side path inside the component, a lawful aggregate below and a
    reader above. Such a program has to be refused on every run (Props/C02.v agg_cycle_not_stratifiable)."""
    r = rng
    K, Vv, S, W = 1, 2, 3, 4
    L = 1 if r.random() < 0.06 else r.choice([2, 2, 2, 3, 3, 4])
    cyc = list(range(1, L + 1))
    nextp = L + 1
    feats = {"agg-cycle", "cycle-len-%d" % L}
    init = []
    seen = set()
    for _ in range(r.randint(3, 7)):
        f = dc.fact(0, dc.num(r.choice([1, 2, 3])), dc.num(r.choice([1, 2, 3, 4, 5, 7])))
        if fact_text(f) not in seen:
            seen.add(fact_text(f))
            init.append(f)
    nagg = 1 if L < 3 or r.random() < 0.75 else 2
    agg_at = set(r.sample(range(L), nagg))
    clauses = []

    def agg_edge(h, b):
        x = r.random()
        body = [["atom", dc.atom(b, V(K), V(Vv))]]
        if x < 0.35:
            body.append(["atom", dc.atom(0, V(K), ["wild"])])
            feats.add("cyc-agg-multi")
        elif x < 0.5:
            body.append(["cmp", "lt", V(Vv), N(1000)])
            feats.add("cyc-agg-multi")
        else:
            feats.add("cyc-agg-single")
        red = r.choice([["reduce", S, "count", []], ["reduce", S, "sum", [V(Vv)]], ["reduce", S, "max", [V(Vv)]],
                        ["reduce", S, "min", [V(Vv)]]])
        if r.random() < 0.25:
            # no key: head (S, C)
            return agg(h, [V(S), V(W)], body, [], [red, ["reduce", W, "count", []]])
        return agg(h, [V(K), V(S)], body, [K], [red])

    def plain_edge(h, b):
        x = r.random()
        if x < 0.3:
            return dc.clause(dc.atom(h, V(K), V(Vv)), [["atom", dc.atom(b, V(K), V(Vv))]])
        if x < 0.55:
            return dc.clause(dc.atom(h, V(K), V(W)), [["atom", dc.atom(b, V(K), V(Vv))],
                                                       ["eq", V(W), dc.app("plus", V(Vv), N(r.choice([1, 100])))]])
        if x < 0.75:
            return dc.clause(dc.atom(h, V(K), V(Vv)), [["atom", dc.atom(b, V(K), V(Vv))], ["atom", dc.atom(0, V(K), ["wild"])]])
        if x < 0.9:
            feats.add("cyc-let")
            return dc.clause(dc.atom(h, V(K), V(W)), [["atom", dc.atom(b, V(K), V(Vv))]],
                             let=[(W, dc.app("plus", V(Vv), N(1)))])
        return dc.clause(dc.atom(h, V(Vv), V(K)), [["atom", dc.atom(b, V(K), V(Vv))]])

    for i in range(L):
        h, b = cyc[i], cyc[(i + 1) % L]
        clauses.append(agg_edge(h, b) if i in agg_at else plain_edge(h, b))
    # base rules: the predicates an aggregate reads get facts, the others sometimes
    for i in range(L):
        reads = ((i - 1) % L) in agg_at
        if (reads and L > 1) or r.random() < 0.4:
            if not (i in agg_at and L == 1):
                clauses.append(dc.clause(dc.atom(cyc[i], V(K), V(Vv)), [["atom", dc.atom(0, V(K), V(Vv))]]))
    if L == 1:
        clauses.append(dc.clause(dc.atom(cyc[0], V(K), V(Vv)), [["atom", dc.atom(0, V(K), V(Vv))]]))
    if L >= 2 and r.random() < 0.4:
        # a side path parallel to one edge of the cycle
        i = r.randrange(L)
        sp = nextp
        nextp += 1
        clauses.append(dc.clause(dc.atom(sp, V(K), V(Vv)), [["atom", dc.atom(cyc[(i + 1) % L], V(K), V(Vv))]]))
        clauses.append(dc.clause(dc.atom(cyc[i], V(K), V(Vv)), [["atom", dc.atom(sp, V(K), V(Vv))]]))
        feats.add("cyc-side-path")
    if r.random() < 0.5:
        z = nextp
        nextp += 1
        clauses.append(agg(z, [V(K), V(S)], [["atom", dc.atom(0, V(K), V(Vv))]], [K], [["reduce", S, "sum", [V(Vv)]]]))
        feats.add("cyc-lawful-agg")
        if r.random() < 0.5:
            clauses.append(dc.clause(dc.atom(r.choice(cyc), V(K), V(Vv)), [["atom", dc.atom(z, V(K), V(Vv))]]))
            feats.add("cyc-reads-lawful-agg")
    if r.random() < 0.5:
        t = nextp
        nextp += 1
        clauses.append(dc.clause(dc.atom(t, V(K)), [["atom", dc.atom(r.choice(cyc), V(K), ["wild"])]]))
        feats.add("cyc-reader-above")
    r.shuffle(clauses)
    return {"clauses": clauses, "layers": [], "init": init, "pre": [], "features": sorted(feats)}


def cyc_witness_programs():
    K, Vv, S = 1, 2, 3
    cnt_q = {"clauses": [dc.clause(dc.atom(2, V(1)), [["atom", dc.atom(0, V(1))]]),
                         dc.clause(dc.atom(2, V(2)), [["atom", dc.atom(1, V(1))], ["eq", V(2), dc.app("plus", V(1), N(100))]]),
                         agg(1, [V(1)], [["atom", dc.atom(2, V(2))]], [], [["reduce", 1, "count", []]])],
             "layers": [], "init": [dc.fact(0, dc.num(1)), dc.fact(0, dc.num(2))], "pre": [],
             "features": ["agg-cycle", "cyc-witness"]}
    # total -> reach -> seed -> total with a multi-atom aggregating body
    longer = {"clauses": [dc.clause(dc.atom(2, V(1)), [["atom", dc.atom(1, V(1))]]),
                          dc.clause(dc.atom(2, V(1)), [["atom", dc.atom(4, ["wild"], V(2))], ["atom", dc.atom(0, V(2), V(1))]]),
                          dc.clause(dc.atom(3, V(1), V(1)), [["atom", dc.atom(2, V(1))]]),
                          dc.clause(dc.atom(3, V(1), V(3)), [["atom", dc.atom(3, V(1), V(2))], ["atom", dc.atom(0, V(2), V(3))]]),
                          agg(4, [V(1), V(3)], [["atom", dc.atom(3, V(1), V(2))], ["atom", dc.atom(0, ["wild"], V(2))]], [1],
                              [["reduce", 3, "count", []]])],
              "layers": [], "init": [dc.fact(0, dc.num(1), dc.num(2)), dc.fact(0, dc.num(2), dc.num(3)), dc.fact(1, dc.num(1))],
              "pre": [], "features": ["agg-cycle", "cyc-witness"]}
    return [cnt_q, longer]


def cq_cyc(prog, out):
    """(case, number of evaluated runs) for Run.C02.judge_cyc; the case carries one store such a run left."""
    sample = None
    for oc in out.get("outcomes", []):
        if oc["err"] == "":
            sample = oc
            break
    if sample is not None:
        try:
            obs = C("OFacts", [cq_fact(f) for f in facts_from_go(sample["facts"])])
        except ValueError:
            obs = Raw("OLimit")
    else:
        obs = Raw("OLimit")
    case = C("mkCase", [cq_rule(c) for c in prog["clauses"]], [], [], [cq_fact(f) for f in prog.get("init", [])],
             FUEL, [tuple(x) for x in sort_cols(prog)], obs)
    return coq((case, out["accepted"] + out["other_err"]))


# ------------------------------------------------------------------ built-in predicate atoms in aggregating bodies (round 2)
# rewrite.getVars collects the columns of the internal `__tmp` relation from the body's atoms - built-in
# atoms included, because :match_pair :match_cons :list:member :match_field :match_entry BIND variables at
# their output places. The stream below makes such output variables group keys and reducer arguments.
#   premise ["bi", ":match_pair", [term, ...]]   positive built-in atom      ["nbi", ...] negated (:match_nil)
# Column types: "N" number, "A" name, ("P", t1, t2) pair, ("L", t) list, ("S", ((label, t), ...)) struct,
# ("M", kt, vt) map, ("U", t) list in no particular order (a collected column: only :list:member reads it).
# Structs and maps are tagged pairs in the model (Datalog/AggBuiltin.v).
STRUCT = "/__struct"
MAPT = "/__map"
LABELS = ["/a", "/b", "/c"]


def _entries(tag, entries):
    es = sorted(entries, key=lambda kv: json.dumps(kv[0]))
    return ["pair", ["name", tag], ["list", [["pair", k, v] for k, v in es]]]


def strct(entries):
    return _entries(STRUCT, entries)


def mapc(entries):
    return _entries(MAPT, entries)


def is_tagged(c, tag):
    return c[0] == "pair" and c[1] == ["name", tag] and c[2][0] == "list"


def premise_text(p):
    if p[0] == "bi":
        return "%s(%s)" % (p[1], ", ".join(dc.term_text(t) for t in p[2]))
    if p[0] == "nbi":
        return "!%s(%s)" % (p[1], ", ".join(dc.term_text(t) for t in p[2]))
    return dc.premise_text(p)


def is_scalar(t):
    return t in ("N", "A")


class BiGen:
    """Programs whose aggregating rules destructure pair / list / struct / map valued columns with built-in
    atoms. Avoided by construction: the same variable at two output places and negated destructuring goals
    (N105-N108, C04's findings), 0 inside structured values and heterogeneous columns (hash-equal facts, F8),
    duplicate labels / keys in a struct / map (N9), function applications at input places, > 3 aggregating
    rules per head."""

    def __init__(self, rng):
        self.rng = rng
        self.sig = {}
        self.init = []
        self.clauses = []
        self.layers = []
        self.features = set(["builtin-atoms"])
        self.npred = 0

    def new_pred(self, sig):
        k = self.npred
        self.npred += 1
        self.sig[k] = tuple(sig)
        return k

    # -- values
    def value(self, t, top=False):
        r = self.rng
        if t == "N":
            return dc.num(r.choice([1, 2, 3, 4]) if top else r.choice([1, 2, 3, 4, 5, 6, 7]))
        if t == "A":
            return dc.name(r.choice(dc.NAMES[:3] if top else dc.NAMES))
        if t[0] == "P":
            return dc.pair(self.value(t[1]), self.value(t[2]))
        if t[0] == "L":
            n = r.choice([0, 1, 1, 2, 2, 3, 3, 4])
            return dc.lst([self.value(t[1]) for _ in range(n)])
        if t[0] == "S":
            es = [(dc.name(l), self.value(ft)) for l, ft in t[1] if r.random() < 0.8]
            if not es:
                l, ft = t[1][0]
                es = [(dc.name(l), self.value(ft))]
            return strct(es)
        if t[0] == "M":
            keys = r.sample(LABELS if t[1] == "A" else [1, 2, 3], r.randint(1, 3))
            return mapc([(dc.name(k) if t[1] == "A" else dc.num(k), self.value(t[2])) for k in keys])
        raise ValueError(t)

    def edb(self, sig):
        """An extensional predicate; first column = small key, the other columns of the given types."""
        r = self.rng
        p = self.new_pred(sig)
        seen = set()
        for _ in range(r.randint(3, 8)):
            f = dc.fact(p, *[self.value(t, top=(i == 0)) for i, t in enumerate(sig)])
            t = fact_text(f)
            if t not in seen:
                seen.add(t)
                self.init.append(f)
        return p

    def base(self):
        r = self.rng
        kt = lambda: r.choice(["N", "N", "A"])
        st = lambda: r.choice(["N", "N", "A"])
        menu = {
            "pair": lambda: (kt(), ("P", st(), "N")),
            "list": lambda: (kt(), ("L", r.choice(["N", "N", "N", "A"]))),
            "list3": lambda: (kt(), ("L", "N"), "N"),
            "struct": lambda: (kt(), ("S", (("/a", "N"), ("/b", st()), ("/c", ("L", "N"))))),
            "map": lambda: (kt(), ("M", r.choice(["A", "A", "N"]), "N")),
            "listpair": lambda: (kt(), ("L", ("P", st(), "N"))),
            "pairlist": lambda: (kt(), ("P", st(), ("L", "N"))),
            "plain": lambda: (kt(), "N"),
        }
        kinds = ["plain"] + r.sample([k for k in menu if k != "plain"], r.randint(2, 4))
        if r.random() < 0.5:
            kinds.append("plain")
        for k in kinds:
            self.edb(menu[k]())
        # unary key predicates for :match_entry / :match_field with a bound key variable
        for ty in ("A", "N"):
            p = self.new_pred((ty,))
            vals = LABELS if ty == "A" else [1, 2, 3]
            for v in r.sample(vals, r.randint(1, 3)):
                self.init.append(dc.fact(p, dc.name(v) if ty == "A" else dc.num(v)))

    # -- one aggregating body
    def body(self, lower, force_plain=False):
        """Returns (premises, env, outs): env var -> type, outs = variables bound by a built-in output place."""
        r = self.rng
        env, outs, body = {}, set(), []
        nv = [0]

        def fresh(t):
            nv[0] += 1
            env[nv[0]] = t
            return nv[0]

        def scal(t=None):
            return [v for v, ty in env.items() if is_scalar(ty) and (t is None or ty == t)]

        def add_atom(p, join=0.5, keep=None):
            args = []
            for i, t in enumerate(self.sig[p]):
                x = r.random()
                if is_scalar(t) and scal(t) and x < join:
                    args.append(dc.var(r.choice(scal(t))))
                elif is_scalar(t) and x > 0.9 and (keep is None or i not in keep):
                    args.append(["wild"] if r.random() < 0.7 else dc.cst(self.value(t, top=(i == 0))))
                elif t == "F":
                    args.append(["wild"])
                else:
                    args.append(dc.var(fresh(t)))
            body.append(["atom", dc.atom(p, *args)])

        structured = [p for p in lower if any(not is_scalar(t) and t != "F" for t in self.sig[p])]
        plainp = [p for p in lower if all(is_scalar(t) for t in self.sig[p])]
        if force_plain or not structured:
            add_atom(r.choice(plainp or lower), join=0)
            if r.random() < 0.5 and plainp:
                add_atom(r.choice(plainp))
        else:
            p = r.choice(structured)
            add_atom(p, join=0, keep=[i for i, t in enumerate(self.sig[p]) if not is_scalar(t)])
            if r.random() < 0.2:
                add_atom(r.choice(structured), join=0.8)
        # destructuring goals: every structured variable gets 0-2 goals; their outputs may be destructured further
        todo = [v for v, t in env.items() if not is_scalar(t)]
        depth = 0
        nbi = 0
        while todo and depth < 6:
            depth += 1
            v = todo.pop(0)
            t = env[v]
            if nbi >= 1 and r.random() < 0.35:
                continue
            out = lambda ty: (["wild"] if r.random() < 0.12 else None) or dc.var(fresh(ty))
            new = []
            if t[0] == "P":
                a, b = out(t[1]), out(t[2])
                if a == ["wild"] and b == ["wild"]:
                    b = dc.var(fresh(t[2]))
                body.append(["bi", ":match_pair", [dc.var(v), a, b]])
                new = [a, b]
                self.features.add("bi-match_pair")
            elif t[0] in ("L", "U"):
                # the element order of a collected list is not an observable: no positional destructuring
                x = r.random() if t[0] == "L" else 0.0
                if x < 0.45:
                    a = dc.var(fresh(t[1]))
                    body.append(["bi", ":list:member", [a, dc.var(v)]])
                    new = [a]
                    self.features.add("bi-list:member")
                elif x < 0.9:
                    a, b = out(t[1]), out(t)
                    if a == ["wild"] and b == ["wild"]:
                        a = dc.var(fresh(t[1]))
                    body.append(["bi", ":match_cons", [dc.var(v), a, b]])
                    new = [a, b]
                    self.features.add("bi-match_cons")
                    if b != ["wild"] and r.random() < 0.25:
                        body.append(["nbi", ":match_nil", [b]])
                        self.features.add("bi-not-match_nil")
                else:
                    body.append([r.choice(["bi", "nbi"]), ":match_nil", [dc.var(v)]])
                    self.features.add("bi-match_nil")
            elif t[0] == "S":
                for l, ft in r.sample(list(t[1]), r.choice([1, 1, 2])):
                    a = dc.var(fresh(ft))
                    body.append(["bi", ":match_field", [dc.var(v), dc.cst(dc.name(l)), a]])
                    new.append(a)
                self.features.add("bi-match_field")
            elif t[0] == "M":
                a = dc.var(fresh(t[2]))
                keyp = [p for p in lower if self.sig[p] == (t[1],)]
                if keyp and r.random() < 0.45:
                    kv = fresh(t[1])
                    body.append(["atom", dc.atom(r.choice(keyp), dc.var(kv))])
                    body.append(["bi", ":match_entry", [dc.var(v), dc.var(kv), a]])
                    self.features.add("bi-match_entry-bound-key")
                else:
                    k = dc.name(r.choice(LABELS)) if t[1] == "A" else dc.num(r.choice([1, 2, 3]))
                    body.append(["bi", ":match_entry", [dc.var(v), dc.cst(k), a]])
                new = [a]
                self.features.add("bi-match_entry")
            nbi += 1
            for a in new:
                if a[0] == "var":
                    outs.add(a[1])
                    if not is_scalar(env[a[1]]):
                        todo.append(a[1])
        if nbi >= 2:
            self.features.add("bi-chain>=2")
        # side conditions as in the first-round shapes
        ns = scal("N")
        x = r.random()
        if ns and x < 0.2:
            body.append(["cmp", r.choice(["lt", "le", "gt", "ge"]), dc.var(r.choice(ns)), dc.cst(dc.num(r.choice([1, 2, 3, 5])))])
            self.features.add("bi+cmp")
        elif ns and x < 0.3:
            w = fresh("N")
            body.append(["eq", dc.var(w), dc.app(r.choice(["plus", "mult"]), dc.var(r.choice(ns)), dc.cst(dc.num(r.choice([1, 2]))))])
            self.features.add("bi+eq")
        elif x < 0.42:
            cands = [p for p in plainp if all(scal(t) for t in self.sig[p])]
            if cands:
                p = r.choice(cands)
                body.append(["neg", dc.atom(p, *[dc.var(r.choice(scal(t))) for t in self.sig[p]])])
                self.features.add("bi+neg")
        elif x < 0.5 and len(ns) >= 2:
            a, b = r.sample(ns, 2)
            body.append(["ineq", dc.var(a), dc.var(b)])
            self.features.add("bi+ineq")
        elif x < 0.62 and plainp:
            add_atom(r.choice(plainp), join=0.9)
            self.features.add("bi+join")
        return body, env, outs

    def pick(self, cands, outs, used=()):
        """Prefer variables bound by a built-in output place."""
        r = self.rng
        cands = [v for v in cands if v not in used]
        if not cands:
            return None
        pref = [v for v in cands if v in outs]
        return r.choice(pref) if pref and r.random() < 0.8 else r.choice(cands)

    def transform(self, env, outs, spec=None):
        """keys + statements over the body's variables; spec = (key types, column specs) of an earlier rule of
        the same head (then the same column types are produced). Returns (keys, stmts, hvars, spec, coltypes)."""
        r = self.rng
        sc = lambda t=None: [v for v, ty in env.items() if is_scalar(ty) and (t is None or ty == t)]
        if spec is None:
            nkeys = r.choice([0, 1, 1, 1, 2])
            keytys = []
            for _ in range(nkeys):
                v = self.pick(sc(), outs)
                if v is not None:
                    keytys.append(env[v])
            cols = []
            for _ in range(r.choice([1, 1, 2, 3])):
                x = r.random()
                if x < 0.55 and sc("N"):
                    cols.append(("N",))
                elif x < 0.63 and sc("N"):
                    cols.append(("F",))
                else:
                    k = 1 if r.random() < 0.7 else 2
                    ts = []
                    for _ in range(k):
                        v = self.pick(sc(), outs)
                        if v is not None:
                            ts.append(env[v])
                    if ts:
                        cols.append(("C", tuple(ts)))
            if not cols:
                cols = [("N",)]
            spec = (tuple(keytys), tuple(cols))
        keys = []
        for t in spec[0]:
            v = self.pick(sc(t), outs, keys)
            if v is None:
                return None
            keys.append(v)
        nextv = [max(list(env) + [0]) + 100]

        def fresh():
            nextv[0] += 1
            return nextv[0]
        stmts, hvars, coltypes = [], [], list(spec[0])
        for col in spec[1]:
            v = fresh()
            if col[0] == "N":
                kind = r.choice(["count", "sum", "sum", "min", "max"])
                if kind == "count" or not sc("N"):
                    stmts.append(["reduce", v, "count", []])
                else:
                    stmts.append(["reduce", v, kind, [dc.var(self.pick(sc("N"), outs))]])
                coltypes.append("N")
                if r.random() < 0.1:
                    w = fresh()
                    stmts.append(["apply", w, dc.app("plus", dc.var(v), dc.cst(dc.num(1)))])
                    v = w
            elif col[0] == "F":
                if not sc("N"):
                    return None
                stmts.append(["reduce", v, "avg", [dc.var(self.pick(sc("N"), outs))]])
                coltypes.append("F")
                self.features.add("avg")
            else:
                args = []
                for t in col[1]:
                    a = self.pick(sc(t), outs)
                    if a is None:
                        return None
                    args.append(dc.var(a))
                kind = r.choice(["collect", "collect_distinct", "collect_distinct"])
                stmts.append(["reduce", v, kind, args])
                self.features.add(kind)
                et = col[1][0] if len(col[1]) == 1 else ("P", col[1][0], col[1][1])
                coltypes.append(("U", et))
            hvars.append(v)
        for st in stmts:
            for t in (st[3] if st[0] == "reduce" else []):
                if t[0] == "var" and t[1] in outs:
                    self.features.add("bi-output-reduced")
        if any(k in outs for k in keys):
            self.features.add("bi-output-as-key")
        return keys, stmts, hvars, spec, coltypes

    def layer(self, lower):
        r = self.rng
        nrules = r.choice([1, 1, 2, 2, 3])
        spec, head, coltypes, made = None, None, None, []
        for i in range(nrules):
            for _try in range(8):
                body, env, outs = self.body(lower, force_plain=(i > 0 and r.random() < 0.25))
                res = self.transform(env, outs, spec)
                if res is None:
                    continue
                keys, stmts, hvars, spec2, ct = res
                if spec is None:
                    spec, coltypes = spec2, ct
                    head = self.new_pred(coltypes)
                c = agg(head, [dc.var(k) for k in keys] + [dc.var(h) for h in hvars], body, keys, stmts)
                made.append(c)
                break
        if not made:
            return None
        if len(made) >= 2:
            self.features.add("bi-same-head>=2")
        for c in made:
            nb = sum(1 for p in c["body"] if p[0] in ("bi", "nbi"))
            na = sum(1 for p in c["body"] if p[0] == "atom")
            if nb == 0:
                self.features.add("bi-mixed-plain-rule")
            elif na == 1 and nb + na == len(c["body"]):
                self.features.add("bi-single-premise-plus-builtin")
            else:
                self.features.add("bi-multi-premise")
        self.clauses += made
        self.layers.append([head])
        return head

    def derived(self):
        """A plain derived predicate over a structured extensional one (copy, or filtered by a join), so that built-in
        bodies also aggregate over derived relations of a lower stratum."""
        r = self.rng
        cands = [p for p in self.sig if any(not is_scalar(t) for t in self.sig[p])]
        plainp = [p for p in self.sig if len(self.sig[p]) == 2 and all(is_scalar(t) for t in self.sig[p])]
        if not cands:
            return
        e = r.choice(cands)
        d = self.new_pred(self.sig[e])
        vs = [dc.var(i + 1) for i in range(len(self.sig[e]))]
        body = [["atom", dc.atom(e, *vs)]]
        same_key = [p for p in plainp if self.sig[p][0] == self.sig[e][0]]
        if same_key and r.random() < 0.5:
            body.append(["atom", dc.atom(r.choice(same_key), vs[0], ["wild"])])
        self.clauses.append(dc.clause(dc.atom(d, *vs), body))
        others = [p for p in cands if p != e and self.sig[p] == self.sig[e]]
        if others and r.random() < 0.5:
            self.clauses.append(dc.clause(dc.atom(d, *vs), [["atom", dc.atom(r.choice(others), *vs)]]))
        self.layers.append([d])
        self.features.add("bi-over-derived")

    def program(self):
        r = self.rng
        self.base()
        if r.random() < 0.35:
            self.derived()
        lower = list(self.sig)
        aggs = []
        for _ in range(r.choice([1, 2, 2, 3])):
            # later layers see the aggregated heads (collected lists are destructured again)
            h = self.layer(lower)
            if h is not None:
                lower.append(h)
                if aggs and any(p[0] == "atom" and p[1]["p"] in aggs for c in self.clauses if c["head"]["p"] == h for p in c["body"]):
                    self.features.add("bi-agg-over-agg")
                aggs.append(h)
        return {"clauses": self.clauses, "layers": self.layers, "init": self.init, "pre": [],
                "features": sorted(self.features), "kind": "builtin"}


def has_builtin_output_use(prog):
    """Some aggregating rule uses, as group key or reducer argument, a variable that only a built-in atom binds."""
    for c in prog["clauses"]:
        d = c.get("do")
        if not d or len(c["body"]) < 2:
            continue
        plain = set()
        for p in c["body"]:
            if p[0] == "atom":
                for t in p[1]["args"]:
                    dc.term_vars(t, plain)
            elif p[0] == "eq":
                dc.term_vars(p[1], plain), dc.term_vars(p[2], plain)
        bi = set()
        for p in c["body"]:
            if p[0] == "bi":
                for t in p[2]:
                    dc.term_vars(t, bi)
        used = set(d["keys"])
        for st in d["stmts"]:
            if st[0] == "reduce":
                for t in st[3]:
                    dc.term_vars(t, used)
        if (bi - plain) & used:
            return True
    return False


def gen_bi_program(rng):
    for _ in range(30):
        p = BiGen(rng).program()
        if not any(c.get("do") for c in p["clauses"]):
            continue
        if hash_collisions([(dc.pred_name(f["p"]), f["args"]) for f in p["init"]]):
            continue
        if has_builtin_output_use(p):
            return p
    return p


def witness_getvars():
    """The seeded/C04-5 shapes: a group key and reducer arguments bound only by built-in output places."""
    L, H, T, E, P, K, Vv, S = 1, 2, 3, 4, 5, 6, 7, 8
    cl = [agg(4, [V(H), V(S)], [["atom", dc.atom(0, V(L))], ["bi", ":match_cons", [V(L), V(H), V(T)]]], [H],
              [["reduce", S, "count", []]]),
          agg(5, [V(S)], [["atom", dc.atom(0, V(L))], ["bi", ":list:member", [V(E), V(L)]]], [],
              [["reduce", S, "sum", [V(E)]]]),
          agg(6, [V(K), V(S)], [["atom", dc.atom(1, V(P))], ["bi", ":match_pair", [V(P), V(K), V(Vv)]]], [K],
              [["reduce", S, "max", [V(Vv)]]]),
          agg(7, [V(S)], [["atom", dc.atom(2, V(K), V(P))], ["bi", ":match_field", [V(P), dc.cst(dc.name("/a")), V(Vv)]]], [],
              [["reduce", S, "collect_distinct", [V(Vv)]]]),
          agg(8, [V(Vv), V(S)], [["atom", dc.atom(3, V(K), V(P))], ["bi", ":match_entry", [V(P), dc.cst(dc.name("/a")), V(Vv)]]], [Vv],
              [["reduce", S, "min", [V(K)]]])]
    init = [dc.fact(0, dc.lst([dc.num(1), dc.num(2)])), dc.fact(0, dc.lst([dc.num(3)])), dc.fact(0, dc.lst([dc.num(1)])),
            dc.fact(1, dc.pair(dc.name("/a"), dc.num(10))), dc.fact(1, dc.pair(dc.name("/a"), dc.num(5))),
            dc.fact(1, dc.pair(dc.name("/b"), dc.num(1))),
            dc.fact(2, dc.num(1), strct([(dc.name("/a"), dc.num(4)), (dc.name("/b"), dc.num(2))])),
            dc.fact(2, dc.num(2), strct([(dc.name("/a"), dc.num(5))])), dc.fact(2, dc.num(3), strct([(dc.name("/b"), dc.num(7))])),
            dc.fact(3, dc.num(1), mapc([(dc.name("/a"), dc.num(4)), (dc.name("/b"), dc.num(2))])),
            dc.fact(3, dc.num(2), mapc([(dc.name("/a"), dc.num(4))])), dc.fact(3, dc.num(3), mapc([(dc.name("/b"), dc.num(7))]))]
    return {"clauses": cl, "layers": [[4], [5], [6], [7], [8]], "init": init, "pre": [], "features": ["witness-getVars"],
            "kind": "builtin"}


# ------------------------------------------------------------------ fixed witnesses
def V(k):
    return dc.var(k)


def N(k):
    return dc.cst(dc.num(k))


def agg(head, hargs, body, keys, stmts):
    c = dc.clause(dc.atom(head, *hargs), body)
    c["do"] = {"keys": keys, "stmts": stmts}
    return c


def witness_f2():
    """DESIGN F2: two multi-premise aggregating rules with one head."""
    cl = [agg(2, [V(1), V(3)], [["atom", dc.atom(0, V(1), V(2))], ["cmp", "lt", V(2), N(100)]], [1], [["reduce", 3, "sum", [V(2)]]]),
          agg(2, [V(1), V(3)], [["atom", dc.atom(1, V(1), V(2))], ["cmp", "lt", V(2), N(100)]], [1], [["reduce", 3, "sum", [V(2)]]])]
    init = [dc.fact(0, dc.num(1), dc.num(1)), dc.fact(0, dc.num(1), dc.num(3)),
            dc.fact(1, dc.num(1), dc.num(5)), dc.fact(1, dc.num(1), dc.num(50)), dc.fact(1, dc.num(1), dc.num(15))]
    return {"clauses": cl, "layers": [[2]], "init": init, "pre": [], "features": ["witness-F2"]}


def witness_f2c():
    """F2c: single-atom body with a repeated variable."""
    cl = [agg(1, [V(1), V(2)], [["atom", dc.atom(0, V(1), V(1))]], [1], [["reduce", 2, "count", []]])]
    init = [dc.fact(0, dc.num(1), dc.num(1)), dc.fact(0, dc.num(1), dc.num(2)),
            dc.fact(0, dc.num(2), dc.num(2)), dc.fact(0, dc.num(3), dc.num(1))]
    return {"clauses": cl, "layers": [[1]], "init": init, "pre": [], "features": ["witness-F2c"]}


def witness_f2b():
    """F2b: head p11, counter 1 and head p1, counter 11 both give `p111__tmp` (arity 2)."""
    E, B = 2, 3
    cl = [agg(11, [V(1), V(3)], [["atom", dc.atom(E, V(1), V(2))], ["atom", dc.atom(B, V(1))]], [1], [["reduce", 3, "sum", [V(2)]]])]
    for i in range(11):
        cl.append(agg(1, [V(1), V(3)], [["atom", dc.atom(E, V(1), V(2))], ["cmp", "gt", V(2), N(i)]], [1], [["reduce", 3, "count", []]]))
    init = [dc.fact(E, dc.num(1), dc.num(20)), dc.fact(E, dc.num(1), dc.num(30)), dc.fact(E, dc.num(2), dc.num(5)),
            dc.fact(B, dc.num(2))]
    return {"clauses": cl, "layers": [[1], [11]], "init": init, "pre": [], "features": ["witness-F2b"]}


def witness_f2d():
    """F2d: a plain rule of the aggregated head's own stratum reads the aggregate."""
    cl = [agg(1, [V(1), V(3)], [["atom", dc.atom(0, V(1), V(2))]], [1], [["reduce", 3, "sum", [V(2)]]]),
          dc.clause(dc.atom(1, V(2), V(1)), [["atom", dc.atom(1, V(1), V(2))]])]
    init = [dc.fact(0, dc.num(1), dc.num(2)), dc.fact(0, dc.num(1), dc.num(3)), dc.fact(0, dc.num(2), dc.num(7))]
    return {"clauses": cl, "layers": [[1]], "init": init, "pre": [], "features": ["witness-F2d"]}


# ------------------------------------------------------------------ rewrite correspondence
def rewrite_case(prog):
    """The aggregating rules of one program as ONE stratum (rewrite.Rewrite does not care)."""
    rules = [c for c in prog["clauses"]]
    return {"src": "\n".join(rule_text(c) for c in rules) + "\n"}, rules


def rewrite_tokens(out):
    toks = []
    for r in out["rules"]:
        toks += [name_id(r["head"]), r["arity"], 1 if r["do"] else 0]
    return toks


# ------------------------------------------------------------------ exhaustive block
def exhaustive_programs():
    """Every program with two aggregating rules for one head p3(K, A) over the fixed facts
    of p0/2, p1/2, p2/1: each rule's body is one of 10 bodies (single atom, single atom with
    a repeated variable, join, join with comparison, negation), its reducer one of
    count/sum/min/max/collect_distinct over V; group_by(K)."""
    K, W = V(1), V(2)
    bodies = [[["atom", dc.atom(0, K, W)]],
              [["atom", dc.atom(1, K, W)]],
              [["atom", dc.atom(0, K, K)], ["eq", W, dc.app("plus", K, N(1))]],
              [["atom", dc.atom(0, W, K)]],
              [["atom", dc.atom(0, K, W)], ["atom", dc.atom(2, K)]],
              [["atom", dc.atom(0, K, W)], ["atom", dc.atom(1, K, ["wild"])]],
              [["atom", dc.atom(0, K, W)], ["cmp", "lt", W, N(3)]],
              [["atom", dc.atom(1, K, W)], ["neg", dc.atom(2, W)]],
              [["atom", dc.atom(0, K, V(4))], ["atom", dc.atom(1, V(4), W)]],
              [["atom", dc.atom(2, K)], ["atom", dc.atom(2, W)], ["ineq", K, W]]]
    reds = ["count", "sum", "min", "max", "collect_distinct"]
    init = [dc.fact(0, dc.num(1), dc.num(1)), dc.fact(0, dc.num(1), dc.num(2)), dc.fact(0, dc.num(2), dc.num(2)),
            dc.fact(0, dc.num(3), dc.num(1)), dc.fact(1, dc.num(1), dc.num(5)), dc.fact(1, dc.num(2), dc.num(1)),
            dc.fact(1, dc.num(2), dc.num(4)), dc.fact(2, dc.num(1)), dc.fact(2, dc.num(2)), dc.fact(2, dc.num(4))]
    rules = []
    for b in bodies:
        for rd in reds:
            rules.append((b, rd))
    for i, (b1, r1) in enumerate(rules):
        for (b2, r2) in rules[i:]:
            if (r1 == "collect_distinct") != (r2 == "collect_distinct"):
                continue       # one column type per predicate (F8)
            cl = [agg(3, [K, V(3)], copy.deepcopy(b1), [1], [["reduce", 3, r1, [] if r1 == "count" else [W]]]),
                  agg(3, [K, V(3)], copy.deepcopy(b2), [1], [["reduce", 3, r2, [] if r2 == "count" else [W]]])]
            yield {"clauses": cl, "layers": [[3]], "init": init, "pre": [], "features": ["exhaustive"]}


# ------------------------------------------------------------------ the check
VERDICT = {1: "Go's facts differ from the model's, the observer accepts Go's facts",
           2: "the facts of an aggregated predicate are not the fold over its rules' own body solutions",
           3: "Go returned an evaluation error, the model finished",
           4: "the model reports an evaluation error, Go finished",
           5: "inconclusive (model fuel / Go limit)",
           7: "the observer's evaluation of a rule body failed on Go's facts"}


def build_replay(ck, prog, gc, g, v, origin):
    term = cq_case(prog, g)
    sfx = "_bi " if is_bi(prog) else " "
    rep = {"property": "C02", "verdict": v, "kind": VERDICT.get(v, "agree"), "origin": origin, "program": prog,
           "src": gc["src"], "pre": gc["pre"], "configs": g["configs"],
           "go": {"err": g["err"], "msg": g.get("msg"), "facts": canon_go(g)},
           "model_facts": show_facts(ck, "model_tokens" + sfx + term),
           "expected_aggregated_facts": show_facts(ck, "expected_tokens" + sfx + term),
           "expected_is": "base facts of the aggregated predicates + per rule spec_do over the body's solutions "
                          "computed by C01 solve from Go's own facts (Run/C02.v observe)"
                          + ("; built-in atoms are solved against the built-in relations materialised over the "
                             "sub-constants of Go's facts (Datalog/AggBuiltin.v, Run/C02.v observe_bi)" if is_bi(prog) else "")}
    return rep


def f8_trigger(ck, prog, g):
    """Hash-equal distinct facts among Go's facts and the model's facts (internal relations included): the
    trigger of known finding F8 (hash-keyed stores), which is not this property's subject."""
    named = []
    try:
        named += [(dc.pred_name(f["p"]), f["args"]) for f in facts_from_go(g["facts"])]
    except ValueError:
        pass
    out = ck.coq_show("C02", ("model_tokens_all_bi " if is_bi(prog) else "model_tokens_all ") + cq_case(prog, g))
    m = re.search(r"=\s*\[(.*?)\]\s*:\s*list Z", out, re.S)
    if m:
        try:
            kind, facts = dc.parse_model_tokens([int(x) for x in re.findall(r"-?\d+", m.group(1))])
            if kind == "ok":
                named += [(id_name(f["p"]), f["args"]) for f in facts]
        except (ValueError, IndexError):
            pass
    # one fact may be listed twice, and a collected list in two orders (a set for the property): collisions
    # are judged on the canonical form
    canon, seen = [], set()
    for nm, args in named:
        args = [sort_lists(a) for a in args]
        t = (nm, json.dumps(args))
        if t not in seen:
            seen.add(t)
            canon.append((nm, args))
    return hash_collisions(canon)


def sort_lists(c):
    if c[0] == "list":
        return ["list", sorted((sort_lists(x) for x in c[1]), key=json.dumps)]
    if c[0] == "pair":
        return ["pair", sort_lists(c[1]), sort_lists(c[2])]
    return c


CYC_DETAIL = {1: "the store is not closed under the plain rules: the relation the aggregate was taken over was not complete",
              2: "the store is closed under the plain rules but the aggregated facts are not the fold over the body's solutions",
              3: "the store happens to be closed and consistent (the cycle did not fire on these facts)",
              7: "no store of an evaluated run could be examined"}


def build_cyc_replay(ck, prog, case, x, v, origin):
    term = cq_cyc(prog, x)
    try:
        d = ck.run_coq("C02", "judge_cyc_detail", [term], tag="cycd")[0]
    except Exception:
        d = 7
    return {"property": "C02", "kind": "agg-cycle", "verdict": v, "origin": origin, "program": prog, "src": case["src"],
            "rounds": x["rounds"], "refused_by_stratify": x["rej_strat"], "refused_by_analysis": x["rej_analysis"],
            "evaluated": x["accepted"], "evaluated_then_failed": x["other_err"], "outcomes": x["outcomes"],
            "store_detail": CYC_DETAIL.get(d, str(d)),
            "why_violation": "Props/C02.v agg_cycle_not_stratifiable: the program has an aggregation edge on a dependency "
                             "cycle (Run.C02.judge_cyc evaluated agg_in_cycle = true), so no evaluation by strata has the "
                             "aggregating rule's body complete before its head; the library has to refuse it, and it was "
                             "evaluated in %d of %d runs" % (x["accepted"] + x["other_err"], x["rounds"])}


PROBES = [("F2b", witness_f2b, "internal predicate names `<head><n>__tmp` collide (p11+1 = p1+11 = p111__tmp): "
           "the 11th aggregating rule of p1 and the rule of p11 share one internal relation"),
          ("F2d", witness_f2d, "facts produced by a do-transform are not seen by the other rules of the same "
           "stratum (h(S,K) :- h(K,S) never fires on the aggregate)")]


def child_cpu():
    import resource
    ru = resource.getrusage(resource.RUSAGE_CHILDREN)
    return ru.ru_utime + ru.ru_stime


def run(ck):
    ck.obligations()
    ck.log("obligations done (children CPU %.0f s)" % child_cpu())
    ck.build_harness()
    rng = ck.rng
    progs, origin = [], []
    here = os.path.dirname(os.path.abspath(__file__))
    cyc_progs, cyc_origin = [], []
    for path in sorted(glob.glob(os.path.join(here, "..", "corpus", "C02", "*.json"))):
        cj = json.load(open(path))
        if cj.get("kind") == "agg-cycle":
            cyc_progs.append(cj["program"])
            cyc_origin.append("corpus:" + os.path.basename(path))
            continue
        progs.append(cj["program"])
        origin.append("corpus:" + os.path.basename(path))
    ncorpus = len(progs)
    for _ in range(ck.n(170, 2500)):
        progs.append(gen_program(rng, big=(not ck.quick) and rng.random() < 0.4))
        origin.append("random")
    nrandom = len(progs) - ncorpus
    # confusable constants in key and collected columns (strengthened after seeding)
    nconf = ck.n(70, 900)
    for _ in range(nconf):
        progs.append(gen_conf_program(rng))
        origin.append("confusable")
    # built-in atoms whose output variables are group keys / reducer arguments (round 2)
    nbi = ck.n(50, 600)
    progs.append(witness_getvars())
    origin.append("builtin")
    for _ in range(nbi):
        progs.append(gen_bi_program(rng))
        origin.append("builtin")
    nbi += 1
    # recursion through an aggregation edge: must be refused on every run
    for _ in range(ck.n(30, 400)):
        cyc_progs.append(cyc_program(rng))
        cyc_origin.append("random")
    cyc_rounds = ck.n(40, 100)
    nexh = 0
    if not ck.quick:
        ex = list(exhaustive_programs())
        nexh = len(ex)
        progs += ex
        origin += ["exhaustive"] * nexh
    go_cases = []
    for i, p in enumerate(progs):
        if origin[i] == "exhaustive":
            stores, det = ["simple", "multi"], [False]
        elif ck.quick and origin[i] in ("random", "confusable", "builtin"):
            stores, det = rng.sample(ALL_STORES, 2), [rng.random() < 0.5]
        elif origin[i] in ("random", "confusable", "builtin"):
            stores, det = rng.sample(ALL_STORES, 3), [False, True]
        else:
            stores, det = ALL_STORES, [False, True]
        go_cases.append(go_case(p, stores, det, shuffle_rng=rng if origin[i] in ("random", "confusable", "builtin") and rng.random() < 0.5 else None))
    probe_progs = [(pid_, mk(), what) for pid_, mk, what in PROBES]
    probe_cases = [go_case(p, ["simple", "multi"], [True]) for _, p, _ in probe_progs]
    outs = ck.run_go("c02", go_cases + probe_cases, timeout=3000)
    probe_outs = outs[len(go_cases):]
    outs = outs[:len(go_cases)]
    cyc_cases = [{"src": to_mangle(p), "rounds": cyc_rounds, "limit": 2000, "timeout_ms": 5000} for p in cyc_progs]
    cyc_outs = ck.run_go("c02cyc", cyc_cases, timeout=3000)
    ck.log("go side done: %d programs (children CPU %.0f s)" % (len(progs), child_cpu()))

    terms, where, rejected, stage_counts = [], [], [], {}
    evaluations = 0
    for i, o in enumerate(outs):
        if "out" not in o:
            ck.violation({"property": "C02", "kind": "harness error/panic", "program": progs[i],
                          "src": go_cases[i]["src"], "impl": o})
            continue
        st = o["out"]["stage"]
        stage_counts[st] = stage_counts.get(st, 0) + 1
        if st != "ok":
            rejected.append((i, st, o["out"].get("msg", "")))
            continue
        for g in o["out"]["groups"]:
            evaluations += len(g["configs"])
            try:
                terms.append(tagged_case(progs[i], g))
                where.append((i, g))
            except ValueError as e:
                if len(ck.violations) < 5:
                    ck.violation({"property": "C02", "kind": "Go produced a value outside the modelled fragment: %s" % e,
                                  "program": progs[i], "src": go_cases[i]["src"], "go": g},
                                 "no-failing-input-found")
    # probes of the known findings ride in the same batch
    probe_where = []
    for (kid, pp, what), o in zip(probe_progs, probe_outs):
        if "out" not in o or o["out"]["stage"] != "ok":
            ck.violation({"property": "C02", "kind": "probe %s not evaluated" % kid, "program": pp, "impl": o},
                         "no-failing-input-found")
            continue
        for g in o["out"]["groups"]:
            probe_where.append((kid, what, tagged_case(pp, g)))
    # rewrite.Rewrite vs the model's rewrite (names, arities, split decisions)
    rw_progs = [p for p, o in zip(progs, origin) if o not in ("exhaustive", "builtin")][: ck.n(50, 500)]
    # the columns of the internal relation of a body with built-in atoms (getVars) are compared here too
    rw_progs += [p for p, o in zip(progs, origin) if o == "builtin"][: ck.n(12, 150)]
    rw_progs += [witness_f2b()]
    rw_cases = [rewrite_case(p) for p in rw_progs]
    rw_outs = ck.run_go("c02rw", [c for c, _ in rw_cases])
    rw_terms, rw_where = [], []
    for (c, rules), o in zip(rw_cases, rw_outs):
        if "out" not in o or o["out"]["stage"] != "ok":
            ck.violation({"property": "C02", "kind": "rewrite runner failed", "src": c["src"], "impl": o},
                         "no-failing-input-found")
            continue
        rw_terms.append(coq(([cq_rule(r) for r in rules], rewrite_tokens(o["out"]))))
        rw_where.append((c, o))
    cyc_terms, cyc_where = [], []
    cyc_stats = {"programs": len(cyc_progs), "rounds_per_program": cyc_rounds, "runs": 0, "refused_by_stratify": 0,
                 "refused_by_analysis": 0, "evaluated": 0, "evaluated_then_failed": 0}
    cyc_unreached = []
    for k, o in enumerate(cyc_outs):
        if "out" not in o or o["out"]["stage"] != "ok":
            ck.violation({"property": "C02", "kind": "agg-cycle runner failed", "src": cyc_cases[k]["src"], "impl": o,
                          "no_longer_checks": "correspondence Run.C02.judge_cyc (generator / harness)"},
                         "no-failing-input-found")
            continue
        x = o["out"]
        cyc_stats["runs"] += x["rounds"]
        cyc_stats["refused_by_stratify"] += x["rej_strat"]
        cyc_stats["refused_by_analysis"] += x["rej_analysis"]
        cyc_stats["evaluated"] += x["accepted"]
        cyc_stats["evaluated_then_failed"] += x["other_err"]
        if x["rej_analysis"] == x["rounds"]:
            cyc_unreached.append((cyc_cases[k]["src"], x.get("msg", "")))
        cyc_terms.append(cq_cyc(cyc_progs[k], x))
        cyc_where.append(k)
    # every coqc start loads Run.C02 (several CPU-seconds): all kinds of cases go through Run.C02.judge_any in one
    # batch; the cheap rewrite / agg-cycle cases are dealt round-robin among the program cases so that the shards
    # stay balanced
    main_terms = terms + [t for _, _, t in probe_where]
    cheap = ["(ARewrite %s)" % t for t in rw_terms] + ["(ACycle %s)" % t for t in cyc_terms]
    nshards = 11
    m = -(-len(main_terms) // nshards)
    c = -(-len(cheap) // nshards)
    order = []                       # (kind, index) in batch order: per shard m program cases + c cheap ones
    for b in range(nshards):
        order += [("m", k) for k in range(b * m, min((b + 1) * m, len(main_terms)))]
        order += [("c", k) for k in range(b * c, min((b + 1) * c, len(cheap)))]
    size = m + c
    batch = [main_terms[i] if kind == "m" else cheap[i] for kind, i in order]
    got = ck.run_coq("C02", "judge_any", batch, shard=max(8, size))
    all_verdicts, cheap_verdicts = [None] * len(main_terms), [None] * len(cheap)
    for (kind, i), v in zip(order, got):
        if kind == "m":
            all_verdicts[i] = v
        else:
            cheap_verdicts[i] = v
    rw_verdicts, cyc_verdicts = cheap_verdicts[:len(rw_terms)], cheap_verdicts[len(rw_terms):]
    verdicts = all_verdicts[:len(terms)]
    probes = {}
    for (kid, what, _), v in zip(probe_where, all_verdicts[len(terms):]):
        probes.setdefault(kid, []).append(v)
    for kid, _, what in PROBES:
        if any(v == 2 for v in probes.get(kid, [])):
            ck.known("%s %s" % (kid, what))
    ck.log("model side done: %d comparisons (children CPU %.0f s)" % (len(terms), child_cpu()))
    vc = {}
    f8_skipped = 0
    vc_bi = {}
    for (i, g), v in zip(where, verdicts):
        vc[v] = vc.get(v, 0) + 1
        if is_bi(progs[i]):
            vc_bi[v] = vc_bi.get(v, 0) + 1
        if v in (0, 5) or len(ck.violations) >= 5:
            continue
        rep = build_replay(ck, progs[i], go_cases[i], g, v, origin[i])
        if g["err"] == "" and v in (1, 2):
            coll = f8_trigger(ck, progs[i], g)
            if coll:
                f8_skipped += 1
                ck.known("F8 a generated program produced two facts with equal Atom.Hash(): %s / %s" % coll[0])
                continue
        if v == 2 or v == 3:
            rep["why_violation"] = ("Props/C02.v: do_groups_exact + rewrite_isolated say the facts of an aggregated head are "
                                    "the per-key reducers over the rule's own body solutions; the observer computed them "
                                    "from Go's own body facts and Go's head facts differ (or Go failed where they exist)")
            ck.violation(rep)
        else:
            rep["no_longer_checks"] = "correspondence Run.C02.judge: " + VERDICT.get(v, str(v))
            ck.violation(rep, "no-failing-input-found")

    cyc_vc = {}
    for k, v in zip(cyc_where, cyc_verdicts):
        cyc_vc[v] = cyc_vc.get(v, 0) + 1
        if v == 0 or len(ck.violations) >= 5:
            continue
        rep = build_cyc_replay(ck, cyc_progs[k], cyc_cases[k], cyc_outs[k]["out"], v, cyc_origin[k])
        if v == 2:
            ck.violation(rep)
        else:
            rep["no_longer_checks"] = "correspondence Run.C02.judge_cyc: the generated program has no aggregation edge on a cycle (generator)"
            ck.violation(rep, "no-failing-input-found")
    if len(cyc_unreached) > 0.1 * max(1, len(cyc_progs)):
        ck.violation({"property": "C02", "kind": "generator: more than 10% of the agg-cycle programs never reached the stratifier",
                      "no_longer_checks": "correspondence Run.C02.judge_cyc (input distribution broken)",
                      "samples": cyc_unreached[:3]}, "no-failing-input-found")

    rw_bad = 0
    for (c, o), v in zip(rw_where, rw_verdicts):
        if v != 0:
            rw_bad += 1
            if len(ck.violations) < 5:
                ck.violation({"property": "C02", "kind": "rewrite.Rewrite and the model's rewrite disagree (names / arities / split)",
                              "no_longer_checks": "correspondence Run.C02.judge_rewrite", "src": c["src"], "go": o["out"]},
                             "no-failing-input-found")

    rej_random = [r for r in rejected if origin[r[0]] != "exhaustive"]
    feats = {}
    for p in progs + cyc_progs:
        for f in p.get("features", ["corpus"]):
            feats[f] = feats.get(f, 0) + 1
    nontrivial = set()
    nagg = {}
    for i, p in enumerate(progs):
        heads = {}
        multi = False
        for c in p["clauses"]:
            if c.get("do"):
                heads[c["head"]["p"]] = heads.get(c["head"]["p"], 0) + 1
                multi = multi or len(c["body"]) > 1
        k = max(heads.values() or [0])
        nagg[k] = nagg.get(k, 0) + 1
        if k >= 2 or multi:
            nontrivial.add(go_cases[i]["src"] + "#" + go_cases[i]["pre"])
    errs = {}
    for (i, g) in where:
        errs[g["err"] or "ok"] = errs.get(g["err"] or "ok", 0) + 1
    evaluations += cyc_stats["runs"]
    cov = {"evaluations": evaluations, "programs": len(progs) + len(cyc_progs), "comparisons": len(terms) + len(cyc_terms),
           "distinct_nontrivial": len(nontrivial),
           "rule": "programs through parse -> AnalyzeOneUnit -> EvalProgram per store kind x WithDeterministicOrder "
                   "(corpus %d, random %d + confusable-constant + built-in-atom programs, exhaustive %d); every result judged against the model and by the observer "
                   "(independent fold over the body's solutions); non-trivial = a head with >= 2 aggregating rules or a "
                   "multi-premise aggregating body; distinct by program text" % (ncorpus, nrandom, nexh),
           "exhaustive": nexh > 0,
           "exhaustive_scope": ("all pairs of aggregating rules for one head over 10 bodies (single atom, repeated variable, "
                                "joins, comparison, negation, inequality) x 5 reducers on a fixed base-fact set" if nexh else ""),
           "features": feats, "max_agg_rules_per_head": {str(k): n for k, n in sorted(nagg.items())},
           "analysis_stage": stage_counts, "rejected_by_analysis_random": len(rej_random),
           "go_outcomes": errs, "verdicts": {str(k): n for k, n in sorted(vc.items())},
           "rewrite_comparisons": len(rw_terms), "rewrite_disagreements": rw_bad,
           "probes": probes, "f8_trigger_skipped": f8_skipped,
           "confusable_programs": nconf,
           "builtin_atom_programs": nbi,
           "builtin_atom_rule": "aggregating rules over pair / list / struct / map valued columns destructured by :match_pair "
                                ":match_cons :list:member :match_field :match_entry (:match_nil as a test), 1-3 goals per body, chains, "
                                "single-premise-plus-built-in and multi-premise bodies with comparison / equality / negation / "
                                "inequality / join, 1-3 rules per head mixed with plain-atom bodies, later layers over collected lists; "
                                "group keys and reducer arguments prefer variables bound only by a built-in output place; verdict = "
                                "Run.C02.judge_bi (model with the built-in relations materialised per stratum + the observer spec_do over "
                                "the body's solutions computed from Go's own facts with the built-ins evaluated); a panic or error of an "
                                "accepted program where the model finishes = verdict 3 = violation",
           "builtin_atom_verdicts": {str(k): n for k, n in sorted(vc_bi.items())},
           "confusable_rule": "p0(A, B, tag, 2^i) with A, B drawn from families of constants that print alike across types "
                              "(7 \"7\" b\"7\" 7.0 /a \"/a\"), contain the separators of the key encoding, or have equal "
                              "Constant.Hash() (0 0.0 [] [0] fn:pair(0,0) fn:pair(0,2^32); 1.5 and its bit pattern; /a \"/a\" "
                              "b\"/a\"; tuples (0,0) (0,2^32) (0,2^33)); 1-3 rules group by A / B / (A,B) / nothing and "
                              "collect(_distinct) A, B, (A,B), (B,N); verdict = the same Coq judge (model + observer spec_do "
                              "with keys and collected values compared as constants); facts hash-distinct by construction",
           "agg_cycle": dict(cyc_stats, verdicts={str(k): n for k, n in sorted(cyc_vc.items())},
                             never_reached_stratifier=len(cyc_unreached),
                             origins={o: cyc_origin.count(o) for o in sorted(set(cyc_origin))}),
           "agg_cycle_rule": "programs with an aggregation edge on a dependency cycle (Coq: agg_in_cycle = true, premise of "
                             "agg_cycle_not_stratifiable); each taken from text through AnalyzeOneUnit + EvalProgram "
                             "rounds_per_program times (map iteration order of analysis.Stratify); verdict: evaluated in any "
                             "run = violation; cyc_detail (closed under the plain rules? observer?) is reported in the replay",
           "samples": [go_cases[min(len(go_cases) - 1, ncorpus)]["src"], go_cases[min(len(go_cases) - 1, ncorpus + 1)]["src"]]}
    if rej_random:
        cov["rejected_samples"] = [(go_cases[i]["src"], m) for i, _, m in rej_random[:3]]
    if len(rej_random) > 0.1 * max(1, ncorpus + nrandom):
        ck.violation({"property": "C02", "kind": "generator: more than 10% of the generated programs rejected by analysis",
                      "no_longer_checks": "correspondence Run.C02.judge (input distribution broken)",
                      "samples": cov["rejected_samples"]}, "no-failing-input-found")
    return ck.finish(cov, assumptions=[
        "model hand-written (coq/Datalog/Rewrite.v, Transform.v on top of the C01 model); tied to rewrite/rewrite.go, "
        "engine/transformer.go, seminaivebottomup.go:617-659, functional.EvalReduceFn by differential evaluation only",
        "group keys compared as constant tuples; Go compares a printed key string (groupKeyString) - the confusable-constant "
        "stream feeds key columns whose values print alike across types or contain the encoding's separators",
        "float64 and byte-string constants pass through the model as opaque tagged pairs (equality only: keys, collected "
        "values); no generated rule does arithmetic on them",
        "agg-cycle stream: verdict premise agg_in_cycle is evaluated in Coq (Props/C02.v agg_cycle_not_stratifiable); 'refused' "
        "is read off AnalyzeOneUnit / EvalProgram errors; the number of rounds bounds what a map-order dependent acceptance "
        "can hide (40 rounds per program quick, 100 thorough)",
        "reducers modelled: count sum min max avg collect collect_distinct over names, strings, int64, pairs, lists; "
        "collect lists compared as multisets; float/duration/time reducers, collect_to_map, pick_any are not modelled",
        "avg: exact integer sum and correctly rounded quotient; Go's float accumulation is order dependent beyond 2^53 "
        "(known N10) - the generator keeps avg away from such values",
        "main stream avoids by construction: > 3 aggregating rules per head / > 1 aggregated head per stratum (F2b needs 11 "
        "rewritten rules), rules of the aggregated head's stratum that read it (F2d), maps (N9), hash-equal facts (F8; "
        "hash-equal VALUES inside one key / collected column are generated on purpose, every fact stays hash-distinct)",
        "built-in atoms (:match_pair :match_cons :list:member :match_nil :match_field :match_entry) are atoms of reserved predicate "
        "ids solved against their relations materialised over the sub-constants of the facts at hand (Datalog/AggBuiltin.v; "
        "exact because analysis only accepts them with bound inputs and the generated bodies build no new structured values); "
        "structs and maps are opaque tagged pairs with entries sorted by label; the stream avoids C04's findings N105-N108 "
        "(negated destructuring goals, repeated output variables, applications at input places), duplicate labels (N9) and "
        "positional destructuring of collected lists (their element order is not an observable)",
        "a single-atom body counts one row per matching fact (wildcard columns included), a multi-premise body one row per "
        "binding of its named variables - this asymmetry of the Go code is part of the model and of the observer"])


def replay(ck, path):
    ck.build_harness()
    rep = json.load(open(path))
    prog = rep["program"]
    if rep.get("kind") == "agg-cycle":
        case = {"src": rep.get("src") or to_mangle(prog), "rounds": 200, "limit": 2000, "timeout_ms": 5000}
        out = ck.run_go("c02cyc", [case])[0]
        if "out" not in out or out["out"]["stage"] != "ok":
            print("replay: program not run: %s" % json.dumps(out)[:300])
            print("VIOLATION property=C02 replay=%s" % path)
            return 1
        x = out["out"]
        v = ck.run_coq("C02", "judge_cyc", [cq_cyc(prog, x)])[0]
        print("replay: %d runs: refused by Stratify %d, by analysis %d, evaluated %d (+%d failed later): verdict %d"
              % (x["rounds"], x["rej_strat"], x["rej_analysis"], x["accepted"], x["other_err"], v))
        if v != 0:
            print("VIOLATION property=C02 replay=%s" % path)
            return 1
        return 0
    gc = go_case(prog, ALL_STORES, [False, True])
    if "src" in rep:
        gc["src"] = rep["src"]
    out = ck.run_go("c02", [gc])[0]
    if "out" not in out or out["out"]["stage"] != "ok":
        print("replay: program not evaluated: %s" % json.dumps(out)[:300])
        print("VIOLATION property=C02 replay=%s" % path)
        return 1
    bad = False
    for g in out["out"]["groups"]:
        v = ck.run_coq("C02", "judge_any", [tagged_case(prog, g)])[0]
        print("replay: configs %s: verdict %d %s" % (g["configs"], v, VERDICT.get(v, "agree")))
        bad = bad or v in (1, 2, 3, 4, 7)
    if bad:
        print("VIOLATION property=C02 replay=%s" % path)
        return 1
    return 0


META = {
    "text": "Machine-checked theorems (coq/Props/C02.v) about a Gallina model of rewrite.Rewrite (name generator, column "
            "selection, split of multi-premise aggregating rules) and of evalDo with the reducers count/sum/min/max/avg/"
            "collect/collect_distinct applied once after the stratum's fixpoint, on top of the C01 engine model: for all "
            "row lists the emitted facts are exactly one per distinct key with every reducer applied to exactly the rows of "
            "that key and nothing for no rows; for every stratum whose generated names are pairwise distinct and in which no "
            "user predicate ends in __tmp, the rewritten stratum contains for the split rule at any position its internal "
            "clause and its transformed rule, no other clause defines that internal name, and after the stratum's fixpoint "
            "the internal relation holds exactly that rule's own body solutions (rewrite_isolated; the heads of the "
            "rewritten clauses are the user's plus each generated name once); two generated names coincide exactly when "
            "one head symbol is the other followed by digits that prefix the other counter's decimal, so they are pairwise "
            "distinct whenever no head symbol ends in a digit, and always for one head symbol; the pre-fix counter (F2), "
            "the pre-fix single-atom test (F2c) and the non-injective name "
            "scheme (F2b) are refuted by witnesses. Tied to the Go code on every run by evaluating generated programs with "
            "1-3 aggregating rules per head (single/multi-atom bodies, same head twice, aggregation over recursive strata, "
            "two aggregation levels) on the fact-store kinds and judging Go's facts both against the model and with an "
            "independent fold over each rule's body solutions computed from Go's own facts. The same judge runs on programs "
            "whose key and collected columns mix constants that print alike across types (7, \"7\", b\"7\", 7.0; /a, \"/a\"), "
            "contain the separators of the key encoding, or have equal Constant.Hash() (0, 0.0, [], fn:pair(0,0), "
            "fn:pair(0,2^32); tuples (0,0)/(0,2^32)), with all facts hash-distinct. 'Over the completed fixpoint of everything "
            "the body depends on': theorem agg_cycle_not_stratifiable (no level assignment exists when an aggregation edge "
            "lies on a dependency cycle); generated programs with such a cycle are run from text 40/100 times each and must "
            "be refused every time. Bodies with built-in atoms that bind variables (:match_pair, :match_cons, :list:member, "
            ":match_field, :match_entry): theorems tmp_columns_keep_atom_vars / tmp_row_keeps_transform_inputs (every variable of a "
            "body atom, built-in or not, is a column of the internal relation, so group keys and reducer arguments read the body "
            "solution's values; the variant of getVars that skips built-in atoms is refuted), the built-in relations used by the "
            "model are proved to be the documented ones over the constants at hand; generated programs whose group keys and "
            "reducer arguments are bound only by built-in output places are judged by the same observer with the built-ins "
            "evaluated, and a panic / error of an accepted program is a violation.",
    "note": "Trusted: Coq kernel + vm_compute; hand-written model tied to the Go code by differential evaluation (sampled; "
            "exhaustive over a two-rule schema in the thorough tier). Printed-key grouping is modelled as tuple equality. "
            "collect_to_map, float/time/duration reducers, temporal heads are outside. Known: F2b (name collisions from 11 "
            "rewritten rules), F2d (aggregate not propagated inside its own stratum), N10 (avg beyond 2^53).",
}
