"""Constants and atoms of mangle as Python values: generator, JSON encoding for
the Go harness (harness/c08/termjson.go), Coq encoding (MV.Term.Expr.cexpr),
and an independent Python reading of hash / equality / validity.

A term is a tuple:
  ("name", b"/a")  ("str", b"utf-8 bytes")  ("bytes", b"...")
  ("num", int64)   ("f64", uint64 bit pattern)  ("time", int64)  ("dur", int64)
  ("pair", t, t)   ("list", [t, ...])
  ("map", [(k, v), ...])  ("struct", [(k, v), ...])     entries in the order supplied
Atom arguments may also be ("var", b"X").
Documented in notes/C08-API.md.
"""
import struct
from vlib.core import C, Raw, coq

MIN64, MAX64 = -(1 << 63), (1 << 63) - 1
M64 = (1 << 64) - 1
SHAPE_CODE = {"pair": 7, "list": 8, "map": 9, "struct": 10}
SCALARS = ("name", "str", "bytes", "num", "f64", "time", "dur")


# ------------------------------------------------------------------ JSON
def to_json(t):
    k = t[0]
    if k in ("name", "str", "bytes", "var"):
        return [k, bytes(t[1]).hex()]
    if k in ("num", "f64", "time", "dur"):
        return [k, str(t[1])]
    if k == "pair":
        return [k, to_json(t[1]), to_json(t[2])]
    if k == "list":
        return [k, [to_json(x) for x in t[1]]]
    if k in ("map", "struct"):
        return [k, [[to_json(a), to_json(b)] for a, b in t[1]]]
    raise ValueError(k)


def from_json(j):
    k = j[0]
    if k in ("name", "str", "bytes", "var"):
        return (k, bytes.fromhex(j[1]))
    if k in ("num", "f64", "time", "dur"):
        return (k, int(j[1]))
    if k == "pair":
        return (k, from_json(j[1]), from_json(j[2]))
    if k == "list":
        return (k, [from_json(x) for x in j[1]])
    if k in ("map", "struct"):
        return (k, [(from_json(a), from_json(b)) for a, b in j[1]])
    raise ValueError(k)


# ------------------------------------------------------------------- Coq
_CTOR = {"name": "EName", "str": "EStr", "bytes": "EBytes", "num": "ENum", "f64": "EFloat",
         "time": "ETime", "dur": "EDur"}


def cq_bytes(b):
    """bytes -> Coq `list Z` written compactly as (bz len 0xHEX) (MV.Term.Expr.bz)."""
    b = bytes(b)
    if len(b) > 3 and all(0x20 <= x <= 0x7E for x in b):
        # printable ASCII: a Coq string literal is the cheapest spelling (MV.Term.Print.bs)
        return Raw('(bs "%s"%%string)' % b.decode("ascii").replace('"', '""'))
    return Raw("(bz %d 0x%s)" % (len(b), b.hex() or "0"))


def cq_bools(row):
    """list of bool -> Coq `list bool` written as (bits n mask) (MV.Term.Expr.bits)."""
    return Raw("(bits %d %d)" % (len(row), sum(1 << i for i, x in enumerate(row) if x)))


def to_coq(t):
    """Term -> vlib.core value whose coq() text is a MV.Term.Expr.cexpr."""
    k = t[0]
    if k in ("name", "str", "bytes"):
        return C(_CTOR[k], cq_bytes(t[1]))
    if k in ("num", "f64", "time", "dur"):
        return C(_CTOR[k], t[1])
    if k == "pair":
        return C("EPair", to_coq(t[1]), to_coq(t[2]))
    if k == "list":
        return C("EList", [to_coq(x) for x in t[1]])
    if k == "map":
        return C("EMap", [(to_coq(a), to_coq(b)) for a, b in t[1]])
    if k == "struct":
        return C("EStruct", [(to_coq(a), to_coq(b)) for a, b in t[1]])
    raise ValueError(k)


def arg_to_coq(t):
    """Atom argument -> MV.Run.C08.aarg."""
    if t[0] == "var":
        return C("AVar", cq_bytes(t[1]))
    return C("AConst", to_coq(t))


def tables_to_coq(tb):
    """{"f": {dec: hex}, "t": ..., "d": ...} (LibTables of termjson.go) -> Run.C08.tables"""
    def tab(d):
        return [(int(k), cq_bytes(bytes.fromhex(v))) for k, v in sorted(d.items(), key=lambda kv: int(kv[0]))]
    return C("Tables", tab(tb["f"]), tab(tb["t"]), tab(tb["d"]))


# ---------------------------------------- independent hash / equality / validity
def fnv64(b):
    h = 14695981039346656037
    for x in b:
        h = (h * 1099511628211) & M64
        h ^= x
    return h


def szudzik(a, b):
    return (a * a + a + b) & M64 if a >= b else (b * b + a) & M64


def _cell(code, hf, hs):
    return szudzik((hf << code) & M64, hs)


def py_hash(t):
    """Hash() (uint64) of the constant as the constructors compute it. For maps /
    structs the entries are stably sorted by key hash; deterministic only when
    the key hashes are pairwise distinct (otherwise finding N9)."""
    k = t[0]
    if k in ("name", "str", "bytes"):
        return fnv64(t[1])
    if k in ("num", "time", "dur"):
        return t[1] & M64
    if k == "f64":
        return t[1]
    if k == "pair":
        return _cell(7, py_hash(t[1]), py_hash(t[2]))
    if k == "list":
        h = 0
        for x in reversed(t[1]):
            h = _cell(8, py_hash(x), h)
        return h
    if k in ("map", "struct"):
        ents = sorted(((py_hash(a), py_hash(b)) for a, b in t[1]), key=lambda e: e[0])
        h = 0
        for ha, hb in ents:
            h = _cell(SHAPE_CODE[k], _cell(7, ha, hb), h)
        return h
    raise ValueError(k)


def atom_hash(sym, args):
    b = bytes(sym)
    for a in args:
        b += bytes(a[1]) if a[0] == "var" else struct.pack("<Q", py_hash(a))
    return fnv64(b)


def canon(t):
    """Structural normal form: two terms denote the same constant iff their
    normal forms are equal (maps / structs as entry lists sorted by key hash;
    requires distinct key hashes)."""
    k = t[0]
    if k in SCALARS or k == "var":
        return (k, bytes(t[1]) if isinstance(t[1], (bytes, bytearray)) else t[1])
    if k == "pair":
        return (k, canon(t[1]), canon(t[2]))
    if k == "list":
        return (k, tuple(canon(x) for x in t[1]))
    ents = sorted(((py_hash(a), canon(a), canon(b)) for a, b in t[1]), key=lambda e: e[0])
    return (k, tuple((a, b) for _, a, b in ents))


def dup_keys(t):
    """True if some map / struct inside t has two keys with equal hash (trigger of N9)."""
    k = t[0]
    if k in SCALARS or k == "var":
        return False
    if k == "pair":
        return dup_keys(t[1]) or dup_keys(t[2])
    if k == "list":
        return any(dup_keys(x) for x in t[1])
    hs = [py_hash(a) for a, _ in t[1]]
    return len(set(hs)) != len(hs) or any(dup_keys(a) or dup_keys(b) for a, b in t[1])


_CONST_CHARS = set(b"abcdefghijklmnopqrstuvwxyzABCDEFGHIJKLMNOPQRSTUVWXYZ0123456789.-_~%")


def name_ok(b):
    """ast.Name accepts b."""
    if len(b) <= 1 or b[0] != 0x2F or b'"' in b:
        return False
    return all(p != b"" for p in b[1:].split(b"/"))


def name_valid(b):
    """Lexer rule CONSTANT."""
    return name_ok(b) and all(c in _CONST_CHARS or c == 0x2F for c in b)


def is_utf8(b):
    try:
        bytes(b).decode("utf-8")
        return True
    except UnicodeDecodeError:
        return False


def float_finite(bits):
    return (bits >> 52) & 0x7FF != 0x7FF


def valid(t):
    """The domain of print injectivity: lexer-valid names, finite floats (strings
    are valid UTF-8 by construction of the generator)."""
    k = t[0]
    if k == "name":
        return name_valid(t[1])
    if k == "f64":
        return float_finite(t[1])
    if k == "str":
        return is_utf8(t[1])
    if k in SCALARS:
        return True
    if k == "pair":
        return valid(t[1]) and valid(t[2])
    if k == "list":
        return all(valid(x) for x in t[1])
    return all(valid(a) and valid(b) for a, b in t[1])


def size(t):
    k = t[0]
    if k in SCALARS or k == "var":
        return 1
    if k == "pair":
        return 1 + size(t[1]) + size(t[2])
    if k == "list":
        return 1 + sum(size(x) for x in t[1])
    return 1 + sum(size(a) + size(b) for a, b in t[1])


def kinds(t, acc):
    acc[t[0]] = acc.get(t[0], 0) + 1
    k = t[0]
    if k == "pair":
        kinds(t[1], acc), kinds(t[2], acc)
    elif k == "list":
        for x in t[1]:
            kinds(x, acc)
    elif k in ("map", "struct"):
        for a, b in t[1]:
            kinds(a, acc), kinds(b, acc)
    return acc


# -------------------------------------------------------------- generators
def f64_bits(x):
    return struct.unpack("<Q", struct.pack("<d", x))[0]


INT_BOUNDARY = [0, 1, -1, 2, 10, -10, 9, 99, 100, MAX64, MIN64, MAX64 - 1, MIN64 + 1, 1 << 53, (1 << 53) + 1,
                1 << 32, -(1 << 32), 65792, 1 << 62, 255, 256, 1000000000, -1000000000]
FLOAT_BOUNDARY = [f64_bits(x) for x in (0.0, -0.0, 1.0, -1.0, 2.0, 10.0, 100.0, 1e15, 1e16, 1e20, 1e21, 1e22, -1e21,
                                        1e300, 1.7976931348623157e308, -1.7976931348623157e308, 5e-324, -5e-324,
                                        2.2250738585072014e-308, 0.1, 0.5, 1.5, -2.25e-7, 123456789.0,
                                        9007199254740992.0, 9007199254740993.0, 3.141592653589793, 1e-7, 65792.0)]
FLOAT_SPECIAL = [0x7FF0000000000000, 0xFFF0000000000000, 0x7FF8000000000000, 0x7FF8000000000001, 0xFFF8000000000000]
TIME_BOUNDARY = [0, 1, -1, 999999999, 1000000000, 1700000000123456789, 1700000000000000000, MAX64, MIN64,
                 -62135596800 * 0 + 86400 * 10 ** 9, 1500000000500000000]
DUR_BOUNDARY = [0, 1, -1, 999, 1000, 1000000, 10 ** 9, 60 * 10 ** 9, 3600 * 10 ** 9, 90 * 60 * 10 ** 9 + 1, MAX64, MIN64,
                1500000000, -1500000000, 86400 * 10 ** 9]
CODEPOINTS = [0x80, 0xE9, 0x7FF, 0x800, 0x20AC, 0xD7FF, 0xE000, 0xFFFD, 0xFFFF, 0x10000, 0x1F600, 0x10FFFF, 0x4E2D]
ASCII_SPECIAL = [0x22, 0x27, 0x5C, 0x0A, 0x09, 0x0D, 0x00, 0x01, 0x1F, 0x20, 0x7F, 0x60, 0x2C, 0x3A, 0x5D, 0x7D, 0x29, 0x2F]
NAME_ALPHA = b"abcxyzABZ019.-_~%"


def gen_string_bytes(rng):
    """Valid UTF-8."""
    n = rng.choice([0, 1, 1, 2, 3, 5, 9])
    out = []
    for _ in range(n):
        r = rng.random()
        if r < 0.35:
            out.append(chr(rng.choice(ASCII_SPECIAL)))
        elif r < 0.7:
            out.append(chr(rng.randint(0x20, 0x7E)))
        elif r < 0.85:
            out.append(chr(rng.choice(CODEPOINTS)))
        else:
            cp = rng.randint(0x80, 0x10FFFF)
            if 0xD800 <= cp <= 0xDFFF:
                cp = 0xE000
            out.append(chr(cp))
    return "".join(out).encode("utf-8")


def gen_raw_bytes(rng):
    n = rng.choice([0, 1, 2, 3, 6])
    return bytes(rng.choice(ASCII_SPECIAL + [0x80, 0xFF, 0xC3, 0x41]) if rng.random() < 0.5 else rng.randrange(256)
                 for _ in range(n))


def gen_name_bytes(rng, lexer_valid=True):
    parts = []
    for _ in range(rng.choice([1, 1, 1, 2, 3])):
        m = rng.choice([1, 1, 2, 4])
        if lexer_valid:
            parts.append(bytes(rng.choice(NAME_ALPHA) for _ in range(m)))
        else:
            # accepted by ast.Name, not by the lexer: blanks, commas, brackets, non-ASCII
            parts.append(bytes(rng.choice(b"a ,:()[]{}'\\\t\xc3\xa9b") for _ in range(m)))
    return b"/" + b"/".join(parts)


def gen_scalar(rng, wild=0.04):
    r = rng.random()
    if r < 0.16:
        return ("name", gen_name_bytes(rng, rng.random() >= wild))
    if r < 0.32:
        return ("str", gen_string_bytes(rng))
    if r < 0.42:
        return ("bytes", gen_raw_bytes(rng))
    if r < 0.62:
        q = rng.random()
        n = rng.choice(INT_BOUNDARY) if q < 0.5 else (rng.randint(-20, 20) if q < 0.8 else rng.randint(MIN64, MAX64))
        return ("num", n)
    if r < 0.82:
        q = rng.random()
        if q < 0.5:
            return ("f64", rng.choice(FLOAT_BOUNDARY))
        if q < 0.7:
            return ("f64", f64_bits(float(rng.randint(-1000, 1000))))       # integral floats (F6)
        if q < 0.7 + wild:
            return ("f64", rng.choice(FLOAT_SPECIAL))
        while True:
            b = rng.getrandbits(64)
            if float_finite(b):
                return ("f64", b)
    if r < 0.91:
        return ("time", rng.choice(TIME_BOUNDARY) if rng.random() < 0.6 else rng.randint(MIN64, MAX64))
    return ("dur", rng.choice(DUR_BOUNDARY) if rng.random() < 0.6 else rng.randint(MIN64, MAX64))


def gen_entries(rng, depth, wild, struct_keys):
    """Entries with pairwise distinct key hashes (never the N9 trigger)."""
    ents, seen = [], set()
    for _ in range(rng.choice([1, 1, 2, 3, 4])):
        for _try in range(10):
            k = ("name", gen_name_bytes(rng, True)) if struct_keys or rng.random() < 0.5 else gen_const(rng, depth - 1, wild)
            h = py_hash(k)
            if h not in seen:
                seen.add(h)
                ents.append((k, gen_const(rng, depth - 1, wild)))
                break
    return ents


def gen_const(rng, depth=3, wild=0.04):
    """A constant of any kind, nested up to `depth`. `wild` = probability weight of
    leaves outside the injectivity domain (NaN / Inf, names the lexer rejects)."""
    if depth <= 0 or rng.random() < 0.45:
        return gen_scalar(rng, wild)
    r = rng.random()
    if r < 0.25:
        return ("pair", gen_const(rng, depth - 1, wild), gen_const(rng, depth - 1, wild))
    if r < 0.55:
        return ("list", [gen_const(rng, depth - 1, wild) for _ in range(rng.choice([0, 1, 2, 2, 3, 4]))])
    if r < 0.8:
        return ("map", [] if rng.random() < 0.1 else gen_entries(rng, depth, wild, False))
    return ("struct", [] if rng.random() < 0.1 else gen_entries(rng, depth, wild, True))


def _leaf_paths(t, path=()):
    k = t[0]
    if k in SCALARS:
        yield path
    elif k == "pair":
        yield from _leaf_paths(t[1], path + (1,))
        yield from _leaf_paths(t[2], path + (2,))
    elif k == "list":
        for i, x in enumerate(t[1]):
            yield from _leaf_paths(x, path + (i,))
    else:
        for i, (a, b) in enumerate(t[1]):
            yield from _leaf_paths(a, path + (i, 0))
            yield from _leaf_paths(b, path + (i, 1))


def _replace(t, path, f):
    if not path:
        return f(t)
    k = t[0]
    if k == "pair":
        return (k, _replace(t[1], path[1:], f), t[2]) if path[0] == 1 else (k, t[1], _replace(t[2], path[1:], f))
    if k == "list":
        return (k, [(_replace(x, path[1:], f) if i == path[0] else x) for i, x in enumerate(t[1])])
    ents = []
    for i, (a, b) in enumerate(t[1]):
        if i == path[0]:
            ents.append((_replace(a, path[2:], f), b) if path[1] == 0 else (a, _replace(b, path[2:], f)))
        else:
            ents.append((a, b))
    return (k, ents)


def _twin(rng, leaf):
    """A leaf that is easily confused with `leaf`: same payload under another
    type, same digits, neighbouring value."""
    k, v = leaf
    if k in ("num", "time", "dur"):
        c = [("num", v), ("time", v), ("dur", v), ("f64", v & M64), ("num", v + 1 if v < MAX64 else v - 1),
             ("str", str(v).encode())]
        if -(1 << 53) <= v <= (1 << 53):
            c.append(("f64", f64_bits(float(v))))            # prints alike before fix F6
        return rng.choice([x for x in c if x != leaf])
    if k == "f64":
        c = [("num", v if v <= MAX64 else v - (1 << 64)), ("f64", v ^ 1), ("f64", v ^ (1 << 63))]
        x = struct.unpack("<d", struct.pack("<Q", v))[0]
        if x == x and abs(x) < 2 ** 62 and x == int(x):
            c.append(("num", int(x)))
        return rng.choice([y for y in c if y != leaf])
    if k in ("name", "str", "bytes"):
        c = [("str", v), ("bytes", v), ("str", v + b" "), ("str", v[:-1]) if v else ("str", b"x")]
        if name_ok(v):
            c.append(("name", v))
        if k == "name":
            c.append(("name", v + b"x"))
            c.append(("name", v + b"/x"))
        c = [y for y in c if y != leaf and (y[0] != "str" or is_utf8(y[1]))]     # strings stay valid UTF-8
        return rng.choice(c) if c else ("str", b"x")
    return leaf


def mutate(rng, t):
    """A term close to t (usually different from it)."""
    r = rng.random()
    paths = list(_leaf_paths(t))
    if paths and r < 0.55:
        return _replace(t, rng.choice(paths), lambda leaf: _twin(rng, leaf))
    if paths and r < 0.7:
        return _replace(t, rng.choice(paths), lambda leaf: gen_scalar(rng, 0.0))
    if r < 0.8:
        return ("list", [t])
    if r < 0.88 and t[0] == "pair":
        return ("pair", t[2], t[1])
    if r < 0.94 and t[0] == "list" and t[1]:
        return ("list", t[1][:-1]) if rng.random() < 0.5 else ("list", list(reversed(t[1])))
    if t[0] in ("map", "struct") and t[1]:
        return (t[0], t[1][:-1]) if rng.random() < 0.5 else ("struct" if t[0] == "map" else "map", t[1])
    return ("pair", t, t)


def reorder(rng, t):
    """The same constant written with map / struct entries supplied in another order."""
    k = t[0]
    if k in SCALARS:
        return t
    if k == "pair":
        return (k, reorder(rng, t[1]), reorder(rng, t[2]))
    if k == "list":
        return (k, [reorder(rng, x) for x in t[1]])
    ents = [(reorder(rng, a), reorder(rng, b)) for a, b in t[1]]
    rng.shuffle(ents)
    return (k, ents)


PRED_ALPHA = b"abcpqr_09:"


def gen_pred(rng):
    s = bytes([rng.choice(b"abpqr")]) + bytes(rng.choice(PRED_ALPHA) for _ in range(rng.choice([0, 0, 1, 2, 4])))
    if rng.random() < 0.15:
        s += b"." + bytes([rng.choice(b"abz")])
    return s


def gen_atom(rng, depth=2, wild=0.04, var_prob=0.1):
    args = []
    for _ in range(rng.choice([0, 1, 1, 2, 2, 3])):
        if rng.random() < var_prob:
            args.append(("var", rng.choice([b"X", b"Y", b"Xs", b"_", b"X1"])))
        else:
            args.append(gen_const(rng, depth, wild))
    return (gen_pred(rng), args)


def ground(atom):
    return all(a[0] != "var" for a in atom[1])
