"""C08 - equality, hashing and printing of terms agree.

Theorems: coq/Props/C08.v. Correspondence: constants (built through the public
constructors of package ast and through functional.EvalExpr of constructor
expressions) and atoms; Go's String / Hash / Equals against the model
(coq/Term/*.v) evaluated in Coq, and the relational laws checked directly on
Go's answers.
"""
import glob
import itertools
import json
import os
from vlib.core import C, Raw, coq, known_for
from checks import term_common as T


# ------------------------------------------------------------------ encoding
def go_case(case):
    return {"consts": [T.to_json(t) for t in case["consts"]],
            "atoms": [{"sym": bytes(s).hex(), "args": [T.to_json(a) for a in args]} for s, args in case["atoms"]]}


def cq_case(case, out):
    n = len(case["consts"])
    obs, mat = out["consts"], out["cmat"]
    m = len(obs)
    # the constants built by EvalExpr normally answer exactly like the ones built
    # by the constructors: then the model is asked once per constant (the Python
    # law check has already seen all 2n x 2n answers)
    if m == 2 * n and all(obs[i] == obs[i + n] for i in range(n)) and \
            all(mat[i][j] == mat[i % n][j % n] for i in range(m) for j in range(m)):
        obs, mat = obs[:n], [r[:n] for r in mat[:n]]
    cobs = []
    for i, o in enumerate(obs):
        cobs.append(C("CObs", T.to_coq(case["consts"][i % n]), T.cq_bytes(bytes.fromhex(o["s"])), int(o["h"])))
    aobs = []
    for (sym, args), o in zip(case["atoms"], out["atoms"]):
        aobs.append(C("AObs", T.cq_bytes(sym), [T.arg_to_coq(a) for a in args], T.cq_bytes(bytes.fromhex(o["s"])), int(o["h"])))
    return coq(C("Case", T.tables_to_coq(out["tables"]), cobs, [T.cq_bools(r) for r in mat],
                 aobs, [T.cq_bools(r) for r in out["amat"]]))


def case_to_json(case):
    return go_case(case)


def case_from_json(j):
    return {"consts": [T.from_json(t) for t in j["consts"]],
            "atoms": [(bytes.fromhex(a["sym"]), [T.from_json(x) for x in a["args"]]) for a in j["atoms"]],
            "shape": j.get("shape", "corpus")}


# ---------------------------------------------------------------- generators
def gen_case(rng, big):
    depth = rng.choice([1, 2, 3, 4, 5] if big else [1, 2, 2, 3, 4])
    base = T.gen_const(rng, depth)
    cs = [base, T.reorder(rng, base), T.mutate(rng, base), T.mutate(rng, base)]
    cs.append(T.mutate(rng, cs[2]))
    cs.append(T.gen_const(rng, rng.choice([0, 1, 2])))
    if rng.random() < 0.3:
        cs.append(T.gen_scalar(rng))
        cs.append(T._twin(rng, cs[-1]) if cs[-1][0] in T.SCALARS else cs[-1])
    cs = [c for c in cs if not T.dup_keys(c) and T.size(c) <= 120]     # never the N9 trigger
    a = T.gen_atom(rng, rng.choice([0, 1, 2]))
    atoms = [a, (a[0], [T.reorder(rng, x) if x[0] != "var" else x for x in a[1]])]
    if a[1]:
        k = rng.randrange(len(a[1]))
        if a[1][k][0] != "var":
            atoms.append((a[0], [T.mutate(rng, x) if i == k else x for i, x in enumerate(a[1])]))
        atoms.append((a[0], a[1][:-1]))
    atoms.append((a[0] + b"x", a[1]))
    atoms.append(T.gen_atom(rng, 1))
    atoms = [(s, args) for s, args in atoms if not any(x[0] != "var" and T.dup_keys(x) for x in args)]
    return {"consts": cs, "atoms": atoms, "shape": "group-depth-%d" % depth}


def exhaustive_cases():
    """Every constant of a small universe: the boundary scalars of every kind,
    and every pair / list (<= 2) / map / struct (<= 2 entries) over a core set;
    all of them compared with each other inside blocks."""
    core = [("num", 0), ("num", 1), ("f64", T.f64_bits(0.0)), ("f64", T.f64_bits(1.0)), ("time", 0), ("dur", 1),
            ("name", b"/a"), ("str", b"/a"), ("bytes", b"/a"), ("str", b""), ("list", []), ("map", []), ("struct", [])]
    level1 = list(core)
    for a in core:
        level1.append(("list", [a]))
        for b in core:
            level1.append(("pair", a, b))
            level1.append(("list", [a, b]))
            if T.py_hash(a) != T.py_hash(b):
                level1.append(("map", [(a, b), (b, a)]))
            level1.append(("map", [(a, b)]))
            if a[0] == "name":
                level1.append(("struct", [(a, b)]))
    scal = [("num", n) for n in T.INT_BOUNDARY] + [("f64", b) for b in T.FLOAT_BOUNDARY + T.FLOAT_SPECIAL]
    scal += [("time", n) for n in T.TIME_BOUNDARY] + [("dur", n) for n in T.DUR_BOUNDARY]
    scal += [("str", bytes([c])) for c in range(128)] + [("str", chr(cp).encode()) for cp in T.CODEPOINTS]
    scal += [("bytes", bytes([c])) for c in range(256)]
    allc = level1 + scal
    cases = []
    B = 24
    for i in range(0, len(allc), B):
        cases.append({"consts": allc[i:i + B], "atoms": [], "shape": "exhaustive"})
    # all pairs of core-derived terms against each other: blocks of core x level1
    for i in range(0, len(level1), B - len(core)):
        cases.append({"consts": core + level1[i:i + B - len(core)], "atoms": [], "shape": "exhaustive"})
    return cases, len(allc)


# -------------------------------------------------- laws on Go's own answers
def law_violation(case, out):
    """Judge the implementation directly by the property text. Returns a text
    or None. Independent of the Coq model: expected equality is structural
    equality of the generated terms (term_common.canon)."""
    n = len(case["consts"])
    terms = case["consts"] + case["consts"]          # direct, then built by EvalExpr
    obs, mat = out["consts"], out["cmat"]
    m = len(terms)
    can = [T.canon(t) for t in terms]
    val = [T.valid(t) for t in terms]
    for i in range(m):
        if not mat[i][i]:
            return "Equals not reflexive on %s" % (terms[i],)
        for j in range(m):
            if mat[i][j] != mat[j][i]:
                return "Equals not symmetric on %s, %s" % (terms[i], terms[j])
            if mat[i][j] != (can[i] == can[j]):
                return "Equals(%s, %s) = %s but the terms are structurally %s" % (
                    terms[i], terms[j], mat[i][j], "equal" if can[i] == can[j] else "different")
            if mat[i][j] and obs[i]["h"] != obs[j]["h"]:
                return "equal constants with different hashes: %s, %s" % (terms[i], terms[j])
            if mat[i][j] and obs[i]["s"] != obs[j]["s"]:
                return "equal constants print differently: %s, %s" % (terms[i], terms[j])
            if val[i] and val[j] and obs[i]["s"] == obs[j]["s"] and not mat[i][j]:
                return "different constants print identically (%s): %s, %s" % (
                    bytes.fromhex(obs[i]["s"]).decode("utf-8", "replace"), terms[i], terms[j])
    for i, j, k in itertools.product(range(m), repeat=3):
        if mat[i][j] and mat[j][k] and not mat[i][k]:
            return "Equals not transitive on %s, %s, %s" % (terms[i], terms[j], terms[k])
    atoms, aobs, amat = case["atoms"], out["atoms"], out["amat"]
    acan = [(bytes(s), tuple(T.canon(a) for a in args)) for s, args in atoms]
    aval = [T.ground(a) and all(T.valid(x) for x in a[1]) for a in atoms]
    for i in range(len(atoms)):
        for j in range(len(atoms)):
            if amat[i][j] != amat[j][i]:
                return "Atom.Equals not symmetric on %s, %s" % (atoms[i], atoms[j])
            if amat[i][j] != (acan[i] == acan[j]):
                return "Atom.Equals(%s, %s) = %s, structurally %s" % (atoms[i], atoms[j], amat[i][j], acan[i] == acan[j])
            if amat[i][j] and (aobs[i]["h"] != aobs[j]["h"] or aobs[i]["s"] != aobs[j]["s"]):
                return "equal atoms with different hash or print: %s, %s" % (atoms[i], atoms[j])
            if aval[i] and aval[j] and aobs[i]["s"] == aobs[j]["s"] and not amat[i][j]:
                return "different atoms print identically: %s, %s" % (atoms[i], atoms[j])
    for i, j, k in itertools.product(range(len(atoms)), repeat=3):
        if amat[i][j] and amat[j][k] and not amat[i][k]:
            return "Atom.Equals not transitive"
    return None


def describe(code):
    who = "atom" if code >= 1000000 else "constant"
    code %= 1000000
    what = {1: "String() differs from the model", 2: "Hash() differs from the model",
            3: "a row of Equals answers differs from the model", 4: "built constant not well-formed in the model"}
    return "%s #%d: %s" % (who, code // 10, what.get(code % 10, "?"))


# ----------------------------------------------------------------- the check
def probes(ck):
    for k in known_for("C08"):
        if k["id"] == "N9":
            out = ck.run_go("c08_n9", [{}])[0]
            if "out" in out and len(out["out"]) > 1:
                ck.known("N9 a map built from two entries with equal keys prints in an order chosen by Go map iteration: %s"
                         % sorted(out["out"]))


def lib_laws(ck, cases):
    """The laws the theorems assume of strconv / time, sampled on the values used."""
    f, t, d = set(), set(), set()

    def walk(x):
        k = x[0]
        if k == "f64":
            f.add(str(x[1]))
        elif k == "time":
            t.add(str(x[1]))
        elif k == "dur":
            d.add(str(x[1]))
        elif k == "pair":
            walk(x[1]), walk(x[2])
        elif k == "list":
            for y in x[1]:
                walk(y)
        elif k in ("map", "struct"):
            for a, b in x[1]:
                walk(a), walk(b)
    for c in cases:
        for x in c["consts"]:
            walk(x)
    out = ck.run_go("c08_lib", [{"f": sorted(f), "t": sorted(t), "d": sorted(d)}])[0]
    return len(f) + len(t) + len(d), out.get("out", [str(out)])


def run(ck):
    ck.obligations()
    ck.build_harness()
    rng = ck.rng
    cases = []
    for path in sorted(glob.glob(os.path.join(os.path.dirname(__file__), "..", "corpus", "C08", "*.json"))):
        cases.append(case_from_json(json.load(open(path))))
    ncorpus = len(cases)
    for _ in range(ck.n(200, 1500)):
        cases.append(gen_case(rng, big=not ck.quick))
    nrandom = len(cases) - ncorpus
    exhaustive, nex_terms = False, 0
    if not ck.quick:
        ex, nex_terms = exhaustive_cases()
        cases += ex
        exhaustive = True
    ck.log("generated %d cases" % len(cases))
    outs = ck.run_go("c08", [go_case(c) for c in cases])
    ck.log("go done")
    terms, idxs = [], []
    for i, (c, o) in enumerate(zip(cases, outs)):
        if "out" not in o:
            ck.violation({"property": "C08", "kind": "error / panic while building or printing a legal term",
                          "case": case_to_json(c), "impl": o})
            continue
        terms.append(cq_case(c, o["out"]))
        idxs.append(i)
    verdicts = ck.run_coq("C08", "judge", terms, shard=max(20, len(terms) // 16 + 1))
    ck.log("coq done")
    # the laws, on every case, directly on Go's answers
    law_fail = 0
    for i in idxs:
        why = law_violation(cases[i], outs[i]["out"])
        if why:
            law_fail += 1
            if len(ck.violations) < 5:
                ck.violation({"property": "C08", "kind": "implementation violates the property", "why": why,
                              "case": case_to_json(cases[i]), "impl_outputs": outs[i]["out"]})
    ck.log("laws done")
    disagreements = 0
    for i, v in zip(idxs, verdicts):
        if v == 0:
            continue
        disagreements += 1
        if len(ck.violations) >= 5:
            continue
        c, o = cases[i], outs[i]["out"]
        rep = {"property": "C08", "case": case_to_json(c), "impl_outputs": o, "verdict_code": v,
               "verdict": describe(v), "model_outputs": ck.coq_show("C08", "show " + cq_case(c, o))}
        why = law_violation(c, o)
        if why:
            continue          # already reported above as a property violation
        rep["kind"] = "correspondence model/implementation broken (theorems of Props/C08.v no longer tied to the code)"
        rep["no_longer_checks"] = "correspondence Run.C08.judge: model Term/{Const,Hash,Print,MkMap,Atom}.v vs ast.Constant / ast.Atom"
        ck.violation(rep, "no-failing-input-found")
    # ast.Name accept / reject
    names = [T.gen_name_bytes(rng, rng.random() < 0.5) for _ in range(ck.n(100, 2000))]
    names += [b"", b"/", b"a", b"/a", b"//", b"/a/", b"/a//b", b"/a/b", b"a/b", b"/\"", b"/a\"b", b"/ ", b"/a/b/c", b"//a"]
    for _ in range(ck.n(100, 2000)):
        names.append(bytes(rng.choice(b"/ab\"") for _ in range(rng.randint(0, 5))))
    nouts = ck.run_go("c08_name", [n.hex() for n in names])
    nver = ck.run_coq("C08", "judge_name", [coq((T.cq_bytes(n), bool(o.get("out")))) for n, o in zip(names, nouts)], tag="names")
    for n, o, v in zip(names, nouts, nver):
        if v != 0 and len(ck.violations) < 5:
            ck.violation({"property": "C08", "kind": "correspondence broken: ast.Name accept/reject differs from name_ok",
                          "name_hex": n.hex(), "impl": o, "no_longer_checks": "Run.C08.judge_name"}, "no-failing-input-found")
    nlib, libbad = lib_laws(ck, cases)
    if libbad:
        ck.violation({"property": "C08", "kind": "a law assumed of strconv / time fails on the real library",
                      "failures": libbad[:10], "no_longer_checks": "section hypotheses of print_inj"}, "no-failing-input-found")
    probes(ck)
    shapes, kinds, nconst, natoms, npairs, eq_true, twins = {}, {}, 0, 0, 0, 0, 0
    distinct = set()
    for c, o in zip(cases, outs):
        shapes[c["shape"]] = shapes.get(c["shape"], 0) + 1
        nconst += len(c["consts"])
        natoms += len(c["atoms"])
        for t in c["consts"]:
            T.kinds(t, kinds)
            if T.size(t) > 1:
                distinct.add(json.dumps(T.to_json(t)))
        if "out" in o:
            m = o["out"]["cmat"]
            npairs += len(m) * len(m)
            eq_true += sum(1 for r in m for x in r if x)
            hs = [x["h"] for x in o["out"]["consts"][:len(c["consts"])]]
            twins += sum(1 for a, b in itertools.combinations(range(len(hs)), 2)
                         if hs[a] == hs[b] and not m[a][b])
    cov = {"evaluations": nconst + natoms, "distinct_nontrivial": len(distinct),
           "rule": "constants (each built twice: constructors and EvalExpr) and atoms, in groups of a term, a re-ordered copy, "
                   "near-miss mutants and unrelated terms (corpus %d, random %d, exhaustive block %d cases); String, Hash and the "
                   "full Equals matrix of every group vs the model; non-trivial = nested constant; distinct by JSON text"
                   % (ncorpus, nrandom, len(cases) - ncorpus - nrandom),
           "exhaustive": exhaustive,
           "exhaustive_scope": ("every boundary scalar of every kind, every 1-byte string and byte string, and every pair / list(<=2) / "
                                "map(<=2 entries) / struct(1 entry) over a core of 13 constants (%d constants), compared block-wise"
                                % nex_terms) if exhaustive else "",
           "cases": len(cases), "constants": nconst, "atoms": natoms, "equals_answers": npairs, "equals_true": eq_true,
           "unequal_pairs_with_equal_hash": twins, "leaf_and_shape_kinds": kinds, "shapes": shapes,
           "name_accept_reject": len(names), "library_law_samples": nlib,
           "model_disagreements": disagreements, "law_failures": law_fail,
           "samples": [T.to_json(cases[ncorpus]["consts"][0]), T.to_json(cases[-1]["consts"][-1])]}
    return ck.finish(cov, assumptions=[
        "model hand-written (coq/Term/*.v); tied to ast/ast.go and ast/serde.go by differential comparison only",
        "strconv.FormatFloat, time.Format(RFC3339Nano), time.Duration.String enter the model as per-case tables observed from Go; "
        "print_inj assumes: finite floats format as -?digits[.digits] injectively, time / duration texts are injective and contain no quote (sampled by runner c08_lib, which also rejects a backslash)",
        "strings are valid UTF-8; maps / structs in the main stream have pairwise distinct key hashes (finding N9 probe otherwise)",
        "equal hashes of unequal terms are allowed (finding F8 belongs to the store properties)"])


def replay(ck, path):
    ck.build_harness()
    rep = json.load(open(path))
    case = case_from_json(rep["case"])
    out = ck.run_go("c08", [go_case(case)])[0]
    if "out" not in out:
        print("VIOLATION property=C08 replay=%s" % path)
        return 1
    why = law_violation(case, out["out"])
    v = ck.run_coq("C08", "judge", [cq_case(case, out["out"])])[0]
    print("replay: law check: %s; model verdict: %s" % (why or "ok", "agrees" if v == 0 else describe(v)))
    if why or v != 0:
        print("VIOLATION property=C08 replay=%s" % path)
        return 1
    return 0


META = {
    "text": "Machine-checked theorems (coq/Props/C08.v) about a Gallina model of ast.Constant / ast.Atom as Go represents them "
            "(type tag, symbol bytes, stored hash, cons cells): Equals with its type/hash short-cut is exactly structural equality "
            "on constructor-built constants (hence an equivalence), equal terms have equal hashes and prints, printing (escapes, "
            "decimal numbers, float/time/duration texts as library oracles) is uniquely decodable and hence injective on all "
            "constants (names, strings, byte strings, numbers, floats, times, durations, pairs, lists, maps, structs of any depth) "
            "with lexer-valid names, valid UTF-8 strings and finite floats, and on atoms over them (print_inj, atom_print_inj), "
            "maps/structs do not depend on the order of supplied entries when key hashes are distinct. The model is tied to the "
            "code on every run by comparing String, Hash and the full Equals matrix of generated term groups (constructors and "
            "EvalExpr) with the model inside Coq, and the laws are also checked directly on Go's answers.",
    "note": "Trusted: Coq kernel + vm_compute; hand-written model tied to the code by sampled differential comparison; "
            "strconv/time formatting assumed injective with a fixed alphabet (sampled); valid UTF-8 strings; duplicate / hash-equal "
            "map keys excluded (finding N9 probe); fix F6 applied (finite floats print with a decimal point).",
}
