"""Type expressions and constants of mangle for the checks (C12, reused by C11).

JSON encoding (what harness/c12/tyjson decodes), Coq encoding (terms of
MV.Types.Types), mangle surface syntax (for replays), and seeded generators.
API notes: notes/C12-API.md.

  type:  ["c","/number"] | ["sing",CONST] | ["pair",T,T] | ["tuple",[T..]] | ["list",T]
         | ["map",T,T] | ["struct",[[key,T]..],[[key,T]..]] (required, optional)
         | ["union",[T..]] | ["tagged",tag,[[vtag,STRUCT]..]]
  const: ["name",s] | ["str",s] | ["bytes",s] | ["num",n] | ["float",bits] | ["time",n] | ["dur",n]
         | ["pair",C,C] | ["list",[C..]] | ["map",[[C,C]..]] | ["struct",[[C,C]..]]
"""
import itertools
import json

BASE = ["/any", "/number", "/string", "/name", "/float64", "/time", "/duration", "/bytes", "/bot"]
# name prefix types chosen around the traps of the constant-vs-constant rule:
# string prefix without separator (/ab vs /a), names that extend a base type
# (/number/x), names that are string prefixes of base types (/num, /nam, /an)
PREFIXES = ["/a", "/a/b", "/a/b/c", "/ab", "/abc", "/a/bc", "/b", "/b/c", "/num", "/nam", "/an",
            "/number/x", "/name/x", "/any/x", "/bot/x"]
NAME_CONSTS = ["/a", "/a/b", "/a/b/c", "/a/b/c/d", "/ab", "/ab/c", "/abc", "/abc/d", "/a/bc", "/a/bc/d", "/b",
               "/b/c", "/b/c/d", "/num/x", "/nam/x", "/an/x", "/number/x", "/number/x/y", "/name/x", "/name/x/y",
               "/any/x", "/any/x/y", "/bot/x", "/bot/x/y", "/bytes/x", "/string/x", "/true", "/x", "/y"]
FIELDS = ["/f", "/g", "/h"]


# ---------------------------------------------------------------- constructors
def tc(s): return ["c", s]
def tsing(c): return ["sing", c]
def tpair(a, b): return ["pair", a, b]
def ttuple(ts): return ["tuple", list(ts)]
def tlist(e): return ["list", e]
def tmap(k, v): return ["map", k, v]
def tstruct(req, opt=()): return ["struct", [list(f) for f in req], [list(f) for f in opt]]
def tunion(ts): return ["union", list(ts)]
def ttagged(tag, vs): return ["tagged", tag, [list(v) for v in vs]]

def cname(s): return ["name", s]
def cstr(s): return ["str", s]
def cnum(n): return ["num", n]
def cpair(a, b): return ["pair", a, b]
def clist(es): return ["list", list(es)]
def cmap(es): return ["map", [list(e) for e in es]]
def cstruct(es): return ["struct", [list(e) for e in es]]

ANY, NUMBER, STRING, NAME = tc("/any"), tc("/number"), tc("/string"), tc("/name")
EMPTY = tunion([])


# ------------------------------------------------------------------- Coq terms
def cq_str(s):
    """A Go string as a Coq `str`: compact form decoded by Run.C12.sz (base-256
    digits, little endian); strings with NUL bytes fall back to the byte list."""
    b = s.encode("utf-8")
    if 0 in b or len(b) > 190:
        return "[" + ";".join(str(x) for x in b) + "]"
    return "(sz %d)" % int.from_bytes(b, "little")


def cq_const(c):
    k = c[0]
    if k == "name":
        return "(CName %s)" % cq_str(c[1])
    if k == "str":
        return "(CString %s)" % cq_str(c[1])
    if k == "bytes":
        return "(CBytes %s)" % cq_str(c[1])
    if k in ("num", "float", "time", "dur"):
        head = {"num": "CNum", "float": "CFloat", "time": "CTime", "dur": "CDur"}[k]
        return "(%s %s)" % (head, str(c[1]) if c[1] >= 0 else "(%d)" % c[1])
    if k == "pair":
        return "(CPair %s %s)" % (cq_const(c[1]), cq_const(c[2]))
    if k == "list":
        r = "CListNil"
        for e in reversed(c[1]):
            r = "(CListCons %s %s)" % (cq_const(e), r)
        return r
    if k in ("map", "struct"):
        nil, cons = ("CMapNil", "CMapCons") if k == "map" else ("CStructNil", "CStructCons")
        r = nil
        for a, b in reversed(c[1]):
            r = "(%s %s %s %s)" % (cons, cq_const(a), cq_const(b), r)
        return r
    raise ValueError(c)


def cq_list(items):
    return "[" + "; ".join(items) + "]"


def cq_fields(fs):
    return cq_list("(%s, %s)" % (cq_str(k), cq_ty(t)) for k, t in fs)


def cq_ty(t):
    k = t[0]
    if k == "c":
        return "(TConst %s)" % cq_str(t[1])
    if k == "sing":
        return "(TSingleton %s)" % cq_const(t[1])
    if k == "pair":
        return "(TPair %s %s)" % (cq_ty(t[1]), cq_ty(t[2]))
    if k == "tuple":
        return "(TTuple %s)" % cq_list(cq_ty(x) for x in t[1])
    if k == "list":
        return "(TList %s)" % cq_ty(t[1])
    if k == "map":
        return "(TMap %s %s)" % (cq_ty(t[1]), cq_ty(t[2]))
    if k == "struct":
        return "(TStruct %s %s)" % (cq_fields(t[1]), cq_fields(t[2]))
    if k == "union":
        return "(TUnion %s)" % cq_list(cq_ty(x) for x in t[1])
    if k == "tagged":
        return "(TTagged %s %s)" % (cq_str(t[1]), cq_fields(t[2]))
    raise ValueError(t)


def cq_bool(b):
    return "true" if b else "false"


def cq_bools(bs):
    """list bool, compact form decoded by Run.C12.bz."""
    return "(bz %d %d)" % (len(bs), sum(1 << i for i, b in enumerate(bs) if b))


def cq_digits4(vs):
    """list Z of values 0..3, compact form decoded by Run.C12.qz."""
    return "(qz %d %d)" % (len(vs), sum(v << (2 * i) for i, v in enumerate(vs)))


def cq_z(n):
    return str(n) if n >= 0 else "(%d)" % n


# -------------------------------------------------------------- surface syntax
def const_text(c):
    k = c[0]
    if k == "name":
        return c[1]
    if k == "str":
        return json.dumps(c[1])
    if k == "bytes":
        return "b" + json.dumps(c[1])
    if k == "num":
        return str(c[1])
    if k == "float":
        import struct
        return repr(struct.unpack("<d", struct.pack("<q", c[1]))[0]) + "f64"
    if k == "time":
        return "time(%d)" % c[1]
    if k == "dur":
        return "duration(%d)" % c[1]
    if k == "pair":
        return "fn:pair(%s, %s)" % (const_text(c[1]), const_text(c[2]))
    if k == "list":
        return "[" + ", ".join(const_text(e) for e in c[1]) + "]"
    if k == "map":
        return "[" + ", ".join("%s: %s" % (const_text(a), const_text(b)) for a, b in c[1]) + "]" if c[1] else "fn:map()"
    if k == "struct":
        return "{" + ", ".join("%s: %s" % (const_text(a), const_text(b)) for a, b in c[1]) + "}"
    raise ValueError(c)


def ty_text(t):
    k = t[0]
    if k == "c":
        return t[1]
    if k == "sing":
        return "fn:Singleton(%s)" % const_text(t[1])
    if k == "pair":
        return "fn:Pair(%s,%s)" % (ty_text(t[1]), ty_text(t[2]))
    if k == "tuple":
        return "fn:Tuple(%s)" % ",".join(ty_text(x) for x in t[1])
    if k == "list":
        return "fn:List(%s)" % ty_text(t[1])
    if k == "map":
        return "fn:Map(%s,%s)" % (ty_text(t[1]), ty_text(t[2]))
    if k == "struct":
        parts = ["%s,%s" % (f, ty_text(x)) for f, x in t[1]] + ["fn:opt(%s,%s)" % (f, ty_text(x)) for f, x in t[2]]
        return "fn:Struct(%s)" % ",".join(parts)
    if k == "union":
        return "fn:Union(%s)" % ",".join(ty_text(x) for x in t[1])
    if k == "tagged":
        return "fn:TaggedUnion(%s,%s)" % (t[1], ",".join("%s,%s" % (v, ty_text(x)) for v, x in t[2]))
    raise ValueError(t)


def ty_depth(t):
    k = t[0]
    if k in ("c", "sing"):
        return 0
    if k in ("pair", "map"):
        return 1 + max(ty_depth(t[1]), ty_depth(t[2]))
    if k == "list":
        return 1 + ty_depth(t[1])
    if k in ("tuple", "union"):
        return 1 + max([ty_depth(x) for x in t[1]] + [0])
    if k == "struct":
        return 1 + max([ty_depth(x) for _, x in t[1] + t[2]] + [0])
    if k == "tagged":
        return 1 + max([ty_depth(x) for _, x in t[2]] + [0])
    raise ValueError(t)


def ty_kinds(t, acc):
    """Count constructors (coverage statistics)."""
    k = t[0]
    acc[k] = acc.get(k, 0) + 1
    if k in ("pair", "map"):
        ty_kinds(t[1], acc); ty_kinds(t[2], acc)
    elif k == "list":
        ty_kinds(t[1], acc)
    elif k in ("tuple", "union"):
        for x in t[1]:
            ty_kinds(x, acc)
    elif k == "struct":
        for _, x in t[1] + t[2]:
            ty_kinds(x, acc)
    elif k == "tagged":
        for _, x in t[2]:
            ty_kinds(x, acc)
    return acc


# ------------------------------------------------------------------ generators
class Env:
    """Per-group choices that keep a pool inside the sound fragment by
    construction: one key type for every fn:Map, one field-name set for every
    fn:Struct (fn:TaggedUnion: tag = first field, variants carry the rest).
    wild=True lifts the restrictions (different key types, different and
    duplicate field sets, tuples of different lengths)."""

    def __init__(self, rng, wild=False, tagged=True):
        self.wild = wild
        self.tagged = tagged
        self.key = rng.choice([STRING, NAME, NUMBER, tc("/a"), tc("/a/b"), ANY, tunion([STRING, NUMBER])])
        n = rng.choice([1, 2, 2, 3])
        self.fields = rng.sample(FIELDS, n)
        self.tuple_len = rng.choice([3, 3, 4])


def gen_leaf(rng):
    r = rng.random()
    if r < 0.40:
        return tc(rng.choice(BASE[:7] if rng.random() < 0.9 else BASE))
    if r < 0.80:
        return tc(rng.choice(PREFIXES))
    return tsing(cname(rng.choice(NAME_CONSTS)))


def gen_struct(rng, depth, env):
    if env.wild:
        names = [f for f in FIELDS if rng.random() < 0.6]
        if rng.random() < 0.08 and names:
            names.append(names[0])          # duplicate field
    else:
        names = list(env.fields)
    rng.shuffle(names)
    req, opt = [], []
    for f in names:
        (opt if rng.random() < 0.3 else req).append([f, gen_type(rng, depth - 1, env)])
    return tstruct(req, opt)


def gen_tagged(rng, depth, env):
    if env.wild:
        tag = rng.choice(["/k"] + FIELDS)
        rest = [f for f in FIELDS if f != tag and rng.random() < 0.5]
    else:
        tag, rest = env.fields[0], env.fields[1:]
    vtags = rng.sample(["/x", "/y", "/z"], rng.choice([1, 2, 2, 3]))
    vs = []
    for v in vtags:
        names = list(rest)
        if env.wild:
            names = [f for f in names if rng.random() < 0.8]
        req, opt = [], []
        for f in names:
            (opt if rng.random() < 0.25 else req).append([f, gen_type(rng, depth - 1, env)])
        vs.append([v, tstruct(req, opt)])
    return ttagged(tag, vs)


def gen_type(rng, depth, env):
    """A well-formed closed type expression of nesting depth <= depth."""
    if depth <= 0 or rng.random() < 0.22:
        return gen_leaf(rng)
    k = rng.choice(["pair", "list", "list", "map", "struct", "struct", "union", "union", "tuple", "tagged"])
    if k == "tagged" and not env.tagged:
        k = "struct"
    if k == "pair":
        return tpair(gen_type(rng, depth - 1, env), gen_type(rng, depth - 1, env))
    if k == "list":
        return tlist(gen_type(rng, depth - 1, env))
    if k == "map":
        key = gen_type(rng, min(depth - 1, 1), env) if env.wild else env.key
        return tmap(key, gen_type(rng, depth - 1, env))
    if k == "tuple":
        n = rng.choice([3, 4]) if env.wild else env.tuple_len
        return ttuple([gen_type(rng, depth - 1, env) for _ in range(n)])
    if k == "struct":
        return gen_struct(rng, depth, env)
    if k == "tagged":
        return gen_tagged(rng, depth, env)
    n = rng.choice([2, 2, 3])
    return tunion([gen_type(rng, depth - 1, env) for _ in range(n)])


def variants_of(t, rng, env):
    """Types close to t (what conformance has to tell apart): widen / narrow a
    leaf, wrap into a union, permute union members or struct fields."""
    out = []
    k = t[0]
    if k == "c":
        out += [tc(t[1] + "/b"), tc(t[1] + "b"), NAME, ANY]
        if t[1].count("/") > 1:
            out.append(tc(t[1].rsplit("/", 1)[0]))
    elif k == "sing":
        if t[1][0] == "name":
            out += [NAME, tc(t[1][1].rsplit("/", 1)[0] or "/a"), tc(t[1][1])]
    elif k == "list":
        out += [tlist(v) for v in variants_of(t[1], rng, env)[:2]]
    elif k == "pair":
        out += [tpair(v, t[2]) for v in variants_of(t[1], rng, env)[:1]]
        out += [tpair(t[1], v) for v in variants_of(t[2], rng, env)[:1]]
    elif k == "map":
        out += [tmap(t[1], v) for v in variants_of(t[2], rng, env)[:2]]
    elif k == "union":
        out += [tunion(list(reversed(t[1]))), tunion(t[1] + [gen_leaf(rng)])] + [t[1][0]]
    elif k == "struct":
        fs = t[1] + t[2]
        if fs:
            i = rng.randrange(len(fs))
            vs = variants_of(fs[i][1], rng, env)
            if vs:
                req = [[f, (vs[0] if j == i else x)] for j, (f, x) in enumerate(t[1])]
                opt = [[f, (vs[0] if j + len(t[1]) == i else x)] for j, (f, x) in enumerate(t[2])]
                out.append(tstruct(list(reversed(req)), opt))
            out.append(tstruct(t[1] + t[2], []))
    elif k == "tuple":
        vs = variants_of(t[1][0], rng, env)
        if vs:
            out.append(ttuple([vs[0]] + t[1][1:]))
    elif k == "tagged":
        out.append(ttagged(t[1], t[2][:1]))
    out.append(tunion([t, gen_leaf(rng)]))
    return out


# constants ---------------------------------------------------------------
def base_universe():
    """One constant (at least) per constructor and per trap of the name rules."""
    names = [cname(s) for s in ["/a", "/a/b", "/a/b/c", "/ab", "/ab/c", "/abc/d", "/a/bc/d", "/b/c", "/number/x",
                                "/number/x/y", "/name/x", "/name/x/y", "/bot/x", "/bytes/x", "/any/x/y", "/num/x",
                                "/nam/x", "/an/x", "/true"]]
    one, s = cnum(1), cstr("s")
    return names + [
        cnum(0), one, cnum(-5), cstr(""), s, ["bytes", "x"], ["float", 4607182418800017408], ["float", 0],
        ["time", 1000], ["dur", 60], cpair(one, s), cpair(one, cpair(cnum(2), cnum(3))),
        cpair(one, cpair(cnum(2), cpair(cnum(3), cnum(4)))),
        clist([]), clist([one]), clist([one, s]), clist([cname("/a/b")]),
        cmap([]), cmap([[s, one]]), cmap([[one, one]]), cmap([[cname("/a/b"), s]]),
        cstruct([]), cstruct([[cname("/f"), one]]), cstruct([[cname("/f"), one], [cname("/g"), s]]),
        cstruct([[cname("/g"), s], [cname("/f"), one]]),
    ]


def gen_const(rng, depth=2):
    r = rng.random()
    if depth <= 0 or r < 0.5:
        k = rng.choice(["name", "name", "num", "str", "bytes", "float", "time", "dur"])
        if k == "name":
            return cname(rng.choice(NAME_CONSTS))
        if k == "num":
            return cnum(rng.choice([0, 1, -1, 7, 1 << 40]))
        if k == "str":
            return cstr(rng.choice(["", "a", "/a/b"]))
        if k == "bytes":
            return ["bytes", rng.choice(["", "x"])]
        if k == "float":
            return ["float", rng.choice([0, 4607182418800017408, -4616189618054758400])]
        return [k, rng.choice([0, 5, 1000])]
    k = rng.choice(["pair", "list", "map", "struct"])
    if k == "pair":
        return cpair(gen_const(rng, depth - 1), gen_const(rng, depth - 1))
    if k == "list":
        return clist([gen_const(rng, depth - 1) for _ in range(rng.choice([0, 1, 2]))])
    if k == "map":
        return cmap([[gen_const(rng, 0), gen_const(rng, depth - 1)] for _ in range(rng.choice([0, 1, 2]))])
    fs = [f for f in FIELDS if rng.random() < 0.5]
    return cstruct([[cname(f), gen_const(rng, depth - 1)] for f in fs])


def gen_member(rng, t, fuel=6):
    """A constant meant to be a member of t (None when t looks empty). Used
    only to aim the universe at the types of a group - never as an oracle."""
    k = t[0]
    if fuel <= 0:
        return None
    if k == "c":
        s = t[1]
        if s == "/any":
            return gen_const(rng, 1)
        if s == "/number":
            return cnum(rng.choice([0, 3, -2]))
        if s == "/string":
            return cstr(rng.choice(["", "a", "b"]))
        if s == "/name":
            return cname(rng.choice(NAME_CONSTS))
        if s == "/float64":
            return ["float", rng.choice([0, 4607182418800017408])]
        if s == "/time":
            return ["time", rng.choice([0, 1000])]
        if s == "/duration":
            return ["dur", rng.choice([0, 60])]
        if s == "/bytes":
            return ["bytes", "x"]
        if s == "/bot":
            return None
        return cname(s + rng.choice(["/x", "/c", "/x/y"]))
    if k == "sing":
        return t[1]
    if k == "pair":
        a, b = gen_member(rng, t[1], fuel - 1), gen_member(rng, t[2], fuel - 1)
        return None if a is None or b is None else cpair(a, b)
    if k == "tuple":
        ms = [gen_member(rng, x, fuel - 1) for x in t[1]]
        if any(m is None for m in ms) or len(ms) < 2:
            return None
        r = cpair(ms[-2], ms[-1])
        for m in reversed(ms[:-2]):
            r = cpair(m, r)
        return r
    if k == "list":
        ms = [gen_member(rng, t[1], fuel - 1) for _ in range(rng.choice([0, 1, 2]))]
        return clist([m for m in ms if m is not None])
    if k == "map":
        es = []
        for _ in range(rng.choice([0, 1, 2])):
            a, b = gen_member(rng, t[1], fuel - 1), gen_member(rng, t[2], fuel - 1)
            if a is not None and b is not None:
                es.append([a, b])
        return cmap(es)
    if k == "struct":
        es = []
        for f, x in t[1] + t[2]:
            m = gen_member(rng, x, fuel - 1)
            if m is None:
                return None
            es.append([cname(f), m])
        rng.shuffle(es)
        return cstruct(es)
    if k == "union":
        alts = list(t[1])
        rng.shuffle(alts)
        for a in alts:
            m = gen_member(rng, a, fuel - 1)
            if m is not None:
                return m
        return None
    if k == "tagged":
        v, st = rng.choice(t[2])
        m = gen_member(rng, st, fuel - 1)
        if m is None:
            return None
        es = [[cname(t[1]), cname(v)]] + m[1]
        if rng.random() < 0.5:
            rng.shuffle(es)
        return cstruct(es)
    raise ValueError(t)


def mutate_const(rng, c):
    """A near miss of c: one leaf / one field / one label changed."""
    k = c[0]
    if k == "name":
        s = c[1]
        r = rng.random()
        if r < 0.3:
            return cname(s + "x")
        if r < 0.5 and s.count("/") > 1:
            return cname(s.rsplit("/", 1)[0])
        if r < 0.7:
            return cname(s + "/y")
        if r < 0.85:
            return cstr(s)
        return cname(rng.choice(NAME_CONSTS))
    if k == "num":
        return rng.choice([cstr("1"), ["float", 0], ["time", c[1]], cname("/number/x")])
    if k in ("str", "bytes", "float", "time", "dur"):
        return rng.choice([cnum(1), cname("/a/b"), ["bytes", "x"], cstr("zz")])
    if k == "pair":
        if rng.random() < 0.5:
            return cpair(mutate_const(rng, c[1]), c[2])
        return cpair(c[1], mutate_const(rng, c[2]))
    if k == "list":
        es = list(c[1])
        if es and rng.random() < 0.6:
            i = rng.randrange(len(es))
            es[i] = mutate_const(rng, es[i])
        else:
            es.append(gen_const(rng, 1))
        return clist(es)
    if k == "map":
        es = [list(e) for e in c[1]]
        if es and rng.random() < 0.7:
            i = rng.randrange(len(es))
            j = rng.randrange(2)
            es[i][j] = mutate_const(rng, es[i][j])
        else:
            es.append([gen_const(rng, 0), gen_const(rng, 1)])
        return cmap(es)
    if k == "struct":
        es = [list(e) for e in c[1]]
        r = rng.random()
        if es and r < 0.3:
            del es[rng.randrange(len(es))]           # drop a field
        elif es and r < 0.6:
            i = rng.randrange(len(es))
            es[i][1] = mutate_const(rng, es[i][1])
        elif es and r < 0.75:
            es.append(list(rng.choice(es)))          # duplicate label
        else:
            es.append([cname(rng.choice(FIELDS + ["/k"])), gen_const(rng, 1)])
        return cstruct(es)
    raise ValueError(c)


def dedup(items):
    seen, out = set(), []
    for x in items:
        k = json.dumps(x)
        if k not in seen:
            seen.add(k)
            out.append(x)
    return out


def universe_for(rng, tys, per_type=2, extra=4, base=None):
    """The universe of constants of a group: the fixed base universe (or a
    sample of it), members of every type and near misses of those members."""
    cs = list(base if base is not None else base_universe())
    for t in tys:
        for _ in range(per_type):
            m = gen_member(rng, t)
            if m is not None:
                cs.append(m)
                cs.append(mutate_const(rng, m))
    for _ in range(extra):
        cs.append(gen_const(rng, 2))
    return dedup(cs)


def gen_pool(rng, n, depth, env):
    """n types of one environment; about a third are close variants of
    earlier ones so that conformance has something to affirm."""
    tys = []
    while len(tys) < n:
        if tys and rng.random() < 0.4:
            vs = variants_of(rng.choice(tys), rng, env)
            if vs:
                tys.append(rng.choice(vs))
                continue
        tys.append(gen_type(rng, depth, env))
    return dedup(tys)[:n]


# ---------------------------------------------------- exhaustive small grammar
def grammar_depth2(leaves1, leaves2, key_types, small=False):
    """All type expressions of a depth-2 grammar.
    depth <= 1 over leaves1: List(l) Pair(l,l') Map(k,l) Struct(/f:l) Struct(/f:l,opt /g:l')
      Union(l,l') Tuple(l,l',l'');   depth 2 over leaves2 with every depth-1 type over leaves2 below
      List / Pair(_, l) / Map(k,_) / Struct(/f:_) / Union(_, l)."""
    L1, L2 = [list(x) for x in leaves1], [list(x) for x in leaves2]

    def level1(L, Ls):
        out = []
        out += [tlist(a) for a in L]
        out += [tpair(a, b) for a in L for b in Ls]
        out += [tmap(k, a) for k in key_types for a in L]
        out += [tstruct([["/f", a]]) for a in L]
        out += [tstruct([["/f", a]], [["/g", b]]) for a in L for b in Ls[:2]]
        out += [tunion([a, b]) for a, b in itertools.combinations(L, 2)]
        out += [ttuple([a, b, Ls[0]]) for a in Ls for b in Ls]
        return out

    d1 = level1(L1, L2)
    d1s = level1(L2, L2[:2])
    d2 = []
    for x in d1s:
        d2.append(tlist(x))
        if not small:
            d2.append(tpair(x, L2[0]))
            d2.append(tmap(key_types[0], x))
            d2.append(tstruct([["/f", x]]))
            d2.append(tunion([x, L2[0]]))
    return dedup(L1 + d1 + d2)


# ------------------------------------------------------- evaluation inside Coq
# Same contract as vlib.core.Check.run_coq / coq_show, but the generated file
# loads only what MV.Types.Types needs (List, BinInt) - loading ZArith costs
# many seconds per coqc process on a busy machine.
LIGHT_HEADER = ("From Coq Require Import List BinInt.\nFrom MV Require Import Run.%s.\n"
                "Import ListNotations.\nOpen Scope Z_scope.\n")


def run_coq_light(ck, runmod, fn, terms, nshards=8, tag="cases", timeout=3000):
    """Evaluate `fn : case -> Z` of MV.Run.<runmod> on each term text; returns the list of ints."""
    import os, re, subprocess
    from concurrent.futures import ThreadPoolExecutor
    from vlib.core import BUILD, COQ
    if not terms:
        return []
    nshards = max(1, min(nshards, len(terms)))
    size = (len(terms) + nshards - 1) // nshards
    shards = [terms[i:i + size] for i in range(0, len(terms), size)]
    d = os.path.join(BUILD, "cases")
    os.makedirs(d, exist_ok=True)

    def one(k):
        name = "%s_%s_%d_%d" % (ck.pid, tag, os.getpid(), k)
        path = os.path.join(d, name + ".v")
        with open(path, "w") as f:
            f.write(LIGHT_HEADER % runmod)
            f.write("Definition R : list Z := Eval vm_compute in List.map %s [\n" % fn)
            f.write(";\n".join(shards[k]))
            f.write("\n].\nPrint R.\n")
        p = subprocess.run(["coqc", "-Q", COQ, "MV", "-w", "none", path], cwd=d,
                           stdout=subprocess.PIPE, stderr=subprocess.STDOUT, text=True, timeout=timeout)
        for ext in (".vo", ".glob", ".vok", ".vos"):
            try:
                os.remove(os.path.join(d, name + ext))
            except OSError:
                pass
        try:
            os.remove(os.path.join(d, "." + name + ".aux"))
        except OSError:
            pass
        if p.returncode != 0:
            raise RuntimeError("coqc on %s failed:\n%s" % (path, p.stdout[-3000:]))
        m = re.search(r"R\s*=\s*(.*?)\s*:\s*list Z", p.stdout, re.S)
        if not m:
            raise RuntimeError("cannot parse coqc output for %s:\n%s" % (path, p.stdout[-2000:]))
        vals = [int(x) for x in re.findall(r"-?\d+", m.group(1))]
        if len(vals) != len(shards[k]):
            raise RuntimeError("%s: %d verdicts for %d cases" % (path, len(vals), len(shards[k])))
        os.remove(path)
        return vals

    with ThreadPoolExecutor(max_workers=len(shards)) as ex:
        res = list(ex.map(one, range(len(shards))))
    return [v for r in res for v in r]


def coq_show_light(ck, runmod, expr):
    """Evaluate one expression, return Coq's printed value (for replays)."""
    import os, subprocess
    from vlib.core import BUILD, COQ
    d = os.path.join(BUILD, "cases")
    os.makedirs(d, exist_ok=True)
    name = "%s_show_%d" % (ck.pid, os.getpid())
    path = os.path.join(d, name + ".v")
    with open(path, "w") as f:
        f.write(LIGHT_HEADER % runmod)
        f.write("Eval vm_compute in (%s).\n" % expr)
    p = subprocess.run(["coqc", "-Q", COQ, "MV", "-w", "none", path], cwd=d,
                       stdout=subprocess.PIPE, stderr=subprocess.STDOUT, text=True, timeout=900)
    for ext in (".v", ".vo", ".glob", ".vok", ".vos"):
        try:
            os.remove(os.path.join(d, name + ext))
        except OSError:
            pass
    try:
        os.remove(os.path.join(d, "." + name + ".aux"))
    except OSError:
        pass
    return p.stdout.strip()
