"""C11 - facts of declared predicates conform to their declared bounds.

Theorems: coq/Props/C11.v (model coq/Analysis/Bounds.v on top of the type model of C12 and
the Datalog semantics of C01). Every run

  (a) generates programs with declarations (base types, name prefix types, singletons,
      unions, pairs, lists, maps, structs, tagged unions), rules deriving declared
      predicates through atoms, negated atoms, equalities, inequalities, constructors and
      accessors, base facts in the text and in the caller's store;
  (b) runs the real analysis.AnalyzeAndCheckBounds(.., ErrorForBoundsMismatch); every
      ACCEPTED program is evaluated by the real engine and EVERY stored fact of a
      user-declared predicate is judged by the real builtin.TypeChecker.CheckTypeBounds:
      a failing fact is the property violation, decided on Go's own outputs;
  (c) compares the verdict with the model inside Coq (Run/C11.judge) on the modelled
      fragment; the judge also reports whether the program lies in the fragment of
      `bounds_sound_partial` (exactness flag).
"""
import glob
import itertools
import json
import os
from concurrent.futures import ThreadPoolExecutor

from vlib.core import known_for
from checks import types_common as T

HERE = os.path.dirname(os.path.abspath(__file__))
CORPUS = os.path.join(HERE, "..", "corpus", "C11")

JUDGE = {1: "the model accepts, AnalyzeAndCheckBounds rejects",
         2: "the model rejects, AnalyzeAndCheckBounds accepts",
         3: "accepted by model (exactness flag set) and by Go, yet a stored fact fails CheckTypeBounds",
         11: "model out of fuel"}

# -------------------------------------------------------------- surface syntax
STRUCTURED = ("pair", "tuple", "list", "map", "struct", "tagged")


def term_text(t):
    k = t[0]
    if k == "var":
        return "V%d" % t[1]
    if k == "c":
        return T.const_text(t[1])
    if k == "app" and t[1] == "{}":
        # a struct literal {/f: e, /g: e'} (the parser reads it as fn:struct(/f, e, /g, e'))
        a = t[2]
        return "{" + ", ".join("%s: %s" % (term_text(a[i]), term_text(a[i + 1])) for i in range(0, len(a), 2)) + "}"
    if k == "app":
        return "%s(%s)" % (t[1], ", ".join(term_text(a) for a in t[2]))
    raise ValueError(t)


def ty_text_dot(t):
    """the `.Struct</f: T, opt /g: T'>` surface syntax (parse.VisitDotType) for structs, lists, unions, pairs"""
    k = t[0]
    if k == "struct":
        parts = ["%s: %s" % (f, ty_text_dot(x)) for f, x in t[1]] + ["opt %s: %s" % (f, ty_text_dot(x)) for f, x in t[2]]
        return ".Struct<%s>" % ", ".join(parts)
    if k == "list":
        return ".List<%s>" % ty_text_dot(t[1])
    if k == "union":
        return ".Union<%s>" % ", ".join(ty_text_dot(x) for x in t[1])
    if k == "pair":
        return ".Pair<%s, %s>" % (ty_text_dot(t[1]), ty_text_dot(t[2]))
    return T.ty_text(t)


def atom_text(p, args):
    return "%s(%s)" % (p, ", ".join(term_text(a) for a in args))


def premise_text(p):
    k = p[0]
    if k == "atom":
        return atom_text(p[1], p[2])
    if k == "neg":
        return "!" + atom_text(p[1], p[2])
    if k == "eq":
        return "%s = %s" % (term_text(p[1]), term_text(p[2]))
    if k == "ineq":
        return "%s != %s" % (term_text(p[1]), term_text(p[2]))
    raise ValueError(p)


def rule_text(r):
    # a space before the final period: the lexer reads "/a/b." as one name
    return "%s :- %s ." % (atom_text(r["head"][0], r["head"][1]), ", ".join(premise_text(p) for p in r["body"]))


def fact_text(f):
    return "%s(%s)." % (f[0], ", ".join(T.const_text(c) for c in f[1]))


def program_text(prog):
    lines = []
    tt = ty_text_dot if prog.get("dot") else T.ty_text
    for p, d in prog["decls"].items():
        vs = ", ".join("X%d" % i for i in range(d["arity"]))
        descr = (" descr [%s]" % d["descr"]) if d.get("descr") else ""
        bounds = "".join(" bound [%s]" % ", ".join(tt(t) for t in row) for row in d["rows"])
        lines.append("Decl %s(%s)%s%s." % (p, vs, descr, bounds))
    lines += [fact_text(f) for f in prog["init"]]
    lines += [rule_text(r) for r in prog["rules"]]
    return "\n".join(lines) + "\n"


# ---------------------------------------------------------------- Coq encoding
class Outside(Exception):
    pass


def pnum(p):
    return int(p[1:])


def cq_dconst(c):
    k = c[0]
    if k == "name":
        return "(dname %s)" % T.cq_str(c[1])
    if k == "str":
        return "(dstr %s)" % T.cq_str(c[1])
    if k == "num":
        return "(dnum %s)" % T.cq_z(c[1])
    if k == "pair":
        return "(dpair %s %s)" % (cq_dconst(c[1]), cq_dconst(c[2]))
    if k == "list":
        return "(dlist %s)" % T.cq_list(cq_dconst(e) for e in c[1])
    raise Outside(k)


def cq_term(t):
    k = t[0]
    if k == "var":
        return "(tv %d)" % t[1]
    if k == "c":
        if "pair" in json.dumps(t[1]):
            # fn:pair(..) in a rule is a function application for the parser (typed through
            # the function type of fn:pair), not a constant: outside the modelled fragment
            return "(tother [])"
        return "(tk %s)" % cq_dconst(t[1])
    if k == "app":
        args = T.cq_list(cq_term(a) for a in t[2])
        return "(tlist %s)" % args if t[1] == "fn:list" else "(tother %s)" % args
    raise ValueError(t)


def cq_premise(p):
    k = p[0]
    if k in ("atom", "neg"):
        if p[1].startswith(":"):
            raise Outside(p[1])
        return "(%s (at_ %d %s))" % ("PAtom" if k == "atom" else "PNeg", pnum(p[1]), T.cq_list(cq_term(a) for a in p[2]))
    return "(%s %s %s)" % ("PEq" if k == "eq" else "PIneq", cq_term(p[1]), cq_term(p[2]))


def union_order_sensitive(prog):
    """symbols.UpperBound sorts the members of the union it builds by Hash() (symbols.go:995); the model
    (Bounds.ub = upper_bound .. id_srt) keeps them in argument order.  The order is observable only below a
    type constructor that compares its argument by equality (fn:List(fn:Union(/b,/a)) does not conform to
    fn:List(fn:Union(/a,/b))), i.e. for a list written in the program text - a list constant or fn:list(..) -
    with two elements that can get different bounds.  A verdict difference (judge codes 1, 2) on such a program
    is counted, not reported (the verdict on stored facts is unaffected).  Seen once: `Decl p0(X,Y) bound [.., fn:List(fn:Union(/a,/b))].
    p0("", [/b/c, /a/x]).` - Go accepts (sorted: /a,/b), the unsorted model rejects."""
    def const_sens(c):
        if c[0] == "list":
            es = c[1]
            if len(es) >= 2 and not (all(e[0] == "num" for e in es) or all(e[0] == "str" for e in es)):
                return True
            return any(const_sens(e) for e in es)
        if c[0] == "pair":
            return const_sens(c[1]) or const_sens(c[2])
        return False

    def term_sens(t):
        if t[0] == "c":
            return const_sens(t[1])
        if t[0] == "app":
            if t[1] == "fn:list" and len(t[2]) >= 2 and any(a != t[2][0] for a in t[2]) and \
                    not (all(a[0] == "c" and a[1][0] == "num" for a in t[2]) or all(a[0] == "c" and a[1][0] == "str" for a in t[2])):
                return True
            return any(term_sens(a) for a in t[2])
        return False

    def nested_union(t, inside=False):
        if t[0] == "union":
            return inside or any(nested_union(x, inside) for x in t[1])
        if t[0] in ("list", "pair", "map"):
            return any(nested_union(x, True) for x in t[1:])
        if t[0] == "tuple":
            return any(nested_union(x, True) for x in t[1])
        if t[0] == "struct":
            return any(nested_union(x, True) for _, x in t[1] + t[2])
        if t[0] == "tagged":
            return any(nested_union(x, True) for _, x in t[2])
        return False

    n = sum(1 for f in prog["init"] for c in f[1] if const_sens(c))
    for r in prog["rules"]:
        ts = list(r["head"][1])
        for q in r["body"]:
            ts += q[2] if q[0] in ("atom", "neg") else [q[1], q[2]]
        n += sum(1 for t in ts if term_sens(t))
    # observable against a declared type with a union below a constructor, or against another such list
    return n >= 2 or (n == 1 and any(nested_union(t) for d in prog["decls"].values() for row in d["rows"] for t in row))


def cq_parts(prog):
    for d in prog["decls"].values():
        if d.get("descr"):
            raise Outside("descr")
    D = T.cq_list("(%d, %s)" % (pnum(p), T.cq_list(T.cq_list(T.cq_ty(t) for t in row)
                                                    for row in (d["rows"] or [[T.ANY] * d["arity"]])))
                  for p, d in prog["decls"].items())
    R = T.cq_list("(cl (at_ %d %s) %s)" % (pnum(r["head"][0]), T.cq_list(cq_term(a) for a in r["head"][1]),
                                            T.cq_list(cq_premise(p) for p in r["body"])) for r in prog["rules"])
    I = T.cq_list("(%d, %s)" % (pnum(f[0]), T.cq_list(cq_dconst(c) for c in f[1])) for f in prog["init"])
    return D, R, I


def cq_case(prog, go_accepts, go_sound):
    return "(mkCase %s %s %s %s %s)" % (cq_parts(prog) + (T.cq_bool(go_accepts), T.cq_bool(go_sound)))


def body_preds(rule):
    return [p[1] for p in rule["body"] if p[0] in ("atom", "neg") and not p[1].startswith(":")]


def schedule(prog):
    """The order in which BoundsAnalyzer.BoundsCheck reaches the undeclared predicates, and how:
    [(pred, arity, top)] with top = reached first by BoundsCheck's own loop over the sorted predicate
    symbols (inferAndCheckBounds -> inferRelTypes, `visiting` not set) rather than by a body atom
    (getOrInferRelTypes).  None when the undeclared predicates are mutually recursive or one of
    them has no rule (outside the model coq/Analysis/BoundsInfer.v)."""
    undecl = prog.get("undecl", {})
    clauses = {}
    for r in prog["rules"]:
        clauses.setdefault(r["head"][0], []).append(r)
    if any(q not in clauses for q in undecl):
        raise Outside("undeclared predicate without rules")
    # cycles other than self-loops among the undeclared predicates
    dep = {q: {p for r in clauses[q] for p in body_preds(r) if p in undecl and p != q} for q in undecl}
    state = {}

    def cyclic(q):
        if state.get(q) == 1:
            return True
        if state.get(q) == 2:
            return False
        state[q] = 1
        if any(cyclic(p) for p in dep[q]):
            return True
        state[q] = 2
        return False

    if any(cyclic(q) for q in undecl):
        raise Outside("mutual recursion between undeclared predicates")
    done, sched = set(), []

    def demand_deps(q):
        for r in clauses[q]:
            for p in body_preds(r):
                if p in undecl and p != q and p not in done:
                    demand(p)

    def demand(q):
        demand_deps(q)
        sched.append((q, undecl[q], False))
        done.add(q)

    for x in sorted(set(clauses) | {f[0] for f in prog["init"]}):
        if x in prog["decls"]:
            for r in clauses.get(x, []):
                for p in body_preds(r):
                    if p in undecl and p not in done:
                        demand(p)
        elif x in undecl and x not in done:
            demand_deps(x)
            sched.append((x, undecl[x], True))
            done.add(x)
    return sched


def cq_case_inf(prog, go_accepts, go_sound):
    sched = T.cq_list("(%d, %d, %s)" % (pnum(q), ar, T.cq_bool(top)) for q, ar, top in schedule(prog))
    D, R, I = cq_parts(prog)
    return "(mkCaseInf %s %s %s %s %s %s)" % (D, R, I, sched, T.cq_bool(go_accepts), T.cq_bool(go_sound))


# ------------------------------------------------------------------ generation
FRAG_LEAVES = [T.NUMBER, T.STRING, T.NAME, T.ANY, T.tc("/a"), T.tc("/a/b"), T.tc("/b"), T.tc("/ab"),
               T.tsing(T.cname("/a/b")), T.tsing(T.cname("/b/c"))]
FRAG_NAMES = ["/a", "/a/b", "/a/b/c", "/a/x", "/b", "/b/c", "/b/c/d", "/ab", "/ab/c", "/x"]


def gen_frag_type(rng, depth=2):
    r = rng.random()
    if depth <= 0 or r < 0.55:
        return rng.choice(FRAG_LEAVES)
    if r < 0.75:
        return T.tlist(gen_frag_type(rng, depth - 1))
    if r < 0.85:
        return T.tpair(gen_frag_type(rng, depth - 1), gen_frag_type(rng, depth - 1))
    ts = T.dedup([gen_frag_type(rng, depth - 1) for _ in range(rng.choice([2, 2, 3]))])
    ts = [t for t in ts if t[0] != "union"]
    return ts[0] if len(ts) == 1 else T.tunion(ts)


def frag_const_ok(c):
    """constants the Datalog model has: names, strings, numbers, pairs, lists"""
    k = c[0]
    if k in ("name", "str", "num"):
        return True
    if k == "pair":
        return frag_const_ok(c[1]) and frag_const_ok(c[2])
    if k == "list":
        return all(frag_const_ok(e) for e in c[1])
    return False


def positive(c):
    """the same constant with non-negative numbers ("[-2]" does not lex)"""
    k = c[0]
    if k == "num":
        return T.cnum(abs(c[1]))
    if k == "pair":
        return T.cpair(positive(c[1]), positive(c[2]))
    if k == "list":
        return T.clist([positive(e) for e in c[1]])
    if k in ("map", "struct"):
        return [k, [[positive(a), positive(b)] for a, b in c[1]]]
    return c


def text_ok(c):
    """constants whose surface syntax the parser reads back as the same constant"""
    k = c[0]
    if k in ("name", "str", "num"):
        return True
    if k == "pair":
        return text_ok(c[1]) and text_ok(c[2])
    if k == "list":
        return all(text_ok(e) for e in c[1])
    if k in ("map", "struct"):
        return len(c[1]) > 0 and all(text_ok(a) and text_ok(b) for a, b in c[1]) if k == "map" else \
            all(text_ok(a) and text_ok(b) for a, b in c[1])
    return False


class Gen:
    def __init__(self, rng, wide):
        self.rng, self.wide = rng, wide
        self.env = T.Env(rng, wild=False, tagged=True)
        self.pool = []          # constants generated so far (shared so that joins succeed)

    def ty(self):
        rng = self.rng
        if not self.wide or rng.random() < 0.45:
            return gen_frag_type(rng, rng.choice([0, 1, 1, 2]))
        return T.gen_type(rng, rng.choice([1, 1, 2]), self.env)

    def member(self, t, mix=0.35):
        rng = self.rng
        for _ in range(4):
            if self.pool and rng.random() < mix:
                c = rng.choice(self.pool)
            else:
                c = T.gen_member(rng, t)
            if c is not None:
                c = positive(c)
            if c is not None and mix == 0.0 and "pair" in json.dumps(c):
                continue        # a pair constant in the text gets the bound /any
            if c is not None and text_ok(c) and (self.wide or frag_const_ok(c)):
                if len(self.pool) < 60:
                    self.pool.append(c)
                return c
        return None if mix == 0.0 else T.cnum(rng.choice([0, 1, 7]))

    def near(self, t):
        """a type related to t: itself, something above it, something below or beside it"""
        rng = self.rng
        r = rng.random()
        if r < 0.45:
            return t
        if r < 0.60:
            return T.ANY
        if r < 0.72:
            other = self.ty()
            return T.tunion(T.dedup([t, other])) if t[0] != "union" and other[0] != "union" and t != other else t
        if r < 0.80 and t[0] == "c" and t[1].startswith("/a"):
            return rng.choice([T.NAME, T.tc("/a"), T.tc("/a/b")])
        if r < 0.86 and t[0] == "union" and t[1]:
            return rng.choice(t[1])
        if r < 0.92 and t[0] == "list":
            return T.tlist(self.near(t[1]))
        return self.ty()


def gen_program(rng, wide):
    g = Gen(rng, wide)
    decls, rules, init, pre = {}, [], [], []
    nedb = rng.choice([2, 3, 3, 4])
    nidb = rng.choice([1, 2, 2, 3, 4])
    # extensional predicates
    for i in range(nedb):
        ar = rng.choice([1, 1, 2, 2, 3])
        nrows = rng.choice([1, 1, 1, 2, 2, 3])
        rows = []
        for _ in range(nrows):
            rows.append([g.ty() for _ in range(ar)])
        if rng.random() < 0.08:
            rows = []           # Decl p(X). without bounds
        decls["p%d" % i] = {"arity": ar, "rows": rows}
    preds = list(decls)
    # candidate facts of the extensional predicates. Facts for the caller's store are
    # candidates (the harness keeps the conforming ones); facts in the text are aimed at
    # their row, except in "dirty" programs, which the checker has to reject or get right.
    dirty = rng.random() < 0.2
    for p in preds[:nedb]:
        d = decls[p]
        rows = d["rows"] or [[T.ANY] * d["arity"]]
        for row in rows:
            for _ in range(rng.choice([2, 3, 4])):
                if rng.random() < 0.25 and (dirty or not any("sing" in json.dumps(t) for t in row)):
                    init.append([p, [g.member(t, 0.3 if dirty else 0.0) for t in row]])
                else:
                    pre.append([p, [g.member(t) for t in row]])
        if rng.random() < 0.3:   # a candidate built from the shared pool only: often not conforming
            f = [p, [g.member(T.ANY, 0.9) for _ in range(d["arity"])]]
            (init if dirty and rng.random() < 0.5 else pre).append(f)
    # intensional predicates, each defined from the predicates before it
    for j in range(nidb):
        name = "p%d" % (nedb + j)
        ar = rng.choice([1, 1, 2, 2])
        nrules = rng.choice([1, 1, 2])
        prules, natural = [], [[] for _ in range(ar)]
        for _ in range(nrules):
            r, nat = gen_rule(rng, g, decls, name, ar, wide)
            if r is not None:
                prules.append(r)
                for i in range(ar):
                    natural[i] += nat[i]
        if not prules:
            continue
        # the declaration: per column the natural type, or something near it
        nrows = rng.choice([1, 1, 1, 2])
        rows = []
        for k in range(nrows):
            row = []
            for i in range(ar):
                cands = natural[i] or [T.ANY]
                if nrows == 1 and len(T.dedup(cands)) > 1 and rng.random() < 0.7:
                    base = T.tunion([t for t in T.dedup(cands) if t[0] != "union"] or [T.ANY])
                    if len(base[1]) == 1:
                        base = base[1][0]
                else:
                    base = cands[k % len(cands)] if rng.random() < 0.7 else rng.choice(cands)
                row.append(g.near(base))
            rows.append(row)
        decls[name] = {"arity": ar, "rows": rows}
        rules += prules
        if rng.random() < 0.15 and (dirty or not any("sing" in json.dumps(t) for t in rows[0])):
            # a declared intensional predicate with facts in the text as well
            init.append([name, [g.member(t, 0.3 if dirty else 0.0) for t in rows[0]]])
    init = [f for f in init if all(c is not None for c in f[1])]
    pre = [f for f in pre if all(c is not None for c in f[1])]
    return {"decls": decls, "rules": rules, "init": init, "pre": pre, "wide": wide}


def gen_rule(rng, g, decls, head, ar, wide):
    """One rule for `head`. Returns (rule, natural types per head column)."""
    preds = list(decls)
    nvar = [0]
    vt = {}                     # variable -> list of types it may have (one per row of its first binder)

    def fresh():
        nvar[0] += 1
        return nvar[0] - 1

    body = []
    natoms = rng.choice([1, 1, 2, 2, 3])
    for _ in range(natoms):
        p = rng.choice(preds)
        d = decls[p]
        rows = d["rows"] or [[T.ANY] * d["arity"]]
        args = []
        for i in range(d["arity"]):
            r = rng.random()
            col = [row[i] for row in rows]
            compat = [v for v in vt if all(any(a == b or b == T.ANY for b in col) for a in vt[v])]
            if compat and r < 0.40:
                args.append(["var", rng.choice(compat)])
            elif vt and r < 0.44:
                args.append(["var", rng.choice(list(vt))])        # a join that may be ill-typed
            elif r < 0.50:
                args.append(["c", g.member(rows[0][i], 0.1)])
            else:
                v = fresh()
                vt[v] = [row[i] for row in rows]
                args.append(["var", v])
        body.append(["atom", p, args])
    if not vt:
        return None, None
    bound = list(vt)
    # equalities, inequalities, negations, constructors, accessors
    for _ in range(rng.choice([0, 0, 1, 1, 2])):
        r = rng.random()
        v = rng.choice(bound)
        if r < 0.22:
            w = fresh()
            k = rng.random()
            if k < 0.5:
                elems = [["var", rng.choice(bound)] for _ in range(rng.choice([1, 2]))]
                if rng.random() < 0.3:
                    elems.append(["c", g.member(rng.choice(vt[elems[0][1]]))])
                body.append(["eq", ["var", w], ["app", "fn:list", elems]])
                vt[w] = [T.tlist(T.tunion(T.dedup([t for e in elems if e[0] == "var" for t in vt[e[1]] if t[0] != "union"]) or [T.ANY]))]
                if len(vt[w][0][1][1]) == 1:
                    vt[w] = [T.tlist(vt[w][0][1][1][0])]
            elif k < 0.75:
                c = g.member(rng.choice(vt[v]), 0.1)
                body.append(["eq", ["var", w], ["c", c]] if rng.random() < 0.7 else ["eq", ["c", c], ["var", w]])
                vt[w] = [T.ANY]
            else:
                body.append(["eq", ["var", w], ["var", v]] if rng.random() < 0.5 else ["eq", ["var", v], ["var", w]])
                vt[w] = list(vt[v])
            bound.append(w)
        elif r < 0.36:
            c = g.member(rng.choice(vt[v]), 0.1)
            body.append(["eq", ["var", v], ["c", c]])
        elif r < 0.50:
            other = ["var", rng.choice(bound)] if rng.random() < 0.4 else ["c", g.member(rng.choice(vt[v] + [T.NUMBER]))]
            body.append(["ineq", ["var", v], other])
        elif r < 0.66:
            cands = [p for p in preds if decls[p]["arity"] <= len(bound) + 1]
            if cands:
                p = rng.choice(cands)
                d = decls[p]
                rows = d["rows"] or [[T.ANY] * d["arity"]]
                args = [["var", rng.choice(bound)] if rng.random() < 0.8 else ["c", g.member(rows[0][i])]
                        for i in range(d["arity"])]
                body.append(["neg", p, args])
        elif wide:
            w = fresh()
            k = rng.random()
            if k < 0.2:
                body.append(["eq", ["var", w], ["app", "fn:pair", [["var", v], ["var", rng.choice(bound)]]]])
            elif k < 0.35:
                body.append(["eq", ["var", w], ["app", "fn:list:cons", [["var", v], ["c", T.clist([])]]]])
            elif k < 0.5:
                w2 = fresh()
                body.append(["atom", ":match_pair", [["var", v], ["var", w], ["var", w2]]])
                bound.append(w2)
                vt[w2] = [T.ANY]
            elif k < 0.62:
                w2 = fresh()
                body.append(["atom", ":match_cons", [["var", v], ["var", w], ["var", w2]]])
                bound.append(w2)
                vt[w2] = [T.ANY]
            elif k < 0.75:
                body.append(["atom", ":list:member", [["var", w], ["var", v]]])
            elif k < 0.85:
                body.append(["atom", ":match_field", [["var", v], ["c", T.cname(rng.choice(g.env.fields))], ["var", w]]])
            elif k < 0.93:
                body.append(["eq", ["var", w], ["app", "fn:struct:get", [["var", v], ["c", T.cname(rng.choice(g.env.fields))]]]])
            else:
                body.append(["eq", ["var", w], ["app", "fn:plus", [["var", v], ["c", T.cnum(1)]]]])
            vt[w] = [T.ANY]
            bound.append(w)
    hargs, nat = [], []
    for i in range(ar):
        r = rng.random()
        if r < 0.85:
            v = rng.choice(bound)
            hargs.append(["var", v])
            nat.append(list(vt[v]))
        elif r < 0.93:
            c = g.member(g.ty())
            hargs.append(["c", c])
            nat.append([T.ANY])
        else:
            v = rng.choice(bound)
            hargs.append(["app", "fn:list", [["var", v]]])
            nat.append([T.tlist(t) for t in vt[v] if t[0] != "union"] or [T.ANY])
    return {"head": [head, hargs], "body": body}, nat


# --------------------------------------------- recognising known-finding shapes
def flat(t):
    return [x for y in t[1] for x in flat(y)] if t[0] == "union" else [t]


def may_lose(A, B):
    """symbols.intersectType may under-approximate A /\\ B (finding N92): two different
    structured component types of the same family (list/list, pair/pair, ...)."""
    for a in flat(A):
        for b in flat(B):
            if a != b and a[0] in STRUCTURED and b[0] in STRUCTURED:
                fa = "pair" if a[0] == "tuple" else ("struct" if a[0] == "tagged" else a[0])
                fb = "pair" if b[0] == "tuple" else ("struct" if b[0] == "tagged" else b[0])
                if fa == fb:
                    return True
    return False


def leaf_overlap(a, b):
    """two non-union types may have a common member (conservative: True unless the kinds differ
    or the name prefixes are incomparable)"""
    if a == T.ANY or b == T.ANY or a == b:
        return True

    def kind(t):
        if t[0] == "c":
            return {"/number": "num", "/string": "str", "/float64": "f", "/time": "t", "/duration": "d",
                    "/bytes": "b", "/bot": "bot"}.get(t[1], "name")
        if t[0] == "sing":
            return {"name": "name", "str": "str", "num": "num", "list": "list", "pair": "pair", "map": "map",
                    "struct": "struct"}.get(t[1][0], "?")
        return {"tuple": "pair", "tagged": "struct"}.get(t[0], t[0])

    ka, kb = kind(a), kind(b)
    if ka != kb:
        return False
    if ka == "name" and a[0] == "c" and b[0] == "c" and a != T.NAME and b != T.NAME:
        return (a[1] + "/").startswith(b[1] + "/") or (b[1] + "/").startswith(a[1] + "/")
    return True


def partial_overlap(A, B):
    """The one-variable trigger of N92: the range A of a bound variable and a declared column B have
    common members, at least one is a union, and neither conforms to the other - feasibleAlternatives
    compares fn:Rel(A) with fn:Rel(B) as wholes and calls the row infeasible.  Conservative: conformance
    is decided syntactically on the members (s_leaf_leq), singletons count as not conforming."""
    if A == B or A == T.ANY or B == T.ANY or (A[0] != "union" and B[0] != "union"):
        return False
    if not any(leaf_overlap(x, y) for x in flat(A) for y in flat(B)):
        return False
    return not s_leq(A, B) and not s_leq(B, A)


def n92_shaped(prog):
    """Conservative recogniser of the trigger of N92: a variable met by two typed
    occurrences whose types may intersect without one conforming to the other, or a body
    atom with two already bound variables (the fn:Rel tuples are intersected as a whole)."""
    for r in prog["rules"]:
        seen = {}
        for p in r["body"]:
            if p[0] == "atom" and not p[1].startswith(":") and p[1] in prog["decls"]:
                d = prog["decls"][p[1]]
                rows = d["rows"] or [[T.ANY] * d["arity"]]
                nbound = 0
                for i, a in enumerate(p[2]):
                    if a[0] != "var":
                        continue
                    col = [row[i] for row in rows]
                    if a[1] in seen:
                        if any(x != y for x in seen[a[1]] for y in col):
                            nbound += 1
                        if any(may_lose(x, y) or partial_overlap(x, y) for x in seen[a[1]] for y in col):
                            return True
                    seen.setdefault(a[1], []).extend(col)
                if nbound >= 2:
                    return True
            elif p[0] == "atom":
                for a in p[2]:
                    if a[0] == "var":
                        seen.setdefault(a[1], []).append(T.tlist(T.ANY))   # unknown structured type
                        seen[a[1]].append(T.tpair(T.ANY, T.ANY))
            elif p[0] == "eq":
                for side, other in ((p[1], p[2]), (p[2], p[1])):
                    if side[0] == "var":
                        if other[0] == "app" or (other[0] == "c" and other[1][0] in ("list", "map", "struct", "pair")):
                            if side[1] in seen and any(x[0] in STRUCTURED for y in seen[side[1]] for x in flat(y)):
                                return True
                            seen.setdefault(side[1], []).append(T.tlist(T.ANY))
                        elif other[0] == "var" and other[1] in seen and side[1] in seen:
                            if any(may_lose(x, y) for x in seen[side[1]] for y in seen[other[1]]):
                                return True
    return False


def kinds_of(prog):
    acc = {}
    for d in prog["decls"].values():
        for row in d["rows"]:
            for t in row:
                T.ty_kinds(t, acc)
    return acc


def f7_shaped(prog):
    """maps / structs / tagged unions anywhere in the declarations: conformance on them is
    outside the sound fragment of C12 (findings F7b, F7c, F7f)."""
    k = kinds_of(prog)
    return any(x in k for x in ("map", "struct", "tagged"))


# =============================================================================
# Shapes added after seeding (notes/C11.md, "strengthened after seeding")
#
#  inferred  - UNDECLARED intermediate predicates: the relation type of q is inferred from
#              its clauses (BoundsAnalyzer.inferRelTypes / getOrInferRelTypes, recursion through
#              `visiting`): base clause(s) and recursive clause(s) in every order, linear /
#              reversed / two-step / mutual recursion, unit clauses, a step relation with several
#              bound rows forming a chain t0 -> t1 -> .. -> tL of pairwise disjoint types, an
#              undeclared copy, and a DECLARED consumer admitting the types reachable up to a
#              chosen depth (all of them = sound program; fewer = must be rejected).
#  refine    - a variable bound by an earlier premise with a wide type (/any, no bounds, a union,
#              /name, a prefix), then a premise with several bound rows that refine it differently
#              (addOrRefine on sibling inference states), a head that admits one row's type (any
#              position), all of them, all but one, or the wide type; rows in random order.
#
# Both avoid the triggers of the known findings by construction: only leaf types that are
# pairwise disjoint or ordered by conformance meet (never two types with common members neither
# of which conforms to the other), no modes, no maps/structs.  The verdict is the property's:
# accepted => every stored fact of a declared predicate passes CheckTypeBounds.
S_UNIV = [T.cnum(1), T.cnum(2), T.cstr("s"), T.cstr("t"), T.cname("/a/x"), T.cname("/a/b/c"), T.cname("/b/c"),
          T.cname("/c/d"), T.cname("/x"), T.clist([T.cnum(1)])]
S_DISJ = [T.NUMBER, T.STRING, T.tc("/a"), T.tc("/b"), T.tc("/c"), T.tlist(T.NUMBER)]      # pairwise disjoint
S_TEXT = {json.dumps(T.NUMBER): T.cnum(1), json.dumps(T.STRING): T.cstr("s"), json.dumps(T.tc("/a")): T.cname("/a/x"),
          json.dumps(T.tc("/b")): T.cname("/b/c"), json.dumps(T.tc("/c")): T.cname("/c/d"),
          json.dumps(T.tlist(T.NUMBER)): T.clist([T.cnum(1)])}
V = lambda i: ["var", i]


def s_leaf_leq(a, b):
    if a == b or b == T.ANY:
        return True
    if a[0] == "c" and b[0] == "c" and a[1].startswith("/") and a[1] not in T.BASE:
        return b == T.NAME or (b[1] not in T.BASE and a[1].startswith(b[1] + "/"))
    return False


def s_leq(a, b):
    """conformance on the types the two templates use (leaves of S_DISJ, /name, /a/b, /any, unions)"""
    return all(any(s_leaf_leq(x, y) for y in flat(b)) for x in flat(a))


def s_meet(a, b):
    """a /\ b on template types: one of the two (they are ordered) or None (disjoint)"""
    if s_leq(a, b):
        return a
    if s_leq(b, a):
        return b
    return None


def univ_pre(decls, names):
    pre = []
    for p in names:
        for tup in itertools.product(S_UNIV, repeat=decls[p]["arity"]):
            pre.append([p, list(tup)])
    return pre


def rows_for(types, as_union):
    types = T.dedup(types)
    if as_union and len(types) > 1 and all(t[0] != "union" for t in types):
        return [[T.tunion(types)]]
    return [[t] for t in types]


def mk_inferred(chain, srows, split, base_forms, rec_form, order, copy, admitted, as_union, cons_form, ids,
                filt=None, extra_base=None, relative=None):
    """One program of the `inferred` family.  chain: types t0..tL; srows: rows of the step relation
    (already ordered, each [from, to]); split: None or the index at which the rows are divided over two
    step relations; base_forms: subset of {"atom","unit"}; rec_form: qs | sq | qss | mutual; order:
    permutation (list of indices) of q's clauses; copy: consumer reads an undeclared copy of q;
    admitted: the types the consumer's declaration admits; cons_form: copy | filter | neg."""
    nm = lambda i: "p%d" % ids[i]
    b, s, s2, q, w, m, r, f = (nm(i) for i in range(8))
    decls = {b: {"arity": 1, "rows": [[chain[0]]] + ([[extra_base]] if extra_base is not None else [])}}
    steps = [(s, srows)] if split is None else [(s, srows[:split]), (s2, srows[split:])]
    for name, rows in steps:
        decls[name] = {"arity": 2, "rows": rows}
    qrules, other, init = [], [], []
    if "atom" in base_forms:
        qrules.append({"head": [q, [V(0)]], "body": [["atom", b, [V(0)]]]})
    if "unit" in base_forms:
        init.append([q, [S_TEXT[json.dumps(chain[0])]]])
    for name, _ in steps:
        if rec_form == "qs":
            qrules.append({"head": [q, [V(0)]], "body": [["atom", q, [V(1)]], ["atom", name, [V(1), V(0)]]]})
        elif rec_form == "sq":
            qrules.append({"head": [q, [V(0)]], "body": [["atom", name, [V(1), V(0)]], ["atom", q, [V(1)]]]})
        elif rec_form == "qss":
            qrules.append({"head": [q, [V(0)]], "body": [["atom", q, [V(1)]], ["atom", name, [V(1), V(0)]]]})
            qrules.append({"head": [q, [V(0)]], "body": [["atom", q, [V(1)]], ["atom", name, [V(1), V(2)]],
                                                          ["atom", name, [V(2), V(0)]]]})
        else:
            qrules.append({"head": [q, [V(0)]], "body": [["atom", w, [V(0)]]]})
            other.append({"head": [w, [V(0)]], "body": [["atom", q, [V(1)]], ["atom", name, [V(1), V(0)]]]})
    if relative is not None:
        # one more base clause whose type is above / below a chain type (alternatives that conform to each other)
        g = nm(8)
        decls[g] = {"arity": 1, "rows": [[relative]]}
        qrules.append({"head": [q, [V(0)]], "body": [["atom", g, [V(0)]]]})
    qrules = [qrules[i] for i in order if i < len(qrules)]
    src = q
    undecl = {q: 1}
    if rec_form == "mutual":
        undecl[w] = 1
    if copy:
        other.append({"head": [m, [V(0)]], "body": [["atom", q, [V(0)]]]})
        src = m
        undecl[m] = 1
    decls[r] = {"arity": 1, "rows": rows_for(admitted, as_union)}
    if cons_form == "filter":
        decls[f] = {"arity": 1, "rows": [[t] for t in filt]}
        cons = {"head": [r, [V(0)]], "body": [["atom", src, [V(0)]], ["atom", f, [V(0)]]]}
    elif cons_form == "neg":
        decls[f] = {"arity": 1, "rows": [[t] for t in filt]}
        cons = {"head": [r, [V(0)]], "body": [["atom", f, [V(0)]], ["neg", src, [V(0)]]]}
    else:
        cons = {"head": [r, [V(0)]], "body": [["atom", src, [V(0)]]]}
    edb = [p for p in decls if p != r]
    return {"decls": decls, "rules": qrules + other + [cons], "init": init, "pre": univ_pre(decls, edb),
            "undecl": undecl}


def mk_inferred_tc(chain, srows, reverse, order, copy, admitted_rows, ids, unit=False):
    """Transitive closure through an undeclared binary predicate:
    q(X,Y) :- s(X,Y).  q(X,Z) :- q(X,Y), s(Y,Z).  r(X,Z) :- q(X,Z).   (reverse: s(Y,Z), q(X,Y))"""
    nm = lambda i: "p%d" % ids[i]
    s, q, m, r = nm(1), nm(3), nm(5), nm(6)
    decls = {s: {"arity": 2, "rows": srows}}
    rec = [["atom", q, [V(0), V(1)]], ["atom", s, [V(1), V(2)]]]
    qrules = [{"head": [q, [V(0), V(1)]], "body": [["atom", s, [V(0), V(1)]]]},
              {"head": [q, [V(0), V(2)]], "body": rec[::-1] if reverse else rec}]
    qrules = [qrules[i] for i in order if i < 2]
    init = [[q, [S_TEXT[json.dumps(chain[0])], S_TEXT[json.dumps(chain[1])]]]] if unit else []
    other, src, undecl = [], q, {q: 2}
    if copy:
        other.append({"head": [m, [V(0), V(1)]], "body": [["atom", q, [V(0), V(1)]]]})
        src = m
        undecl[m] = 2
    decls[r] = {"arity": 2, "rows": admitted_rows}
    cons = {"head": [r, [V(0), V(1)]], "body": [["atom", src, [V(0), V(1)]]]}
    return {"decls": decls, "rules": qrules + other + [cons], "init": init, "pre": univ_pre(decls, [s]), "undecl": undecl}


def gen_inferred_tc(rng):
    L = rng.choice([2, 3, 3, 4])
    chain = rng.sample(S_DISJ, L + 1)
    srows = [[chain[i], chain[i + 1]] for i in range(L)]
    rng.shuffle(srows)
    d = rng.choice([1, 2, 2, L])
    r = rng.random()
    if r < 0.4:        # what the unchanged checker infers at best: the first column stays /any in the recursive clause
        admitted = [[chain[i], chain[i + 1]] for i in range(L)] + [[T.ANY, chain[j]] for j in range(2, L + 1)]
    elif r < 0.5:
        admitted = [[T.ANY, T.ANY]]
    else:              # the pairs within distance d (never enough for the unchanged checker)
        admitted = [[chain[i], chain[j]] for i in range(L) for j in range(i + 1, min(L, i + d) + 1)]
    order = [0, 1] if rng.random() < 0.5 else [1, 0]
    prog = mk_inferred_tc(chain, srows, rng.random() < 0.4, order, rng.random() < 0.2, admitted, rng.sample(range(40), 8),
                          unit=rng.random() < 0.15)
    prog["stream"] = "inferred"
    return prog


def gen_inferred(rng):
    if rng.random() < 0.15:
        return gen_inferred_tc(rng)
    L = rng.choice([2, 2, 3, 3, 4])
    chain = rng.sample(S_DISJ, L + 1)
    srows = [[chain[i], chain[i + 1]] for i in range(L)]
    rest = [t for t in S_DISJ if t not in chain]
    if rest and rng.random() < 0.3:
        srows.append([rng.choice(rest), rng.choice(S_DISJ)])         # a row the recursion never reaches
    if rng.random() < 0.15:
        srows.append([chain[L], chain[0]])                          # the chain closes
    rng.shuffle(srows)
    split = rng.randrange(1, len(srows)) if rng.random() < 0.25 else None
    base_forms = rng.choice([["atom"], ["atom"], ["atom"], ["unit"], ["atom", "unit"]])
    rec_form = rng.choice(["qs", "qs", "sq", "qss", "mutual"])
    order = list(range(7))
    rng.shuffle(order)
    r = rng.random()
    if r < 0.35:
        d = L
    elif r < 0.62:
        d = 1
    elif r < 0.72:
        d = 0
    else:
        d = rng.randrange(0, L + 1)
    admitted = chain[:d + 1]
    if rng.random() < 0.08:
        admitted = [T.ANY]
    if rng.random() < 0.15:
        admitted = admitted + [rng.choice(S_DISJ)]
    cons_form = rng.choice(["copy", "copy", "copy", "filter", "neg"])
    filt = rng.sample(S_DISJ, rng.choice([1, 2, 3])) if cons_form != "copy" else None
    if cons_form == "filter" and rng.random() < 0.6:
        filt = T.dedup(filt + admitted[:1])
    extra_base = rng.choice(chain[1:]) if rng.random() < 0.12 else None
    relative = None
    if rng.random() < 0.2:
        names = [t for t in chain if t[0] == "c" and t[1] in ("/a", "/b", "/c")]
        relative = rng.choice([T.NAME, T.tc(names[0][1] + "/b"), T.ANY] if names else [T.ANY, T.NAME])
        if d == L and rng.random() < 0.5:
            admitted = admitted + [relative]
    ids = rng.sample(range(40), 9)
    prog = mk_inferred(chain, srows, split, base_forms, rec_form, order, rng.random() < 0.25, admitted,
                       rng.random() < 0.3 and relative is None, cons_form, ids, filt, extra_base, relative)
    prog["stream"] = "inferred"
    return prog


def wide_sets(kind, rng):
    """the wide type W of the binder and the column types that conform to it (le), that it conforms to
    (ge), and that are disjoint from it; at most one union below W (two could overlap partially)"""
    if kind in ("any", "nobounds"):
        return T.ANY, S_DISJ + [T.NAME, T.tc("/a/b"), T.tunion([T.NUMBER, T.STRING])], [T.ANY], []
    if kind == "name":
        return T.NAME, [T.tc("/a"), T.tc("/b"), T.tc("/c"), T.tc("/a/b")], [T.ANY, T.tunion([T.NAME, T.NUMBER])], \
            [T.NUMBER, T.STRING, T.tlist(T.NUMBER)]
    if kind == "prefix":
        return T.tc("/a"), [T.tc("/a/b")], [T.NAME, T.ANY, T.tunion([T.tc("/a"), T.NUMBER])], \
            [T.tc("/b"), T.tc("/c"), T.NUMBER, T.STRING]
    ts = rng.sample(S_DISJ, rng.choice([2, 3, 3, 4]))
    le = list(ts) + ([T.tc("/a/b")] if T.tc("/a") in ts else [])
    if len(ts) >= 3:
        le.append(T.tunion(rng.sample(ts, 2)))
    rest = [t for t in S_DISJ if t not in ts]
    return T.tunion(ts), le, [T.ANY] + ([T.tunion(ts + [rest[0]])] if rest else []), rest


def mk_refine(wides, mrows_list, head_rows, ids, nobounds=False, filler=None, via_copy=False, head_perm=None):
    """wides: the binder's row (one wide type per variable); mrows_list: for each refining premise its
    bound rows (one column per variable, plus optional trailing columns bound to fresh variables);
    head_rows: declared rows of the head (over the binder's variables)."""
    nm = lambda i: "p%d" % ids[i]
    a, h, n, w = nm(0), nm(1), nm(2), nm(3)
    nv = len(wides)
    decls = {a: {"arity": nv, "rows": [] if nobounds else [list(wides)]}}
    body = [["atom", a, [V(i) for i in range(nv)]]]
    rules, undecl = [], {}
    if via_copy:
        rules.append({"head": [w, [V(i) for i in range(nv)]], "body": body})
        body = [["atom", w, [V(i) for i in range(nv)]]]
        undecl[w] = nv
    if filler == "ineq":
        body.append(["ineq", V(0), ["c", T.cnum(1)]])
    elif filler == "neg":
        decls[n] = {"arity": 1, "rows": [[T.ANY]]}
        body.append(["neg", n, [V(0)]])
    fresh = nv
    for k, (mrows, pos) in enumerate(mrows_list):
        name = nm(4 + k)
        ar = len(mrows[0])
        decls[name] = {"arity": ar, "rows": mrows}
        args = [None] * ar
        for i in range(nv):
            args[pos[i]] = V(i)
        for j in range(ar):
            if args[j] is None:
                args[j] = V(fresh)
                fresh += 1
        body.append(["atom", name, args])
    hp = head_perm or list(range(nv))
    decls[h] = {"arity": nv, "rows": [[row[i] for i in hp] for row in head_rows]}
    rules.append({"head": [h, [V(i) for i in hp]], "body": body})
    edb = [p for p in decls if p != h]
    return {"decls": decls, "rules": rules, "init": [], "pre": univ_pre(decls, edb), "undecl": undecl}


def gen_refine(rng):
    nv = 1 if rng.random() < 0.7 else 2
    kinds = [rng.choice(["any", "any", "nobounds", "union", "union", "name", "prefix"]) for _ in range(nv)]
    if "nobounds" in kinds:
        kinds = ["nobounds"] * nv
    sets = [wide_sets(k, rng) for k in kinds]
    wides = [s[0] for s in sets]
    nref = 1 if nv == 2 or rng.random() < 0.75 else 2
    mrows_list, states = [], [list(wides)]
    for _ in range(nref):
        rows, refined = [], []
        for _ in range(rng.choice([2, 2, 3, 3, 4])):
            direction = rng.choice(["le", "le", "le", "ge"])
            row = []
            for i in range(nv):
                W, le, ge, dis = sets[i]
                row.append(rng.choice(le) if direction == "le" and rng.random() < 0.85 else
                           (rng.choice(ge) if direction == "ge" and rng.random() < 0.7 else W))
            if rng.random() < 0.15:
                i = rng.randrange(nv)
                if sets[i][3]:
                    row[i] = rng.choice(sets[i][3])          # an infeasible row
            rows.append(row)
        rows = T.dedup(rows)
        # columns in the premise: the variables, optionally an extra fresh column
        extra = rng.random() < 0.25
        ar = nv + (1 if extra else 0)
        pos = rng.sample(range(ar), nv)
        full = []
        for row in rows:
            cols = [None] * ar
            for i in range(nv):
                cols[pos[i]] = row[i]
            full.append([c if c is not None else rng.choice(S_DISJ) for c in cols])
        mrows_list.append((full, pos))
        nxt = []
        for st in states:
            for row in rows:
                met = [s_meet(st[i], row[i]) for i in range(nv)]
                if all(x is not None for x in met):
                    nxt.append(met)
        states = nxt
    finals = T.dedup(states)
    r = rng.random()
    if not finals:
        head_rows = [list(wides)]
    elif r < 0.45:
        head_rows = [rng.choice(finals)]
    elif r < 0.75:
        head_rows = list(finals)
        rng.shuffle(head_rows)
    elif r < 0.85 and len(finals) > 1:
        head_rows = list(finals)
        head_rows.pop(rng.randrange(len(head_rows)))
    elif r < 0.95:
        head_rows = [list(wides)]
    else:
        head_rows = [[T.ANY] * nv]
    if nv == 1 and len(head_rows) > 1 and rng.random() < 0.25 and all(x[0][0] != "union" for x in head_rows):
        head_rows = [[T.tunion([x[0] for x in head_rows])]]
    hp = list(range(nv))
    rng.shuffle(hp)
    prog = mk_refine(wides, mrows_list, head_rows, rng.sample(range(40), 8), nobounds="nobounds" in kinds,
                     filler=rng.choice([None, None, None, "ineq", "neg"]), via_copy=rng.random() < 0.15, head_perm=hp)
    prog["stream"] = "refine"
    return prog


# =============================================================================
# Shapes added after the second round of seeding (notes/C11.md, "Strengthened after seeding, round 2")
#
#  structs   - a declared predicate whose bound is a STRUCT type with required and OPTIONAL fields (nested structs
#              included, fn:Struct(..) and .Struct<..> syntax), and every way the program can supply a struct value
#              for it: a base fact in the text, a struct literal / fn:struct(..) in the head, `S = {..}` in the
#              body, a copy from another declared struct predicate (same field names, each field required or
#              optional, same / narrower / wider / disjoint field types), an undeclared intermediate predicate
#              (rule or unit clause).  Per field the supplied type conforms to the declared one or does not (one
#              wrong field: required or optional, top level or nested).  Every supplied value has EXACTLY the declared
#              field names (required and optional together), so the trigger of F7c (struct width: field-name sets
#              differ) never occurs; no struct-typed variable is typed twice (N92).
#  basefacts - two to four DECLARED predicates with base facts in the text whose argument-type tuples coincide
#              across predicates ("heavy" / "12"), each fact well typed for its own declaration or not, several
#              facts per predicate (the ill-typed one first / in the middle / last), facts and declarations in
#              every textual order, predicate numbers drawn at random; optionally a consumer rule, a predicate with
#              facts AND a rule, an undeclared predicate with facts of the same shape.  Inside the fragment of
#              bounds_sound_partial: every program also goes through the model (Run/C11.judge).
#
# The verdict is the property's: accepted => every stored fact of a declared predicate passes CheckTypeBounds.
def tkey(t):
    return json.dumps(t)


ST_FIELDS = ["/id", "/note", "/tag"]
ST_NS = T.tunion([T.NUMBER, T.STRING])
# declared leaf -> (supplied types that conform to it, supplied types that do not)
ST_REL = {tkey(k): v for k, v in [
    (T.NUMBER, ([T.NUMBER], [T.STRING, T.tc("/a"), T.ANY, ST_NS, T.tlist(T.NUMBER)])),
    (T.STRING, ([T.STRING], [T.NUMBER, T.tc("/b"), T.ANY, ST_NS])),
    (T.tc("/a"), ([T.tc("/a")], [T.tc("/b"), T.NAME, T.NUMBER, T.ANY])),
    (T.NAME, ([T.NAME, T.tc("/a"), T.tc("/b")], [T.NUMBER, T.STRING, T.ANY])),
    (T.ANY, ([T.NUMBER, T.STRING, T.tc("/a"), T.ANY, T.tlist(T.NUMBER)], [])),
    (ST_NS, ([T.NUMBER, T.STRING, ST_NS], [T.tc("/a"), T.ANY, T.tlist(T.NUMBER)])),
    (T.tlist(T.NUMBER), ([T.tlist(T.NUMBER)], [T.tlist(T.STRING), T.NUMBER, T.ANY])),
]}
ST_DECL_LEAVES = [T.NUMBER, T.NUMBER, T.STRING, T.STRING, T.tc("/a"), T.NAME, T.ANY, ST_NS, T.tlist(T.NUMBER)]
# members offered for a supplied leaf type (the first ones are written in the text when a constant is wanted)
ST_MEM = {tkey(k): v for k, v in [
    (T.NUMBER, [T.cnum(1), T.cnum(2)]), (T.STRING, [T.cstr("s"), T.cstr("t")]),
    (T.tc("/a"), [T.cname("/a/x"), T.cname("/a/y")]), (T.tc("/b"), [T.cname("/b/c")]),
    (T.NAME, [T.cname("/x"), T.cname("/a/x"), T.cname("/b/c")]),
    (T.ANY, [T.cstr("s"), T.cnum(1), T.cname("/x"), T.clist([T.cnum(1)])]),
    (ST_NS, [T.cnum(1), T.cstr("s")]), (T.tlist(T.NUMBER), [T.clist([T.cnum(1)]), T.clist([T.cnum(1), T.cnum(2)])]),
    (T.tlist(T.STRING), [T.clist([T.cstr("s")])]),
]}


def gen_st_type(rng, depth=1, nf=None):
    """a struct type over a sample of ST_FIELDS, each field required or optional, a leaf or (rarely) a nested struct"""
    names = rng.sample(ST_FIELDS, nf or rng.choice([1, 2, 2, 2, 3]))
    req, opt = [], []
    for f in names:
        t = gen_st_type(rng, depth - 1, rng.choice([1, 2])) if depth > 0 and rng.random() < 0.15 else rng.choice(ST_DECL_LEAVES)
        (opt if rng.random() < 0.5 else req).append([f, t])
    return T.tstruct(req, opt)


def st_vary(rng, t, ok):
    """a type with the field names of t that conforms to t (ok) or differs in one field so that it does not.
    Returns (type, ok actually achieved)."""
    if t[0] != "struct":
        good, bad = ST_REL[tkey(t)]
        if ok or not bad:
            return rng.choice(good), True
        return rng.choice(bad), False
    fields = [(f, x, False) for f, x in t[1]] + [(f, x, True) for f, x in t[2]]
    wrong = None if ok else rng.randrange(len(fields))
    keep = rng.random() < 0.5           # keep every flag (an optional field supplied as required is always fine for the checker)
    req, opt, achieved = [], [], True
    for i, (f, x, is_opt) in enumerate(fields):
        s, good = st_vary(rng, x, i != wrong)
        achieved = achieved and good
        flag = (is_opt and rng.random() < 0.5) if keep else (rng.random() < 0.4)
        (opt if flag else req).append([f, s])
    rng.shuffle(req)
    return T.tstruct(req, opt), achieved


def st_members(rng, s, n=2):
    """constants offered as members of the supplied type s (every field present)"""
    if s[0] != "struct":
        ms = ST_MEM[tkey(s)]
        return ms[:n] if s != T.ANY else rng.sample(ms, n)
    out = []
    for k in range(n):
        es = []
        for f, x in s[1] + s[2]:
            ms = st_members(rng, x, 2)
            es.append([T.cname(f), ms[k % len(ms)]])
        rng.shuffle(es)
        out.append(T.cstruct(es))
    return out


def st_const(rng, t, ok):
    """a constant for the text with exactly the fields of t: a member of t (ok), or wrong in one field"""
    if t[0] != "struct":
        s, good = st_vary(rng, t, ok)
        return rng.choice(st_members(rng, s, 2)), good
    fields = t[1] + t[2]
    wrong = None if ok else rng.randrange(len(fields))
    es, achieved = [], True
    for i, (f, x) in enumerate(fields):
        c, good = st_const(rng, x, i != wrong)
        achieved = achieved and good
        es.append([T.cname(f), c])
    rng.shuffle(es)
    return T.cstruct(es), achieved


class StCtx:
    def __init__(self):
        self.cols = []          # type of the source column that binds variable i

    def newvar(self, s):
        self.cols.append(s)
        return ["var", len(self.cols) - 1]


def st_supply(rng, t, ok, ctx, lit, top_var=False):
    """a term supplying a value for the declared type t: struct literals (every declared field, shuffled) over
    variables bound by a source predicate whose columns have the chosen types, constants, or a variable of a
    struct-typed source column.  Returns (term, ok actually achieved)."""
    if t[0] != "struct":
        s, good = st_vary(rng, t, ok)
        if rng.random() < 0.3:
            return ["c", rng.choice(st_members(rng, s, 2))], good
        return ctx.newvar(s), good
    if top_var or rng.random() < 0.2:
        s, good = st_vary(rng, t, ok)
        return ctx.newvar(s), good
    fields = t[1] + t[2]
    wrong = None if ok else rng.randrange(len(fields))
    parts, achieved = [], True
    for i, (f, x) in enumerate(fields):
        e, good = st_supply(rng, x, i != wrong, ctx, lit)
        achieved = achieved and good
        parts.append([["c", T.cname(f)], e])
    rng.shuffle(parts)
    return ["app", "{}" if lit else "fn:struct", [y for p in parts for y in p]], achieved


def mk_structs(t, form, term, cols, ids, extra_row=None, facts=(), unit=None, arity2=None, dot=False, pre_cap=36, rng=None):
    """form: fact | head | eq | eqrev | copy | undecl | unit-undecl.  t: the declared struct type of `item`;
    term: the supplied term (rule forms); cols: column types of the source predicate (variable i = column i);
    facts: struct constants written as base facts of item; unit: constant of the undeclared unit clause."""
    nm = lambda i: "p%d" % ids[i]
    item, src, q = nm(0), nm(1), nm(2)
    rows = [[t]] + ([[extra_row]] if extra_row is not None else [])
    hargs = None
    cols = list(cols)
    if arity2 is not None:
        # a second, plain column of item (position arity2), bound by one more source column
        rows = [([T.NUMBER] + r) if arity2 == 0 else (r + [T.NUMBER]) for r in rows]
        cols.append(T.NUMBER)
    decls = {item: {"arity": len(rows[0]), "rows": rows}}
    rules, undecl, init, pre = [], {}, [], []
    extra = ["var", len(cols) - 1]
    wrap = lambda x: [x] if arity2 is None else ([extra, x] if arity2 == 0 else [x, extra])
    wrapc = lambda c: [c] if arity2 is None else ([T.cnum(7), c] if arity2 == 0 else [c, T.cnum(7)])
    if form not in ("fact", "unit-undecl"):
        if not cols:
            cols = [T.NUMBER]
        decls[src] = {"arity": len(cols), "rows": [list(cols)]}
        body = [["atom", src, [V(i) for i in range(len(cols))]]]
        fresh = V(len(cols))
        if form == "head":
            rules.append({"head": [item, wrap(term)], "body": body})
        elif form in ("eq", "eqrev"):
            eq = ["eq", fresh, term] if form == "eq" else ["eq", term, fresh]
            rules.append({"head": [item, wrap(fresh)], "body": body + [eq]})
        elif form == "copy":
            rules.append({"head": [item, wrap(term)], "body": body})
        elif form == "undecl":
            rules.append({"head": [q, wrap(term)], "body": body})
            rules.append({"head": [item, [V(i) for i in range(len(rows[0]))]],
                          "body": [["atom", q, [V(i) for i in range(len(rows[0]))]]]})
            undecl[q] = len(rows[0])
        # candidates for the source predicate: members of each column type (and one constant beside it)
        per = [T.dedup(st_members(rng, s, 2) + ([T.cnum(2)] if s[0] != "struct" and rng.random() < 0.3 else [])) for s in cols]
        tuples = list(itertools.islice(itertools.product(*per), 400))
        if len(tuples) > pre_cap:
            tuples = rng.sample(tuples, pre_cap)
        pre = [[src, list(tp)] for tp in tuples]
    elif form == "unit-undecl":
        init.append([q, wrapc(unit)])
        rules.append({"head": [item, [V(i) for i in range(len(rows[0]))]],
                      "body": [["atom", q, [V(i) for i in range(len(rows[0]))]]]})
        undecl[q] = len(rows[0])
    init += [[item, wrapc(c)] for c in facts]
    return {"decls": decls, "rules": rules, "init": init, "pre": pre, "undecl": undecl, "dot": dot, "stream": "structs"}


def gen_structs(rng):
    t = gen_st_type(rng, 1)
    form = rng.choice(["fact", "fact", "head", "head", "eq", "eq", "eqrev", "copy", "copy", "copy", "undecl", "unit-undecl"])
    ok = rng.random() < 0.4
    ctx, term, unit, facts = StCtx(), None, None, []
    if form == "fact":
        n = rng.choice([1, 1, 2, 3])
        wrong = None if ok else rng.randrange(n)
        facts = [st_const(rng, t, k != wrong)[0] for k in range(n)]
    elif form == "unit-undecl":
        unit = st_const(rng, t, ok)[0]
    else:
        term, _ = st_supply(rng, t, ok, ctx, rng.random() < 0.6, top_var=form == "copy")
        if form == "eqrev" and term[0] == "var":
            form = "eq"                                   # `V0 = V1` does not bind V1
        if rng.random() < 0.2:
            facts = [st_const(rng, t, True)[0]]          # a predicate with a rule and a base fact
    extra_row = None
    r = rng.random()
    if r < 0.12:
        extra_row = T.STRING
    elif r < 0.25:
        extra_row = st_vary(rng, t, False)[0]
    arity2 = rng.choice([0, 1]) if rng.random() < 0.2 else None
    prog = mk_structs(t, form, term, ctx.cols, rng.sample(range(40), 3), extra_row, facts, unit, arity2,
                      dot=rng.random() < 0.4, rng=rng)
    # struct CONSTANTS and fn:struct are outside the Datalog model; a struct-typed variable copied from a declared
    # predicate is inside it (the struct case of the conformance model of C12 decides)
    prog["modelable"] = term is not None and term[0] == "var" and not facts
    return prog


BF_TYPES = [T.NUMBER, T.STRING, T.tc("/a"), T.tc("/b"), T.tlist(T.NUMBER)]
BF_CONSTS = {tkey(k): v for k, v in [
    (T.NUMBER, [T.cnum(1), T.cnum(2), T.cnum(12)]), (T.STRING, [T.cstr("s"), T.cstr("heavy"), T.cstr("12")]),
    (T.tc("/a"), [T.cname("/a/x"), T.cname("/a/y")]), (T.tc("/b"), [T.cname("/b/c"), T.cname("/b/d")]),
    (T.tlist(T.NUMBER), [T.clist([T.cnum(1)]), T.clist([T.cnum(2), T.cnum(3)])]),
]}


def bf_wider(rng, t):
    """a declared column type that admits the members of the leaf t"""
    r = rng.random()
    if r < 0.6:
        return t
    if r < 0.7:
        return T.ANY
    if r < 0.8 and t in (T.tc("/a"), T.tc("/b")):
        return T.NAME
    others = [x for x in BF_TYPES if x != t]
    return T.tunion([t, rng.choice(others)] if rng.random() < 0.5 else [rng.choice(others), t])


def mk_basefacts(decls_in_order, facts_in_order, rules=(), undecl=None):
    """decls_in_order: [(name, arity, rows)]; facts_in_order: [(name, [constants])] in their textual order"""
    decls = {p: {"arity": ar, "rows": rows} for p, ar, rows in decls_in_order}
    return {"decls": decls, "rules": list(rules), "init": [[p, list(cs)] for p, cs in facts_in_order], "pre": [],
            "undecl": dict(undecl or {}), "stream": "basefacts"}


def gen_basefacts(rng):
    ar = 1 if rng.random() < 0.6 else 2
    npred = rng.choice([2, 2, 3, 3, 4])
    shapes = T.dedup([[rng.choice(BF_TYPES) for _ in range(ar)] for _ in range(rng.choice([1, 2, 2, 3]))])
    ids = rng.sample(range(40), npred + 3)
    nbad = rng.choice([0, 0, 0, 0, 0, 1, 1, 1, 1, 2])
    bad_preds = set(rng.sample(range(npred), min(nbad, npred)))
    decl_list, facts = [], []
    for k in range(npred):
        name = "p%d" % ids[k]
        mine = [rng.choice(shapes) for _ in range(rng.choice([1, 2, 2, 3]))]
        wrong = rng.choice(mine) if k in bad_preds else None
        admitted = T.dedup([s for s in mine if s != wrong])
        if not admitted:
            # the declaration is about another tuple: it differs from the fact's types in at least one column
            alt = list(wrong)
            i = rng.randrange(ar)
            alt[i] = rng.choice([x for x in BF_TYPES if x != wrong[i]])
            admitted = [alt]
        if len(admitted) > 1 and ar == 1 and rng.random() < 0.3:
            rows = [[T.tunion([s[0] for s in admitted])]]
        elif wrong is None and rng.random() < 0.05:
            rows = []
        else:
            # exact types where an ill-typed fact must stay outside every row
            rows = [[(bf_wider(rng, x) if wrong is None else x) for x in s] for s in admitted]
            rng.shuffle(rows)
        decl_list.append((name, ar, rows))
        for s in mine:
            facts.append((name, [rng.choice(BF_CONSTS[tkey(x)]) for x in s]))
    rules, undecl = [], {}
    r = rng.random()
    if r < 0.3:
        # a declared consumer with the rows of its source (sound)
        p, _, rows = rng.choice(decl_list)
        name = "p%d" % ids[npred]
        decl_list.append((name, ar, [list(x) for x in rows]))
        rules.append({"head": [name, [V(i) for i in range(ar)]], "body": [["atom", p, [V(i) for i in range(ar)]]]})
    elif r < 0.45:
        # an undeclared predicate with a base fact of one of the shapes and a rule; a declared consumer
        s = rng.choice(shapes)
        u, name = "p%d" % ids[npred], "p%d" % ids[npred + 1]
        p, _, prows = rng.choice(decl_list)
        undecl[u] = ar
        facts.append((u, [rng.choice(BF_CONSTS[tkey(x)]) for x in s]))
        rules.append({"head": [u, [V(i) for i in range(ar)]], "body": [["atom", p, [V(i) for i in range(ar)]]]})
        crow = [list(s)] + [list(x) for x in prows] if rng.random() < 0.6 else [list(x) for x in prows] or [list(s)]
        decl_list.append((name, ar, T.dedup(crow)))
        rules.append({"head": [name, [V(i) for i in range(ar)]], "body": [["atom", u, [V(i) for i in range(ar)]]]})
    elif r < 0.55 and npred >= 2:
        # a predicate with base facts AND a rule copying another predicate's facts
        (p, _, prows), (o, _, orows) = rng.sample(decl_list, 2)
        rules.append({"head": [p, [V(i) for i in range(ar)]], "body": [["atom", o, [V(i) for i in range(ar)]]]})
    rng.shuffle(facts)
    rng.shuffle(decl_list)
    return mk_basefacts(decl_list, facts, rules, undecl)


def exhaustive_round2(rng):
    """(f) structs: fields /id, /note; each declared required / optional; declared and supplied field types from
    {/number, /string}; supplied as a base fact, a struct literal in the head, `S = {..}`, or a copy from a declared
    predicate whose struct type has each field required / optional.  (g) basefacts: two unary declared predicates,
    each declared /number, /string or /a, with 1+1, 2+1 or 1+2 base facts drawn from {1, "s", /a/x} in EVERY textual
    order, the first predicate sorted before / after the second."""
    progs = []
    two = [T.NUMBER, T.STRING]
    mem = {tkey(T.NUMBER): T.cnum(1), tkey(T.STRING): T.cstr("s")}
    for opt_id in (False, True):
        for opt_note in (False, True):
            for d_id in two:
                for d_note in two:
                    fs = [["/id", d_id, opt_id], ["/note", d_note, opt_note]]
                    t = T.tstruct([[f, x] for f, x, o in fs if not o], [[f, x] for f, x, o in fs if o])
                    for s_id in two:
                        for s_note in two:
                            c = T.cstruct([[T.cname("/note"), mem[tkey(s_note)]], [T.cname("/id"), mem[tkey(s_id)]]])
                            progs.append(mk_structs(t, "fact", None, [], [0, 1, 2], facts=[c], rng=rng))
                            lit = ["app", "{}", [["c", T.cname("/note")], V(1), ["c", T.cname("/id")], V(0)]]
                            progs.append(mk_structs(t, "head", lit, [s_id, s_note], [0, 1, 2], rng=rng, dot=True))
                            progs.append(mk_structs(t, "eq", lit, [s_id, s_note], [0, 1, 2], rng=rng))
                            for so_id in (False, True):
                                for so_note in (False, True):
                                    ss = [["/id", s_id, so_id], ["/note", s_note, so_note]]
                                    s = T.tstruct([[f, x] for f, x, o in ss if not o], [[f, x] for f, x, o in ss if o])
                                    progs.append(mk_structs(t, "copy", V(0), [s], [0, 1, 2], rng=rng))
                                    progs[-1]["modelable"] = True
    three = [T.NUMBER, T.STRING, T.tc("/a")]
    consts = [T.cnum(1), T.cstr("s"), T.cname("/a/x")]
    for d0 in three:
        for d1 in three:
            for n0, n1 in ((1, 1), (2, 1), (1, 2)):
                for f0 in itertools.combinations(consts, n0):
                    for f1 in itertools.combinations(consts, n1):
                        facts = [("A", [c]) for c in f0] + [("B", [c]) for c in f1]
                        for order in itertools.permutations(facts):
                            for a, b in (("p0", "p1"), ("p1", "p0")):
                                if (a, b) == ("p1", "p0") and (n0, n1) != (1, 1):
                                    continue
                                nm = {"A": a, "B": b}
                                progs.append(mk_basefacts([(a, 1, [[d0]]), (b, 1, [[d1]])],
                                                          [(nm[p], cs) for p, cs in order]))
    return progs


# --------------------------------------------------------------------- probes
PROBES = {
    "N92": [
        {"src": "Decl p(X) bound [fn:List(/number)] bound [/string].\nDecl q(X) bound [fn:List(/string)] bound [/string].\n"
                "Decl r(X) bound [/string].\nr(X) :- p(X), q(X).\n", "pre": "p([]). q([])."},
        {"src": "Decl p(X) bound [fn:Pair(/number,/any)] bound [/string].\nDecl q(X) bound [fn:Pair(/any,/string)] bound [/string].\n"
                "Decl r(X) bound [/string].\nr(X) :- p(X), q(X).\n", "pre": 'p(fn:pair(1,"a")). q(fn:pair(1,"a")).'},
        {"src": "Decl s(X,Y) bound [/a/b, /any] bound [/number, /number].\nDecl t(X,Y) bound [/a, /number] bound [/number, /number].\n"
                "Decl h(X) bound [/number].\nh(X) :- s(X,Y), t(X,Y).\n", "pre": "s(/a/b/c, 1). t(/a/b/c, 1)."},
        # one bound variable: fn:Rel(fn:Union(/number,/string)) against fn:Rel(fn:Union(/string,/a)) - found while
        # building the `refine` stream (strengthening after seeding)
        {"src": "Decl a(X) bound [fn:Union(/number,/string)].\nDecl m(X) bound [fn:Union(/string,/a)] bound [/number].\n"
                "Decl h(X) bound [/number].\nh(X) :- a(X), m(X).\n", "pre": 'a("s"). a(1). m("s"). m(1).'},
    ],
    "N93": [
        {"src": "Decl q(X) bound [/any].\nDecl p(X) descr [mode(\"+\")] bound [/number].\np(X) :- q(X).\n", "pre": 'q("foo").'},
    ],
    "F7b": [
        {"src": "Decl e(X) bound [fn:Map(/any,/number)].\nDecl h(X) bound [fn:Map(/string,/number)].\nh(X) :- e(X).\n",
         "pre": "e([1: 1])."},
    ],
    "F7c": [
        {"src": "Decl e(X) bound [fn:Struct(/f,/any)].\nDecl h(X) bound [fn:Struct(/f,/any,fn:opt(/g,/number))].\nh(X) :- e(X).\n",
         "pre": "e({/f: 1})."},
    ],
    "F7f": [
        {"src": "Decl e(X) bound [fn:Struct(/kind,/name,/x,/number)].\n"
                "Decl h(X) bound [fn:TaggedUnion(/kind,/a,fn:Struct(/x,/number))].\nh(X) :- e(X).\n",
         "pre": "e({/kind: /zzz, /x: 1})."},
    ],
}
PROBE_WHAT = {
    "N92": "symbols.LowerBound / intersectType under-approximates an intersection (no structural case: fn:List(/number) and "
           "fn:List(/string) share [], pairs and the fn:Rel tuples of a body atom are only compared as a whole); the bounds "
           "checker drops the inference state, accepts the program, and evaluation stores a fact outside the declared bounds",
    "F7b": "map keys are contravariant in conformance and covariant in membership: h(X) :- e(X) is accepted for "
           "e : fn:Map(/any,/number), h : fn:Map(/string,/number) and stores h([1: 1])",
    "F7c": "struct width: h(X) :- e(X) is accepted for e : fn:Struct(/f,/any), h : fn:Struct(/f,/any,fn:opt(/g,/number)) "
           "and stores h({/f: 1}), which HasType refuses (it wants every declared field)",
    "F7f": "a tagged union on the right is expanded with /name for the tag: h(X) :- e(X) is accepted for "
           "e : fn:Struct(/kind,/name,/x,/number), h : fn:TaggedUnion(/kind,/a,fn:Struct(/x,/number)) and stores h({/kind: /zzz, /x: 1})",
    "N93": "a head variable in a mode(\"+\") position is assumed to have the declared type; bottom-up evaluation stores p(\"foo\") "
           "for Decl p(X) descr [mode(\"+\")] bound [/number]",
}


def probes(ck):
    known = {k["id"] for k in known_for("C11")}
    for pid, cases in PROBES.items():
        if pid not in known:
            continue
        outs = ck.run_go("c11", cases)
        if any("out" in o and o["out"]["stage"] == "ok" and o["out"]["nbad"] > 0 for o in outs):
            ck.known("%s %s" % (pid, PROBE_WHAT[pid]))


# ----------------------------------------------------------------- the check
def case_of(prog):
    return {k: prog[k] for k in ("decls", "rules", "init", "pre", "dot") if k in prog}


def go_case(prog):
    return {"src": program_text(prog), "pre": "\n".join(fact_text(f) for f in prog["pre"]),
            "limit": 5000, "timeout_ms": 8000}


def load_corpus():
    progs = []
    for path in sorted(glob.glob(os.path.join(CORPUS, "*.json"))):
        c = json.load(open(path))
        c["stream"] = "corpus"
        c["to_model"] = True
        c["corpus_file"] = os.path.basename(path)
        progs.append(c)
    return progs


def analyse(ck, progs, outs, stats):
    """Returns [(index, replay dict, suffix)]."""
    problems, terms, meta, terms_inf, meta_inf = [], [], [], [], []
    for i, (prog, o) in enumerate(zip(progs, outs)):
        st = prog.get("stream", "?")
        s = stats["streams"].setdefault(st, {"programs": 0, "accepted": 0, "rejected": 0, "not_analysable": 0,
                                             "facts_judged": 0, "derived_facts_judged": 0, "failing": 0})
        s["programs"] += 1
        if "out" not in o:
            problems.append((i, {"kind": "the harness failed / panicked on a generated program", "impl": o,
                                 "no_longer_checks": "correspondence run of C11"}, "no-failing-input-found"))
            continue
        out = o["out"]
        if out["stage"] in ("parse", "analysis"):
            s["not_analysable"] += 1
            stats["not_analysable_msgs"].setdefault(out.get("msg", "")[:60], 0)
            stats["not_analysable_msgs"][out.get("msg", "")[:60]] += 1
            if "expect" in prog:
                problems.append((i, {"kind": "corpus case no longer analysable", "impl": out}, "no-failing-input-found"))
            continue
        accepted = out["stage"] == "ok"
        s["accepted" if accepted else "rejected"] += 1
        if accepted:
            s["facts_judged"] += out["checked"]
            s["derived_facts_judged"] += out["derived"]
            stats["evaluations"] += out["checked"]
            if out["eval"]:
                stats["eval_outcomes"][out["eval"]] = stats["eval_outcomes"].get(out["eval"], 0) + 1
            if out["derived"] > 0:
                stats["nontrivial"] += 1
                stats["distinct"].add(program_text(prog))
                if len(stats["samples"]) < 4 and i % 9 == 0:
                    stats["samples"].append({"program": program_text(prog), "facts_judged": out["checked"],
                                             "derived": out["derived"]})
        if "expect" in prog:
            want = prog["expect"]
            got = "reject" if not accepted else ("violation" if out["nbad"] else "sound")
            if got not in want:
                rep = {"kind": "corpus case: expected %s, got %s" % (want, got), "program": program_text(prog),
                       "pre": go_case(prog)["pre"], "impl": out}
                problems.append((i, rep, "" if got == "violation" else "no-failing-input-found"))
        elif accepted and out["nbad"] > 0:
            s["failing"] += 1
            rep = {"kind": "accepted by AnalyzeAndCheckBounds(ErrorForBoundsMismatch); after evaluation a stored fact of a "
                           "declared predicate fails TypeChecker.CheckTypeBounds",
                   "program": program_text(prog), "pre": go_case(prog)["pre"], "failing_facts": out["bad"],
                   "case": case_of(prog)}
            if st in ("n92-shaped", "f7-shaped", "mode"):
                stats["attributed"][st] = stats["attributed"].get(st, 0) + 1
            else:
                problems.append((i, rep, ""))
        # the model
        if prog.get("to_model"):
            try:
                if prog.get("undecl"):
                    terms_inf.append(cq_case_inf(prog, accepted, out["nbad"] == 0))
                    meta_inf.append(i)
                else:
                    terms.append(cq_case(prog, accepted, out["nbad"] == 0))
                    meta.append(i)
            except Outside:
                stats["judge"]["not encodable"] = stats["judge"].get("not encodable", 0) + 1
    verdicts = []
    with ThreadPoolExecutor(max_workers=2) as ex:      # the two judges side by side (coqc start-up dominates)
        jobs = []
        if terms:
            jobs.append((meta, ex.submit(ck.run_coq, "C11", "judge", terms, shard=max(25, (len(terms) + 7) // 8),
                                         timeout=3000)))
        if terms_inf:
            jobs.append((meta_inf, ex.submit(ck.run_coq, "C11", "judge_inf", terms_inf,
                                             shard=max(25, (len(terms_inf) + 3) // 4), tag="inf", timeout=3000)))
        for m, job in jobs:
            verdicts += list(zip(m, job.result()))
    names = {0: "agree: accepted, inside the fragment of the theorem", 5: "agree: accepted, outside the fragment (flag)",
             6: "agree: rejected", 10: "outside the modelled fragment"}
    for i, v in verdicts:
        if v in (1, 2) and union_order_sensitive(progs[i]):
            # not a disagreement about the checker: Go sorts union members by Hash(), the model does not
            key = "verdicts differ, attributed to the member order of a union built by UpperBound (hash-sorted in Go)"
            stats["judge"][key] = stats["judge"].get(key, 0) + 1
            continue
        label = names.get(v, JUDGE.get(v, str(v)))
        if progs[i].get("undecl"):
            label = "inferred relation types - " + label
        stats["judge"][label] = stats["judge"].get(label, 0) + 1
        if v in (0, 5, 6, 10):
            continue
        prog, out = progs[i], outs[i]["out"]
        if v == 11:
            raise RuntimeError("the Coq model ran out of fuel on:\n" + program_text(prog))
        if prog.get("stream") in ("n92-shaped", "f7-shaped") and v in (1, 2):
            stats["judge"]["disagreement outside the sound fragment"] = stats["judge"].get("disagreement outside the sound fragment", 0) + 1
        rep = {"kind": JUDGE[v], "judge_code": v, "program": program_text(prog), "pre": go_case(prog)["pre"],
               "go": {k: out[k] for k in ("stage", "msg", "nbad", "bad") if k in out},
               "case": case_of(prog)}
        if v == 3:
            if not any(p[0] == i and p[2] == "" for p in problems):
                problems.append((i, rep, ""))
        else:
            rep["no_longer_checks"] = "correspondence Run.C11.judge / judge_inf (model coq/Analysis/Bounds.v, BoundsInfer.v vs " \
                                      "analysis/boundscheck.go, infercontext.go); bounds_sound_partial / " \
                                      "bounds_sound_inferred_partial are no longer tied to the code"
            problems.append((i, rep, "no-failing-input-found"))
    return problems


def new_stats():
    return {"streams": {}, "evaluations": 0, "nontrivial": 0, "distinct": set(), "samples": [], "judge": {},
            "attributed": {}, "eval_outcomes": {}, "not_analysable_msgs": {}}


EXH_TYPES = [T.ANY, T.NUMBER, T.STRING, T.NAME, T.tc("/a"), T.tc("/a/b"), T.tc("/b"), T.tsing(T.cname("/a/b")),
             T.tlist(T.NUMBER), T.tlist(T.NAME), T.tlist(T.tc("/a")), T.tpair(T.NUMBER, T.STRING),
             T.tunion([T.NUMBER, T.STRING]), T.tunion([T.tc("/a"), T.NUMBER]), T.tunion([T.tlist(T.NUMBER), T.STRING])]
EXH_JOIN = [T.NUMBER, T.NAME, T.tc("/a"), T.tc("/a/b"), T.tc("/b"), T.tunion([T.tc("/a"), T.NUMBER]),
            T.tunion([T.NUMBER, T.STRING]), T.tlist(T.NUMBER), T.ANY]
EXH_CONSTS = [T.cnum(1), T.cstr("a"), T.cname("/a/x"), T.cname("/a/b"), T.cname("/a/b/c"), T.cname("/b/c"), T.cname("/x"),
              T.clist([]), T.clist([T.cnum(1)]), T.clist([T.cname("/a/x")]), T.clist([T.cname("/x")]),
              T.cpair(T.cnum(1), T.cstr("a"))]


def exhaustive_programs():
    """(a) h(X) :- e(X) for every ordered pair of EXH_TYPES; (b) h(X) :- e(X), g(X) for every
    triple of EXH_JOIN; (c) the two-row variant of (a): e has rows [S] and [S'] for every
    S' of a short list. Every constant of EXH_CONSTS is offered as a fact of e (and g)."""
    V0 = ["var", 0]
    progs = []

    def mk(erows, grows, t, body):
        decls = {"p0": {"arity": 1, "rows": erows}}
        pre = [["p0", [c]] for c in EXH_CONSTS]
        if grows is not None:
            decls["p1"] = {"arity": 1, "rows": grows}
            pre += [["p1", [c]] for c in EXH_CONSTS]
        decls["p2"] = {"arity": 1, "rows": [[t]]}
        return {"decls": decls, "rules": [{"head": ["p2", [V0]], "body": body}], "init": [], "pre": pre, "exh": True}

    for s in EXH_TYPES:
        for t in EXH_TYPES:
            progs.append(mk([[s]], None, t, [["atom", "p0", [V0]]]))
            for s2 in (T.STRING, T.tlist(T.STRING), T.tc("/b")):
                if s2 != s:
                    progs.append(mk([[s], [s2]], None, t, [["atom", "p0", [V0]]]))
    for s in EXH_JOIN:
        for g in EXH_JOIN:
            for t in EXH_JOIN:
                progs.append(mk([[s]], [[g]], t, [["atom", "p0", [V0]], ["atom", "p1", [V0]]]))
    return progs


def exhaustive_seeded_shapes():
    """(d) refine: a wide binder (/any, no bounds, a union of four), then a premise whose rows are every
    ordered selection of 2 and 3 of {/number, /string, /a, /b}, the head admitting every non-empty subset
    of those rows; (e) inferred: an undeclared q over a chain of 3 (every ordered selection from
    {/number, /string, /a}) and of 4 types, every order of the step relation's rows, both orders of q's
    clauses, the recursive atom before / after the step atom, the consumer admitting every depth, q
    sorted before / after the consumer (reached by BoundsCheck's loop / on demand)."""
    progs = []
    four = [T.NUMBER, T.STRING, T.tc("/a"), T.tc("/b")]
    for kind in ("any", "nobounds", "union"):
        W = T.tunion(four) if kind == "union" else T.ANY
        for k in (2, 3):
            for rows in itertools.permutations(four, k):
                for mask in range(1, 2 ** k):
                    head = [[t] for i, t in enumerate(rows) if mask >> i & 1]
                    prog = mk_refine([W], [([[t] for t in rows], [0])], head, list(range(8)), nobounds=kind == "nobounds")
                    prog["stream"] = "refine"
                    progs.append(prog)
    chains = [list(c) for c in itertools.permutations([T.NUMBER, T.STRING, T.tc("/a")], 3)] + [four, four[::-1]]
    for chain in chains:
        L = len(chain) - 1
        steps = [[chain[i], chain[i + 1]] for i in range(L)]
        for srows in itertools.permutations(steps):
            for rec_form in ("qs", "sq"):
                for order in ([0, 1], [1, 0]):
                    for d in range(L + 1):
                        for ids in ([0, 1, 2, 3, 4, 5, 6, 7], [0, 1, 2, 8, 4, 5, 6, 7]):
                            prog = mk_inferred(chain, [list(r) for r in srows], None, ["atom"], rec_form, order, False,
                                               chain[:d + 1], False, "copy", ids)
                            prog["stream"] = "inferred"
                            progs.append(prog)
    return progs


def run(ck):
    ck.obligations()
    ck.build_harness()
    rng = ck.rng
    progs = load_corpus()
    ncorpus = len(progs)
    n_frag, n_wide = ck.n(290, 6000), ck.n(180, 4000)
    n_inf, n_ref = ck.n(100, 2000), ck.n(100, 2000)
    for k in range(n_inf + n_ref):
        prog = gen_inferred(rng) if k < n_inf else gen_refine(rng)
        prog["to_model"] = k % 2 == 0 if ck.quick else k % 4 == 0
        progs.append(prog)
    for k in range(n_frag + n_wide):
        wide = k >= n_frag
        prog = gen_program(rng, wide)
        if f7_shaped(prog):
            prog["stream"] = "f7-shaped"
        elif n92_shaped(prog):
            prog["stream"] = "n92-shaped"
        else:
            prog["stream"] = "wide" if wide else "fragment"
        prog["to_model"] = (not wide) or (k % 4 == 0)
        progs.append(prog)
    n_st, n_bf = ck.n(70, 1500), ck.n(60, 1500)
    for k in range(n_st + n_bf):
        prog = gen_structs(rng) if k < n_st else gen_basefacts(rng)
        prog["to_model"] = prog.get("modelable", False) or (k >= n_st and (ck.quick or k % 2 == 0))
        progs.append(prog)
    exhaustive = not ck.quick
    nexh = nexh2 = nexh3 = 0
    if exhaustive:
        for prog in exhaustive_programs():
            prog["stream"] = "n92-shaped" if n92_shaped(prog) else "exhaustive"
            prog["to_model"] = True
            progs.append(prog)
            nexh += 1
        for prog in exhaustive_seeded_shapes():
            prog["to_model"] = True
            progs.append(prog)
            nexh2 += 1
        for prog in exhaustive_round2(rng):
            prog["to_model"] = prog["stream"] == "basefacts" or prog.get("modelable", False)
            progs.append(prog)
            nexh3 += 1
    ck.log("%d programs (%d corpus, %d exhaustive block)" % (len(progs), ncorpus, nexh + nexh2 + nexh3))
    outs = ck.run_go("c11", [go_case(p) for p in progs], timeout=3000)
    ck.log("go done")
    stats = new_stats()
    problems = analyse(ck, progs, outs, stats)
    for i, rep, suffix in problems:
        rep["property"] = "C11"
        rep["stream"] = progs[i].get("stream")
        if len(ck.violations) < 5:
            ck.violation(rep, suffix)
    probes(ck)
    cov = {
        "evaluations": stats["evaluations"],
        "distinct_nontrivial": len(stats["distinct"]),
        "rule": "evaluations = stored facts of user-declared predicates judged by the real TypeChecker.CheckTypeBounds after "
                "evaluating a program the real AnalyzeAndCheckBounds(ErrorForBoundsMismatch) accepted; non-trivial = accepted "
                "program with at least one judged fact that was derived or written in the program text (not put into the "
                "store by the caller); distinct by program text",
        "programs": len(progs), "streams": stats["streams"],
        "model_vs_go": stats["judge"],
        "failing_programs_attributed_to_known_findings_by_stream": stats["attributed"],
        "evaluation_outcomes_other_than_ok": stats["eval_outcomes"],
        "not_analysable (generator artefacts, by message prefix)": dict(sorted(stats["not_analysable_msgs"].items(),
                                                                               key=lambda kv: -kv[1])[:8]),
        "exhaustive": exhaustive,
        "exhaustive_scope": ("%d programs: h(X) :- e(X) for every ordered pair of %d types (one- and two-row declarations of e), "
                             "h(X) :- e(X), g(X) for every triple of %d types; each with all %d constants of a fixed universe "
                             "offered as facts; %d programs of the two shapes added after seeding: a wide binder (/any, no "
                             "bounds, a union of four) refined by a premise whose rows are every ordered selection of 2 and 3 of "
                             "{/number,/string,/a,/b} with the head admitting every non-empty subset; an undeclared recursive "
                             "predicate over every chain of 3 of {/number,/string,/a} and two chains of 4, every order of the step "
                             "rows, both clause orders, both premise orders, every admitted depth, reached by BoundsCheck's loop / "
                             "on demand; %d programs of the two shapes added after the second round of seeding: a struct "
                             "declaration over the fields /id, /note, each required / optional, declared and supplied field "
                             "types from {/number,/string}, supplied by a base fact, a struct literal in the head, S = {..}, "
                             "or a copy from a declared struct predicate with each field required / optional; two unary declared "
                             "predicates, each declared /number, /string or /a, with 1+1, 2+1, 1+2 base facts drawn from "
                             "{1, \"s\", /a/x} in every textual order"
                             % (nexh, len(EXH_TYPES), len(EXH_JOIN), len(EXH_CONSTS), nexh2, nexh3)) if exhaustive else "",
        "samples": stats["samples"],
    }
    return ck.finish(cov, assumptions=[
        "theorem bounds_sound_partial is about the model coq/Analysis/Bounds.v (hand-written) on the fragment: every predicate "
        "declared with closed first-order bounds, no modes; bodies of atoms, negated atoms, =, != over variables, constants "
        "(names, strings, numbers, lists) and fn:list(..); certificates (exactness flag) hold",
        "not modelled: built-in functions typed through function types (fn:pair, fn:list:cons, arithmetic, accessors), :match_*, "
        "comparisons, transforms, mutual recursion between undeclared predicates, type variables, modes, temporal literals",
        "theorem bounds_sound_inferred_partial (undeclared predicates) needs the certificate `certified`: the whole program passes "
        "the model checker when the inferred relation types are taken as declarations - computed by the model, not by the Go code; "
        "the order in which BoundsCheck reaches the undeclared predicates is computed by checks/c11.py (schedule) and is part of "
        "the correspondence",
        "the model is tied to analysis/boundscheck.go + infercontext.go by differential runs only (sampled)",
        "the violation verdict itself uses no model: real checker, real engine, real CheckTypeBounds",
        "caller-supplied facts are admitted only if CheckTypeBounds accepts them (the quantifier of the property)",
        "stream `structs`: property-level oracle on Go's outputs only (accepted => every stored fact passes CheckTypeBounds); "
        "struct values always carry exactly the declared field names (an omitted optional field is the known finding F7c)"])


def replay(ck, path):
    ck.build_harness()
    rep = json.load(open(path))
    if "case" in rep:
        prog = rep["case"]
        case = go_case(prog)
    else:
        case = {"src": rep["program"], "pre": rep.get("pre", ""), "limit": 5000}
    out = ck.run_go("c11", [case])[0]
    print("replay:", json.dumps(out)[:1500])
    if "out" in out and out["out"]["stage"] == "ok" and out["out"]["nbad"] > 0:
        print("VIOLATION property=C11 replay=%s" % path)
        return 1
    print("replay: no violation")
    return 0


META = {
    "text": "Machine-checked theorem (coq/Props/C11.v, partial) about a Gallina model of the bounds checker "
            "(analysis/boundscheck.go checkClauses / feasibleAlternatives / boundOfArg, infercontext.go "
            "inferRelTypesFromClause / addOrRefine) over the type model of C12 and the least-model semantics of C01: if every "
            "clause and every fact in the text passes the model checker with its certificates, every fact of the least model "
            "of a declared predicate is a member of a declared bound row. Fragment: all predicates declared with closed "
            "first-order bounds, no modes; bodies of atoms, negated atoms, = and != over variables, constants and fn:list. "
            "A second theorem (bounds_sound_inferred_partial) covers programs with UNDECLARED predicates (model "
            "coq/Analysis/BoundsInfer.v of inferRelTypes / getOrInferRelTypes, self-recursion through `visiting`, the order in "
            "which BoundsCheck reaches the predicates as an explicit schedule): when the inferred relation types, taken as "
            "declarations, certify the whole program, every fact of a declared predicate is a member of a declared row. "
            "A corollary (base_facts_in_text_conform_partial) states the guarantee for the base facts written in the text: "
            "every one of them, of whichever predicate and at whichever position, is a member of a row of its own predicate. "
            "Every run generates programs (fragment and beyond: pairs, maps, structs, tagged unions, constructors, accessors, "
            ":match_*; two weighted templates added after seeding: undeclared recursive / copied / negated intermediate "
            "predicates over multi-row step relations with the consumer admitting the types up to a chosen recursion depth, and "
            "a wide-typed binder refined by a multi-row premise with the head admitting one / all / all-but-one of the rows, in "
            "all row and clause orders; two more after the second round: struct-typed declarations with required and OPTIONAL "
            "fields whose values are supplied - every declared field, right or wrong type per field - by base facts, struct "
            "literals / fn:struct in heads and equalities, copies from declared struct predicates and undeclared intermediates; "
            "and base facts written in the text for several declared predicates whose argument-type tuples coincide, well or "
            "ill typed for their own declaration, in all textual orders), runs the real AnalyzeAndCheckBounds(ErrorForBoundsMismatch), evaluates every accepted program with the "
            "real engine and judges every stored fact of a declared predicate with the real TypeChecker.CheckTypeBounds (the "
            "violation verdict, on Go's own outputs), and compares the accept/reject verdict with the model inside Coq.",
    "note": "Partial: the theorem covers the fragment above and needs the exactness certificates the model computes; built-in "
            "function types, :match_*, transforms, modes, mutual recursion between undeclared predicates are not modelled. Trusted: Coq kernel + "
            "vm_compute; model tied to the code by sampled differential runs. Known findings outside the main stream: N92 "
            "(intersection under-approximated; a fourth, one-variable witness with partially overlapping unions was added), N93 (mode(\"+\") head variables), F7b/F7c/F7f shapes of C12. "
            "The struct stream is decided on Go's own outputs (struct constants are not in the Datalog model; only its copy form "
            "goes through the model) and keeps away from F7c by supplying exactly the declared field names.",
}
