"""C06 - every fact store behaves as a set of ground atoms.

Theorems: coq/Props/C06.v. Correspondence: operation histories on the real
factstore stores and wrappers vs the models (coq/Store/*.v, run inside coqc with
the hash values observed from Go) and vs the set machine (coq/Store/SetSpec.v);
the set machine's verdict is the property verdict.
"""
import glob
import itertools
import json
import os
import random
import struct

from vlib.core import C, Raw, coq, known_for

HASH_KEYED = ("simple", "indexed", "multi", "temporal")
BASE_KINDS = ("simple", "indexed", "multi", "array", "temporal")
KIND_COQ = {"simple": "KSimple", "indexed": "KIndexed", "multi": "KMulti", "array": "KArray",
            "temporal": "KSimple"}   # the adapter over a fresh TemporalStore is a hash-keyed map without Remove


# ------------------------------------------------------------------ constants
def f64bits(x):
    return struct.unpack("<Q", struct.pack("<d", x))[0]


def K(k, v=None, c=None):
    d = {"k": k}
    if v is not None:
        d["v"] = v
    if c is not None:
        d["c"] = c
    return d


def num(n): return K("num", n)
def name(s): return K("name", s)
def lst(*c): return K("list", c=list(c))


COLLIDING = [  # groups of structurally distinct constants with equal Constant.Hash()
    [num(0), lst(), K("f64", f64bits(0.0)), K("map", c=[]), K("struct", c=[]), K("time", 0), K("dur", 0)],
    [lst(num(1)), num(65792)],
    [name("/a"), K("str", "/a"), K("bytes", "/a".encode().hex())],
    [num(7), K("time", 7), K("dur", 7)],
]


def gen_const(rng, depth=0):
    r = rng.random()
    if depth < 2 and r < 0.22:
        k = rng.choice(["pair", "list", "map", "struct"])
        if k == "pair":
            return K("pair", c=[gen_const(rng, depth + 1), gen_const(rng, depth + 1)])
        if k == "list":
            return K("list", c=[gen_const(rng, depth + 1) for _ in range(rng.randint(0, 3))])
        n = rng.randint(0, 2)
        c = []
        for i in range(n):
            c += [name("/k%d" % rng.randint(0, 2)) if k == "struct" else gen_const(rng, depth + 1), gen_const(rng, depth + 1)]
        return K(k, c=c)
    r = rng.random()
    if r < 0.25:
        return num(rng.choice([0, 1, 2, 3, -1, 65792, 7, (1 << 63) - 1, -(1 << 63), rng.randint(-5, 5)]))
    if r < 0.45:
        return name(rng.choice(["/a", "/b", "/c", "/a/b", "/zzz"]))
    if r < 0.6:
        return K("str", rng.choice(["", "a", "/a", "b", "hello world", "é"]))
    if r < 0.68:
        return K("bytes", rng.choice(["", "00", "2f61", "ff00"]))
    if r < 0.8:
        return K("f64", f64bits(rng.choice([0.0, -0.0, 1.0, 1.5, float("inf"), 3.0, 1e21])))
    if r < 0.9:
        return K("time", rng.choice([0, 1, 7, 1700000000000000000]))
    return K("dur", rng.choice([0, 1, 7, -7, 3600000000000]))


def cid(c):
    return json.dumps(c, sort_keys=True)


def gen_universe(rng, collide, natoms=None):
    """constants (pairwise structurally distinct), atoms over them (distinct)."""
    consts, seen = [], set()

    def addc(c):
        if cid(c) not in seen:
            seen.add(cid(c))
            consts.append(c)
    if collide:
        for g in rng.sample(COLLIDING, rng.randint(1, 2)):
            for c in rng.sample(g, min(len(g), rng.randint(2, 3))):
                addc(c)
    while len(consts) < rng.randint(3, 6):
        addc(gen_const(rng))
    nsym = rng.randint(1, 3)
    atoms, aseen = [], set()
    target = natoms or rng.randint(5, 12)
    tries = 0
    # a symbol may occur with several arities (q/1 and q/2 are different predicates)
    sym_ar = {s: [rng.choice([0, 1, 1, 2, 2, 3])] for s in range(nsym)}
    if rng.random() < 0.5:
        s = rng.randrange(nsym)
        sym_ar[s].append(rng.choice([0, 1, 2, 3]))
    while len(atoms) < target and tries < 200:
        tries += 1
        s = rng.randrange(nsym)
        ar = rng.choice(sym_ar[s])
        if collide and ar > 0 and rng.random() < 0.5:
            # tuples that differ only in hash-equal constants
            base = [rng.randrange(len(consts)) for _ in range(ar)]
            a = {"sym": s, "args": base}
        else:
            a = {"sym": s, "args": [rng.randrange(len(consts)) for _ in range(ar)]}
        k = json.dumps(a, sort_keys=True)
        if k not in aseen:
            aseen.add(k)
            atoms.append(a)
    return consts, atoms


# ------------------------------------------------------------- configurations
def gen_stores(rng, config):
    """Store definitions of one case. Slot `main` receives most operations."""
    bk = lambda: rng.choice(["simple", "indexed", "multi", "array"])
    if config in ("simple", "indexed", "multi", "array"):
        stores = [{"k": config}, {"k": bk()}]
        main = 0
    elif config == "temporal":
        stores = [{"k": "temporal"}, {"k": bk()}]
        main = 0
    elif config == "merged":
        r = rng.random()
        if r < 0.4:
            stores = [{"k": bk()}, {"k": bk()}, {"k": "merged", "reads": [0], "w": 1}, {"k": bk()}]
            main = 2
        elif r < 0.7:
            stores = [{"k": bk()}, {"k": bk()}, {"k": bk()}, {"k": "merged", "reads": [0, 1], "w": 2}, {"k": bk()}]
            main = 3
        else:   # the interpreter's combination: temporal adapter read, simple/teeing write
            stores = [{"k": "temporal"}, {"k": "simple"}, {"k": "tee", "base": 1},
                      {"k": "merged", "reads": [0], "w": 2}, {"k": bk()}]
            main = 3
    elif config == "tee":
        if rng.random() < 0.6:
            stores = [{"k": bk()}, {"k": "tee", "base": 0}, {"k": bk()}]
            main = 1
        else:   # pushed twice, as the interpreter does for every loaded fragment
            stores = [{"k": bk()}, {"k": "tee", "base": 0}, {"k": "tee", "base": 1}, {"k": bk()}]
            main = 2
    elif config == "conc":
        r = rng.random()
        if r < 0.6:
            stores = [{"k": bk()}, {"k": "conc", "base": 0}, {"k": bk()}]
            main = 1
        else:
            stores = [{"k": bk()}, {"k": "tee", "base": 0}, {"k": "conc", "base": 1}, {"k": bk()}]
            main = 2
    else:
        raise ValueError(config)
    return stores, main


CONFIGS = ["simple", "indexed", "multi", "array", "merged", "tee", "conc", "temporal"]


class Sim:
    """The generator's own bookkeeping of which atoms each store holds (a set
    machine in Python), used only to keep histories inside the documented
    domain: wrapper components stay disjoint, no Remove of a read-only
    component's atom through a wrapper, no Remove on the temporal adapter, and
    the triggers of the known findings N7 / N8 are avoided or marked."""

    def __init__(self, stores, atoms):
        self.stores, self.atoms = stores, atoms
        n = len(stores)
        self.sets = [set() for _ in range(n)]
        self.ever = [set() for _ in range(n)]      # predicates (arity > 0) whose shard exists
        self.leaves = [self._leaves(i) for i in range(n)]
        self.above = [[w for w in range(n) if stores[w]["k"] in ("merged", "tee", "conc")
                       and self.leaf(i) in self.leaves[w] and w != i] for i in range(n)]

    def _leaves(self, i):
        d = self.stores[i]
        if d["k"] in BASE_KINDS:
            return {i}
        if d["k"] == "tee":
            return {i} | self._leaves(d["base"])
        if d["k"] == "conc":
            return self._leaves(d["base"])
        s = self._leaves(d["w"])
        for r in d["reads"]:
            s |= self._leaves(r)
        return s

    def leaf(self, i):
        d = self.stores[i]
        if d["k"] in BASE_KINDS or d["k"] == "tee":
            return i
        return self.leaf(d["base"] if d["k"] == "conc" else d["w"])

    def leaf_kind(self, i):
        d = self.stores[self.leaf(i)]
        return "array" if d["k"] == "tee" else d["k"]

    def vis(self, i):
        s = set()
        for l in self.leaves[i]:
            s |= self.sets[l]
        return s

    def pred(self, a):
        return (self.atoms[a]["sym"], len(self.atoms[a]["args"]))

    def can_gain(self, i, a):
        """may atom a arrive in the writable leaf of slot i?"""
        L = self.sets[self.leaf(i)]
        if a in L:
            return True
        return all(a not in self.vis(w) for w in [i] + self.above[i])

    def ok(self, o):
        i = o["s"]
        k = o["op"]
        if k == "add":
            return self.can_gain(i, o["a"])
        if k == "remove":
            if self.leaf_kind(i) == "temporal":
                return False
            return o["a"] in self.sets[self.leaf(i)] or o["a"] not in self.vis(i)
        if k == "merge":
            j = o["from"]
            if j == i or (self.leaves[i] & self.leaves[j]):
                return False
            return all(self.can_gain(i, a) for a in self.vis(j))
        return True

    def listed(self, i):
        """what the implementation lists, N8 included"""
        res = set()
        for l in self.leaves[i]:
            kind = "array" if self.stores[l]["k"] == "tee" else self.stores[l]["k"]
            for a in self.sets[l]:
                if kind in ("simple", "temporal") or len(self.atoms[a]["args"]) == 0:
                    res.add(self.pred(a))
            if kind not in ("simple", "temporal"):
                res |= self.ever[l]
        return res

    def ghost(self, i):
        return self.listed(i) != set(self.pred(a) for a in self.vis(i))

    def apply(self, o):
        i, k = o["s"], o["op"]
        l = self.leaf(i)
        if k == "add":
            if o["a"] not in self.vis(i):
                self.sets[l].add(o["a"])
                if len(self.atoms[o["a"]]["args"]) > 0:
                    self.ever[l].add(self.pred(o["a"]))
        elif k == "remove":
            self.sets[l].discard(o["a"])
        elif k == "merge":
            for a in self.vis(o["from"]):
                if a not in self.sets[l]:
                    self.sets[l].add(a)
                    if len(self.atoms[a]["args"]) > 0:
                        self.ever[l].add(self.pred(a))
        elif k == "preds":
            o["ghost"] = self.ghost(i)


def gen_pattern(rng, atoms, nconst):
    if atoms and rng.random() < 0.9:
        a = rng.choice(atoms)
        args = []
        shape = rng.random()
        for k, x in enumerate(a["args"]):
            if shape < 0.25:
                args.append(None)
            elif shape < 0.4:
                args.append(x)
            else:
                r = rng.random()
                args.append(None if r < 0.5 else (x if r < 0.85 else rng.randrange(nconst)))
        return {"sym": a["sym"], "args": args}
    return {"sym": rng.randint(0, 3), "args": [None] * rng.randint(0, 2)}


def gen_history(rng, config, consts, atoms, big):
    stores, main = gen_stores(rng, config)
    sim = Sim(stores, atoms)
    n = rng.randint(1, 40 if big else 16)
    ops = []
    nslots = len(stores)
    focus = rng.sample(range(len(atoms)), min(len(atoms), rng.randint(2, 6)))   # re-adds and removals need repeats

    def pick_atom():
        return rng.choice(focus) if rng.random() < 0.7 else rng.randrange(len(atoms))
    tries = 0
    while len(ops) < n and tries < 400:
        tries += 1
        s = main if rng.random() < 0.65 else rng.randrange(nslots)
        r = rng.random()
        if r < 0.34:
            o = {"s": s, "op": "add", "a": pick_atom()}
        elif r < 0.5:
            o = {"s": s, "op": "remove", "a": pick_atom()}
        elif r < 0.6:
            o = {"s": s, "op": "contains", "a": pick_atom()}
        elif r < 0.78:
            q = gen_pattern(rng, atoms, len(consts))
            o = {"s": s, "op": "get", "sym": q["sym"], "args": q["args"]}
        elif r < 0.85:
            o = {"s": s, "op": "preds"}
        elif r < 0.91:
            o = {"s": s, "op": "count"}
        else:
            o = {"s": s, "op": "merge", "from": rng.randrange(nslots)}
        if not sim.ok(o):
            continue
        sim.apply(o)
        ops.append(o)
    # closing observations on the main slot
    tail = [{"s": main, "op": "count"}, {"s": main, "op": "preds"}]
    for sym, ar in sorted(set((a["sym"], len(a["args"])) for a in atoms)):
        tail.append({"s": main, "op": "get", "sym": sym, "args": [None] * ar})
    for o in tail:
        sim.apply(o)
        ops.append(o)
    return {"consts": consts, "atoms": atoms, "stores": stores, "ops": ops, "config": config, "main": main}


def hash_keyed_case(stores):
    return any(d["k"] in HASH_KEYED for d in stores)


def filter_collisions(rng, atoms, ahash):
    """keep one atom per Atom.Hash() value (random representative)"""
    groups = {}
    for i, h in enumerate(ahash):
        groups.setdefault(h, []).append(i)
    keep = sorted(rng.choice(g) for g in groups.values())
    return keep


# ------------------------------------------------------------------ encoding
def cq_atom(case, a):
    at = case["atoms"][a]
    return (at["sym"], list(at["args"]))


def cq_def(d):
    if d["k"] in BASE_KINDS:
        return C("DBase", Raw(KIND_COQ[d["k"]]))
    if d["k"] == "merged":
        return C("DMerged", list(d["reads"]), d["w"])
    if d["k"] == "tee":
        return C("DTee", d["base"])
    return C("DConc", d["base"])


def cq_op(case, o, r):
    k = o["op"]
    if k == "add":
        return (o["s"], C("RAdd", cq_atom(case, o["a"]), bool(r)))
    if k == "remove":
        return (o["s"], C("RRemove", cq_atom(case, o["a"]), bool(r)))
    if k == "contains":
        return (o["s"], C("RContains", cq_atom(case, o["a"]), bool(r)))
    if k == "get":
        pat = (o["sym"], [None if x is None else C("Some", x) for x in o["args"]])
        return (o["s"], C("RQuery", pat, [cq_atom(case, x) for x in r]))
    if k == "preds":
        return (o["s"], C("RPreds", bool(o.get("ghost", False)), [(p[0], p[1]) for p in r]))
    if k == "count":
        return (o["s"], C("RCount", r))
    if k == "merge":
        return (o["s"], C("RMerge", o["from"]))
    raise ValueError(k)


def hz(h):
    """a uint64 as four 16-bit limbs (Coq parses long decimal numerals slowly)"""
    if h < 65536:
        return h
    return C("H", h >> 48, (h >> 32) & 0xFFFF, (h >> 16) & 0xFFFF, h & 0xFFFF)


def cq_case(case, out):
    atab = [(cq_atom(case, i), hz(h)) for i, h in enumerate(out["ahash"])]
    ctab = [(i, hz(h)) for i, h in enumerate(out["chash"])]
    return coq(C("mk", atab, ctab, [cq_def(d) for d in case["stores"]],
                 [cq_op(case, o, r) for o, r in zip(case["ops"], out["res"])]))


def results_wellformed(case, out):
    """None, or a description of an output the encoding cannot carry (foreign atom, unsupported Remove)"""
    for k, (o, r) in enumerate(zip(case["ops"], out["res"])):
        if o["op"] == "get" and any(not isinstance(x, int) for x in r):
            return k, "GetFacts yielded an atom that was never given to the store: %s" % r
        if o["op"] == "remove" and not isinstance(r, bool):
            return k, "Remove unsupported on this slot"
    return None


def go_payload(case):
    return {"consts": case["consts"], "atoms": case["atoms"], "stores": case["stores"],
            "ops": [{k: v for k, v in o.items() if k != "ghost"} for o in case["ops"]]}


# ----------------------------------------------------------- exhaustive block
def exhaustive_cases(max_len, max_len_wrapped):
    """Every history of <= max_len add/remove operations over a 3-atom universe
    (p(a,b), p(b,b), q()) on each store configuration, each followed by every
    membership test, every pattern over {a, b, variable}^2, predicates, count."""
    consts = [name("/a"), name("/b")]
    atoms = [{"sym": 0, "args": [0, 1]}, {"sym": 0, "args": [1, 1]}, {"sym": 1, "args": []}]
    pats = [[x, y] for x in (None, 0, 1) for y in (None, 0, 1)]
    layouts = []
    for k in ("simple", "indexed", "multi", "array"):
        layouts.append(([{"k": k}], 0, []))
    for k in ("simple", "indexed", "array"):
        pre = [{"s": 0, "op": "add", "a": 0}]
        layouts.append(([{"k": k}, {"k": "tee", "base": 0}], 1, pre))
        layouts.append(([{"k": k}, {"k": "array" if k == "simple" else "simple"},
                         {"k": "merged", "reads": [0], "w": 1}], 2, pre))
    layouts.append(([{"k": "multi"}, {"k": "conc", "base": 0}], 1, []))
    layouts.append(([{"k": "temporal"}], 0, []))
    for stores, main, pre in layouts:
        tail = [{"s": main, "op": "contains", "a": a} for a in range(3)]
        tail += [{"s": main, "op": "get", "sym": 0, "args": p} for p in pats]
        tail += [{"s": main, "op": "get", "sym": 1, "args": []}, {"s": main, "op": "preds"}, {"s": main, "op": "count"}]
        steps = [{"s": main, "op": k, "a": a} for k in ("add", "remove") for a in range(3)]
        for n in range(1, (max_len if len(stores) == 1 else max_len_wrapped) + 1):
            for combo in itertools.product(steps, repeat=n):
                sim = Sim(stores, atoms)
                ops, good = [], True
                for o in pre + [dict(x) for x in combo] + [dict(x) for x in tail]:
                    if not sim.ok(o):
                        good = False
                        break
                    sim.apply(o)
                    ops.append(o)
                if good:
                    yield {"consts": consts, "atoms": atoms, "stores": stores, "ops": ops,
                           "config": "exhaustive", "main": main}


# ------------------------------------------------------ adapter configurations
# A TemporalFactStoreAdapter (unpinned, or pinned at an instant) over a temporal
# store that is ALSO written directly with (atom, interval) pairs. Case format:
# the standard one plus "tstores" ([{"k":"tstore"} | {"k":"ttee","base":j}]),
# store kind {"k":"tadapter","ts":j,"at":t|None} and the op
# {"op":"tadd","ts":j,"a":atom,"lo":lo|None,"hi":hi|None}. Verdict: Coq
# Run.C06.judge_a (set machine over the views derived from the pairs).
A_LEAF_KINDS = BASE_KINDS + ("tadapter",)
A_LAYOUTS = ["views", "interp", "interp-ttee", "tee", "write-adapter", "two-reads"]


def covers(lo, hi, t):
    return (lo is None or lo <= t) and (hi is None or t <= hi)


class ASim:
    """Generator-side bookkeeping for adapter cases (same role as Sim: keeps the
    histories inside the documented domain and computes the marks `ghost` /
    `strict`; it does not decide any verdict)."""

    def __init__(self, tstores, stores, atoms):
        self.tstores, self.stores, self.atoms = tstores, stores, atoms
        n = len(stores)
        self.sets = [set() for _ in range(n)]
        self.ever = [set() for _ in range(n)]
        self.own = [set() for _ in tstores]           # (atom, lo, hi) written to this temporal store itself
        self.leaves = [self._leaves(i) for i in range(n)]
        self.wrappers = [i for i in range(n) if stores[i]["k"] in ("merged", "tee", "conc")]

    # ---- temporal stores
    def chain(self, j):
        d = self.tstores[j]
        return [j] + (self.chain(d["base"]) if d["k"] == "ttee" else [])

    def pairs(self, j):
        s = set()
        for k in self.chain(j):
            s |= self.own[k]
        return s

    def npairs(self, j):        # TemporalStore.EstimateFactCount: pairs, a teeing temporal store sums
        return sum(len(self.own[k]) for k in self.chain(j))

    def view(self, l):
        d = self.stores[l]
        return {a for (a, lo, hi) in self.pairs(d["ts"]) if d.get("at") is None or covers(lo, hi, d["at"])}

    # ---- slots
    def _leaves(self, i):
        d = self.stores[i]
        if d["k"] in A_LEAF_KINDS:
            return {i}
        if d["k"] == "tee":
            return {i} | self._leaves(d["base"])
        if d["k"] == "conc":
            return self._leaves(d["base"])
        s = self._leaves(d["w"])
        for r in d["reads"]:
            s |= self._leaves(r)
        return s

    def leaf(self, i):
        d = self.stores[i]
        if d["k"] in A_LEAF_KINDS or d["k"] == "tee":
            return i
        return self.leaf(d["base"] if d["k"] == "conc" else d["w"])

    def is_adapter(self, l):
        return self.stores[l]["k"] == "tadapter"

    def leafset(self, l):
        return self.view(l) if self.is_adapter(l) else self.sets[l]

    def vis(self, i):
        s = set()
        for l in self.leaves[i]:
            s |= self.leafset(l)
        return s

    def tchains(self, i):
        s = set()
        for l in self.leaves[i]:
            if self.is_adapter(l):
                s |= set(self.chain(self.stores[l]["ts"]))
        return s

    def pred(self, a):
        return (self.atoms[a]["sym"], len(self.atoms[a]["args"]))

    def add_target(self, i, a):
        """mirror of Run.C06.add_target"""
        d = self.stores[i]
        if d["k"] in A_LEAF_KINDS:
            return i
        if d["k"] == "conc":
            return self.add_target(d["base"], a)
        if d["k"] == "merged":
            return None if a in self.vis(i) else self.add_target(d["w"], a)
        return None if a in self.vis(d["base"]) else i

    def disjoint(self):
        """the components of every wrapper are pairwise disjoint (documented requirement of the wrappers)"""
        return all(sum(len(self.leafset(l)) for l in self.leaves[w]) == len(self.vis(w)) for w in self.wrappers)

    def _gain(self, l, news):
        if self.is_adapter(l):
            for a in news:
                self.own[self.stores[l]["ts"]].add((a, None, None))
        else:
            for a in news:
                self.sets[l].add(a)
                if len(self.atoms[a]["args"]) > 0:
                    self.ever[l].add(self.pred(a))

    def listed(self, i):
        res = set()
        for l in self.leaves[i]:
            if self.is_adapter(l):     # TemporalStore.ListPredicates: every predicate with a stored pair, whatever the instant
                res |= {self.pred(a) for (a, _, _) in self.pairs(self.stores[l]["ts"])}
                continue
            kind = "array" if self.stores[l]["k"] == "tee" else self.stores[l]["k"]
            for a in self.sets[l]:
                if kind in ("simple", "temporal") or len(self.atoms[a]["args"]) == 0:
                    res.add(self.pred(a))
            if kind not in ("simple", "temporal"):
                res |= self.ever[l]
        return res

    def structurally_ok(self, o):
        k = o["op"]
        if k == "remove":
            l = self.leaf(o["s"])
            if self.is_adapter(l) or self.stores[l]["k"] == "temporal":
                return False
            return o["a"] in self.sets[l] or o["a"] not in self.vis(o["s"])
        if k == "merge":
            i, j = o["s"], o["from"]
            if j == i or (self.leaves[i] & self.leaves[j]):
                return False
            # an adapter that merges from a view of its own temporal store would write the maps it iterates
            if self.tchains(i) & self.tchains(j):
                return False
        return True

    def mark(self, o):
        """marks computed in the state before the operation"""
        k = o["op"]
        if k == "add":
            t = self.add_target(o["s"], o["a"])
            o["strict"] = True
            if t is not None and self.is_adapter(t):
                # Adapter.Add answers "the eternal interval is new in the written temporal store", not "the atom was
                # absent" (known finding N95). Trigger avoidance of N95: the boolean is NOT judged exactly when the
                # atom is already in the adapter's view without an eternal interval in the written store (visible
                # through non-eternal intervals, or through the base of a teeing temporal store only); everywhere
                # else - atom outside the view, or already eternal in the written store - it is judged. The effect
                # of the Add (the eternal pair) is applied either way. Probe: probes(), cases N95 / N95t.
                ts = self.stores[t]["ts"]
                o["strict"] = (o["a"] not in self.view(t)) or ((o["a"], None, None) in self.own[ts])
        elif k == "count":
            o["strict"] = all(self.npairs(self.stores[l]["ts"]) == len(self.view(l))
                              for l in self.leaves[o["s"]] if self.is_adapter(l))
        elif k == "preds":
            o["ghost"] = self.listed(o["s"]) != set(self.pred(a) for a in self.vis(o["s"]))
        elif k == "get":
            # measured for the evidence: does this query meet an atom with >= 2 intervals in (the pinned view of) an adapter?
            multi = pinned_multi = False
            for l in self.leaves[o["s"]]:
                if not self.is_adapter(l):
                    continue
                at = self.stores[l].get("at")
                cnt = {}
                for (a, lo, hi) in self.pairs(self.stores[l]["ts"]):
                    if at is None or covers(lo, hi, at):
                        cnt[a] = cnt.get(a, 0) + 1
                for a, c in cnt.items():
                    at_ = self.atoms[a]
                    if c >= 2 and at_["sym"] == o["sym"] and len(at_["args"]) == len(o["args"]) and \
                            all(x is None or x == y for x, y in zip(o["args"], at_["args"])):
                        multi = True
                        pinned_multi = pinned_multi or at is not None
            o["multi"] = "pinned" if pinned_multi else ("unpinned" if multi else "")

    def apply(self, o):
        self.mark(o)
        k = o["op"]
        if k == "tadd":
            if o["lo"] is None or o["hi"] is None or o["lo"] <= o["hi"]:
                self.own[o["ts"]].add((o["a"], o["lo"], o["hi"]))
        elif k == "add":
            t = self.add_target(o["s"], o["a"])
            if t is not None:
                self._gain(t, [o["a"]])
        elif k == "remove":
            self.sets[self.leaf(o["s"])].discard(o["a"])
        elif k == "merge":
            self._gain(self.leaf(o["s"]), sorted(self.vis(o["from"])))

    def try_apply(self, o):
        """apply o if it keeps the history inside the domain; returns whether it did"""
        if not self.structurally_ok(o):
            return False
        if o["op"] not in ("tadd", "add", "merge"):
            self.apply(o)
            return True
        snap = ([set(x) for x in self.sets], [set(x) for x in self.ever], [set(x) for x in self.own])
        self.apply(o)
        if self.disjoint():
            return True
        self.sets, self.ever, self.own = snap
        for key in ("strict", "ghost", "multi"):
            o.pop(key, None)
        return False


def gen_adapter_stores(rng, layout, instants):
    """(tstores, stores, main). `instants`: candidates for pinned instants."""
    bk = lambda: rng.choice(["simple", "indexed", "multi", "array"])
    at = lambda: rng.choice(instants)
    maybe_at = lambda: rng.choice(instants + [None])
    ad = lambda ts, t: {"k": "tadapter", "ts": ts, "at": t}
    if layout == "views":          # several views of one temporal store, no wrapper
        tstores = [{"k": "tstore"}]
        stores = [ad(0, None), ad(0, at()), ad(0, at()), {"k": bk()}]
        main = rng.randrange(3)
    elif layout == "interp":       # interpreter.updateCombinedStore: merged([adapter], simple / teeing store)
        tstores = [{"k": "tstore"}]
        stores = [ad(0, maybe_at()), {"k": "simple"}, {"k": "tee", "base": 1},
                  {"k": "merged", "reads": [0], "w": 2}, {"k": bk()}, ad(0, maybe_at())]
        main = 3
    elif layout == "interp-ttee":  # after a load: the temporal store is a TeeingTemporalStore over the old one
        tstores = [{"k": "tstore"}, {"k": "ttee", "base": 0}]
        stores = [ad(1, maybe_at()), {"k": "simple"}, {"k": "tee", "base": 1},
                  {"k": "merged", "reads": [0], "w": 2}, ad(0, maybe_at()), {"k": bk()}]
        main = rng.choice([3, 3, 0])
    elif layout == "tee":          # teeing store(s) over an adapter
        tstores = [{"k": "tstore"}]
        stores = [ad(0, maybe_at()), {"k": "tee", "base": 0}]
        if rng.random() < 0.4:
            stores.append({"k": "tee", "base": 1})
        main = len(stores) - 1
        stores += [{"k": bk()}, ad(0, maybe_at())]
    elif layout == "write-adapter":   # the adapter as write store of a merged store
        tstores = [{"k": "tstore"}]
        stores = [{"k": bk()}, ad(0, maybe_at()), {"k": "merged", "reads": [0], "w": 1}, {"k": bk()}]
        main = 2
    elif layout == "two-reads":    # two adapters over different temporal stores as read stores
        tstores = [{"k": "tstore"}, {"k": "tstore"}]
        stores = [ad(0, at()), ad(1, maybe_at()), {"k": bk()}, {"k": "merged", "reads": [0, 1], "w": 2}, {"k": bk()}]
        main = 3
    else:
        raise ValueError(layout)
    return tstores, stores, main


def gen_interval(rng, existing, instants, base):
    """(lo, hi, class). Classes relative to a pinned instant t and to the intervals the atom already has."""
    r = rng.random()
    bounded = [(lo, hi) for (lo, hi) in existing if lo is not None and hi is not None]
    if r < 0.08:
        return None, None, "eternal"
    if r < 0.45 and bounded:
        lo, hi = rng.choice(bounded)
        m = rng.choice(["same", "nested", "overlap-right", "overlap-left", "touch-shared-end", "touch-adjacent", "disjoint", "enclosing"])
        d, e = rng.randint(1, 4), rng.randint(0, 3)
        nlo = rng.randint(lo, hi)
        iv = {"same": (lo, hi), "nested": (nlo, rng.randint(nlo, hi)),
              "overlap-right": (lo + min(e, hi - lo), hi + d), "overlap-left": (lo - d, hi - min(e, hi - lo)),
              "touch-shared-end": (hi, hi + d), "touch-adjacent": (hi + 1, hi + 1 + d),
              "disjoint": (hi + 2 + e, hi + 2 + e + d), "enclosing": (lo - d, hi + d)}[m]
        return iv[0], iv[1], m
    if r < 0.9:
        t = rng.choice(instants)
        d, e = rng.randint(1, 5), rng.randint(1, 5)
        m = rng.choice(["around", "starts-at", "ends-at", "point", "just-after", "just-before",
                        "until", "from", "until-before", "from-after"])
        iv = {"around": (t - d, t + e), "starts-at": (t, t + d), "ends-at": (t - d, t), "point": (t, t),
              "just-after": (t + 1, t + 1 + d), "just-before": (t - 1 - d, t - 1),
              "until": (None, t + rng.randint(0, 2)), "from": (t - rng.randint(0, 2), None),
              "until-before": (None, t - 1), "from-after": (t + 1, None)}[m]
        return iv[0], iv[1], m
    if r < 0.94:
        lo = base + rng.randint(0, 30)
        return lo, lo - rng.randint(1, 3), "invalid"
    lo = base + rng.randint(-5, 30)
    return lo, lo + rng.randint(0, 12), "random"


def gen_adapter_history(rng, layout, consts, atoms, big):
    base = rng.choice([0, 0, -40, 1000000000, 1700000000000000000])
    instants = sorted(rng.sample([base + x for x in (3, 7, 10, 14, 20)], rng.randint(1, 3)))
    tstores, stores, main = gen_adapter_stores(rng, layout, instants)
    pinned = [d["at"] for d in stores if d["k"] == "tadapter" and d["at"] is not None] or instants
    sim = ASim(tstores, stores, atoms)
    n = rng.randint(4, 44 if big else 20)
    ops, nslots = [], len(stores)
    focus = rng.sample(range(len(atoms)), min(len(atoms), rng.randint(2, 5)))
    adapters = [i for i, d in enumerate(stores) if d["k"] == "tadapter"]

    def pick_atom():
        return rng.choice(focus) if rng.random() < 0.75 else rng.randrange(len(atoms))
    tries = 0
    while len(ops) < n and tries < 500:
        tries += 1
        r = rng.random()
        if r < 0.3:
            ts, a = rng.randrange(len(tstores)), pick_atom()
            existing = [(lo, hi) for (b, lo, hi) in sim.pairs(ts) if b == a]
            lo, hi, cls = gen_interval(rng, existing, pinned, base)
            o = {"op": "tadd", "ts": ts, "a": a, "lo": lo, "hi": hi, "cls": cls}
        else:
            q = rng.random()
            s = main if q < 0.5 else (rng.choice(adapters) if q < 0.8 else rng.randrange(nslots))
            if r < 0.44:
                o = {"s": s, "op": "add", "a": pick_atom()}
            elif r < 0.5:
                o = {"s": s, "op": "remove", "a": pick_atom()}
            elif r < 0.62:
                o = {"s": s, "op": "contains", "a": pick_atom()}
            elif r < 0.84:
                pat = gen_pattern(rng, atoms, len(consts))
                o = {"s": s, "op": "get", "sym": pat["sym"], "args": pat["args"]}
            elif r < 0.89:
                o = {"s": s, "op": "preds"}
            elif r < 0.94:
                o = {"s": s, "op": "count"}
            else:
                o = {"s": s, "op": "merge", "from": rng.randrange(nslots)}
        if sim.try_apply(o):
            ops.append(o)
    # closing observations: every adapter and the main slot, every predicate, every focus atom
    tail = []
    for s in sorted(set(adapters + [main])):
        tail += [{"s": s, "op": "count"}, {"s": s, "op": "preds"}]
        for sym, ar in sorted(set((a["sym"], len(a["args"])) for a in atoms)):
            tail.append({"s": s, "op": "get", "sym": sym, "args": [None] * ar})
        tail += [{"s": s, "op": "contains", "a": a} for a in focus]
    for o in tail:
        sim.try_apply(o)
        ops.append(o)
    return {"consts": consts, "atoms": atoms, "tstores": tstores, "stores": stores, "ops": ops,
            "config": "adapter-" + layout, "main": main}


A_MARKS = ("ghost", "strict", "multi", "cls")


def a_go_payload(case):
    return {"consts": case["consts"], "atoms": case["atoms"], "tstores": case["tstores"], "stores": case["stores"],
            "ops": [{k: v for k, v in o.items() if k not in A_MARKS} for o in case["ops"]]}


def a_cq_def(d):
    if d["k"] in A_LEAF_KINDS:
        return C("DBase", Raw("KSimple"))     # the set machine does not look at the kind
    return cq_def(d)


def zq(x):
    """option Z; large positive numbers in 16-bit limbs like the hashes"""
    return None if x is None else C("Some", hz(x) if x >= 0 else x)


def a_cq_case(case, res):
    hist = []
    for o, r in zip(case["ops"], res):
        if o["op"] == "tadd":
            hist.append(C("ATAdd", o["ts"], cq_atom(case, o["a"]), (zq(o["lo"]), zq(o["hi"]))))
        else:
            hist.append(C("AStd", o["s"], cq_op(case, o, r)[1], bool(o.get("strict", True))))
    views = [(i, (d["ts"], zq(d.get("at")))) for i, d in enumerate(case["stores"]) if d["k"] == "tadapter"]
    tdefs = [Raw("TPlain") if d["k"] == "tstore" else C("TTee", d["base"]) for d in case["tstores"]]
    return coq(C("amk", [a_cq_def(d) for d in case["stores"]], tdefs, views, hist))


def a_results_wellformed(case, out):
    for k, (o, r) in enumerate(zip(case["ops"], out["res"])):
        if o["op"] == "get" and any(not isinstance(x, int) for x in r):
            return k, "GetFacts yielded an atom that was never given to the store: %s" % r
        if o["op"] == "remove" and not isinstance(r, bool):
            return k, "Remove unsupported on this slot"
        if o["op"] == "tadd":
            valid = o["lo"] is None or o["hi"] is None or o["lo"] <= o["hi"]
            if (r == "err") == valid:
                return k, "TemporalStore.Add: interval %s, store answered %r" % ("valid" if valid else "start > end", r)
    return None


def mark_adapter_case(c):
    """recompute the marks of a stored case (corpus, replay)"""
    sim = ASim(c["tstores"], c["stores"], c["atoms"])
    for o in c["ops"]:
        for k in ("ghost", "strict", "multi"):
            o.pop(k, None)
        sim.apply(o)
    return c


def classify_adapter(ck, cases, outs, label):
    """Judge the adapter cases with Run.C06.judge_a (Coq set machine over the derived views)."""
    terms, idxs = [], []
    for i, (c, o) in enumerate(zip(cases, outs)):
        if "out" not in o:
            ck.violation({"property": "C06", "kind": "implementation error/panic on a legal history (adapter configuration)",
                          "adapter_case": True, "case": a_go_payload(c), "impl": o})
            continue
        bad = a_results_wellformed(c, o["out"])
        if bad:
            ck.violation({"property": "C06", "kind": "implementation output outside the domain (adapter configuration)",
                          "adapter_case": True, "case": a_go_payload(c), "impl": o["out"]["res"],
                          "op_index": bad[0], "why": bad[1]})
            continue
        terms.append(a_cq_case(c, o["out"]["res"]))
        idxs.append(i)
    # few shards: a case evaluates in ~0.1 s, the start-up of a coqc process costs more than 20 cases
    verdicts = ck.run_coq("C06", "judge_a", terms, shard=max(25, len(terms) // 12 + 1), tag=label)
    dis = 0
    for i, v in zip(idxs, verdicts):
        if v == 0:
            continue
        dis += 1
        if len(ck.violations) >= 5:
            continue
        c, o = cases[i], outs[i]["out"]
        rep = {"property": "C06", "adapter_case": True, "case": a_go_payload(c), "config": c.get("config"),
               "impl_outputs": o["res"], "judge_a": v,
               "marks": [{k: x[k] for k in A_MARKS if k in x} for x in c["ops"]]}
        if v == 9999:
            rep["kind"] = "malformed adapter case (generator error)"
            rep["no_longer_checks"] = "Run.C06.wellformed_a"
            ck.violation(rep, "no-failing-input-found")
            continue
        k = v - 1000
        rep["op_index_1based"] = k
        rep["op"] = c["ops"][k - 1]
        rep["impl_result"] = o["res"][k - 1]
        try:
            rep["set_machine_answers"] = ck.coq_show("C06", "trace_a " + a_cq_case(c, o["res"]))[-4000:]
        except Exception as e:
            rep["set_machine_answers"] = "unavailable: %s" % e
        rep["kind"] = ("temporal adapter configuration differs from the set of ground atoms (view derived from the "
                       "(atom, interval) pairs; Coq set machine verdict Run.C06.judge_a)")
        ck.violation(rep)
    return dis


def adapter_exhaustive_cases(max_len):
    """Every history of <= max_len writes - direct Add of p(/a) or p(/b) with one of 5 intervals (two overlapping
    ones around the pinned instant 10, a point at 10, one that misses it, eternal) or Add through the unpinned
    adapter - on one temporal store seen by an unpinned adapter, an adapter pinned at 10 and merged([pinned], simple),
    each followed by every membership test and every pattern on all three, predicates and count."""
    consts = [name("/a"), name("/b")]
    atoms = [{"sym": 0, "args": [0]}, {"sym": 0, "args": [1]}]
    tstores = [{"k": "tstore"}]
    stores = [{"k": "tadapter", "ts": 0, "at": None}, {"k": "tadapter", "ts": 0, "at": 10}, {"k": "simple"},
              {"k": "merged", "reads": [1], "w": 2}]
    ivs = [(0, 10), (5, 15), (10, 10), (11, 20), (None, None)]
    steps = [{"op": "tadd", "ts": 0, "a": a, "lo": lo, "hi": hi} for a in range(2) for lo, hi in ivs]
    steps += [{"s": 0, "op": "add", "a": a} for a in range(2)]
    tail = []
    for s in (0, 1, 3):
        tail += [{"s": s, "op": "contains", "a": a} for a in range(2)]
        tail += [{"s": s, "op": "get", "sym": 0, "args": [x]} for x in (None, 0, 1)]
        tail += [{"s": s, "op": "preds"}, {"s": s, "op": "count"}]
    for n in range(1, max_len + 1):
        for combo in itertools.product(steps, repeat=n):
            sim = ASim(tstores, stores, atoms)
            ops = []
            for o in [dict(x) for x in combo] + [dict(x) for x in tail]:
                if not sim.try_apply(o):
                    break
                ops.append(o)
            else:
                yield {"consts": consts, "atoms": atoms, "tstores": tstores, "stores": stores, "ops": ops,
                       "config": "adapter-exhaustive", "main": 1}


def adapter_coverage(cases, outs):
    by_layout, nops, ivcls, multi, unjudged = {}, {}, {}, {"pinned": 0, "unpinned": 0}, {"add": 0, "count": 0}
    pinned_obs = unpinned_obs = wrapped_obs = ghosts = 0
    max_iv = 0
    witness = None
    for c, o in zip(cases, outs):
        by_layout[c["config"]] = by_layout.get(c["config"], 0) + 1
        res = o.get("out", {}).get("res", [])
        per_atom = {}
        for k, op in enumerate(c["ops"]):
            nops[op["op"]] = nops.get(op["op"], 0) + 1
            if op["op"] == "tadd":
                ivcls[op.get("cls", "given")] = ivcls.get(op.get("cls", "given"), 0) + 1
                per_atom[(op["ts"], op["a"])] = per_atom.get((op["ts"], op["a"]), 0) + 1
                continue
            if op.get("multi"):
                multi[op["multi"]] += 1
            if op["op"] in ("add", "count") and op.get("strict") is False:
                unjudged[op["op"]] += 1
                if op["op"] == "add" and witness is None and k < len(res):
                    witness = {"stores": c["stores"], "tstores": c["tstores"],
                               "ops_so_far": [{x: y for x, y in q.items() if x not in A_MARKS} for q in c["ops"][:k + 1]],
                               "impl_result_of_last_add": res[k]}
            if op["op"] == "preds" and op.get("ghost"):
                ghosts += 1
            if op["op"] in ("contains", "get"):
                d = c["stores"][op["s"]]
                if d["k"] == "tadapter":
                    if d.get("at") is None:
                        unpinned_obs += 1
                    else:
                        pinned_obs += 1
                else:
                    wrapped_obs += 1
        if per_atom:
            max_iv = max(max_iv, max(per_atom.values()))
    return {"count": len(cases), "judge": "Coq Run.C06.judge_a (set machine over the views derived from the (atom, interval) pairs)",
            "layouts": by_layout, "ops": nops, "interval_classes": ivcls,
            "contains_or_get_on_pinned_adapter": pinned_obs, "contains_or_get_on_unpinned_adapter": unpinned_obs,
            "contains_or_get_through_wrapper_or_other_slot": wrapped_obs,
            "queries_matching_an_atom_with_2plus_intervals_in_view": multi,
            "max_direct_intervals_per_atom": max_iv, "listings_judged_as_superset": ghosts,
            "results_not_judged": unjudged, "unjudged_add_witness": witness,
            "samples": [a_go_payload(c)["ops"][:8] for c in cases[:2]]}


# --------------------------------------------------------------------- probes
def probe_cases():
    zero, nil = num(0), lst()
    a, b = name("/a"), name("/b")
    return {
        "F8": {"consts": [zero, nil], "atoms": [{"sym": 0, "args": [0]}, {"sym": 0, "args": [1]}],
               "stores": [{"k": "simple"}],
               "ops": [{"s": 0, "op": "add", "a": 0}, {"s": 0, "op": "add", "a": 1},
                       {"s": 0, "op": "get", "sym": 0, "args": [None]}]},
        "N7": {"consts": [a], "atoms": [{"sym": 0, "args": [0]}],
               "stores": [{"k": "simple"}, {"k": "tee", "base": 0}, {"k": "simple"}],
               "ops": [{"s": 0, "op": "add", "a": 0}, {"s": 2, "op": "add", "a": 0},
                       {"s": 1, "op": "merge", "from": 2}, {"s": 1, "op": "get", "sym": 0, "args": [None]}]},
        "N7m": {"consts": [a], "atoms": [{"sym": 0, "args": [0]}],
                "stores": [{"k": "simple"}, {"k": "simple"}, {"k": "merged", "reads": [0], "w": 1}, {"k": "simple"}],
                "ops": [{"s": 0, "op": "add", "a": 0}, {"s": 3, "op": "add", "a": 0},
                        {"s": 2, "op": "merge", "from": 3}, {"s": 2, "op": "get", "sym": 0, "args": [None]}]},
        "N8": {"consts": [a], "atoms": [{"sym": 0, "args": [0]}],
               "stores": [{"k": "indexed"}],
               "ops": [{"s": 0, "op": "add", "a": 0}, {"s": 0, "op": "remove", "a": 0},
                       {"s": 0, "op": "preds"}]},     # not marked ghost: judged by the exact set verdict
        # adapter-format cases (key "tstores"): judged by Run.C06.judge_a with EVERY Add marked strict
        # N95: p(/a) is written directly with [0,10]; the unpinned adapter sees it; Add through the adapter must say false
        "N95": {"consts": [a], "atoms": [{"sym": 0, "args": [0]}],
                "tstores": [{"k": "tstore"}], "stores": [{"k": "tadapter", "ts": 0, "at": None}],
                "ops": [{"op": "tadd", "ts": 0, "a": 0, "lo": 0, "hi": 10}, {"s": 0, "op": "contains", "a": 0},
                        {"s": 0, "op": "add", "a": 0}, {"s": 0, "op": "add", "a": 0}]},
        # the same through a TeeingTemporalStore whose base holds p(/a) eternally
        "N95t": {"consts": [a], "atoms": [{"sym": 0, "args": [0]}],
                 "tstores": [{"k": "tstore"}, {"k": "ttee", "base": 0}],
                 "stores": [{"k": "tadapter", "ts": 1, "at": None}],
                 "ops": [{"op": "tadd", "ts": 0, "a": 0, "lo": None, "hi": None}, {"s": 0, "op": "contains", "a": 0},
                         {"s": 0, "op": "add", "a": 0}, {"s": 0, "op": "add", "a": 0}]},
    }


def probes(ck):
    known = {k["id"] for k in known_for("C06")}
    pc = probe_cases()
    names = [n for n in pc if "tstores" not in pc[n]]
    outs = ck.run_go("c06", [go_payload(pc[n]) for n in names])
    codes = ck.run_coq("C06", "judge", [cq_case(pc[n], o["out"]) for n, o in zip(names, outs)], tag="probe")
    # adapter-format probes (N95): the main stream does NOT judge the boolean of Adapter.Add when the atom is in the
    # view without an eternal interval in the written store (ASim.mark, strict=False - the trigger avoidance of N95);
    # here every Add is judged (strict=True), so judge_a answers 1000+k at the Add that reports a visible atom as new
    # and 0 once Add answers for the atom
    anames = [n for n in pc if "tstores" in pc[n]]
    for n in anames:
        mark_adapter_case(pc[n])
        for o in pc[n]["ops"]:
            if o["op"] == "add":
                o["strict"] = True
    aouts = ck.run_go("c06", [a_go_payload(pc[n]) for n in anames])
    codes += ck.run_coq("C06", "judge_a", [a_cq_case(pc[n], o["out"]["res"]) for n, o in zip(anames, aouts)],
                        tag="probe_a")
    names += anames
    what = {"F8": "F8 simple store: Add(p([])) after Add(p(0)) returns false and p([]) is never stored (equal Atom.Hash())",
            "N7": "N7 TeeingStore.Merge copies an atom the base already holds: GetFacts yields it twice",
            "N7m": "N7 MergedStore.Merge copies an atom a read store already holds: GetFacts yields it twice",
            "N8": "N8 indexed store still lists a predicate whose only fact was removed",
            "N95": "N95 TemporalFactStoreAdapter.Add(p(/a)) answers true although Contains(p(/a)) is true (p(/a) holds "
                   "during [0,10]): Add reports the novelty of the eternal interval, not of the atom",
            "N95t": "N95 TemporalFactStoreAdapter.Add over a TeeingTemporalStore answers true for an atom its base "
                    "holds eternally (Contains true)"}
    res = {}
    for n, code in zip(names, codes):
        res[n] = code
        fid = n.rstrip("mt")
        if n in anames and code not in (0, 1003):
            # N95 is op 3 only (the Add of a visible atom); anything else the set machine rejects here is not N95
            ck.violation({"property": "C06", "kind": "adapter probe: the set machine rejects another operation than "
                          "the Add of the visible atom (9999 = malformed case)", "probe": n, "adapter_case": True,
                          "case": a_go_payload(pc[n]), "impl_outputs": aouts[anames.index(n)].get("out", {}).get("res"),
                          "judge_a": code}, "" if 1000 < code < 9999 else "no-failing-input-found")
        elif code >= 1000:
            if fid in known:
                ck.known(what[n] + " (set machine rejects op %d)" % (code - 1000))
            else:
                ck.violation({"property": "C06", "kind": "probe fails and the finding is not listed as known",
                              "probe": n, "case": pc[n], "judge": code})
        elif code != 0:
            ck.violation({"property": "C06", "kind": "probe: model and implementation disagree", "probe": n,
                          "case": pc[n], "judge": code,
                          "no_longer_checks": "correspondence Run.C06.judge on the probe of " + fid},
                         "no-failing-input-found")
    return res


# ----------------------------------------------------------------- the check
def prepare(ck, raw_cases):
    """phase 1: ask Go for the hashes of every universe, drop hash-equal atoms
    from universes that meet a hash-keyed store, check Go's Equals against the
    structural identity of the generated constants."""
    outs = ck.run_go("c06", [{"consts": c, "atoms": a, "stores": [], "ops": []} for c, a in raw_cases])
    res = []
    for (consts, atoms), o in zip(raw_cases, outs):
        if "out" not in o:
            raise RuntimeError("hash phase failed: %s" % o)
        h = o["out"]
        if h["ceq"] != list(range(len(consts))) or h["aeq"] != list(range(len(atoms))):
            ck.violation({"property": "C06", "kind": "Equals conflates structurally distinct constants/atoms",
                          "consts": consts, "atoms": atoms, "ceq": h["ceq"], "aeq": h["aeq"]})
        res.append(h)
    return res


def classify(ck, cases, outs, verdicts_for, label):
    """judge all cases; returns number of disagreements"""
    terms, idxs = [], []
    for i, (c, o) in enumerate(zip(cases, outs)):
        if "out" not in o:
            ck.violation({"property": "C06", "kind": "implementation error/panic on a legal history",
                          "case": go_payload(c), "impl": o})
            continue
        bad = results_wellformed(c, o["out"])
        if bad:
            ck.violation({"property": "C06", "kind": "implementation output outside the set of given atoms",
                          "case": go_payload(c), "impl": o["out"]["res"], "op_index": bad[0], "why": bad[1]})
            continue
        terms.append(cq_case(c, o["out"]))
        idxs.append(i)
    verdicts = ck.run_coq("C06", "judge", terms, shard=max(20, len(terms) // 16 + 1), tag=label)
    dis = 0
    for i, v in zip(idxs, verdicts):
        if v == 0:
            continue
        dis += 1
        if len(ck.violations) >= 5:
            continue
        c, o = cases[i], outs[i]["out"]
        rep = {"property": "C06", "case": go_payload(c), "config": c.get("config"),
               "impl_outputs": o["res"], "ahash": o["ahash"], "chash": o["chash"], "judge": v,
               "ghost_marks": [x.get("ghost") for x in c["ops"]]}
        if v == 9999:
            rep["kind"] = "malformed case (generator error)"
            rep["no_longer_checks"] = "Run.C06.wellformed"
            ck.violation(rep, "no-failing-input-found")
            continue
        k = v - 1000 if v >= 1000 else v
        rep["op_index_1based"] = k
        rep["op"] = c["ops"][k - 1]
        rep["impl_result"] = o["res"][k - 1]
        try:
            rep["model_and_set_answers"] = ck.coq_show("C06", "trace " + cq_case(c, o))[-4000:]
        except Exception as e:       # the replay is still useful without it
            rep["model_and_set_answers"] = "unavailable: %s" % e
        if v >= 1000:
            rep["kind"] = "implementation differs from the set of ground atoms (set machine verdict)"
            ck.violation(rep)
        else:
            rep["kind"] = "correspondence model/implementation broken; the set machine accepts every result"
            rep["no_longer_checks"] = "correspondence Run.C06.judge: models coq/Store/*.v vs factstore/factstore.go"
            ck.violation(rep, "no-failing-input-found")
    return dis


def load_corpus(adapter=False):
    cases = []
    for path in sorted(glob.glob(os.path.join(os.path.dirname(__file__), "..", "corpus", "C06", "*.json"))):
        c = json.load(open(path))
        if ("tstores" in c) != adapter:
            continue
        if adapter:
            c.setdefault("config", "adapter-corpus")
            cases.append(mark_adapter_case(c))
            continue
        c.setdefault("config", "corpus")
        sim = Sim(c["stores"], c["atoms"])
        for o in c["ops"]:
            sim.apply(o)           # marks predicate listings taken in an N8 state
        cases.append(c)
    return cases


def run(ck):
    ck.obligations()
    ck.build_harness()
    rng = ck.rng
    nmain = ck.n(320, 2400)
    ncoll = ck.n(80, 600)
    plan = [CONFIGS[i % len(CONFIGS)] for i in range(nmain)] + ["array-collisions"] * ncoll
    raw = []
    for cfg in plan:
        raw.append(gen_universe(rng, collide=(cfg == "array-collisions" or rng.random() < 0.5)))
    # adapter configurations: their universes come after the others, so the main stream of a seed is unchanged
    nadapt = ck.n(96, 720)
    aplan = [A_LAYOUTS[i % len(A_LAYOUTS)] for i in range(nadapt)]
    arng = random.Random("C06-adapter/%d" % ck.seed)      # own stream, seeded by VERIF_SEED like ck.rng
    for _ in aplan:
        raw.append(gen_universe(arng, collide=arng.random() < 0.4, natoms=arng.randint(3, 8)))
    hashes = prepare(ck, raw)
    cases = load_corpus()
    ncorpus = len(cases)
    dropped = 0
    for cfg, (consts, atoms), h in zip(plan, raw, hashes):
        big = (not ck.quick) or rng.random() < 0.3
        if cfg == "array-collisions":
            # only array stores (and wrappers whose every component is one): collisions kept
            stores_cfg = rng.choice(["array", "tee", "conc"])
            case = None
            for _ in range(20):
                cand = gen_history(rng, stores_cfg, consts, atoms, big)
                if not hash_keyed_case(cand["stores"]):
                    case = cand
                    break
            if case is None:
                case = gen_history(rng, "array", consts, atoms, big)
                case["stores"][1] = {"k": "array"}
            case["config"] = "array-collisions"
        else:
            keep = filter_collisions(rng, atoms, h["ahash"])
            dropped += len(atoms) - len(keep)
            atoms2 = [atoms[i] for i in keep]
            case = gen_history(rng, cfg, consts, atoms2, big)
        cases.append(case)
    nrandom = len(cases) - ncorpus
    exhaustive = False
    nex = 0
    if not ck.quick:
        ex = list(exhaustive_cases(4, 3))
        nex = len(ex)
        cases += ex
        exhaustive = True
    # ---- adapter configurations (corpus first)
    acases = load_corpus(adapter=True)
    nacorpus = len(acases)
    for layout, (consts, atoms), h in zip(aplan, raw[len(plan):], hashes[len(plan):]):
        keep = filter_collisions(arng, atoms, h["ahash"])     # the temporal store is keyed by Atom.Hash() (F8)
        dropped += len(atoms) - len(keep)
        acases.append(gen_adapter_history(arng, layout, consts, [atoms[i] for i in keep],
                                          (not ck.quick) or arng.random() < 0.3))
    naex = 0
    if not ck.quick:
        aex = list(adapter_exhaustive_cases(3))
        naex = len(aex)
        acases += aex
    ck.log("cases: corpus %d, random %d, exhaustive %d; adapter configurations: corpus %d, random %d, exhaustive %d"
           % (ncorpus, nrandom, nex, nacorpus, nadapt, naex))
    outs = ck.run_go("c06", [go_payload(c) for c in cases])
    aouts = ck.run_go("c06", [a_go_payload(c) for c in acases])
    ck.log("go done")
    dis = classify_adapter(ck, acases, aouts, "adapter")
    dis += classify(ck, cases, outs, None, "cases")
    ck.log("coq done")
    pr = probes(ck)
    # ---- coverage
    by_cfg, nops, kinds, arities, ckinds = {}, {}, {}, {}, {}
    coll_cases = 0
    for c, o in zip(cases, outs):
        by_cfg[c["config"]] = by_cfg.get(c["config"], 0) + 1
        for op in c["ops"]:
            nops[op["op"]] = nops.get(op["op"], 0) + 1
        for d in c["stores"]:
            kinds[d["k"]] = kinds.get(d["k"], 0) + 1
        for a in c["atoms"]:
            arities[len(a["args"])] = arities.get(len(a["args"]), 0) + 1
        for k in c["consts"]:
            ckinds[k["k"]] = ckinds.get(k["k"], 0) + 1
        if "out" in o and len(set(o["out"]["ahash"])) < len(o["out"]["ahash"]):
            coll_cases += 1
    add_res = {}
    for c, o in zip(cases, outs):
        for op, r in zip(c["ops"], o.get("out", {}).get("res", [])):
            if op["op"] in ("add", "remove"):
                add_res["%s=%s" % (op["op"], r)] = add_res.get("%s=%s" % (op["op"], r), 0) + 1
    distinct = len(set(json.dumps([c["stores"], c["ops"], c["atoms"]], sort_keys=True) for c in cases
                       if sum(1 for o in c["ops"] if o["op"] in ("add", "remove", "merge")) >= 2))
    distinct += len(set(json.dumps([c["stores"], c["tstores"], a_go_payload(c)["ops"], c["atoms"]], sort_keys=True)
                        for c in acases if sum(1 for o in c["ops"] if o["op"] in ("add", "tadd", "remove", "merge")) >= 2))
    cov = {"evaluations": len(cases) + len(acases), "distinct_nontrivial": distinct,
           "rule": "operation histories on real factstore stores (corpus %d, random %d, exhaustive block %d; adapter "
                   "configurations over directly written temporal stores: corpus %d, random %d, exhaustive block %d); "
                   "non-trivial = at least two writes; distinct by stores+atoms+op list"
                   % (ncorpus, nrandom, nex, nacorpus, nadapt, naex),
           "exhaustive": exhaustive,
           "exhaustive_scope": ("every add/remove history of length <= 4 over the universe {p(/a,/b), p(/b,/b), q()} on the 4 base "
                                "kinds and the temporal adapter, and of length <= 3 on 7 wrapper layouts (tee and merged over "
                                "simple/indexed/array with one base fact, concurrent), each followed by all 3 membership tests, all 9 patterns, predicates and count; "
                                "histories outside the wrappers' documented domain are skipped. Adapter block: every history of <= 3 "
                                "writes (direct TemporalStore.Add of p(/a) or p(/b) with [0,10], [5,15], [10,10], [11,20] or the eternal "
                                "interval, or Add through the unpinned adapter) on one temporal store, observed through the unpinned "
                                "adapter, the adapter pinned at 10 and merged([pinned adapter], simple): 2 membership tests, 3 patterns, "
                                "predicates, count on each") if exhaustive else "",
           "adapter_cases": adapter_coverage(acases, aouts),
           "configurations": by_cfg, "store_kinds": kinds, "ops": nops, "atom_arities": arities,
           "constant_kinds": ckinds, "write_results": add_res,
           "cases_with_hash_equal_atoms": coll_cases, "atoms_dropped_for_hash_equality": dropped,
           "disagreements_checked": dis, "probe_codes": pr,
           "samples": [go_payload(cases[ncorpus])["ops"][:6], go_payload(cases[-1])["ops"][:5]]}
    return ck.finish(cov, assumptions=[
        "models hand-written (coq/Store/*.v); tied to factstore/factstore.go by differential replay only",
        "atoms are (symbol id, constant ids); Go's Equals on the generated constants is checked against their structure on every run",
        "hash functions are the values observed from Go per case (the theorems hold for every hash function)",
        "hash-keyed stores (simple, indexed, multi-indexed, temporal adapter): no two distinct hash-equal atoms in one history (finding F8)",
        "wrappers: components stay disjoint, Remove through a wrapper only for atoms of its write store (documented), "
        "Merge into a wrapper only of atoms its read-only part lacks (finding N7)",
        "ListPredicates of indexed/multi/array stores after a predicate was emptied is judged as a superset (finding N8)",
        "main stream: the temporal adapter is used without a query time over a fresh TemporalStore and modelled as a hash-keyed map without Remove",
        "adapter configurations (coverage.adapter_cases): the adapter, unpinned or pinned at an instant, over a TemporalStore / "
        "TeeingTemporalStore that is also written directly with (atom, interval) pairs; judged by the Coq set machine only "
        "(Run.C06.judge_a: view = atoms with an interval / with an interval containing the instant); no Remove on the adapter; "
        "the boolean of Adapter.Add is judged only when the atom is outside the view or already eternal in the written store "
        "(it reports the novelty of the eternal interval: finding N95, replayed by a probe), the count only while every atom has one interval and all are in "
        "view (it counts pairs), the listing as a superset when a listed predicate has no atom in view; "
        "no Merge between views of one temporal store"])


def replay(ck, path):
    ck.build_harness()
    rep = json.load(open(path))
    case = rep["case"]
    if rep.get("adapter_case") or "tstores" in case:
        mark_adapter_case(case)
        out = ck.run_go("c06", [a_go_payload(case)])[0]
        if "out" not in out or a_results_wellformed(case, out["out"]):
            print("VIOLATION property=C06 replay=%s" % path)
            return 1
        v = ck.run_coq("C06", "judge_a", [a_cq_case(case, out["out"]["res"])])[0]
        print("replay: judge_a = %d" % v)
        if v != 0:
            print("VIOLATION property=C06 replay=%s" % path)
            return 1
        return 0
    marks = rep.get("ghost_marks") or []
    for o, g in zip(case["ops"], marks):
        if g is not None:
            o["ghost"] = g
    out = ck.run_go("c06", [go_payload(case)])[0]
    if "out" not in out or results_wellformed(case, out["out"]):
        print("VIOLATION property=C06 replay=%s" % path)
        return 1
    v = ck.run_coq("C06", "judge", [cq_case(case, out["out"])])[0]
    print("replay: judge = %d" % v)
    if v != 0:
        print("VIOLATION property=C06 replay=%s" % path)
        return 1
    return 0


META = {
    "text": "Machine-checked theorems (coq/Props/C06.v, 23, all closed under the global context) about Gallina models of "
            "the four in-memory fact stores and the merged/teeing wrappers: for every atom-hash and constant-hash function and "
            "every history of add, remove, contains, pattern query, predicate listing, count and merge the multi-indexed "
            "array store answers exactly as a set of ground atoms (array_refines_set, no hypothesis); the simple, indexed "
            "and multi-indexed stores do so for every history without two distinct atoms of equal atom hash (and the simple "
            "store provably not otherwise; its predicate listing is exact, the others list a superset: N8); a teeing or "
            "merged store over in-memory stores of any kind filled by arbitrary histories, and generally over any components "
            "that simulate sets, answers every history in the documented domain (Remove only from the write store, Merge "
            "brings no atom of the read-only part) as the set of the disjoint union. The models are tied to "
            "factstore/factstore.go on every run by replaying generated histories over 8 store configurations (all constant "
            "kinds, arities 0-3, deliberate hash collisions for the array store; exhaustive for <= 4 writes on a 3-atom "
            "universe in the thorough tier) on the Go stores, on the models inside Coq with the hash values Go reports, and "
            "on the set machine. The temporal adapter is additionally run unpinned and pinned at an instant over temporal "
            "stores (plain and teeing) that are also written directly with several intervals per atom, alone and inside "
            "merged/teeing stores as the interpreter stacks them; there the Coq set machine judges membership and pattern "
            "queries (each atom once) against the view derived from the (atom, interval) pairs (Run.C06.judge_a; no model "
            "of the interval tree).",
    "note": "Trusted: Coq kernel + vm_compute; hand-written models tied to the code by differential replay only (sampled, "
            "exhaustive on a small universe); known findings F8 (hash-equal atoms), N7 (wrapper Merge duplicates), N8 "
            "(emptied predicates stay listed), N95 (Adapter.Add answers for the eternal interval, not for the atom) are avoided "
            "by the main stream and replayed by probes; fixes F10, N6 applied. "
            "Adapter configurations: set-machine verdict only; the boolean of Adapter.Add and the count are judged only where "
            "the adapter's documented meaning (novelty of the eternal interval, number of pairs) coincides with the set's.",
}
