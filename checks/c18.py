"""C18 - the concurrent store is linearizable; parallel evaluations do not interfere.

PARTIAL for the proof technique.  Proved (coq/Props/C18.v): about a model of
ConcurrentFactStore whose lock rules are the assumption about sync.RWMutex and whose
per-method lock choice is regenerated from factstore.go on every run
(checks/c18_locktable.py -> coq/Conc/LockTable.v).  Runtime part (NOT a proof, labelled
so in the evidence): histories recorded from goroutines on the real store are judged by
the verified checker lin_check inside coqc; parse/analyse/evaluate of unrelated programs
in parallel vs alone; everything again under the Go race detector.
"""
import glob
import json
import os
import subprocess
import time

from vlib.core import C, Raw, coq, ROOT, BUILD, ENV, VERIF_REPO, SFX
from checks import c18_locktable

BASES = ["simple", "indexed", "multi", "multiarray"]
NPRED, NARG = 3, 3


# ------------------------------------------------------------------ encoding
def cq_atom(p, a):
    return (p, a)


def cq_op(o):
    k = o["k"]
    if k == "add":
        return C("Add", cq_atom(o["p"], o["a"]))
    if k == "remove":
        return C("Remove", cq_atom(o["p"], o["a"]))
    if k == "contains":
        return C("Contains", cq_atom(o["p"], o["a"]))
    if k == "getfacts":
        return C("GetFacts", o["p"], None if o["a"] is None else C("Some", o["a"]))
    if k == "merge":
        return C("Merge", [tuple(m) for m in o["ms"]])
    if k == "preds":
        return Raw("ListPreds")
    if k == "count":
        return Raw("Count")
    raise ValueError(k)


def cq_res(o, r):
    k = o["k"]
    if k in ("add", "remove", "contains"):
        return C("RBool", bool(r))
    if k == "getfacts":
        return C("RFacts", [tuple(x) for x in r])
    if k == "merge":
        return Raw("RUnit")
    if k == "preds":
        return C("RPreds", list(r))
    if k == "count":
        return C("RCount", int(r))
    raise ValueError(k)


def nat(n):
    return Raw("%d%%nat" % n)


def events_of(threads, recs):
    """recs[t][k] = {inv, resp, res} -> list of events in global clock order.
    An event is ("inv", id, t, op) or ("resp", id, t, op, res); id = index in clock order of the call."""
    evs = []
    for t, (ops, rs) in enumerate(zip(threads, recs)):
        for k, (o, r) in enumerate(zip(ops, rs)):
            evs.append((r["inv"], "inv", t, k))
            evs.append((r["resp"], "resp", t, k))
    evs.sort()
    ids, out = {}, []
    for _, kind, t, k in evs:
        if kind == "inv":
            ids[(t, k)] = len(ids)
            out.append(("inv", ids[(t, k)], t, threads[t][k]))
        else:
            out.append(("resp", ids[(t, k)], t, threads[t][k], recs[t][k]["res"]))
    return out


def cq_hist(evs):
    terms = []
    for e in evs:
        if e[0] == "inv":
            terms.append(C("EInv", nat(e[1]), nat(e[2]), cq_op(e[3])))
        else:
            terms.append(C("EResp", nat(e[1]), nat(e[2]), cq_res(e[3], e[4])))
    return coq(terms)


# ---------------------------------------------- independent oracle (property text)
def py_apply(state, o):
    """The set specification, written independently of the Coq model."""
    k = o["k"]
    if k == "add":
        a = (o["p"], o["a"])
        return (state | {a}, a not in state)
    if k == "remove":
        a = (o["p"], o["a"])
        return (state - {a}, a in state)
    if k == "contains":
        return (state, (o["p"], o["a"]) in state)
    if k == "getfacts":
        return (state, sorted([list(x) for x in state if x[0] == o["p"] and (o["a"] is None or x[1] == o["a"])]))
    if k == "merge":
        return (state | {tuple(m) for m in o["ms"]}, None)
    if k == "preds":
        return (state, sorted({x[0] for x in state}))
    if k == "count":
        return (state, len(state))
    raise ValueError(k)


def py_linearizable(evs):
    """Brute force over the classical definition (complete histories): is there an
    order of the operations, compatible with 'a returned before b was called', whose
    sequential execution on the empty set gives every recorded result?"""
    pos_inv, pos_resp, op, res = {}, {}, {}, {}
    for n, e in enumerate(evs):
        if e[0] == "inv":
            pos_inv[e[1]], op[e[1]] = n, e[3]
        else:
            pos_resp[e[1]], res[e[1]] = n, e[4]
    allids = sorted(op)
    seen = set()

    def go(done, state):
        if len(done) == len(allids):
            return True
        key = (done, state)
        if key in seen:
            return False
        seen.add(key)
        rest = [i for i in allids if i not in done]
        for i in rest:
            if any(pos_resp.get(j, 1 << 60) < pos_inv[i] for j in rest if j != i):
                continue
            st2, r = py_apply(state, op[i])
            if i in res and r != res[i]:
                continue
            if go(done | {i}, frozenset(st2)):
                return True
        return False
    return go(frozenset(), frozenset())


# ---------------------------------------------------------------- generators
def gen_op(rng, mix=None):
    ks = mix or ["add", "add", "add", "remove", "remove", "contains", "contains", "getfacts", "getfacts",
                 "merge", "preds", "count", "count"]
    k = rng.choice(ks)
    if k in ("add", "remove", "contains"):
        return {"k": k, "p": rng.randrange(NPRED), "a": rng.randrange(NARG)}
    if k == "getfacts":
        return {"k": k, "p": rng.randrange(NPRED), "a": None if rng.random() < 0.7 else rng.randrange(NARG)}
    if k == "merge":
        n = rng.randint(0, 4)
        return {"k": k, "ms": sorted({(rng.randrange(NPRED), rng.randrange(NARG)) for _ in range(n)})}
    return {"k": k}


def norm(o):
    """JSON shape sent to Go."""
    d = {"k": o["k"]}
    if "p" in o:
        d["p"] = o["p"]
    if "a" in o:
        d["a"] = o["a"]
    if "ms" in o:
        d["ms"] = [list(m) for m in o["ms"]]
    return d


def preds_ok(base):
    # ListPredicates of the indexed stores keeps a predicate whose last fact was removed
    # (empty shard stays in the map); only the simple store is the exact 'predicates that
    # have a fact'.  The set machine models the latter; other kinds never get 'preds'
    # once a remove may have happened (see notes/C18.md).
    return base == "simple"


def gen_seq(rng):
    base = rng.choice(BASES)
    mix = None if preds_ok(base) else ["add", "add", "add", "remove", "remove", "contains", "contains",
                                       "getfacts", "getfacts", "merge", "count", "count"]
    return {"base": base, "ops": [gen_op(rng, mix) for _ in range(rng.randint(3, 30))]}


MIXES = {
    "all": None,
    "add-remove-one-atom": "one-atom",
    "merge-vs-readers": ["merge", "merge", "getfacts", "count", "getfacts", "remove"],
    "writers": ["add", "remove", "merge", "add", "remove"],
    "add-contains": ["add", "contains", "remove", "contains"],
}


def gen_conc(rng, reps, big=False):
    base = rng.choice(BASES)
    name = rng.choice(sorted(MIXES))
    mix = MIXES[name]
    g = rng.randint(2, 4)
    threads = []
    for _ in range(g):
        n = rng.randint(3, 6) if not big else rng.randint(4, 6)
        if mix == "one-atom":
            ops = [{"k": rng.choice(["add", "remove", "contains", "count"]), "p": 0, "a": 0} for _ in range(n)]
            for o in ops:
                if o["k"] == "count":
                    o.pop("p"), o.pop("a")
        else:
            m = mix
            if m is None and not preds_ok(base):
                m = ["add", "add", "add", "remove", "remove", "contains", "contains", "getfacts", "getfacts",
                     "merge", "count", "count"]
            ops = [gen_op(rng, m) for _ in range(n)]
        threads.append(ops)
    return {"base": base, "threads": threads, "reps": reps, "yield": rng.random() < 0.5, "slow": rng.random() < 0.7, "mix": name}


PROGRAMS = [
    # (name, template) ; {a},{b},{c} are small distinct-per-instance numbers
    ("tc", "e({a},{b}). e({b},{c}). e({c},{a}). e({c},9). t(X,Y) :- e(X,Y). t(X,Z) :- e(X,Y), t(Y,Z)."),
    ("join", "r({a},{b}). r({b},{c}). s({b},7). s({c},8). j(X,Z) :- r(X,Y), s(Y,Z)."),
    ("neg", "n({a}). n({b}). n({c}). m({b}). d(X) :- n(X), !m(X)."),
    ("agg", "v({a},1). v({a},2). v({b},5). v({c},{a}). cnt(K,N) :- v(K,X) |> do fn:group_by(K), let N = fn:count()."),
    ("sum", "w({a},{b}). w({a},{c}). w({b},{c}). tot(K,S) :- w(K,X) |> do fn:group_by(K), let S = fn:sum(X)."),
    ("arith", "k({a}). k({b}). k({c}). s(Y) :- k(X), Y = fn:plus(X, {c}). b(X) :- k(X), X < {b}."),
    ("str", 'name("n{a}"). name("m{b}"). name("n{c}"). pre(X) :- name(X), :string:starts_with(X, "n").'),
    ("list", "l([{a},{b},{c}]). mem(X) :- l(L), :list:member(X, L). len(N) :- l(L), N = fn:list:len(L)."),
    ("layers", "a0({a}). a0({b}). a1(X) :- a0(X). a2(X) :- a1(X). a3(X) :- a2(X), !z(X). z({c}). a4(X,Y) :- a3(X), a1(Y)."),
    ("names", "c(/x{a}). c(/y{b}). c(/x{c}). two(X,Y) :- c(X), c(Y), X != Y."),
]


def gen_par(rng, reps):
    g = rng.randint(2, 6)
    progs, names = [], []
    for _ in range(g):
        name, tpl = rng.choice(PROGRAMS)
        a, b, c = rng.sample(range(1, 7), 3)
        progs.append(tpl.format(a=a, b=b, c=c))
        names.append(name)
    return {"programs": progs, "reps": reps, "names": names}


def gen_par_wild(rng, j, reps):
    """Round 3 (seed C18-5): unrelated programs whose rule bodies hold many wildcards (each one is replaced by
    a fresh variable X0, X1, ... during analysis). Case j uses more wildcards than every case before it, every
    goroutine its own predicate names and its own count, and the parallel runs come BEFORE the runs alone
    (par_first), so that process-wide lazily grown state is grown by several goroutines at once."""
    g = rng.randint(4, 8)
    lo = 50 + 90 * j
    ks = rng.sample(range(lo, lo + 80), g)
    progs = []
    for t, k in enumerate(ks):
        r, q = "r%d_%d" % (t, k), "q%d_%d" % (t, k)
        twos = ",".join(str(rng.randint(1, 6)) for _ in range(k))
        wild = ",".join("_" for _ in range(k))
        progs.append("%s(1,%s). %s(2,%s). %s(A) :- %s(A,%s). %s2(A,B) :- %s(A,%s), %s(B,%s), A != B."
                     % (r, twos, r, twos, q, r, wild, q, r, wild, r, wild))
    return {"programs": progs, "reps": reps, "names": ["wild%d" % k for k in ks], "par_first": True}


def par_in(c):
    return {"programs": c["programs"], "reps": c["reps"], "par_first": bool(c.get("par_first"))}


def synth_history(rng):
    """A history produced by a random atomic interleaving (hence linearizable), then,
    half of the time, one result is replaced by another value of the same type. Used to
    compare lin_check with the brute-force oracle on accepted AND rejected histories."""
    g = rng.randint(2, 3)
    threads = [[gen_op(rng) for _ in range(rng.randint(1, 3))] for _ in range(g)]
    pc = [0] * g          # next op index
    phase = [0] * g       # 0 idle, 1 invoked, 2 linearized
    pend = [None] * g
    state, evs, ids, nid = frozenset(), [], {}, 0
    while any(pc[t] < len(threads[t]) for t in range(g)):
        t = rng.choice([t for t in range(g) if pc[t] < len(threads[t])])
        o = threads[t][pc[t]]
        if phase[t] == 0:
            ids[t] = nid
            nid += 1
            evs.append(["inv", ids[t], t, o])
            phase[t] = 1
        elif phase[t] == 1:
            st2, r = py_apply(state, o)
            state, pend[t], phase[t] = frozenset(st2), r, 2
        else:
            evs.append(["resp", ids[t], t, o, pend[t]])
            phase[t], pc[t] = 0, pc[t] + 1
    if rng.random() < 0.5:
        resp = [e for e in evs if e[0] == "resp" and e[3]["k"] != "merge"]
        if resp:
            e = rng.choice(resp)
            k = e[3]["k"]
            if k in ("add", "remove", "contains"):
                e[4] = not e[4]
            elif k == "count":
                e[4] = e[4] + rng.choice([-1, 1]) if e[4] > 0 else 1
            elif k == "preds":
                e[4] = sorted(set(e[4]) ^ {rng.randrange(NPRED)})
            else:
                a = [e[3]["p"], rng.randrange(NARG) if e[3]["a"] is None else e[3]["a"]]
                e[4] = sorted([x for x in e[4] if x != a] if a in e[4] else e[4] + [a])
    return [tuple(e) for e in evs]


def exhaustive_seq():
    """Every operation sequence of length <= 3 over one predicate and two arguments."""
    import itertools
    ops = []
    for a in (0, 1):
        ops += [{"k": "add", "p": 0, "a": a}, {"k": "remove", "p": 0, "a": a}, {"k": "contains", "p": 0, "a": a}]
    ops += [{"k": "getfacts", "p": 0, "a": None}, {"k": "getfacts", "p": 0, "a": 0}, {"k": "getfacts", "p": 0, "a": 1}]
    ops += [{"k": "merge", "ms": ms} for ms in ([], [(0, 0)], [(0, 1)], [(0, 0), (0, 1)])]
    ops += [{"k": "count"}]
    for base in BASES:
        my = ops + ([{"k": "preds"}] if preds_ok(base) else [])
        for n in (1, 2, 3):
            for combo in itertools.product(my, repeat=n):
                yield {"base": base, "ops": list(combo), "shape": "exhaustive"}


# ------------------------------------------------------------ running Go
def build_race_binary(ck):
    """go build -race of the same harness (own binary). Returns (path | None, message)."""
    exe = os.path.join(BUILD, "harness_c18race" + SFX)
    lk = ck._locked("go_py")
    try:
        cmd = ["go", "build", "-race", "-tags", "verif", "-o", exe]
        cleanup = []
        hdir = os.path.join(ROOT, "harness")
        if SFX:
            mod = os.path.join(hdir, "altr%s.mod" % SFX)
            txt = open(os.path.join(hdir, "go.mod")).read().replace("=> /repo", "=> " + VERIF_REPO)
            open(mod, "w").write(txt)
            sumf = mod[:-4] + ".sum"
            open(sumf, "w").write(open(os.path.join(VERIF_REPO, "go.sum")).read())
            cmd += ["-modfile=" + os.path.basename(mod)]
            cleanup = [mod, sumf]
        cmd += ["./c18"]
        p = subprocess.run(cmd, cwd=hdir, env=ENV, stdout=subprocess.PIPE, stderr=subprocess.STDOUT, text=True)
        for f in cleanup:
            try:
                os.remove(f)
            except OSError:
                pass
    finally:
        lk.close()
    if p.returncode != 0:
        return None, p.stdout[-1500:]
    return exe, "ok"


def run_bin(exe, runner, cases, timeout=1200):
    """Like ck.run_go but never raises on a crash: returns (outs | None, returncode, stderr)."""
    data = "\n".join(json.dumps(c, separators=(",", ":")) for c in cases) + "\n"
    env = dict(ENV, GORACE="halt_on_error=0 exitcode=66")
    p = subprocess.run([exe, runner], input=data, stdout=subprocess.PIPE, stderr=subprocess.PIPE,
                       text=True, timeout=timeout, env=env)
    outs = None
    try:
        outs = [json.loads(l) for l in p.stdout.splitlines() if l.strip()]
        if len(outs) != len(cases):
            outs = None
    except ValueError:
        outs = None
    return outs, p.returncode, p.stderr


def go_conc_case(c):
    return {"base": c["base"], "threads": [[norm(o) for o in th] for th in c["threads"]],
            "reps": c["reps"], "yield": c.get("yield", False), "slow": c.get("slow", False)}


def runtime_failure(rc, err):
    """Classify a crashed / race-reporting harness run."""
    if "WARNING: DATA RACE" in err:
        return "Go race detector: WARNING: DATA RACE"
    if "concurrent map" in err:
        return "Go runtime fatal error: " + [l for l in err.splitlines() if "concurrent map" in l][0]
    if "all goroutines are asleep" in err:
        return "deadlock: all goroutines are asleep"
    if rc == 66:
        return "race detector exit code 66"
    if rc != 0:
        return "harness exited %d" % rc
    return None


# ----------------------------------------------------------------- the check
def judge_histories(ck, conc_cases, conc_outs, stats, label):
    """Turn recorded runs into distinct histories, judge them in Coq, confirm code 2 with
    the independent oracle. Returns number of distinct histories judged."""
    distinct = {}
    for c, o in zip(conc_cases, conc_outs):
        if "out" not in o:
            ck.violation({"property": "C18", "kind": "panic/error inside a store operation under concurrency",
                          "case": c, "impl": o})
            continue
        for recs in o["out"]:
            evs = events_of(c["threads"], recs)
            stats["histories"] += 1
            # overlap = some invocation happens while another call is pending
            depth, overl = 0, False
            for e in evs:
                if e[0] == "inv":
                    overl = overl or depth > 0
                    depth += 1
                else:
                    depth -= 1
            stats["overlapping"] += 1 if overl else 0
            key = json.dumps(evs, sort_keys=True)
            if key not in distinct:
                distinct[key] = (c, evs)
    keys = sorted(distinct)
    terms = [cq_hist(distinct[k][1]) for k in keys]
    verdicts = ck.run_coq("C18", "judge_hist", terms, shard=max(150, len(terms) // 6 + 1), tag=label)
    for k, v in zip(keys, verdicts):
        if v == 0:
            continue
        c, evs = distinct[k]
        if py_linearizable(evs):
            raise RuntimeError("lin_check rejected a history the brute-force oracle accepts "
                               "(checker incomplete?): %s" % json.dumps(evs))
        if len(ck.violations) < 5:
            ck.violation({"property": "C18", "kind": "recorded history of ConcurrentFactStore is NOT linearizable",
                          "evidence_kind": "runtime (recorded schedule), judged by the verified checker lin_check "
                                           "and confirmed by the independent brute-force oracle",
                          "base": c["base"], "threads": c["threads"], "history": evs, "judge_hist": v,
                          "replay_note": "schedules are not reproducible; --replay re-judges the recorded history "
                                         "and re-runs the same thread programs many times"})
    stats["nonlinearizable"] += sum(1 for v in verdicts if v != 0)
    return len(keys)


def changed_methods(tab):
    """Methods whose generated entry is not the expected one (used to aim the search
    when lock_table_ok breaks)."""
    want = {"Add": "Lock", "Remove": "Lock", "Merge": "Lock", "Contains": "RLock", "GetFacts": "RLock",
            "ListPredicates": "RLock", "EstimateFactCount": "RLock"}
    rel = {"Lock": "Unlock", "RLock": "RUnlock"}
    bad = []
    for e in tab["entries"]:
        w = want.get(e["name"])
        if w is None or e["acquire"] != w or e["release"] != rel[w] or not e["canonical"] or e["delegate"] != e["name"]:
            bad.append(e["name"])
    bad += [m for m in want if m not in [e["name"] for e in tab["entries"]]]
    return bad


METH_OP = {"Add": "add", "Remove": "remove", "Merge": "merge", "Contains": "contains", "GetFacts": "getfacts",
           "ListPredicates": "preds", "EstimateFactCount": "count"}


def run(ck):
    rng = ck.rng
    stats = {"histories": 0, "overlapping": 0, "nonlinearizable": 0}
    # 1. regenerate the lock table from the Go source, then the proof obligations
    tab, changed = c18_locktable.regenerate()
    ck.log("lock table regenerated from %s/factstore/factstore.go (%s): %s"
           % (VERIF_REPO, "CHANGED" if changed else "unchanged",
              ", ".join("%s:%s" % (e["name"], e["acquire"] or "-") for e in tab["entries"])))
    ok = ck.obligations()
    if SFX:   # an experiment against a scratch tree must not leave its table in the shared tree
        c18_locktable.regenerate(repo="/repo")
    suspects = changed_methods(tab)
    ck.build_harness()
    race_exe, race_msg = build_race_binary(ck)
    ck.log("race-detector binary: %s" % ("built" if race_exe else "UNAVAILABLE: " + race_msg[-300:]))

    # the race-detector runs go on in the background while Coq judges the rest
    import random
    from concurrent.futures import ThreadPoolExecutor
    rrng = random.Random(rng.random())
    rc_cases = [go_conc_case(gen_conc(rrng, ck.n(40, 60), big=True)) for _ in range(ck.n(30, 120))]
    if suspects:
        for _ in range(20):
            c = gen_conc(rrng, ck.n(100, 300), big=True)
            mix = [METH_OP[m] for m in suspects if m in METH_OP] * 3 + ["add", "remove", "getfacts", "count", "merge"]
            c["threads"] = [[gen_op(rrng, mix) for _ in range(6)] for _ in range(4)]
            c["base"] = "simple"
            rc_cases.append(go_conc_case(c))
    # wildcard-heavy cases first: the fresh-variable machinery must be cold when they run in parallel
    rp_cases = [gen_par_wild(rrng, j, 3) for j in range(4)] + [gen_par(rrng, ck.n(4, 8)) for _ in range(ck.n(12, 60))]

    def race_job():
        _, a, b = run_bin(race_exe, "c18_conc", rc_cases)
        _, c_, d = run_bin(race_exe, "c18_par", [par_in(c) for c in rp_cases])
        return (a, b), (c_, d)
    pool = ThreadPoolExecutor(max_workers=1)
    race_future = pool.submit(race_job) if race_exe else None

    # 2. corpus
    corpus = [json.load(open(p)) for p in sorted(glob.glob(os.path.join(ROOT, "corpus", "C18", "*.json")))]
    seq_cases = [c for c in corpus if c.get("kind") == "seq"]
    conc_cases = [c for c in corpus if c.get("kind") == "conc"]
    hist_corpus = [c for c in corpus if c.get("kind") == "history"]
    ncorpus = len(corpus)

    # 3. sequential correspondence: set machine vs the real stores behind the wrapper
    for _ in range(ck.n(300, 2000)):
        seq_cases.append(gen_seq(rng))
    nexh = 0
    if not ck.quick:
        ex = list(exhaustive_seq())
        nexh = len(ex)
        seq_cases += ex
    outs = ck.run_go("c18_seq", [{"base": c["base"], "ops": [norm(o) for o in c["ops"]]} for c in seq_cases])
    terms, idx = [], []
    for i, (c, o) in enumerate(zip(seq_cases, outs)):
        if "out" not in o:
            ck.violation({"property": "C18", "kind": "error/panic on a single-threaded history", "case": c, "impl": o})
            continue
        terms.append(coq([(cq_op(op), cq_res(op, r)) for op, r in zip(c["ops"], o["out"])]))
        idx.append(i)
    ck.log("sequential Go run done: %d cases" % len(seq_cases))
    seq_verdicts = ck.run_coq("C18", "judge_seq", terms, shard=max(150, len(terms) // 6 + 1), tag="seq")
    seq_dis = 0
    for i, v in zip(idx, seq_verdicts):
        if v == 0:
            continue
        seq_dis += 1
        c, o = seq_cases[i], outs[i]["out"]
        # independent oracle: the set specification in Python
        st, bad = frozenset(), None
        for k, (op, r) in enumerate(zip(c["ops"], o)):
            st2, want = py_apply(st, op)
            if want != r:
                bad = (k, want)
                break
            st = frozenset(st2)
        rep = {"property": "C18", "case": c, "impl_outputs": o, "first_disagreeing_op": v,
               "model_trace": ck.coq_show("C18", "trace " + terms[idx.index(i)])}
        if bad:
            rep["kind"] = "single-threaded result differs from the set specification"
            rep["oracle"] = {"op_index": bad[0], "expected": bad[1], "got": o[bad[0]]}
            ck.violation(rep)
        else:
            rep["kind"] = "correspondence set machine / implementation broken"
            rep["no_longer_checks"] = "correspondence Run.C18.judge_seq: SetSpec.spec_step vs factstore base stores"
            ck.violation(rep, "no-failing-input-found")
        if len(ck.violations) >= 5:
            break

    ck.log("sequential correspondence judged: %d disagreements" % seq_dis)
    # 4. RUNTIME PART (not a proof): recorded concurrent histories judged by lin_check
    for _ in range(ck.n(60, 300)):
        conc_cases.append(gen_conc(rng, ck.n(60, 100)))
    if suspects:
        ck.log("lock table differs from the expected discipline for %s: aiming the stress at them" % suspects)
        for _ in range(ck.n(40, 200)):
            c = gen_conc(rng, ck.n(150, 400), big=True)
            mix = [METH_OP[m] for m in suspects if m in METH_OP] * 3 + ["add", "remove", "getfacts", "count", "merge"]
            c["threads"] = [[gen_op(rng, mix) for _ in range(6)] for _ in range(4)]
            c["mix"] = "suspects"
            c["base"] = "simple"
            conc_cases.append(c)
    crash = None
    couts, rc, err = run_bin(os.path.join(BUILD, "harness_c18" + SFX), "c18_conc", [go_conc_case(c) for c in conc_cases])
    ck.log("concurrent recording done")
    why = runtime_failure(rc, err)
    if why or couts is None:
        crash = why or "harness output unreadable"
        ck.violation({"property": "C18", "kind": "concurrent use of ConcurrentFactStore crashed the process",
                      "evidence_kind": "runtime", "why": crash, "stderr_tail": err[-3000:],
                      "suspect_methods": suspects,
                      "cases": [go_conc_case(c) for c in conc_cases[-3:]]})
        ndistinct = 0
    else:
        ndistinct = judge_histories(ck, conc_cases, couts, stats, "hist")
    # corpus of recorded histories (re-judged)
    if hist_corpus:
        hv = ck.run_coq("C18", "judge_hist", [cq_hist([tuple(e) for e in h["history"]]) for h in hist_corpus], tag="hc")
        for h, v in zip(hist_corpus, hv):
            if (v == 0) != h["linearizable"]:
                raise RuntimeError("corpus history %s: judge_hist=%d, expected linearizable=%s"
                                   % (h.get("name"), v, h["linearizable"]))

    ck.log("histories judged: %d runs, %d distinct, %d with overlap" % (stats["histories"], ndistinct, stats["overlapping"]))
    # 4b. the judge itself: lin_check vs the brute-force oracle on synthetic histories
    synth = [synth_history(rng) for _ in range(ck.n(300, 2000))]
    sv = ck.run_coq("C18", "judge_hist", [cq_hist(h) for h in synth], shard=max(150, len(synth) // 6 + 1), tag="syn")
    synth_rejected = 0
    for h, v in zip(synth, sv):
        want = py_linearizable(h)
        synth_rejected += 0 if want else 1
        if (v == 0) != want:
            raise RuntimeError("lin_check (%d) and the brute-force oracle (%s) disagree on %s" % (v, want, json.dumps(h)))
    ck.log("judge self-test: %d synthetic histories, %d non-linearizable, lin_check agrees with the oracle on all"
           % (len(synth), synth_rejected))
    # 5. RUNTIME PART: parallel parse/analyse/evaluate vs alone
    par_cases = [gen_par_wild(rng, j, 3) for j in range(4)] + [gen_par(rng, ck.n(8, 15)) for _ in range(ck.n(40, 200))]
    pouts = ck.run_go("c18_par", [par_in(c) for c in par_cases])
    par_evals, par_diff, par_err = 0, 0, 0
    for c, o in zip(par_cases, pouts):
        if "out" not in o:
            ck.violation({"property": "C18", "kind": "parallel evaluation runner failed", "case": c, "impl": o})
            continue
        alone = o["out"]["alone"]
        for k, a in enumerate(alone):
            if isinstance(a, dict):
                par_err += 1
        for row in o["out"]["parallel"]:
            for k, r in enumerate(row):
                par_evals += 1
                if r != alone[k]:
                    par_diff += 1
                    if len(ck.violations) < 5:
                        ck.violation({"property": "C18", "kind": "evaluation in parallel differs from the same program alone",
                                      "evidence_kind": "runtime", "programs": c["programs"], "program_index": k,
                                      "alone": alone[k], "parallel": r})
    if par_err:
        raise RuntimeError("%d generated programs fail when evaluated alone (generator bug)" % par_err)

    ck.log("parallel evaluation compared: %d evaluations, %d differences" % (par_evals, par_diff))
    # 6. RUNTIME PART: the same under the race detector
    race = {"available": bool(race_exe), "build": race_msg if not race_exe else "go build -race ok"}
    if race_exe:
        (rc1, err1), (rc2, err2) = race_future.result()
        race.update({"store_runs": sum(c["reps"] for c in rc_cases), "store_exit": rc1,
                     "parallel_eval_runs": sum(c["reps"] * len(c["programs"]) for c in rp_cases), "eval_exit": rc2,
                     "data_race_reports": err1.count("WARNING: DATA RACE") + err2.count("WARNING: DATA RACE")})
        for what, rcx, errx, cases in (("ConcurrentFactStore operations", rc1, err1, rc_cases),
                                       ("parallel parse/analyse/evaluate", rc2, err2, rp_cases)):
            why = runtime_failure(rcx, errx)
            if why and len(ck.violations) < 5:
                i = errx.find("WARNING: DATA RACE")
                ck.violation({"property": "C18", "kind": "race detector / runtime failure during " + what,
                              "evidence_kind": "runtime (go build -race)", "why": why,
                              "report": errx[max(0, i):][:4000], "suspect_methods": suspects, "cases": cases[:3]})

    ck.log("race detector part done: %s" % race)
    if ck.proof_broken and suspects:
        ck.proof_broken = ("lock_table_ok / real_disc_good no longer hold for the lock table generated from "
                           "factstore.go (methods off the discipline: %s)\n" % ", ".join(suspects)) + ck.proof_broken

    mixes, bases, nops = {}, {}, {}
    for c in conc_cases:
        mixes[c.get("mix", "corpus")] = mixes.get(c.get("mix", "corpus"), 0) + 1
        bases[c["base"]] = bases.get(c["base"], 0) + 1
        for th in c["threads"]:
            for o in th:
                nops[o["k"]] = nops.get(o["k"], 0) + 1
    cov = {
        "evaluations": len(seq_cases) + stats["histories"] + par_evals,
        "distinct_nontrivial": ndistinct,
        "rule": "PROOF part: Props/C18.vo rebuilt against the lock table regenerated from factstore.go. "
                "CORRESPONDENCE: %d single-threaded histories on ConcurrentFactStore over 4 base stores vs the set machine. "
                "RUNTIME part (not a proof): %d recorded concurrent runs (2-4 goroutines x 3-6 ops), %d distinct histories "
                "judged by lin_check in coqc (non-trivial = distinct history; %d runs had overlapping calls); %d parallel "
                "evaluations compared with the same program alone; race-detector runs listed under race_detector"
                % (len(seq_cases), stats["histories"], ndistinct, stats["overlapping"], par_evals),
        "exhaustive": bool(nexh),
        "exhaustive_scope": ("correspondence only: all %d single-threaded operation sequences of length <= 3 over one predicate, "
                             "two arguments, on each of the 4 base stores; schedules are NOT enumerated" % nexh) if nexh else "",
        "judge_selftest": {"synthetic_histories": len(synth), "non_linearizable_among_them": synth_rejected,
                           "lin_check_vs_bruteforce_disagreements": 0},
        "proof_part": {"lock_table": [{k: e[k] for k in ("name", "acquire", "release", "deferred", "delegate", "canonical")}
                                      for e in tab["entries"]],
                       "lock_table_changed_on_this_run": changed, "methods_off_discipline": suspects},
        "runtime_part_not_a_proof": {"recorded_runs": stats["histories"], "runs_with_overlap": stats["overlapping"],
                                     "distinct_histories_judged": ndistinct, "non_linearizable": stats["nonlinearizable"],
                                     "crash": crash, "parallel_evaluations": par_evals, "parallel_differences": par_diff,
                                     "race_detector": race},
        "seq_cases": len(seq_cases), "seq_disagreements": seq_dis, "corpus_cases": ncorpus,
        "thread_mixes": mixes, "bases": bases, "ops": nops,
        "samples": [seq_cases[-1]["ops"][:5], conc_cases[-1]["threads"], par_cases[-1]["programs"][:2]],
    }
    return ck.finish(cov, assumptions=[
        "sync.RWMutex behaves as the model's acquire/release rules (writers exclusive, readers shared, blocked threads do not move)",
        "the go/ast scanner harness/c18/locktable reads the seven methods correctly",
        "the base call is modelled as snapshot + publish (non-atomic); the real base stores are tied to the set machine "
        "only by single-threaded differential replay; atoms p<k>(n) with distinct hashes (finding F8 out of scope)",
        "data races, the Go memory model and schedules are explored at run time only (race detector, recorded histories): sampled, not proved",
        "ListPredicates is exercised only over the simple base store (indexed stores keep emptied predicates listed)",
    ])


def replay(ck, path):
    rep = json.load(open(path))
    ck.build_harness()
    rcode = 0
    if "history" in rep:
        evs = [tuple(e) for e in rep["history"]]
        v = ck.run_coq("C18", "judge_hist", [cq_hist(evs)])[0]
        print("replay: recorded history judge_hist = %d (2 = not linearizable), oracle linearizable = %s"
              % (v, py_linearizable(evs)))
        if v != 0:
            rcode = 1
    if "threads" in rep:
        c = {"base": rep.get("base", "simple"), "threads": rep["threads"], "reps": 3000, "yield": True}
        outs, rc, err = run_bin(os.path.join(BUILD, "harness_c18" + SFX), "c18_conc", [go_conc_case(c)])
        why = runtime_failure(rc, err)
        if why or outs is None:
            print("replay: re-running the thread programs: " + (why or "unreadable output"))
            rcode = 1
        else:
            stats = {"histories": 0, "overlapping": 0, "nonlinearizable": 0}
            judge_histories(ck, [c], outs, stats, "rp")
            print("replay: %d fresh runs, %d non-linearizable" % (stats["histories"], stats["nonlinearizable"]))
            if stats["nonlinearizable"]:
                rcode = 1
    if "case" in rep and "ops" in rep.get("case", {}):
        c = rep["case"]
        o = ck.run_go("c18_seq", [{"base": c["base"], "ops": [norm(x) for x in c["ops"]]}])[0]
        v = ck.run_coq("C18", "judge_seq", [coq([(cq_op(op), cq_res(op, r)) for op, r in zip(c["ops"], o["out"])])])[0]
        print("replay: first disagreeing op = %d" % v)
        if v != 0:
            rcode = 1
    if rep.get("kind") == "proof-obligation":
        c18_locktable.regenerate()
        if not ck.obligations():
            rcode = 1
        if SFX:
            c18_locktable.regenerate(repo="/repo")
    if rcode:
        print("VIOLATION property=C18 replay=%s" % path)
    return rcode


META = {
    "text": "PARTIAL. Machine-checked theorems (coq/Props/C18.v) about a Gallina model of factstore.ConcurrentFactStore "
            "under an arbitrary scheduler, any number of threads, unbounded programs: the per-method lock choice is "
            "regenerated from factstore.go by a go/ast scan on every run (lock_table_ok); in the model writers' critical "
            "sections overlap no other (mutual_exclusion), no two conflicting base calls overlap (no_race_in_model), and "
            "every history is linearizable w.r.t. the set machine respecting real-time order (concurrent_linearizable); "
            "the executable checker lin_check is proved sound and complete (lin_check_sound, lin_check_complete, "
            "lin_check_exact: on thread-wise well-formed histories it accepts exactly the linearizable ones; its memo table "
            "only holds positions without a successful continuation). Runtime part, not a proof: histories recorded from goroutines "
            "on the real store are judged by lin_check inside coqc; parallel parse/analyse/evaluate is compared with running "
            "alone; both are repeated under go build -race.",
    "note": "Partial for this technique: data races, the Go memory model, the scheduler and the real sync.RWMutex live in the "
            "runtime; the model's lock rules ARE the assumption about RWMutex. Linearizability of the Go code is therefore "
            "sampled (recorded schedules + race detector), only the model is proved. Trusted: Coq kernel + vm_compute, the "
            "go/ast lock-table scanner, the recording harness (global atomic clock). lin_check is proved sound and complete "
            "(lin_check_characterisation); the independent brute-force oracle still cross-checks every rejection.",
}
