"""C04 - programs accepted by analysis are safe to evaluate.

Theorems: coq/Props/C04.v over the model coq/Analysis/RuleCheck.v (RewriteClause +
CheckRule after fixes F3a-c / N19) and the declarative clause semantics
coq/Analysis/Declarative.v. Correspondence per generated clause:
  * analysis.AnalyzeOneUnit verdict and rewritten premise order vs the model,
  * for accepted clauses engine.EvalProgram on a small EDB vs C01's engine model and vs
    the DECLARATIVE reading of the clause as written (brute force in Coq),
  * independently of Coq a Python brute-force oracle of the declarative reading decides
    whether a Go result violates the property.
Streams added after seeding (notes/C04.md): a complete block of equalities in both
orientations (eqfn_cases, judged as above) and a complete block of built-in predicate atoms
with modes (builtin_cases): verdict and premise order vs coq/Analysis/BuiltinCheck.v
(judge_b), evaluation judged by a Python property-level oracle on Go's output (classify_bi).
"""
import glob
import itertools
import json
import os

from vlib.core import C, Raw, coq, known_for
from checks import datalog_common as dc

HEAD = 0
EDB_ARITY = {1: 1, 2: 2, 3: 1, 4: 2}
EXTRA = [["p%d" % k, a] for k, a in sorted(EDB_ARITY.items())]
WILD = ["wild"]
UNBOUND_PAT = ("not a value", "unbound", "not bound", "not ground", "no value", "variable")


# ------------------------------------------------------------------ Coq encoding
def cq_term(t):
    k = t[0]
    if k == "var":
        return C("TVar", t[1])
    if k == "wild":
        return C("TVar", -1)
    if k == "c":
        return C("TConst", dc.cq_const(t[1]))
    if k == "app":
        return C("TApp", Raw(dc.FN[t[1]]), [cq_term(x) for x in t[2]])
    raise ValueError(t)


def cq_atom(a):
    return C("mkAtom", a["p"], [cq_term(x) for x in a["args"]])


def cq_premise(p):
    k = p[0]
    if k == "atom":
        return C("PAtom", cq_atom(p[1]))
    if k == "neg":
        return C("PNeg", cq_atom(p[1]))
    if k == "eq":
        return C("PEq", cq_term(p[1]), cq_term(p[2]))
    if k == "ineq":
        return C("PIneq", cq_term(p[1]), cq_term(p[2]))
    if k == "cmp":
        return C("PCmp", Raw(dc.CMP[p[1]][0]), cq_term(p[2]), cq_term(p[3]))
    raise ValueError(p)


def cq_clause(c):
    return C("mkClause", cq_atom(c["head"]), [cq_premise(p) for p in c["body"]],
             [(v, cq_term(t)) for v, t in c.get("let", [])])


def has_app(t):
    return t[0] == "app"


def premise_terms(p):
    if p[0] in ("atom", "neg"):
        return p[1]["args"]
    if p[0] == "cmp":
        return [p[2], p[3]]
    return [p[1], p[2]]


def rounds_of(c):
    n = sum(1 for p in c["body"] if any(has_app(t) for t in premise_terms(p))) + len(c.get("let", []))
    return min(n, 3)


def cq_case(case, o):
    if o["stage"] != "ok":
        obs = Raw("ONone")
    elif o["err"] or o["nonground"]:
        obs = Raw("OErr")
    else:
        obs = C("OFacts", [dc.cq_fact(f) for f in dc.facts_from_go(o["facts"])])
    return coq(C("mkCase", cq_clause(case["clause"]), [dc.cq_fact(f) for f in case["edb"]],
                 rounds_of(case["clause"]), o["stage"] == "ok", list(o["perm"]), obs))


def source(case):
    return dc.facts_text(case["edb"]) + "\n" + dc.clause_text(case["clause"]) + "\n"


def go_case(case):
    return {"src": source(case), "extra": EXTRA, "limit": 20000, "timeout_ms": 20000}


# ------------------------------------------------- independent declarative oracle
class Undefined(Exception):
    pass


def ev(t, s):
    """value of a term under a total assignment of the named variables; wildcards and
    failing functions are Undefined"""
    k = t[0]
    if k == "var":
        if t[1] not in s:
            raise Undefined()
        return s[t[1]]
    if k == "c":
        if t[1][0] != "n":
            raise Undefined()
        return t[1][1]
    if k == "app":
        xs = [ev(x, s) for x in t[2]]
        if len(xs) != 2:
            raise Undefined()
        if t[1] == "plus":
            return xs[0] + xs[1]
        if t[1] == "minus":
            return xs[0] - xs[1]
        if t[1] == "mult":
            return xs[0] * xs[1]
    raise Undefined()


def matches(a, s, facts):
    """exists a fact of the predicate that agrees with every non-wildcard argument"""
    try:
        vals = [None if t == WILD else ev(t, s) for t in a["args"]]
    except Undefined:
        return None
    for f in facts:
        if f["p"] == a["p"] and len(f["args"]) == len(vals) and \
                all(v is None or f["args"][i] == ["n", v] for i, v in enumerate(vals)):
            return True
    return False


def lit_holds(p, s, facts):
    k = p[0]
    if k == "atom":
        return matches(p[1], s, facts) is True
    if k == "neg":
        return matches(p[1], s, facts) is False
    l, r = (p[2], p[3]) if k == "cmp" else (p[1], p[2])
    try:
        lv = None if l == WILD else ev(l, s)
        rv = None if r == WILD else ev(r, s)
    except Undefined:
        return False
    if lv is None or rv is None:
        return True        # "there is a value for the wildcard such that ..." over the integers
    if k == "eq":
        return lv == rv
    if k == "ineq":
        return lv != rv
    return {"lt": lv < rv, "le": lv <= rv, "gt": lv > rv, "ge": lv >= rv}[p[1]]


def tvars(t, acc):
    if t[0] == "var":
        acc.add(t[1])
    elif t[0] == "app":
        for x in t[2]:
            tvars(x, acc)


def apps_of(t, acc):
    if t[0] == "app":
        acc.append(t)
        for x in t[2]:
            apps_of(x, acc)


def oracle(case):
    """Head facts of the clause as written under the declarative reading, by brute force
    over the active domain closed under the clause's function applications."""
    c = case["clause"]
    letdefs = [v for v, _ in c.get("let", [])]
    named = set()
    for p in c["body"]:
        for t in premise_terms(p):
            tvars(t, named)
    hv = set()
    for t in c["head"]["args"]:
        tvars(t, hv)
    named |= set(v for v in hv if v not in letdefs)
    named = sorted(named)
    dom = set()
    terms = list(c["head"]["args"]) + [t for p in c["body"] for t in premise_terms(p)] + [t for _, t in c.get("let", [])]

    def consts(t):
        if t[0] == "c" and t[1][0] == "n":
            dom.add(t[1][1])
        elif t[0] == "app":
            for x in t[2]:
                consts(x)
    for t in terms:
        consts(t)
    for f in case["edb"]:
        for a in f["args"]:
            dom.add(a[1])
    apps = []
    for t in terms:
        apps_of(t, apps)
    for _ in range(rounds_of(c)):
        new = set(dom)
        for a in apps:
            vs = set()
            tvars(a, vs)
            vs = sorted(vs)
            for combo in itertools.product(sorted(dom), repeat=len(vs)):
                try:
                    new.add(ev(a, dict(zip(vs, combo))))
                except Undefined:
                    pass
        dom = new
    dom = sorted(dom)
    out = set()
    for combo in itertools.product(dom, repeat=len(named)):
        s = dict(zip(named, combo))
        if not all(lit_holds(p, s, case["edb"]) for p in c["body"]):
            continue
        try:
            s2 = dict(s)
            hvals = None
            for v, t in c.get("let", []):
                s2[v] = ev(t, s2)
            hvals = [ev(t, s2) for t in c["head"]["args"]]
        except Undefined:
            continue
        out.add(dc.fact_text({"p": c["head"]["p"], "args": [["n", v] for v in hvals]}))
    return sorted(out)


# ---------------------------------------------------------------- generators
def n(k):
    return dc.cst(dc.num(k))


def gen_arg(rng, nv, wild=0.15, const=0.12):
    r = rng.random()
    if r < wild:
        return list(WILD)
    if r < wild + const:
        return n(rng.randint(0, 2))
    return dc.var(rng.randrange(nv))


def gen_app(rng, nv, wild=0.05):
    f = rng.choice(["plus", "plus", "minus", "mult"])
    a = gen_arg(rng, nv, wild, 0.1)
    b = gen_arg(rng, nv, wild, 0.6)
    return dc.app(f, a, b)


def gen_operand(rng, nv, app=0.2, wild=0.06, const=0.2):
    if rng.random() < app:
        return gen_app(rng, nv)
    return gen_arg(rng, nv, wild, const)


def gen_literal(rng, nv, kind=None):
    kind = kind or rng.choices(["atom", "neg", "eq", "ineq", "cmp"], [36, 24, 16, 12, 12])[0]
    if kind == "atom":
        p = rng.choice([1, 2, 2, 3, 4])
        # no function application inside a positive atom: trigger of known finding N61
        return ["atom", dc.atom(p, *[gen_arg(rng, nv) for _ in range(EDB_ARITY[p])])]
    if kind == "neg":
        p = rng.choice([1, 2, 3, 3, 4, 4])
        args = [gen_app(rng, nv) if rng.random() < 0.08 else gen_arg(rng, nv, wild=0.25) for _ in range(EDB_ARITY[p])]
        return ["neg", dc.atom(p, *args)]
    if kind == "eq":
        return ["eq", gen_operand(rng, nv, 0.3), gen_operand(rng, nv, 0.3)]
    if kind == "ineq":
        return ["ineq", gen_operand(rng, nv), gen_operand(rng, nv)]
    return ["cmp", rng.choice(["lt", "le", "gt", "ge"]), gen_operand(rng, nv, 0.12), gen_operand(rng, nv, 0.12)]


def gen_head(rng, nv, extra_vars=()):
    ar = rng.choice([1, 1, 2, 2, 3])
    pool = list(range(nv)) + list(extra_vars) * 2
    args = []
    for _ in range(ar):
        r = rng.random()
        if r < 0.03:
            args.append(list(WILD))
        elif r < 0.10:
            args.append(n(rng.randint(0, 2)))
        elif r < 0.18:
            # never over a let-defined variable: trigger of known finding N65
            args.append(dc.app("plus", dc.var(rng.randrange(nv)), n(1)))
        else:
            args.append(dc.var(rng.choice(pool)))
    return dc.atom(HEAD, *args)


def gen_let(rng, nv):
    """let-statements: each uses body variables or variables defined by an earlier
    statement (a use of a later one is the trigger of known finding N64)"""
    if rng.random() > 0.12:
        return []
    stmts, defined = [], []
    for k in range(rng.choice([1, 1, 2])):
        v = 10 + k      # never a variable of the body or a use of itself (N64)
        src = rng.choice(defined) if defined and rng.random() < 0.4 else rng.randrange(nv + (1 if rng.random() < 0.05 else 0))
        stmts.append([v, dc.app(rng.choice(["plus", "mult"]), dc.var(src), n(rng.randint(1, 2)))])
        defined.append(v)
    return stmts


def gen_edb(rng):
    edb = []
    for p, ar in sorted(EDB_ARITY.items()):
        seen = set()
        for _ in range(rng.choice([0, 1, 2, 3, 4]) if rng.random() < 0.9 else 0):
            args = tuple(rng.randint(0, 3) for _ in range(ar))
            if args not in seen:
                seen.add(args)
                edb.append(dc.fact(p, *[dc.num(a) for a in args]))
    return edb


def gen_random_clause(rng, big):
    nv = rng.choice([1, 2, 3, 3])
    nl = rng.randint(1, 5 if big else 4)
    body = [gen_literal(rng, nv) for _ in range(nl)]
    let = gen_let(rng, nv)
    return dc.clause(gen_head(rng, nv, [v for v, _ in let]), body, let), "random"


def gen_safe_clause(rng, big):
    """safe core (binders for every variable, tests on bound variables), then every
    premise order: the negated atoms are for RewriteClause to move, a comparison or
    inequality ahead of its binder is for CheckRule to reject"""
    nv = rng.choice([1, 2, 3])
    body = []
    todo = list(range(nv))
    rng.shuffle(todo)
    while todo:
        r = rng.random()
        v = todo.pop()
        if r < 0.45 or not body:
            p = rng.choice([1, 3])
            body.append(["atom", dc.atom(p, dc.var(v))])
        elif r < 0.8:
            w = todo.pop() if todo and rng.random() < 0.6 else (list(WILD) if rng.random() < 0.3 else rng.randrange(nv))
            args = [dc.var(v), dc.var(w) if isinstance(w, int) else w]
            rng.shuffle(args)
            body.append(["atom", dc.atom(rng.choice([2, 4]), *args)])
        elif r < 0.9:
            body.append(["eq", dc.var(v), n(rng.randint(0, 2))] if rng.random() < 0.5 else ["eq", n(rng.randint(0, 2)), dc.var(v)])
        else:
            others = [u for u in range(nv) if u != v and u not in todo]
            if others:
                e = ["eq", dc.var(v), dc.app(rng.choice(["plus", "minus", "mult"]), dc.var(rng.choice(others)), n(rng.randint(0, 2)))]
                body.append(e if rng.random() < 0.6 else ["eq", e[2], e[1]])
            else:
                body.append(["atom", dc.atom(1, dc.var(v))])
    for _ in range(rng.randint(0, 3 if big else 2)):
        k = rng.choices(["neg", "ineq", "cmp", "eq", "atom"], [40, 20, 20, 10, 10])[0]
        if k == "neg":
            p = rng.choice([1, 2, 3, 4])
            args = [(list(WILD) if rng.random() < 0.3 else dc.var(rng.randrange(nv))) for _ in range(EDB_ARITY[p])]
            if rng.random() < 0.1:
                args[0] = dc.app("plus", dc.var(rng.randrange(nv)), n(1))
            body.append(["neg", dc.atom(p, *args)])
        elif k == "ineq":
            body.append(["ineq", dc.var(rng.randrange(nv)), gen_operand(rng, nv, 0.2, 0.0, 0.3)])
        elif k == "cmp":
            body.append(["cmp", rng.choice(["lt", "le", "gt", "ge"]), dc.var(rng.randrange(nv)), gen_operand(rng, nv, 0.2, 0.0, 0.3)])
        elif k == "eq":
            body.append(["eq", dc.var(rng.randrange(nv)), dc.var(rng.randrange(nv))])
        else:
            body.append(gen_literal(rng, nv, "atom"))
    order = rng.random()
    if order < 0.7:
        rng.shuffle(body)
    let = gen_let(rng, nv) if rng.random() < 0.5 else []
    return dc.clause(gen_head(rng, nv, [v for v, _ in let]), body, let), "safe-core" + ("-shuffled" if order < 0.7 else "")


def gen_case(rng, big):
    c, shape = gen_safe_clause(rng, big) if rng.random() < 0.55 else gen_random_clause(rng, big)
    return {"clause": c, "edb": gen_edb(rng), "shape": shape}


X, Y, Z = dc.var(0), dc.var(1), dc.var(2)
EX_EDB = [dc.fact(1, dc.num(0)), dc.fact(1, dc.num(1)), dc.fact(1, dc.num(2)),
          dc.fact(2, dc.num(0), dc.num(1)), dc.fact(2, dc.num(1), dc.num(2)), dc.fact(2, dc.num(2), dc.num(2)),
          dc.fact(2, dc.num(1), dc.num(0)),
          dc.fact(3, dc.num(1)), dc.fact(4, dc.num(0), dc.num(1)), dc.fact(4, dc.num(2), dc.num(2))]


def exhaustive_cases():
    """Block A: two variables and the wildcard in EVERY argument place of every literal
    kind, all bodies of one and two literals in both orders, two heads.
    Block B: three variables, a pool of 15 literals (binders, negated atoms with named
    variables and wildcards, equalities, an inequality, a comparison, a function
    application), every ordered selection of three and of four distinct literals."""
    slots = [X, Y, list(WILD)]
    pool = []
    pool += [["atom", dc.atom(1, a)] for a in slots]
    pool += [["atom", dc.atom(2, a, b)] for a in slots for b in slots]
    pool += [["neg", dc.atom(3, a)] for a in slots]
    pool += [["neg", dc.atom(4, a, b)] for a in slots for b in slots]
    pool += [["eq", a, b] for a in slots for b in slots]
    pool += [["eq", a, n(1)] for a in slots]
    pool += [["ineq", a, b] for a in slots for b in slots]
    pool += [["cmp", "lt", a, b] for a in slots for b in slots]
    pool += [["eq", a, dc.app("plus", b, n(1))] for a in slots for b in slots]
    for head in (dc.atom(HEAD, X), dc.atom(HEAD, X, Y)):
        for k in (1, 2):
            for body in itertools.product(pool, repeat=k):
                yield {"clause": dc.clause(head, list(body)), "edb": EX_EDB, "shape": "exhaustive-A"}
    pool3 = [["atom", dc.atom(1, X)], ["atom", dc.atom(1, Y)], ["atom", dc.atom(2, X, Y)], ["atom", dc.atom(2, Y, Z)],
             ["atom", dc.atom(2, X, list(WILD))],
             ["neg", dc.atom(3, X)], ["neg", dc.atom(3, Z)], ["neg", dc.atom(4, X, Y)], ["neg", dc.atom(4, Y, list(WILD))],
             ["neg", dc.atom(4, Z, X)],
             ["eq", X, Y], ["eq", Z, n(1)], ["eq", Y, dc.app("plus", X, n(1))],
             ["ineq", X, Y], ["cmp", "lt", X, Z]]
    head = dc.atom(HEAD, X, Z)
    for k in (3, 4):
        for body in itertools.permutations(pool3, k):
            yield {"clause": dc.clause(head, list(body)), "edb": EX_EDB, "shape": "exhaustive-B"}


# ------------------------------------------------------- stream E: equalities, both orientations
def eqfn_cases(rng):
    """Every pairing of {constant, variable X, fn(Y, c), fn(Y, Z), wildcard} as the two sides of
    an equality (both orientations arise), with the binder atom of each variable that occurs
    placed BEFORE the equality, AFTER it (bound only further right) or nowhere; two heads.
    Function symbol and constants vary per case. The class of seeded change C04-2: CheckRule's Eq
    case must not leave before it has seen that every variable of a function application has a
    value at that point."""
    Xv, Yv, Zv = 0, 1, 2

    def side(kind):
        f = rng.choice(["plus", "plus", "minus", "mult"])
        if kind == "c":
            return n(rng.randint(0, 3))
        if kind == "x":
            return dc.var(Xv)
        if kind == "w":
            return list(WILD)
        if kind == "ay":
            t = dc.app(f, dc.var(Yv), n(rng.randint(0, 2)))
            if rng.random() < 0.15:
                t = dc.app("plus", t, n(1)) if rng.random() < 0.5 else dc.app(f, n(rng.randint(0, 2)), dc.var(Yv))
            return t
        return dc.app(f, dc.var(Yv), dc.var(Zv))
    uses = {"c": [], "x": [Xv], "w": [], "ay": [Yv], "ayz": [Yv, Zv]}
    kinds = ["c", "x", "ay", "ayz", "w"]
    out = []
    for lk in kinds:
        for rk in kinds:
            vs = sorted(set(uses[lk] + uses[rk]))
            for places in itertools.product("LRN", repeat=len(vs)):
                eq = ["eq", side(lk), side(rk)]
                left = [["atom", dc.atom(rng.choice([1, 3]), dc.var(v))] for v, pl in zip(vs, places) if pl == "L"]
                right = [["atom", dc.atom(rng.choice([1, 3]), dc.var(v))] for v, pl in zip(vs, places) if pl == "R"]
                rng.shuffle(left)
                rng.shuffle(right)
                body = left + [eq] + right
                heads = [dc.atom(HEAD, *[dc.var(v) for v in vs])] if vs else [dc.atom(HEAD, n(1))]
                if len(vs) > 1:
                    heads.append(dc.atom(HEAD, dc.var(rng.choice(vs))))
                for h in heads:
                    out.append({"clause": dc.clause(h, body), "edb": gen_edb(rng),
                                "shape": "eq-%s=%s" % (lk, rk)})
    return out


# ------------------------------------------------------- stream B: built-in predicate atoms
# Built-in goals  ["bi", name, [term, ...]]  and negated ones  ["nbi", name, [term, ...]]; constants
# additionally ["map", [[k, v], ...]] and ["struct", [[name, v], ...]]. The table below is used to
# build type-correct arguments and as the meaning of each built-in for the oracle (its documented
# relation) - never to predict the verdict of analysis (that is the Coq model's go_table).
BI = {  # name: (predicate number in coq/Analysis/BuiltinCheck.v, column type of each place)
    ":match_pair": (100, "PNN"), ":match_cons": (101, "LNL"), ":match_nil": (102, "L"),
    ":match_field": (103, "SAN"), ":match_entry": (104, "MNN"), ":list:member": (105, "NL"),
    ":within_distance": (106, "NNN"), ":match_prefix": (107, "AA"), ":string:starts_with": (108, "TT"),
    ":string:ends_with": (109, "TT"), ":string:contains": (110, "TT"), ":filter": (111, "B"),
    ":lt": (112, "NN"), ":le": (113, "NN"), ":gt": (114, "NN"), ":ge": (115, "NN"),
    # Allen's interval relations on pairs of numbers (start, end)
    ":interval:before": (116, "PP"), ":interval:after": (117, "PP"), ":interval:meets": (118, "PP"),
    ":interval:overlaps": (119, "PP"), ":interval:during": (120, "PP"), ":interval:contains": (121, "PP"),
    ":interval:starts": (122, "PP"), ":interval:finishes": (123, "PP"), ":interval:equals": (124, "PP"),
    # time / duration comparisons are given NUMBERS: analysis does not look at types, an accepted goal then fails with a
    # type error ("is not a time": not this property's), a goal accepted with a free variable fails with "not a value"
    ":time:lt": (125, "NN"), ":time:le": (126, "NN"), ":time:gt": (127, "NN"), ":time:ge": (128, "NN"),
    ":duration:lt": (129, "NN"), ":duration:le": (130, "NN"), ":duration:gt": (131, "NN"), ":duration:ge": (132, "NN"),
}
B_PRED = {"N": 1, "P": 5, "L": 6, "M": 7, "S": 8, "A": 9, "T": 10, "B": 11}     # column type -> EDB predicate
B_EXTRA = EXTRA + [["p%d" % k, 1] for k in sorted(B_PRED.values()) if k != 1]
B_VALUES = {
    "N": [dc.num(1), dc.num(2), dc.num(3)],
    "P": [dc.pair(dc.num(1), dc.num(2)), dc.pair(dc.num(2), dc.num(2)), dc.pair(dc.num(3), dc.num(1))],
    "L": [dc.lst([dc.num(1), dc.num(2)]), dc.lst([dc.num(2)]), dc.lst([dc.num(3), dc.num(1), dc.num(2)]), dc.lst([])],
    "M": [["map", [[dc.num(1), dc.num(2)], [dc.num(3), dc.num(1)]]], ["map", [[dc.num(2), dc.num(2)]]]],
    "S": [["struct", [[dc.name("/a"), dc.num(1)], [dc.name("/b"), dc.num(2)]]], ["struct", [[dc.name("/a"), dc.num(3)]]]],
    "A": [dc.name("/a"), dc.name("/b"), dc.name("/a/x"), dc.name("/b/y")],
    "T": [dc.string("ab"), dc.string("b"), dc.string("abc")],
    "B": [dc.name("/true"), dc.name("/false")],
}
MODE_PAT = ("not a value", "not a constant", "bad pattern", "must be variables", "unbound", "not bound", "no value",
            "free variable", "should never happen", "must be string constant", "must be name constant",
            "expected constant for interval")
# the places at which the built-in needs a value ("+" in the documentation of symbols/symbols.go); used only
# to keep the trigger of recorded finding N106 out of the stream
B_INPUT = {":match_pair": [0], ":match_cons": [0], ":match_nil": [0], ":match_field": [0, 1], ":match_entry": [0, 1],
           ":list:member": [1], ":within_distance": [0, 1, 2], ":filter": [0]}


def x_const_text(c):
    if c[0] == "map":
        return "[%s]" % ", ".join("%s : %s" % (x_const_text(k), x_const_text(v)) for k, v in c[1]) if c[1] else "fn:map()"
    if c[0] == "struct":
        return "{%s}" % ", ".join("%s : %s" % (x_const_text(k), x_const_text(v)) for k, v in c[1])
    if c[0] == "pair":
        return "fn:pair(%s, %s)" % (x_const_text(c[1]), x_const_text(c[2]))
    if c[0] == "list" and any(x[0] in ("map", "struct") for x in c[1]):
        return "[%s]" % ", ".join(x_const_text(x) for x in c[1])
    return dc.const_text(c)


def x_term_text(t):
    if t[0] == "c":
        return x_const_text(t[1])
    if t[0] == "app":
        return "%s(%s)" % (dc.FN_TEXT.get(t[1], t[1]), ", ".join(x_term_text(x) for x in t[2]))
    return dc.term_text(t)


def x_premise_text(p):
    if p[0] in ("bi", "nbi"):
        return ("!" if p[0] == "nbi" else "") + "%s(%s)" % (p[1], ", ".join(x_term_text(t) for t in p[2]))
    return dc.premise_text(p)


def x_source(case):
    c = case["clause"]
    lines = ["%s(%s)." % (dc.pred_name(f["p"]), ", ".join(x_const_text(a) for a in f["args"])) for f in case["edb"]]
    s = dc.atom_text(c["head"]) + " :- " + ", ".join(x_premise_text(p) for p in c["body"])
    return "\n".join(lines) + "\n" + s + ("." if s.endswith(")") else " .") + "\n"


def xq_term(t):
    """Coq term; a constant the syntax cannot express is sent as CNum 0 and a function outside
    Interp's table as FOther (the analysis model looks at neither)"""
    if t[0] == "c":
        try:
            return C("TConst", dc.cq_const(t[1]))
        except ValueError:
            return C("TConst", C("CNum", 0))
    if t[0] == "app":
        f = Raw(dc.FN[t[1]]) if t[1] in dc.FN else C("FOther", 0)
        return C("TApp", f, [xq_term(x) for x in t[2]])
    return cq_term(t)


def xq_premise(p):
    if p[0] in ("bi", "nbi"):
        a = C("mkAtom", BI[p[1]][0], [xq_term(t) for t in p[2]])
        return C("PAtom" if p[0] == "bi" else "PNeg", a)
    return cq_premise(p)


def xq_case(case, o):
    c = case["clause"]
    cl = C("mkClause", cq_atom(c["head"]), [xq_premise(p) for p in c["body"]], [])
    return coq(C("mkCase", cl, [], -1, o["stage"] == "ok", list(o["perm"]), Raw("ONone")))


def tup(c):
    """hashable form of a constant"""
    k = c[0]
    if k in ("n", "name", "s"):
        return (k, c[1])
    if k == "pair":
        return ("pair", tup(c[1]), tup(c[2]))
    if k == "list":
        return ("list", tuple(tup(x) for x in c[1]))
    if k in ("map", "struct"):
        # entry order is not part of the value (Go keeps the entries in an order of its own)
        return (k, tuple(sorted((tup(a), tup(b)) for a, b in c[1])))
    raise ValueError(c)


def subconsts(v, acc):
    if v in acc:
        return
    acc.add(v)
    if v[0] == "pair":
        subconsts(v[1], acc), subconsts(v[2], acc)
    elif v[0] == "list":
        for i, x in enumerate(v[1]):
            subconsts(x, acc)
            subconsts(("list", v[1][i + 1:]), acc)
    elif v[0] in ("map", "struct"):
        for a, b in v[1]:
            subconsts(a, acc), subconsts(b, acc)


def b_ev(t, s):
    """value of a term of the built-in stream under an assignment"""
    k = t[0]
    if k == "var":
        if t[1] not in s:
            raise Undefined()
        return s[t[1]]
    if k == "c":
        return tup(t[1])
    if k == "app":
        xs = [b_ev(x, s) for x in t[2]]
        if t[1] in ("plus", "minus", "mult"):
            if len(xs) != 2 or any(x[0] != "n" for x in xs):
                raise Undefined()
            return ("n", {"plus": xs[0][1] + xs[1][1], "minus": xs[0][1] - xs[1][1], "mult": xs[0][1] * xs[1][1]}[t[1]])
        if t[1] == "pair" and len(xs) == 2:
            return ("pair", xs[0], xs[1])
        if t[1] == "list":
            return ("list", tuple(xs))
        if t[1] == "fn:map" and len(xs) == 2:
            return ("map", ((xs[0], xs[1]),))
        if t[1] == "fn:struct" and len(xs) == 2:
            return ("struct", ((xs[0], xs[1]),))
    raise Undefined()


def bi_rel(name, a):
    """the relation a built-in stands for, on values"""
    def nums():
        if any(x[0] != "n" for x in a):
            raise Undefined()
        return [x[1] for x in a]

    def strs(kind):
        if any(x[0] != kind for x in a):
            raise Undefined()
        return [x[1] for x in a]
    if name == ":match_pair":
        return a[0][0] == "pair" and a[0][1] == a[1] and a[0][2] == a[2]
    if name == ":match_cons":
        return a[0][0] == "list" and len(a[0][1]) > 0 and a[0][1][0] == a[1] and ("list", a[0][1][1:]) == a[2]
    if name == ":match_nil":
        return a[0] == ("list", ())
    if name in (":match_entry", ":match_field"):
        if a[0][0] != ("map" if name == ":match_entry" else "struct"):
            return False
        for k, v in a[0][1]:
            if k == a[1]:
                return v == a[2]
        return False
    if name == ":list:member":
        if a[1][0] != "list":
            raise Undefined()
        return a[0] in a[1][1]
    if name in (":lt", ":le", ":gt", ":ge"):
        x, y = nums()
        return {":lt": x < y, ":le": x <= y, ":gt": x > y, ":ge": x >= y}[name]
    if name == ":within_distance":
        x, y, z = nums()
        return abs(x - y) < z
    if name == ":match_prefix":
        x, y = strs("name")
        return x.startswith(y) and len(x) > len(y)
    if name in (":string:starts_with", ":string:ends_with", ":string:contains"):
        x, y = strs("s")
        return {":string:starts_with": x.startswith(y), ":string:ends_with": x.endswith(y), ":string:contains": y in x}[name]
    if name == ":filter":
        return a[0] == ("name", "/true")
    if name.startswith(":interval:"):
        for x in a:
            if x[0] != "pair" or x[1][0] != "n" or x[2][0] != "n":
                raise Undefined()
        (s1, e1), (s2, e2) = [(x[1][1], x[2][1]) for x in a]
        return {"before": e1 < s2, "after": e2 < s1, "meets": e1 == s2, "overlaps": not (e1 < s2) and not (e2 < s1),
                "during": s1 >= s2 and e1 <= e2, "contains": s2 >= s1 and e2 <= e1, "starts": s1 == s2,
                "finishes": e1 == e2, "equals": s1 == s2 and e1 == e2}[name[len(":interval:"):]]
    if name.startswith(":time:") or name.startswith(":duration:"):
        raise Undefined()          # never evaluated on numbers: Go reports a type error, which is not compared
    raise ValueError(name)


def b_lit_holds(p, s, facts, dom):
    k = p[0]
    if k == "atom":
        a = p[1]
        try:
            vals = [None if t == WILD else b_ev(t, s) for t in a["args"]]
        except Undefined:
            return False
        return any(f[0] == a["p"] and all(v is None or v == w for v, w in zip(vals, f[1])) for f in facts)
    if k in ("bi", "nbi"):
        try:
            vals = [None if t == WILD else b_ev(t, s) for t in p[2]]
        except Undefined:
            return False
        holes = [i for i, v in enumerate(vals) if v is None]
        found = False
        for combo in itertools.product(dom, repeat=len(holes)):
            for i, v in zip(holes, combo):
                vals[i] = v
            try:
                if bi_rel(p[1], vals):
                    found = True
                    break
            except Undefined:
                pass
        return found if k == "bi" else not found
    raise ValueError(p)


def b_oracle(case):
    """Head facts of a clause of the built-in stream under the declarative reading (every literal
    holds; a built-in is its relation; wildcards existential per literal, inside the negation for a
    negated literal): candidates of a variable are the column of a binder atom it occurs in, else
    the closure of all constants under components, tails, entries and the clause's function
    applications."""
    c = case["clause"]
    facts = [(f["p"], [tup(a) for a in f["args"]]) for f in case["edb"]]
    dom = set()
    for _, args in facts:
        for a in args:
            subconsts(a, dom)
    apps, named = [], set()

    def scan(t):
        if t[0] == "c":
            subconsts(tup(t[1]), dom)
        elif t[0] == "var":
            named.add(t[1])
        elif t[0] == "app":
            apps.append(t)
            for x in t[2]:
                scan(x)
    for p in c["body"]:
        for t in (p[1]["args"] if p[0] == "atom" else p[2]):
            scan(t)
    for t in c["head"]["args"]:
        scan(t)
    base = sorted(dom)
    for a in apps:
        vs = set()
        tvars(a, vs)
        vs = sorted(vs)
        for combo in itertools.product(base, repeat=len(vs)):
            try:
                subconsts(b_ev(a, dict(zip(vs, combo))), dom)
            except Undefined:
                pass
    dom = sorted(dom)
    cand = {}
    for v in named:
        cs = None
        for p in c["body"]:
            if p[0] == "atom" and p[1]["args"] == [dc.var(v)]:
                col = set(f[1][0] for f in facts if f[0] == p[1]["p"])
                cs = col if cs is None else cs & col
        cand[v] = sorted(cs) if cs is not None else dom
    named = sorted(named)
    out = set()
    for combo in itertools.product(*[cand[v] for v in named]):
        s = dict(zip(named, combo))
        if all(b_lit_holds(p, s, facts, dom) for p in c["body"]):
            try:
                out.add(tuple(b_ev(t, s) for t in c["head"]["args"]))
            except Undefined:
                pass
    return sorted(out)


def b_const_term(ty, rng):
    return dc.cst(rng.choice(B_VALUES[ty]))


def b_fn_term(ty, inner):
    """a function application of column type ty over the number variable inner (None: no such)"""
    v = dc.var(inner)
    if ty == "N":
        return dc.app("plus", v, n(0))
    if ty == "P":
        return dc.app("pair", v, n(2))
    if ty == "L":
        return dc.app("list", v, n(2))
    if ty == "M":
        return dc.app("fn:map", v, n(2))
    if ty == "S":
        return dc.app("fn:struct", dc.cst(dc.name("/a")), v)
    return None


def b_known_trigger(neg, name, kinds):
    """the triggers of the recorded findings N105-N107 (N108 is avoided by construction: the
    variable inside a function application is never one of the atom's own output variables)"""
    if neg and name in (":match_pair", ":match_cons") and any(k != "W" for k in kinds[1:]):
        return "N105"
    if neg and any(kinds[i] == "W" for i in B_INPUT.get(name, [0, 1])):
        return "N106"
    return None


def b_case(rng, name, kinds, neg):
    """one clause: binder atoms of the BL variables, the built-in goal, binder atoms of the BR
    variables. kinds per place: BL variable bound by an atom to the left, BR bound only further
    right, U no binder atom, C type-correct constant, W wildcard, FL / FR function application over
    a number variable bound to the left / only further right."""
    types = BI[name][1]
    args, left, right, named = [], [], [], []
    for i, (k, ty) in enumerate(zip(kinds, types)):
        if k in ("FL", "FR") and b_fn_term(ty, 0) is None:
            k = "B" + k[1]
        if k in ("BL", "BR", "U"):
            args.append(dc.var(i))
            named.append(i)
            if k != "U":
                (left if k == "BL" else right).append(["atom", dc.atom(B_PRED[ty], dc.var(i))])
        elif k == "C":
            args.append(b_const_term(ty, rng))
        elif k == "W":
            args.append(list(WILD))
        else:
            args.append(b_fn_term(ty, 3 + i))
            named.append(3 + i)
            (left if k == "FL" else right).append(["atom", dc.atom(B_PRED["N"], dc.var(3 + i))])
    rng.shuffle(left)
    rng.shuffle(right)
    body = left + [["nbi" if neg else "bi", name, args]] + right
    hv = list(named)
    if len(hv) > 1 and rng.random() < 0.4:
        hv = [v for v, k in zip(range(len(kinds)), kinds) if k in ("BL", "BR")] or hv[:1]
    head = dc.atom(HEAD, *[dc.var(v) for v in hv]) if hv else dc.atom(HEAD, n(1))
    edb = []
    for ty, p in sorted(B_PRED.items()):
        vals = list(B_VALUES[ty])
        rng.shuffle(vals)
        keep = vals[:rng.randint(2, len(vals))]
        if ty == "L" and all(v[1] == [] for v in keep):
            keep.append(B_VALUES["L"][0])          # a list column is never "empty lists only" (N24)
        edb += [dc.fact(p, v) for v in keep]
    return {"clause": {"head": head, "body": body, "let": []}, "edb": edb, "bi": True,
            "shape": "builtin%s%s" % ("-neg" if neg else "", "-fn" if any(k in ("FL", "FR") for k in kinds) else "")}


def builtin_cases(rng, nfn):
    """every built-in of the table x every combination of BL / BR / U / C / W over its places,
    positive and negated (minus the recorded triggers), plus nfn random ones with a function
    application at some place"""
    out = []
    base = ["BL", "BR", "U", "C", "W"]
    for name in sorted(BI):
        ar = len(BI[name][1])
        for neg in (False, True):
            for kinds in itertools.product(base, repeat=ar):
                if b_known_trigger(neg, name, kinds):
                    continue
                out.append(b_case(rng, name, kinds, neg))
    names = sorted(BI)
    for _ in range(nfn):
        name = rng.choice(names)
        ar = len(BI[name][1])
        kinds = [rng.choice(base) for _ in range(ar)]
        kinds[rng.randrange(ar)] = rng.choice(["FL", "FL", "FR"])
        neg = rng.random() < 0.3
        if b_known_trigger(neg, name, kinds):
            continue
        out.append(b_case(rng, name, kinds, neg))
    return out


def go_case_b(case):
    return {"src": x_source(case), "extra": B_EXTRA, "limit": 20000, "timeout_ms": 20000}


def b_facts_from_go(facts):
    return sorted(set(tuple(tup(a) for a in f["args"]) for f in facts))


def classify_bi(case, o):
    """Property verdict on Go's own output for a clause of the built-in stream (an independent
    property-level oracle, no model involved): accepted => evaluation does not panic, does not fail
    with a binding / mode error of a built-in or function (a value missing where one is needed, a
    value present where a free variable is needed), stores ground facts only, and yields the
    declarative result. Errors about the TYPE of a value are not this property's."""
    if o["stage"] != "ok":
        return None
    if sorted(o["perm"]) != list(range(o["nprem"])):
        return "accepted by analysis, but the rule handed to the engine is not a permutation of the rule as written: " + str(o.get("rule"))
    if o["err"] == "panic":
        return "accepted by analysis, evaluation panics: " + o.get("emsg", "")[:200]
    if o["nonground"]:
        return "accepted by analysis, a non-ground atom was stored: %s" % o["nonground"][:3]
    if o["err"] == "eval" and any(s in o.get("emsg", "") for s in MODE_PAT):
        return "accepted by analysis, evaluation of a built-in fails for lack of a value (binding mode): " + o.get("emsg", "")[:200]
    if o["err"]:
        return None
    if b_facts_from_go(o["facts"]) != b_oracle(case):
        return "accepted by analysis, but the result differs from the meaning of the clause as written (built-in stream)"
    return None


# ----------------------------------------------------------------- known findings
N61_CASE = {"clause": dc.clause(dc.atom(HEAD, X), [["atom", dc.atom(1, dc.app("plus", X, n(1)))]]),
            "edb": [dc.fact(1, dc.num(1)), dc.fact(1, dc.num(2))], "shape": "probe"}
N64_CASE = {"clause": dc.clause(dc.atom(HEAD, dc.var(10)), [["atom", dc.atom(1, X)]],
                                [[10, dc.app("plus", dc.var(11), n(1))], [11, dc.app("plus", X, n(1))]]),
            "edb": [dc.fact(1, dc.num(1))], "shape": "probe"}


N65_CASE = {"clause": dc.clause(dc.atom(HEAD, dc.app("plus", dc.var(10), n(1))), [["atom", dc.atom(1, X)]],
                                [[10, dc.app("plus", X, n(1))]]),
            "edb": [dc.fact(1, dc.num(1))], "shape": "probe"}


def bi_probe(src):
    return {"src": src, "extra": B_EXTRA, "limit": 20000, "timeout_ms": 20000}


BI_PROBES = (
    ("N105", "p5(fn:pair(1, 2)).\np1(1).\np0(V0) :- p5(V0), p1(V1), !:match_pair(V0, V1, _).\n", "must be variables",
     "N105 a negated :match_pair / :match_cons whose 2nd or 3rd argument is a bound variable or a constant is accepted (CheckRule "
     "even requires those variables to have a value); the engine insists on variables there and evaluation fails: "),
    ("N106", "p7([1 : 2]).\np1(2).\np0(V0) :- p7(V0), p1(V2), !:match_entry(V0, _, V2).\n", "bad pattern",
     "N106 a negated built-in with a wildcard at an input place is accepted (CheckRule skips wildcard arguments of negated atoms); "
     "the built-in has no value there and evaluation fails: "),
    ("N107", "p6([1, 2]).\np0(V1) :- p6(V0), :match_cons(V0, V1, V1).\n", "should never happen",
     "N107 the same free variable at both output places of :match_cons / :match_pair is accepted; evaluation fails instead of not "
     "matching: "),
    ("N108", "p0(V0) :- :list:member(V0, fn:list(V0, 2)).\n", "not a value",
     "N108 a variable that a built-in binds at an output place is accepted inside a function application at an input place of the "
     "same atom (CheckRule marks the output variables bound before it checks the atom's variables); evaluation fails: "),
)


def probes(ck):
    ids = set(k["id"] for k in known_for("C04"))
    for kid, src, pat, what in BI_PROBES:
        if kid not in ids:
            continue
        o = ck.run_go("c04", [bi_probe(src)])[0].get("out")
        if o and o["stage"] == "ok" and o["err"] == "eval" and pat in o.get("emsg", ""):
            ck.known(what + src.strip().split("\n")[-1] + " -> " + o.get("emsg", "")[:80])
    for kid, case, what in (
            ("N61", N61_CASE, "N61 a function application inside a positive body atom whose variable has no value yet is accepted "
                              "(CheckRule counts the variable as bound by the atom); evaluation fails: "),
            ("N64", N64_CASE, "N64 a let-statement that uses the variable of a LATER let-statement is accepted; evaluation fails: "),
            ("N65", N65_CASE, "N65 a function application in the head over a variable defined by the let-transform is accepted; the head "
                              "is evaluated before the transform and evaluation fails: ")):
        if kid not in ids:
            continue
        o = ck.run_go("c04", [go_case(case)])[0].get("out")
        if o and o["stage"] == "ok" and o["err"] == "eval":
            ck.known(what + dc.clause_text(case["clause"]) + " -> " + o.get("emsg", "")[:80])


# ----------------------------------------------------------------- the check
def classify_go(case, o):
    """Property verdict on Go's own output (no model involved). Returns None or a text."""
    if o["stage"] != "ok":
        return None
    if sorted(o["perm"]) != list(range(o["nprem"])):
        return "accepted by analysis, but the rule handed to the engine is not a permutation of the rule as written " \
               "(a literal was dropped, duplicated or invented): " + str(o.get("rule"))
    if o["err"] == "panic":
        return "accepted by analysis, evaluation panics: " + o.get("emsg", "")[:200]
    if o["nonground"]:
        return "accepted by analysis, a non-ground atom was stored: %s" % o["nonground"][:3]
    if o["err"] == "eval" and any(s in o.get("emsg", "") for s in UNBOUND_PAT):
        return "accepted by analysis, evaluation fails for lack of a value: " + o.get("emsg", "")[:200]
    if o["err"]:
        return None
    want = oracle(case)
    got = dc.canon(dc.facts_from_go(o["facts"]))
    if got != want:
        return "accepted by analysis, but the result differs from the meaning of the clause as written " \
               "(a literal was ignored or evaluated before its variables had values)"
    return None


CODES = {1: "analysis accepts, the model rejects", 2: "analysis rejects, the model accepts",
         3: "premise order after RewriteClause differs from the model", 4: "result differs from the engine model (C01 solve)",
         5: "result differs from the declarative reading computed in Coq", 6: "engine model reports an error",
         7: "evaluation error / panic / non-ground fact", 8: "malformed case"}


def run(ck):
    ck.obligations()
    ck.build_harness()
    rng = ck.rng
    cases = []
    for path in sorted(glob.glob(os.path.join(os.path.dirname(__file__), "..", "corpus", "C04", "*.json"))):
        cases.append(dict(json.load(open(path)), shape="corpus"))
    ncorpus = len(cases)
    for _ in range(ck.n(700, 40000)):
        cases.append(gen_case(rng, big=not ck.quick))
    nrandom = len(cases) - ncorpus
    # stream E: equalities between constants / variables / function applications in both
    # orientations with binders to the left, only further right, or nowhere (complete block)
    cases += eqfn_cases(rng)
    neq = len(cases) - ncorpus - nrandom
    # stream B: built-in atoms, every combination of bound / bound-later / unbound / constant /
    # wildcard arguments, positive and negated (complete block) + function applications
    cases += builtin_cases(rng, ck.n(120, 1500))
    nbi = len(cases) - ncorpus - nrandom - neq
    exhaustive = False
    if not ck.quick:
        cases += list(exhaustive_cases())
        exhaustive = True
    outs = ck.run_go("c04", [go_case_b(c) if c.get("bi") else go_case(c) for c in cases])
    terms, idxs = [], []
    stages, shapes, kinds, errs, bstages, berrs, bnames = {}, {}, {}, {}, {}, {}, {}
    nviol = 0
    flagged = set()
    bi_rejected = []
    for i, (c, r) in enumerate(zip(cases, outs)):
        bi = bool(c.get("bi"))
        src = x_source(c) if bi else source(c)
        shapes[c["shape"]] = shapes.get(c["shape"], 0) + 1
        for p in c["clause"]["body"]:
            kinds[p[0]] = kinds.get(p[0], 0) + 1
            if p[0] in ("bi", "nbi"):
                bnames[p[1]] = bnames.get(p[1], 0) + 1
        if "out" not in r:
            raise RuntimeError("harness failed on %s: %s" % (src, r))
        o = r["out"]
        if o["stage"] == "parse":
            raise RuntimeError("generator produced text the parser rejects: %s: %s" % (src, o["msg"]))
        if o["stage"] == "apanic":
            if "feasibleAlternatives" in o["msg"] and ":match_entry" in src:
                ck.known("N24 bounds analysis panics on :match_entry (feasibleAlternatives): " + src.strip().split("\n")[-1])
                o["stage"] = "analysis"
            else:
                raise RuntimeError("analysis panics on %s: %s" % (src, o["msg"][:2000]))
        st = bstages if bi else stages
        st[o["stage"]] = st.get(o["stage"], 0) + 1
        if o["stage"] == "ok" and o["err"]:
            if bi:
                berrs[o.get("emsg", "")[:50]] = berrs.get(o.get("emsg", "")[:50], 0) + 1
            else:
                errs[o["err"]] = errs.get(o["err"], 0) + 1
        why = classify_bi(c, o) if bi else classify_go(c, o)
        if why:
            flagged.add(i)
            if nviol < 5:
                nviol += 1
                rep = {"property": "C04", "kind": why, "program": src, "case": c,
                       "rewritten_rule": o.get("rule"), "impl": {k: o.get(k) for k in ("err", "emsg", "facts", "nonground")}}
                if bi:
                    rep["oracle"] = "independent property-level oracle on Go's output (built-in stream)"
                    rep["declarative_facts"] = [list(map(str, f)) for f in b_oracle(c)] if not o["err"] else None
                else:
                    rep["impl_facts"] = dc.canon(dc.facts_from_go(o["facts"])) if not o["err"] else None
                    rep["declarative_facts"] = oracle(c)
                ck.violation(rep)
        if bi and ck.quick and o["stage"] != "ok":
            bi_rejected.append(i)          # the model judges a sample of the rejected ones in the quick tier
            continue
        terms.append(xq_case(c, o) if bi else cq_case(c, o))
        idxs.append(i)
    for i in rng.sample(bi_rejected, min(len(bi_rejected), 180)):
        terms.append(xq_case(cases[i], outs[i]["out"]))
        idxs.append(i)
    ck.log("go done: %s built-in stream: %s" % (stages, bstages))
    verdicts = ck.run_coq("C04", "judge_x", terms, shard=max(60, len(terms) // (12 if ck.quick else 64) + 1))
    codes, bcodes = {}, {}
    for i, v in zip(idxs, verdicts):
        c, o = cases[i], outs[i]["out"]
        bi = bool(c.get("bi"))
        cd = bcodes if bi else codes
        cd[v] = cd.get(v, 0) + 1
        if v in (0, 9) or i in flagged:
            continue
        if len(ck.violations) >= 5:
            continue
        if bi:
            ck.violation({"property": "C04", "kind": "correspondence model/implementation broken (built-in stream): " + CODES.get(v, str(v)),
                          "no_longer_checks": "Run.C04.judge_b code %d (%s): the built-in theorems of Props/C04.v (model Analysis/BuiltinCheck.v, "
                                              "mode table go_table) are no longer tied to analysis/rulecheck.go, ast/decl.go Mode.Check, "
                                              "builtin.Predicates" % (v, CODES.get(v, "")),
                          "program": x_source(c), "case": c, "impl": o}, "no-failing-input-found")
            continue
        ck.violation({"property": "C04", "kind": "correspondence model/implementation broken: " + CODES.get(v, str(v)),
                      "no_longer_checks": "Run.C04.judge code %d (%s): theorems of Props/C04.v are no longer tied to analysis/rulecheck.go, "
                                          "analysis/rewriteclause.go, engine" % (v, CODES.get(v, "")),
                      "program": source(c), "case": c, "impl": o, "declarative_facts_python": oracle(c) if o["stage"] == "ok" else None,
                      "model": ck.coq_show("C04", "show " + cq_case(c, o))}, "no-failing-input-found")
    probes(ck)
    accepted = stages.get("ok", 0)
    nontriv = len(set((x_source(c) if c.get("bi") else dc.clause_text(c["clause"])) for c, r in zip(cases, outs)
                      if r["out"]["stage"] == "ok" and any(p[0] in ("neg", "ineq", "cmp", "eq", "bi", "nbi") for p in c["clause"]["body"])))
    samples = [(x_source(cases[k]) if cases[k].get("bi") else source(cases[k])).replace("\n", " ")
               for k in (ncorpus, ncorpus + 1, ncorpus + nrandom + 7, ncorpus + nrandom + neq + 11) if k < len(cases)]
    cov = {"evaluations": len(cases), "distinct_nontrivial": nontriv,
           "rule": "one clause + EDB per case (corpus %d, random %d, equality block %d, built-in block %d, exhaustive %d); analysis "
                   "verdict and rewritten order vs model, accepted ones evaluated by Go and compared with the declarative reading (Coq "
                   "and Python; built-in stream: Python property-level oracle only, model judges verdict and order); non-trivial = "
                   "accepted clause with a negated atom, (in)equality, comparison or built-in; distinct by text"
                   % (ncorpus, nrandom, neq, nbi, len(cases) - ncorpus - nrandom - neq - nbi),
           "builtin_stream": {"analysis_verdicts": bstages, "eval_errors": berrs, "judge_codes": {str(k): v for k, v in sorted(bcodes.items())},
                              "model_judged": sum(bcodes.values()), "atoms": bnames},
           "exhaustive": exhaustive,
           "exhaustive_scope": ("A: variables X,Y and _ in every argument place of p1(a) p2(a,b) !p3(a) !p4(a,b) a=b a=1 a!=b a<b "
                                "a=fn:plus(b,1) (63 literals), all bodies of 1 and 2 literals in order, heads p0(X) and p0(X,Y); "
                                "B: 15-literal pool over X,Y,Z, every ordered selection of 3 and 4 distinct literals") if exhaustive else "",
           "analysis_verdicts": stages, "accepted_evaluated": accepted, "go_eval_errors": errs,
           "shapes": shapes, "literal_kinds": kinds, "judge_codes": {str(k): v for k, v in sorted(codes.items())},
           "samples": samples}
    return ck.finish(cov, assumptions=[
        "models of RewriteClause/CheckRule hand-written (coq/Analysis/RuleCheck.v) for clauses without declarations, modes, temporal "
        "literals and do-transforms; tied to analysis/*.go by the differential check only",
        "the engine is C01's model (coq/Datalog/Solve.v); its variable-variable aliasing gap is covered by the brute-force "
        "declarative comparison, not by a theorem",
        "evaluation data are small integers; functions fn:plus/minus/mult with two arguments",
        "known findings N61 (function application in a positive atom), N64 (let forward reference) and N65 (head function application "
        "over a let-defined variable) are excluded by the generators and probed",
        "built-in atoms: the model (coq/Analysis/BuiltinCheck.v, mode table go_table hand-copied from builtin.Predicates) judges the "
        "verdict of analysis and the premise order only; C01's engine model has no built-ins, so evaluation of accepted clauses with "
        "built-ins is judged by an independent property-level oracle in Python on Go's own output (no panic, no binding/mode error, "
        "ground facts, result = declarative reading with each built-in read as its documented relation)",
        "built-in stream: one built-in goal per clause over unary typed EDB columns; :time:* / :duration:* comparisons are exercised on "
        "numbers only (verdict + 'no missing value' error, not their result); known findings N105-N108 are excluded by the generator and "
        "probed; N24's trigger (bounds analysis on :match_entry over an empty-list-typed variable) is not reached by this harness - a "
        "list column is never 'empty lists only' and such a panic would be reported as N24"])


def replay(ck, path):
    ck.build_harness()
    rep = json.load(open(path))
    case = rep["case"]
    if case.get("bi"):
        o = ck.run_go("c04", [go_case_b(case)])[0]["out"]
        why = classify_bi(case, o)
        v = ck.run_coq("C04", "judge_x", [xq_case(case, o)])[0]
        print("replay (built-in stream): analysis=%s %s rule=%s err=%s %s facts=%s declarative=%s judge_b=%d (%s)" % (
            o["stage"], o.get("msg", ""), o.get("rule"), o["err"], o.get("emsg", ""), b_facts_from_go(o["facts"]),
            b_oracle(case) if o["stage"] == "ok" else "-", v, CODES.get(v, "agree")))
        if why:
            print("property verdict:", why)
        if why or v != 0:
            print("VIOLATION property=C04 replay=%s" % path)
            return 1
        return 0
    o = ck.run_go("c04", [go_case(case)])[0]["out"]
    why = classify_go(case, o)
    v = ck.run_coq("C04", "judge", [cq_case(case, o)])[0]
    print("replay: analysis=%s rule=%s err=%s facts=%s declarative=%s judge=%d (%s)" % (
        o["stage"], o.get("rule"), o["err"], dc.canon(dc.facts_from_go(o["facts"])), oracle(case) if o["stage"] == "ok" else "-",
        v, CODES.get(v, "agree")))
    if why:
        print("property verdict:", why)
    if why or v != 0:
        print("VIOLATION property=C04 replay=%s" % path)
        return 1
    return 0


META = {
    "text": "Machine-checked theorems (coq/Props/C04.v) about a Gallina model of analysis.RewriteClause and Analyzer.CheckRule "
            "(after fixes F3a-c, N19) over C01's clause syntax and engine model: the rewritten body is a permutation of the body "
            "as written (no literal dropped or duplicated); a clause as written with a head variable, a named variable of a negated "
            "atom or an operand of a comparison/inequality that nothing binds is rejected; for accepted alias-free clauses (outside "
            "the known findings N61/N64/N65) evaluation never fails for want of a value - every error of the join, the head or the "
            "let-transform is a function or comparison rejecting ground arguments - and every solution yields a head fact; and the "
            "solutions of the join on the rewritten, wildcard-replaced clause are exactly the declarative solutions of the clause as "
            "written (every literal holds, wildcards existential per literal), likewise the derived facts. Every run generates clauses over "
            "every placement of variables/wildcards in every premise order, compares analysis verdict and premise order of the real "
            "code with the model, evaluates accepted clauses with the real engine on a small EDB and compares the result with the "
            "declarative reading of the clause as written (brute force in Coq and independently in Python), under recover() with a "
            "groundness scan of the store. Added after seeding: (a) a complete block of equalities between constant / variable / function "
            "application / wildcard in both orientations with each variable's binder to the left, only further right, or absent; (b) "
            "built-in predicate atoms with modes: theorems for EVERY mode table (a variable at a '+' place, also inside a function "
            "application, that no positive atom / equality / earlier output place TO THE LEFT can have given a value => rejected; a '-' "
            "place holds a variable; without built-ins the extended model is the old one) and a complete block of 33 built-ins x every "
            "combination of bound-left / bound-only-later / unbound / constant / wildcard arguments, positive and negated: verdict and "
            "premise order vs the model with builtin.Predicates' table, accepted clauses evaluated and judged by an independent "
            "property-level oracle on Go's output (no panic, no missing-value / binding-mode error, ground facts, result = declarative "
            "reading).",
    "note": "Trusted: Coq kernel + vm_compute; hand-written models tied to the Go code by the differential check (sampled; "
            "exhaustive blocks in the thorough tier); fragment without declarations/modes/temporal/do-transforms; small integer data. "
            "Known findings N61, N64, N65, N105-N108 are excluded from the generators and probed. Built-ins: the engine is not modelled "
            "(evaluation judged by a Python oracle on Go's output, labelled as such in the evidence); the mode table of the model is a "
            "hand copy tied to builtin.Predicates by the differential run.",
}
