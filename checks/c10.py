"""C10 - no input text can crash the front end  (PARTIAL for the proof technique).

Proved (coq/Props/C10.v): totality of the byte-level decoders after the fixes
N12a/N12b/N20 - ast.Unescape and the simple-column reader end in a value or an
error for ALL byte strings / line lists; the pre-fix models are refuted.  Also
(added after seeding): CheckDecl's row test followed by the arity-indexed row
loop of symbols.desugarOneDecl never indexes out of range (desugar_rows_total,
front_decl_total), tied to the code by part D.
Correspondence: outcome (value + bytes / error / recovered panic) of the real Go
decoders against the model evaluated inside Coq, exhaustive over short strings.
NOT proved: the ANTLR runtime, the visitor's type assertions, analysis and the
engine on parser-produced trees.  They are exercised by a fuzz loop (grammar
based generator + mutations, every stage under recover() and a deadline).  The
fuzz loop supports the search for a failing input; it is not a proof.
"""
import base64
import glob
import itertools
import json
import os
import resource
import subprocess
import time
from concurrent.futures import ThreadPoolExecutor

from vlib.core import BUILD, ENV, ROOT, SFX, C, Raw, coq, known_for

PID = "C10"


def b64(b):
    return base64.b64encode(bytes(b)).decode()


def unb64(s):
    return base64.b64decode(s) if s else b""


# ------------------------------------------------------------ Unescape cases
ALPHA = [0x5c, ord("u"), ord("x"), ord("{"), ord("}"), ord("0"), ord("1"), ord("a"), ord("F"), ord('"'),
         0x0a, 0x0d, ord("n"), 0xc3, 0xa9, 0xff]
ALPHA4 = [0x5c, ord("u"), ord("x"), ord("{"), ord("}"), ord("0"), ord("a"), ord('"'), 0x0a, 0x0d, 0xc3, 0xff]
PIECES = [b"\\u{", b"\\u", b"\\x", b"}", b"{", b"\\", b"\\n", b"\\t", b"\\\\", b'\\"', b"\\'", b"\\`", b"\\\n", b"41", b"e9", b"1f600",
          b"d800", b"10ffff", b"110000", b"1234567", b"12345678", b"g", b"A", b"\r\n", b"\r", b"\n", b"\xc3\xa9", b"\xe2\x82\xac",
          b"\xf0\x9f\x98\x80", b"\xed\xa0\x80", b"\xc0\x80", b"\xf4\x90\x80\x80", b"\xe2\x82", b"\xff", b"\x80", b"\x00", b"7f", b"80", b"fF", b" "]


HEX = "0123456789abcdefABCDEF"


def gen_escape(rng):
    """One escape sequence around the boundaries of the decoder: digit counts 0..10, leading zeros
    (so that long sequences stay below MaxRune), values at the surrogate / MaxRune edges, missing braces."""
    r = rng.random()
    if r < 0.55:
        k = rng.choice([0, 1, 2, 3, 4, 5, 6, 6, 7, 7, 8, 8, 9, 10])
        v = rng.choice([0x41, 0xe9, 0x7f, 0x80, 0x7ff, 0x800, 0xd7ff, 0xd800, 0xdfff, 0xe000, 0xffff, 0x10000, 0x10ffff, 0x110000, rng.randrange(0x120000)])
        digits = ("%x" % v).rjust(k, "0")[-k:] if k else ""
        if rng.random() < 0.3:
            digits = "".join(rng.choice(HEX + "g") for _ in range(k))
        s = "\\u" + rng.choice(["{", "{", "{", "", "}"]) + digits + rng.choice(["}", "}", "}", "", "{", "}}"])
        return s.encode()
    if r < 0.8:
        return ("\\x" + "".join(rng.choice(HEX + "g") for _ in range(rng.choice([0, 1, 2, 2, 2, 3])))).encode()
    return rng.choice(PIECES)


def gen_unescape(rng):
    r = rng.random()
    if r < 0.35:
        return b"".join(gen_escape(rng) for _ in range(rng.randint(1, 3)))
    if r < 0.6:
        return b"".join(rng.choice(PIECES) for _ in range(rng.randint(0, 7)))
    if r < 0.8:
        return bytes(rng.choice(ALPHA) for _ in range(rng.randint(0, 12)))
    return bytes(rng.randrange(256) for _ in range(rng.randint(0, 10)))


def cq_unescape(s, is_bytes, out):
    k = {"val": 0, "err": 1, "panic": 2}[out["k"]]
    return coq((bool(is_bytes), bytes(s), k, unb64(out.get("v", ""))))


# -------------------------------------------------------- simple-column cases
SC_CONSTS = ["1", "-7", "/a", "/foo/bar", "/a%41b", '"s"', '"a\\nb"', "[1, 2]", "{/a: 1}", "1.5", 'b"\\xff"', "fn:pair(1, /b)", "[/a: 1]"]
SC_BAD = ["", " ", "/", "/%zz", "/a%4", '"', "[", "X", "foo(1)", "fn:plus(1, 2)", "fn:div(1, 0)", "1 2", "\r", "# c", '"\\u{"', "9223372036854775808",
          "0", "-1", "2", "65536", "65537", "4294967296", "4294967297", "99999999999999999999", "foo 1 1", "foo 1 -1", "foo -1 1", "foo 1025 1",
          "foo 1024 0", "foo 0 5", "foo 2 2", "foo 1 4294967296", "foo 1 4294967297", "foo 1 9223372036854775807", "Foo 1 1", "/x 1 1", "foo 1",
          "foo 1 1 1", "foo  1  1", " foo 1 1", "1 1 1", "foo x y", "foo 1 0x1", "foo +1 +1", "foo 1 1_0", "é 1 1", ":p 1 1", "a.b 2 1"]


def gen_sc_valid(rng):
    np_ = rng.randint(0, 3)
    preds = [(rng.choice(["foo", "bar", "p0", "a.b", "edge"]), rng.randint(0, 3), rng.randint(0, 3)) for _ in range(np_)]
    lines = [str(np_)] + ["%s %d %d" % p for p in preds]
    for _, ar, nf in preds:
        for _ in range(ar * nf):
            lines.append(rng.choice(SC_CONSTS))
    return lines


def gen_sc(rng):
    lines = gen_sc_valid(rng)
    shape = "valid"
    r = rng.random()
    if r < 0.55:
        shape = "line-mutation"
        for _ in range(rng.randint(1, 3)):
            i = rng.randrange(len(lines))
            m = rng.randrange(6)
            if m == 0 and len(lines) > 1:
                del lines[i]
            elif m == 1:
                lines.insert(i, lines[i])
            elif m == 2:
                lines[i] = ""
            elif m in (3, 4):
                lines[i] = rng.choice(SC_BAD)
            else:
                lines.insert(i, rng.choice(SC_BAD + SC_CONSTS))
    elif r < 0.65:
        shape = "truncation"
    sep = "\r\n" if rng.random() < 0.08 else "\n"
    data = sep.join(lines).encode()
    if rng.random() < 0.85:
        data += sep.encode()
    if shape == "truncation":
        data = data[:rng.randint(0, len(data))]
    elif r > 0.93:
        shape = "byte-mutation"
        b = bytearray(data)
        for _ in range(rng.randint(1, 3)):
            if b:
                b[rng.randrange(len(b))] = rng.choice([0x0a, 0x0d, 0x20, 0x2f, 0x25, 0x2d, 0x30, 0x39, rng.randrange(256)])
        data = bytes(b)
    return shape, data


SC_EXH = ["", "1", "2", "p 1 1", "p 1 2", "p 2 1", "p 0 1", "p 1 -1", "7", "/a"]


def cq_sc(data, out):
    k = {"ok": 0, "err": 1, "panic": 2}[out["k"]]
    rows, seen, lines = [], set(), []
    for l in out["lines"] or []:
        lb = unb64(l["l"])
        lines.append(lb)
        if lb in seen:
            continue
        seen.add(lb)
        atoi = C("Some", l["atoi"]) if l.get("atoi") is not None else None
        scan = C("Some", (unb64(l.get("name", "")), l["ar"], l["nf"])) if l["scan"] else None
        tk = {"ok": 0, "read": 1, "parse": 2, "panic": 1, "": 3}[l.get("termk", "")]
        rows.append((lb, atoi, scan, l.get("namek") == "ok", (tk, unb64(l.get("termv", "")))))
    facts = [(unb64(f["n"]), f["a"], [unb64(a) for a in f["args"]]) for f in out["facts"]]
    return coq((bytes(data), lines, bool(out["long"]), rows, k, out["e"], facts))


# ------------------------------------------------ bound rows of a declaration
# Part D: the declaration under test is `p`; the descriptor block carries the atoms analysis treats
# specially; the bound rows have every length around the arity and entries of every class the row
# loop of symbols.desugarOneDecl distinguishes.
DVARS = ["X", "Y", "Z", "W", "V", "U", "T"]
W_CELLS = ["/any", "/number", "/string", ".List</number>", ".Pair</name, .List</string>>",
           ".Map</string, .Struct</a: /number, opt /b: /string>>", ".Union</number, /string>", "fn:List(/any)",
           ".Singleton</a>", "/foo", "X", ".Option<.List<.Pair</number, /name>>>"]
N_CELLS = ["1", "fn:plus(1, 2)", "[/number]", ".Union<>", "fn:Pair(/any)", "1.5"]


def decl_descrs(ar):
    vs = DVARS[:ar]
    mode = "mode(%s)" % ", ".join('"%s"' % "+-?"[i % 3] for i in range(ar))
    v0, v1 = (vs + ["X"])[0], (vs + ["X", "X"])[min(1, max(ar - 1, 0))]
    return ["", 'doc("d")', ", ".join('arg(%s, "a")' % v for v in vs) or 'doc("d", "e")', mode, "extensional()",
            "external(), " + mode, "private()", "synthetic()", "desugared()", "deferred(), " + mode, "@temporal",
            "reflects(/x)", "fundep([%s], [%s])" % (v0, v1), 'fundep([%s], [%s]), merge([%s], "m")' % (v0, v1, v1),
            'name("x")', "foo(1)", "synthetic(), desugared()", 'doc("d"), synthetic(), ' + mode, "external()", "internal:maybe_temporal()"]


def row_variants(ar):
    """Rows as lists of (class, text): lengths around the arity x where the one entry that is not a plain
    well-formed bound sits. class: W, Su (declared unary predicate), Sn (undeclared), Sp (the predicate itself), N."""
    out = []
    for n in sorted(set(x for x in (0, ar - 1, ar, ar + 1, ar + 2) if x >= 0)):
        base = [("W", W_CELLS[(i + n) % len(W_CELLS)]) for i in range(n)]
        out.append(base)
        if n >= 1:
            for pos, cell in ((n - 1, ("Sn", '"nosuch"')), (0, ("Su", '"u"')), (n - 1, ("N", N_CELLS[n % len(N_CELLS)])),
                              (0, ("N", N_CELLS[(n + 1) % len(N_CELLS)])), (n - 1, ("Sp", '"p"'))):
                r = list(base)
                r[pos] = cell
                out.append(r)
    return out


def decl_case(ar, descr, rows):
    vs = DVARS[:ar]
    src = ""
    if any(k == "Su" for r in rows for k, _ in r):
        src += "Decl u(X) bound [/number].\nu(1).\n"
    temporal = "@temporal" in descr          # `temporal` is a keyword of the grammar, not a descriptor atom
    descr = ", ".join(d for d in descr.split(", ") if d != "@temporal")
    src += "Decl p(%s)%s%s%s.\n" % (", ".join(vs), " temporal" if temporal else "", " descr [%s]" % descr if descr else "",
                                   "".join(" bound [%s]" % ", ".join(t for _, t in r) for r in rows))
    src += "p(%s).\n" % ", ".join(["1"] * ar)
    return {"src": src, "pred": "p", "ar": ar, "descr": descr, "rows": [[k for k, _ in r] for r in rows]}


def gen_decl_cases(rng, quick, nrandom):
    cases = []
    for ar in range(4):
        good = [("W", W_CELLS[i % len(W_CELLS)]) for i in range(ar)]
        variants = row_variants(ar)
        for di, descr in enumerate(decl_descrs(ar)):
            cases.append(dict(decl_case(ar, descr, []), shape="exhaustive"))
            for vi, r in enumerate(variants):
                cases.append(dict(decl_case(ar, descr, [r]), shape="exhaustive"))
                if quick:        # two rows: the odd one first or second, alternating
                    cases.append(dict(decl_case(ar, descr, [good, r] if (vi + di) % 2 else [r, good]), shape="exhaustive"))
                else:
                    cases.append(dict(decl_case(ar, descr, [good, r]), shape="exhaustive"))
                    cases.append(dict(decl_case(ar, descr, [r, good]), shape="exhaustive"))
            if not quick:
                for r1 in variants[::3]:
                    for r2 in variants[1::4]:
                        cases.append(dict(decl_case(ar, descr, [r1, r2]), shape="exhaustive"))
    nexh = len(cases)
    for _ in range(nrandom):
        ar = rng.choice([0, 1, 1, 2, 2, 3, 4, 6])
        ds = decl_descrs(ar)
        descr = ", ".join(d for d in rng.sample(ds, rng.choice([1, 1, 2, 3])) if d)
        variants = row_variants(ar)
        rows = [rng.choice(variants) for _ in range(rng.choice([0, 1, 2, 2, 3, 5]))]
        cases.append(dict(decl_case(ar, descr, rows), shape="random"))
    return cases, nexh


def cq_decl(case, out):
    """Entry classes as the model names them: 0 CW, 1 CRefOk, 2 CRefSv, 3 CRefCy, 4 CBad. A reference to the
    declared unary predicate u desugars (1); an undeclared name is a saved error (2); the predicate's own
    name is a cycle when it is unary (3) and an unknown unary predicate otherwise (2)."""
    ar = case["ar"]
    code = {"W": 0, "Su": 1, "Sn": 2, "Sp": 3 if ar == 1 else 2, "N": 4}
    k = {"ok": 0, "err": 1, "panic": 2}
    return coq((bool(out["desugared"]), ar, [[code[c] for c in r] for r in case["rows"]], bool(out["e_len"]), bool(out["e_wf"]),
                k[out["direct"]], k[out["pipe"]]))


def decl_structure_ok(case, out):
    """The parser must have produced the declaration the generator wrote (arity, rows, entry classes)."""
    want = [[{"W": "W", "N": "N"}.get(c, "S") for c in r] for r in case["rows"]]
    return out.get("found") and out["arity"] == case["ar"] and out["rows"] == want


# ----------------------------------------------------------------- fuzz loop
def _limits():
    resource.setrlimit(resource.RLIMIT_AS, (8 << 30, 8 << 30))   # an allocation bomb kills the harness, not the machine


def harness_path(ck):
    return os.path.join(BUILD, "harness_c10" + SFX)


def fuzz_proc(ck, seed, start, n, secs, deadline_ms):
    """Run one harness process over cases [start, start+n); restart past cases that time out or kill
    the process. Returns (stats list, failures list)."""
    stats, fails = [], []
    t_end = time.time() + secs if secs else None
    while n > 0:
        args = [harness_path(ck), "c10_fuzz", "-seed", str(seed), "-start", str(start), "-n", str(n), "-deadline", str(deadline_ms)]
        if t_end:
            left = t_end - time.time()
            if left <= 1:
                break
            args += ["-secs", "%.1f" % left]
        p = subprocess.run(args, stdout=subprocess.PIPE, stderr=subprocess.PIPE, env=ENV, preexec_fn=_limits)
        last, done, texit = None, None, None
        for line in p.stdout.decode("utf-8", "replace").splitlines():
            if line.startswith("i "):
                last = int(line[2:])
                continue
            try:
                d = json.loads(line)
            except ValueError:
                continue
            if "fail" in d:
                fails.append(dict(d["fail"], seed=seed))
            elif "done" in d:
                done = d["done"]
            elif "timeout_exit" in d:
                texit = d
        if done is not None:
            stats.append(done)
            break
        if texit is not None:                       # a case did not return: already reported as a failure; go on after it
            stats.append(texit["partial"])
            nxt = texit["timeout_exit"] + 1
        else:                                       # the process died (fatal error: out of memory, stack overflow, ...)
            if last is None:
                raise RuntimeError("fuzz harness died before the first case: %s" % p.stderr.decode("utf-8", "replace")[-1500:])
            e = subprocess.run([harness_path(ck), "c10_fuzz", "-seed", str(seed), "-start", str(last), "-n", "1", "-emit"],
                               stdout=subprocess.PIPE, env=ENV).stdout.decode()
            c = json.loads(e.splitlines()[0])
            fails.append({"idx": last, "seed": seed, "kind": c["kind"], "shape": c["shape"], "b": c["b"], "stage": c["kind"],
                          "what": "crash", "msg": p.stderr.decode("utf-8", "replace")[:400], "where": ""})
            stats.append({"done": last - start, "stats": {}, "kinds": {}, "shapes": {}, "distinct": 0, "bytes": 0})
            nxt = last + 1
        n -= nxt - start
        start = nxt
    return stats, fails


def replay_cases(ck, cases, deadline_ms=10000, extra=()):
    """cases: list of (kind, bytes). Returns list of stage results; a case that kills or stalls the
    harness yields what = crash / timeout and the run continues with the next case."""
    res = []
    i = 0
    while i < len(cases):
        data = "".join(json.dumps({"kind": k, "b": b64(b)}) + "\n" for k, b in cases[i:])
        p = subprocess.run([harness_path(ck), "c10_fuzz", "-replay", "-deadline", str(deadline_ms)] + list(extra), input=data.encode(),
                           stdout=subprocess.PIPE, stderr=subprocess.PIPE, env=ENV, preexec_fn=_limits)
        outs = [json.loads(l) for l in p.stdout.decode("utf-8", "replace").splitlines() if l.startswith("{")]
        res += outs
        i += len(outs)
        if i < len(cases) and (not outs or outs[-1].get("what") != "timeout"):
            res.append({"stage": cases[i][0], "what": "crash", "msg": p.stderr.decode("utf-8", "replace")[:300], "where": ""})
            i += 1
    return res


def fails_same(a, b):
    return b.get("what") == a.get("what") and b.get("stage") == a.get("stage") and (b.get("where") or "") == (a.get("where") or "")


def shrink(ck, kind, data, ref, budget=12):
    """Delta debugging by deleting lines, then chunks, while the same stage still fails the same way."""
    cur = data
    for _ in range(budget):
        cands = []
        lines = cur.split(b"\n")
        if len(lines) > 1:
            for i in range(len(lines)):
                cands.append(b"\n".join(lines[:i] + lines[i + 1:]))
        n = len(cur)
        for size in (max(1, n // 2), max(1, n // 4), max(1, n // 8), 4, 1):
            for off in range(0, n, size):
                cands.append(cur[:off] + cur[off + size:])
        cands = [c for c in dict.fromkeys(cands) if len(c) < len(cur)][:160]
        if not cands:
            break
        outs = replay_cases(ck, [(kind, c) for c in cands])
        good = [c for c, o in zip(cands, outs) if fails_same(ref, o)]
        if not good:
            break
        cur = min(good, key=len)
    return cur


def classify_known(fail, text):
    """Known findings of the fuzz stage, identified by panic site + input shape."""
    for k in known_for(PID):
        sig = k.get("signature")
        if sig and fail.get("what") == sig.get("what") and sig.get("where", "") in (fail.get("where") or "") \
                and all(any(t in text for t in alt) for alt in sig.get("needs", [])):
            return k
    return None


# ----------------------------------------------------------------- the check
def corpus_cases():
    out = []
    for path in sorted(glob.glob(os.path.join(ROOT, "corpus", PID, "*.json"))):
        c = json.load(open(path))
        c["_path"] = os.path.basename(path)
        out.append(c)
    return out


def run(ck):
    parts = os.environ.get("C10_PARTS", "ABCD")    # development switch only; registered commands run all parts
    ck.obligations()
    ck.build_harness()
    rng = ck.rng
    corpus = corpus_cases()
    nviol = [0]

    def violation(rep, suffix=""):
        if nviol[0] < 5:
            ck.violation(rep, suffix)
        nviol[0] += 1

    # ---------------- 0. regression corpus through the staged pipeline first (tolerates a harness crash)
    fcorpus = [("unit" if c["kind"] == "decl" else c["kind"], unb64(c["b"]), c["_path"]) for c in corpus]
    fouts = replay_cases(ck, [(k, b) for k, b, _ in fcorpus])
    ffails = []
    fatal = set()
    for (k, b, path), o in zip(fcorpus, fouts):
        if o.get("what") in ("panic", "timeout", "crash"):
            ffails.append(dict(o, kind=k, b=b64(b), shape="corpus:" + path, idx=-1, seed=-1))
            if o.get("what") != "panic":
                fatal.add(b)
    big_ok = not fatal      # a tree on which a huge count in the header is fatal: keep such counts out of part B
    corpus = [c for c in corpus if unb64(c["b"]) not in fatal]

    # ---------------- A. Unescape: implementation vs model, exhaustive on short strings
    ucases = []
    for c in corpus:
        if c["kind"] == "unescape":
            for isb in (False, True):
                ucases.append((unb64(c["b"]), isb, "corpus"))
    exh_len = ck.n(3, 4)
    nexh = 0
    for n in range(3 + 1):
        for t in itertools.product(ALPHA, repeat=n):
            for isb in (False, True):
                ucases.append((bytes(t), isb, "exhaustive"))
                nexh += 1
    if not ck.quick:                      # length 4 over the 12-byte sub-alphabet
        for t in itertools.product(ALPHA4, repeat=4):
            for isb in (False, True):
                ucases.append((bytes(t), isb, "exhaustive"))
                nexh += 1
    for _ in range(ck.n(1200, 30000) if "A" in parts else 0):
        ucases.append((gen_unescape(rng), rng.random() < 0.5, "random"))
    ck.log("A: %d unescape cases" % len(ucases))
    uouts = ck.run_go("c10_unescape", [{"b": b64(s), "bytes": isb} for s, isb, _ in ucases])
    uterms = []
    for (s, isb, _), o in zip(ucases, uouts):
        uterms.append(cq_unescape(s, isb, o["out"]) if "out" in o else cq_unescape(s, isb, {"k": "panic"}))
    ck.log("A: go done, judging in coq")
    uverd = ck.run_coq(PID, "judge_unescape", uterms, shard=max(400, len(uterms) // 4 + 1), tag="u")      # few shards: start-up of coqc (loading ZArith) dominates
    ukinds = {"val": 0, "err": 0, "panic": 0}
    udis = 0
    for (s, isb, src), o, v in zip(ucases, uouts, uverd):
        k = o.get("out", {}).get("k", "panic")
        ukinds[k] += 1
        if v == 0:
            continue
        udis += 1
        if nviol[0] >= 5:
            nviol[0] += 1
            continue
        rep = {"property": PID, "part": "ast.Unescape", "kind": "unescape", "b": b64(s), "text": s.decode("latin-1"), "isBytes": isb,
               "impl": o, "source": src, "model": ck.coq_show(PID, "show_unescape " + cq_unescape(s, isb, o.get("out", {"k": "panic"})))[:600]}
        if v == 2:
            rep["verdict"] = "ast.Unescape panicked on this input (property violated)"
            violation(rep)
        else:
            rep["verdict"] = "model and implementation differ, the implementation returned a value or an error"
            rep["no_longer_checks"] = "correspondence Run.C10.judge_unescape: model coq/Front/Unescape.v vs ast.Unescape (theorem unescape_total no longer tied to the code)"
            violation(rep, "no-failing-input-found")

    # ---------------- B. simple-column reader: implementation vs model
    scases = []
    for c in corpus:
        if c["kind"] == "sc":
            scases.append(("corpus", unb64(c["b"])))
    nsc_exh = 0
    for n in range(ck.n(3, 4) + 1):
        for t in itertools.product(SC_EXH, repeat=n):
            scases.append(("exhaustive", ("\n".join(t) + ("\n" if n else "")).encode()))
            nsc_exh += 1
    for _ in range(ck.n(1200, 20000) if "B" in parts else 0):
        shape, d = gen_sc(rng)
        if not big_ok and any(len(tok) > 6 and tok.lstrip(b"-+").isdigit() for tok in d.split()):
            continue
        scases.append((shape, d))
    ck.log("B: %d fact files" % len(scases))
    souts = ck.run_go("c10_sc", [{"b": b64(d)} for _, d in scases])
    sterms, sidx = [], []
    skinds, sshapes, serrs = {"ok": 0, "err": 0, "panic": 0}, {}, {}
    for i, ((shape, d), o) in enumerate(zip(scases, souts)):
        sshapes[shape] = sshapes.get(shape, 0) + 1
        if "out" not in o:
            violation({"property": PID, "part": "SimpleColumn.ReadInto", "kind": "sc", "b": b64(d), "impl": o,
                       "verdict": "harness-level panic while reading a fact file"})
            continue
        skinds[o["out"]["k"]] += 1
        if o["out"]["k"] == "err":
            serrs[str(o["out"]["e"])] = serrs.get(str(o["out"]["e"]), 0) + 1
        sterms.append(cq_sc(d, o["out"]))
        sidx.append(i)
    ck.log("B: go done, judging in coq")
    sverd = ck.run_coq(PID, "judge_sc", sterms, shard=max(200, len(sterms) // 6 + 1), tag="s")
    sdis = 0
    for i, t, v in zip(sidx, sterms, sverd):
        if v == 0:
            continue
        sdis += 1
        if nviol[0] >= 5:
            nviol[0] += 1
            continue
        shape, d = scases[i]
        o = souts[i]["out"]
        rep = {"property": PID, "part": "SimpleColumn.ReadInto", "kind": "sc", "b": b64(d), "text": d.decode("latin-1"), "source": shape,
               "impl": {k: o[k] for k in ("k", "e", "msg", "facts") if k in o}, "model": ck.coq_show(PID, "show_sc " + t)[:800]}
        if v == 2:
            rep["verdict"] = "SimpleColumn.ReadInto panicked on this file (property violated)"
            violation(rep)
        else:
            rep["verdict"] = "model and implementation differ, the implementation returned nil or an error"
            rep["no_longer_checks"] = "correspondence Run.C10.judge_sc: model coq/Front/SimpleColumn.v vs factstore.SimpleColumn.ReadInto (theorem sc_read_total no longer tied to the code)"
            violation(rep, "no-failing-input-found")

    # ---------------- D. bound rows of a declaration: CheckDecl's row test, the row loop of desugarOneDecl
    #                    and the analysis pipeline vs the model (coq/Front/DeclRows.v)
    dcases, dexh = gen_decl_cases(rng, ck.quick, ck.n(400, 12000) if "D" in parts else 0)
    for c in corpus:
        if c["kind"] == "decl":
            dcases.insert(0, dict(c["case"], shape="corpus"))
    ck.log("D: %d declarations" % len(dcases))
    douts = ck.run_go("c10_decl", [{"src": c["src"], "pred": c["pred"]} for c in dcases])
    dterms, didx = [], []
    dstats = {"check": {}, "direct": {}, "pipe": {}, "descr_flags": {"synthetic": 0, "desugared": 0}, "row_len_vs_arity": {"shorter": 0, "equal": 0, "longer": 0}}
    for i, (c, o) in enumerate(zip(dcases, douts)):
        if "out" not in o:
            violation({"property": PID, "part": "declaration rows", "kind": "decl", "b": b64(c["src"].encode()), "text": c["src"], "case": c, "impl": o,
                       "verdict": "harness-level panic while analysing a declaration"})
            continue
        o = o["out"]
        if o.get("parse_err") or not decl_structure_ok(c, o):
            raise RuntimeError("part D: generated declaration was not parsed as written: %r -> %r" % (c, o))
        for key in ("direct", "pipe"):
            dstats[key][o[key]] = dstats[key].get(o[key], 0) + 1
        dstats["check"][o["check_k"]] = dstats["check"].get(o["check_k"], 0) + 1
        dstats["descr_flags"]["synthetic"] += bool(o["synthetic"])
        dstats["descr_flags"]["desugared"] += bool(o["desugared"])
        for r in c["rows"]:
            dstats["row_len_vs_arity"]["shorter" if len(r) < c["ar"] else "equal" if len(r) == c["ar"] else "longer"] += 1
        dterms.append(cq_decl(c, o))
        didx.append(i)
    dverd = ck.run_coq(PID, "judge_decl", dterms, shard=max(400, len(dterms) // 3 + 1), tag="d")
    ddis = 0
    for i, t, v in zip(didx, dterms, dverd):
        if v == 0:
            continue
        ddis += 1
        if nviol[0] >= 5:
            nviol[0] += 1
            continue
        c, o = dcases[i], douts[i]["out"]
        rep = {"property": PID, "part": "declaration rows", "kind": "decl", "b": b64(c["src"].encode()), "text": c["src"], "case": c, "impl": o,
               "model": ck.coq_show(PID, "show_decl " + t)[:400]}
        if v == 2:
            rep["verdict"] = "analysis panicked on a parsed declaration: %s at %s (property violated)" % (o.get("pipe_msg"), o.get("pipe_where"))
            violation(rep)
        else:
            rep["verdict"] = "CheckDecl's row test or the row loop of symbols.CheckAndDesugar differ from the model; the pipeline returned"
            rep["no_longer_checks"] = ("correspondence Run.C10.judge_decl: model coq/Front/DeclRows.v vs analysis.CheckDecl / symbols.desugarOneDecl "
                                       "(theorems desugar_rows_total, front_decl_total no longer tied to the code)")
            violation(rep, "no-failing-input-found")

    # ---------------- C. fuzz loop over the whole front end (search, not proof)
    ck.log("C: fuzz loop")
    nproc = 8 if ck.quick else 16
    per = ck.n(2600, 10 ** 9) if "C" in parts else 1
    secs = 0 if ck.quick else 540
    seeds = [rng.randrange(1, 2 ** 40) for _ in range(nproc)]
    t0 = time.time()
    with ThreadPoolExecutor(max_workers=nproc) as ex:
        results = list(ex.map(lambda s: fuzz_proc(ck, s, 0, per, secs, 10000 if ck.quick else 20000), seeds))
    fuzz_secs = time.time() - t0
    agg = {"done": 0, "distinct": 0, "bytes": 0, "stats": {}, "kinds": {}, "shapes": {}}
    samples = []
    for stats, fails in results:
        ffails += fails
        for st in stats:
            agg["done"] += st.get("done", 0)
            agg["distinct"] += st.get("distinct", 0)
            agg["bytes"] += st.get("bytes", 0)
            for key in ("stats", "kinds", "shapes"):
                for k, v in (st.get(key) or {}).items():
                    agg[key][k] = agg[key].get(k, 0) + v
            samples += st.get("samples") or []
    # a deadline is load dependent: a case that timed out is run again alone with a long deadline;
    # only a case that still does not return counts
    slow = 0
    confirmed = []
    for f in ffails:
        if f.get("what") == "timeout":
            o = replay_cases(ck, [(f["kind"], unb64(f["b"]))], deadline_ms=120000)[0]
            if o.get("what") not in ("timeout", "crash", "panic"):
                slow += 1
                continue
            if o.get("what") == "panic":
                f = dict(f, **o)
        confirmed.append(f)
    ffails = confirmed
    # group failures by (stage, what, site); shrink one witness per group
    groups = {}
    for f in ffails:
        groups.setdefault((f["kind"], f["stage"], f["what"], f.get("where") or f.get("msg", "")[:60]), []).append(f)
    known_hits = {}
    for key, fl in sorted(groups.items(), key=lambda kv: -len(kv[1])):
        f = min(fl, key=lambda x: len(x["b"]))
        data = unb64(f["b"])
        small = shrink(ck, f["kind"], data, f) if f["what"] == "panic" else data    # timeouts/crashes: each probe may cost a full deadline
        text = small.decode("latin-1")
        kf = classify_known(f, text)
        if kf is not None:
            known_hits[kf["id"]] = known_hits.get(kf["id"], 0) + len(fl)
            continue
        violation({"property": PID, "part": "fuzz loop", "kind": f["kind"], "stage": f["stage"], "what": f["what"], "msg": f.get("msg", ""),
                   "where": f.get("where", ""), "b": b64(small), "text": text, "original_b": f["b"], "shape": f.get("shape"),
                   "occurrences": len(fl), "verdict": "%s: %s at stage %s (property violated)" % (f["kind"], f["what"], f["stage"])})
    probes(ck, known_hits)

    total = len(ucases) + len(scases) + len(dcases) + agg["done"] + len(fcorpus)
    cov = {
        "evaluations": total,
        "distinct_nontrivial": len(set(u[0] for u in ucases if b"\\" in u[0])) + len(set(d for _, d in scases if d.count(b"\n") >= 2))
                               + len(set(c["src"] for c in dcases if c["rows"])) + agg["distinct"],
        "rule": "A: Unescape inputs (distinct strings containing a backslash); B: fact files with a header and at least one more line (distinct); "
                "D: declarations with at least one bound row (distinct source text); C: fuzz inputs distinct by hash per process. "
                "A, B and D are judged against the Coq model, C only for panic/timeout",
        "exhaustive": True,
        "exhaustive_scope": "A: every string of length <= 3 over the %d-byte alphabet %s (thorough: also length %d over the 12-byte sub-alphabet) in both modes (%d cases); B: every file of <= %d lines over %d lines %s (%d cases); D: arity 0..3 x %d descriptor blocks (every descriptor atom analysis treats specially) x {no row, one row, two rows with one well-formed row} x row lengths {0, arity-1, arity, arity+1, arity+2} x {all entries well formed, a reference to a declared / undeclared unary predicate / the predicate itself, an entry that is no bound, first or last} (%d cases; thorough: also pairs of odd rows). C (fuzz) is NOT exhaustive."
                            % (len(ALPHA), [hex(a) for a in ALPHA], exh_len, nexh, ck.n(3, 4), len(SC_EXH), SC_EXH, nsc_exh, len(decl_descrs(2)), dexh),
        "unescape": {"cases": len(ucases), "impl_outcomes": ukinds, "disagreements": udis},
        "simple_column": {"cases": len(scases), "impl_outcomes": skinds, "error_classes": serrs, "shapes": sshapes, "disagreements": sdis},
        "decl_rows": {"cases": len(dcases), "exhaustive_block": dexh, "checkdecl_outcomes": dstats["check"], "direct_desugar_outcomes": dstats["direct"],
                      "pipeline_outcomes": dstats["pipe"], "descr_flags": dstats["descr_flags"], "row_len_vs_arity": dstats["row_len_vs_arity"], "disagreements": ddis},
        "fuzz": {"NOT_A_PROOF": "runtime search only: parse/analysis/engine are not modelled; absence of a failure here proves nothing",
                 "cases": agg["done"], "processes": nproc, "wall_s": round(fuzz_secs, 1), "bytes": agg["bytes"], "kinds": agg["kinds"],
                 "shapes": agg["shapes"], "stage_outcomes": agg["stats"], "failure_groups": len(groups), "timeouts_not_reproduced_alone": slow, "known_hits": known_hits,
                 "corpus_replayed": len(fcorpus), "fact_limit": 400, "per_case_deadline_ms": 10000 if ck.quick else 20000},
        "samples": [ucases[-1][0].decode("latin-1"), scases[-1][1].decode("latin-1"), dcases[-1]["src"]] + [s.get("text", "") for s in samples[:3]],
    }
    return ck.finish(cov, assumptions=[
        "PARTIAL: theorems cover ast.Unescape, the simple-column reader and the bound rows of a declaration (CheckDecl's row test + the row loop of "
        "symbols.desugarOneDecl) only (hand-written models coq/Front/*.v, tied to the Go code by differential runs)",
        "the bound-row model takes the outcome of the recursive desugaring of a referenced unary predicate as the class of the entry (theorems quantify over all classes); "
        "the generator of part D knows the class from how it wrote the reference (declared u / undeclared / the predicate itself) and checks that the parser produced the rows it wrote",
        "the reader model takes strconv.Atoi, fmt.Sscanf, parse.PredicateName and the decoding of a body line as a table of total functions (theorem quantifies over all tables); the harness fills the table from the real functions",
        "bufio.Scanner's 64 KiB token limit is not modelled (theorems hold for every list of lines)",
        "ANTLR runtime, visitor type assertions, analysis, engine: fuzzed only (not a proof)",
        "fatal runtime errors (stack exhaustion on pathologically deep nesting, out of memory) are outside recover(); inputs are kept small"])


def probes(ck, known_hits):
    for k in known_for(PID):
        w = k.get("witness")
        if not w:
            continue
        o = replay_cases(ck, [(w["kind"], w["text"].encode("latin-1"))], deadline_ms=3000,
                         extra=["-allow-growth"] if w.get("allow_growth") else [])[0]
        if o.get("what") in ("panic", "timeout", "crash"):
            ck.known("%s %s [%s at %s]%s" % (k["id"], k["what"], o.get("what"), o.get("where") or o.get("stage"),
                                             " (+%d fuzz hits)" % known_hits[k["id"]] if k["id"] in known_hits else ""))


def replay(ck, path):
    ck.build_harness()
    rep = json.load(open(path))
    kind, data = rep["kind"], unb64(rep["b"])
    bad = False
    if kind == "unescape":
        for isb in ([rep["isBytes"]] if "isBytes" in rep else [False, True]):
            o = ck.run_go("c10_unescape", [{"b": b64(data), "bytes": isb}])[0]
            v = ck.run_coq(PID, "judge_unescape", [cq_unescape(data, isb, o.get("out", {"k": "panic"}))])[0]
            print("replay unescape isBytes=%s: impl %s, verdict %d" % (isb, o.get("out", o).get("k"), v))
            bad |= v != 0
    elif kind == "sc":
        o = ck.run_go("c10_sc", [{"b": b64(data)}])[0]
        v = ck.run_coq(PID, "judge_sc", [cq_sc(data, o["out"])])[0] if "out" in o else 2
        print("replay sc: impl %s, verdict %d" % (o.get("out", o).get("k"), v))
        bad |= v != 0
    elif kind == "decl":
        c = rep["case"]
        o = ck.run_go("c10_decl", [{"src": c["src"], "pred": c["pred"]}])[0]
        v = ck.run_coq(PID, "judge_decl", [cq_decl(c, o["out"])])[0] if "out" in o and decl_structure_ok(c, o["out"]) else 2
        print("replay decl: CheckDecl %s, CheckAndDesugar %s, pipeline %s, verdict %d" % (
            o.get("out", {}).get("check_errs"), o.get("out", {}).get("direct"), o.get("out", {}).get("pipe"), v))
        bad |= v != 0
        kind = "unit"
    o = replay_cases(ck, [(kind, data)])[0]
    print("replay stages: %s" % json.dumps(o))
    bad |= o.get("what") in ("panic", "timeout", "crash")
    if bad:
        print("VIOLATION property=%s replay=%s" % (PID, path))
        return 1
    return 0


META = {
    "text": "PARTIAL. Machine-checked theorems (coq/Props/C10.v) about byte-level Gallina models in which every Go slice index, re-slice and "
            "make() is an explicit partial step with a Panic outcome: ast.Unescape/unescapeCharPrefix and the simple-column reader "
            "(readHeader, readPred, ReadInto) return a value or an error for ALL byte strings / line lists and all behaviours of the library "
            "functions they call (unescape_total, unescape_char_prefix_progress, sc_read_total, sc_read_bytes_total); the bound rows of a declaration - the row test of "
            "analysis.CheckDecl followed by the arity-indexed row loop of symbols.desugarOneDecl - never index out of range for ANY declaration, any "
            "descriptors and any outcome of the recursive desugaring of referenced predicates (desugar_rows_total, front_decl_total, type_bound_total; "
            "a checker that skips the row test for synthetic() declarations is refuted); the models of the code "
            "before fixes N12a/N12b/N20 are refuted by `\\u`, an empty body line, a negative and a 2^32 fact count. The models are tied to the "
            "Go code on every run by comparing outcome (value+bytes / error class / recovered panic) on generated inputs, exhaustively for all "
            "strings of length <= 3 (thorough: 4) over a 16-byte alphabet, all fact files of <= 3 (4) lines over 10 lines, and declarations of arity "
            "0..3 x every descriptor atom analysis treats specially x bound rows of every length around the arity (CheckDecl's row errors, "
            "symbols.CheckAndDesugar called directly, and the analysis pipeline against the model). "
            "Everything else the property names - the ANTLR runtime, the visitor's type assertions, analysis with bounds checking and "
            "evaluation of parser-produced trees - is NOT proved: it is exercised by a fuzz loop (grammar-based generator of Mangle source incl. a declaration "
            "zoo: special descriptor atoms in accepted and odd shapes x odd bound rows, "
            "token/byte mutations, truncations, random bytes; each stage under recover(), a fact limit and a per-case deadline). The fuzz loop "
            "supports the search for a failing input; it is not a proof.",
    "note": "Proof level applies to the two decoders and to the bound-row code of CheckDecl / desugarOneDecl only (models hand-written; the recursive desugaring of a referenced predicate enters the row model as the class of the entry, correspondence sampled + exhaustive on short inputs; library "
            "functions strconv/fmt/url/parser enter the reader model as an arbitrary table). Parser, analysis and engine: runtime fuzzing only "
            "(about 20k inputs quick, millions thorough), no coverage guidance, no claim of absence of panics. Known findings with probes: N23, N24, N110 (deferred() without mode), N111 (recursive deferred predicate does not "
            "terminate), N112 (fn:float:sum on a list of a wide union), N113 (source synthetic() declaration with several rows, recursive predicate). "
            "Fatal runtime errors (stack exhaustion, OOM) cannot be recovered and are reported as crashes if they occur.",
    "technique": "Coq 8.16 theorems over hand-written Gallina models of the byte-level decoders + differential outcome comparison Go vs model "
                 "inside coqc (vm_compute) + recover()/deadline fuzz loop over parse, analysis and evaluation (runtime search, not proof)",
}
