"""C12 - type conformance is sound for membership; bounds are bounds.

Theorems: coq/Props/C12.v (model coq/Types/Types.v). Every run drives the real
symbols.SetConforms / TypeConforms / UpperBound / LowerBound /
TypeHandle.HasType on groups (pool of types x universe of constants) and
  (a) judges the property directly on Go's own answers: S <: T affirmed, c in S,
      c not in T  => violation (the verdict), same for the two bounds;
  (b) compares every answer with the model inside Coq (Run/C12.judge), which
      also classifies a pair on which (a) fails as inside / outside the fragment
      `nice` of the soundness theorem (outside = known findings F7b, F7c, F7f).
"""
import glob
import itertools
import json
import os

from vlib.core import known_for
from checks import types_common as T

HERE = os.path.dirname(os.path.abspath(__file__))
CORPUS = os.path.join(HERE, "..", "corpus", "C12")

KINDS = {1: "SetConforms differs from the model", 2: "TypeConforms differs from the model",
         3: "TypeHandle.HasType differs from the model",
         4: "conformance affirmed, member of S not member of T, pair inside the sound fragment",
         5: "UpperBound differs from the model", 6: "LowerBound differs from the model",
         7: "HasType of a returned bound differs from the model",
         8: "a bound is not a bound (on Go's own answers), list inside the sound fragment",
         9: "model out of fuel"}


# ----------------------------------------------------------------- generation
def make_group(rng, n, depth, wild, stream, nlists=None):
    env = T.Env(rng, wild=wild, tagged=(rng.random() < (0.6 if wild else 0.3)))
    tys = T.gen_pool(rng, n, depth, env)
    base = T.base_universe()
    consts = T.universe_for(rng, tys, per_type=2, extra=4, base=rng.sample(base, 16) if stream != "exh" else base)
    lists = []
    for _ in range(len(tys) if nlists is None else nlists):
        k = rng.choice([1, 2, 2, 2, 3, 3, 4])
        lists.append([rng.randrange(len(tys)) for _ in range(k)])
    return {"tys": tys, "consts": consts, "lists": lists, "pairs": True, "stream": stream}


def exhaustive_groups(small):
    """The depth-2 grammar: one group with every ordered pair, bounds over every
    ordered pair of the depth<=1 part."""
    leaves1 = [T.ANY, T.NUMBER, T.NAME, T.tc("/a"), T.tc("/a/b"), T.tc("/ab"), T.tsing(T.cname("/a/b")),
               T.tc("/bot")]
    leaves2 = [T.NUMBER, T.tc("/a"), T.tc("/a/b")]
    if small:       # quick tier: a sample of the grammar, not claimed exhaustive
        leaves1 = [T.ANY, T.NAME, T.tc("/a"), T.tc("/a/b"), T.tc("/ab"), T.tsing(T.cname("/a/b"))]
    tys = T.grammar_depth2(leaves1, leaves2, [T.STRING, T.ANY], small=small)
    import random
    rng = random.Random(12)                 # the universe of the exhaustive block is fixed
    consts = T.universe_for(rng, tys, per_type=1, extra=0)
    consts = consts[:(70 if small else 120)]
    n1 = len([t for t in tys if T.ty_depth(t) <= 1])
    step = 2 if not small else 5
    lists = [[i, j] for i in range(0, n1, step) for j in range(0, n1, step)]
    # lists of two unions, both orders (thorough: every ordered pair of the unions of leaves; quick: those
    # with a name-prefix alternative)
    seen = set(map(tuple, lists))
    lists += [l for l in union_pair_lists(tys, keep=(lambda u: any(_is_prefix_ty(x) for x in u[1])) if small else None)
              if tuple(l) not in seen]
    return {"tys": tys, "consts": consts, "lists": lists, "pairs": True, "stream": "exh"}


# --------------------------------------- union-overlap stream (seeded C12-2)
# What the pools above rarely contain: two UNIONS that overlap alternative by
# alternative (an alternative of one strictly wider than an alternative of the
# other: /a vs /a/b, fn:List(/any) vs fn:List(/number), ...) while neither union
# conforms to the other as a whole (so the conformance shortcuts of
# intersectType / UpperBound do not answer first), handed to the bounds in
# every order, together with the constants that separate the alternatives
# (/a/x is in /a, not in /a/b).  The verdict stays the one of go_unsound_bounds
# (Go's own answers) + the model comparison.
CHAIN_ROOTS = ["/a", "/b", "/foo", "/ab", "/num", "/nam", "/number/x", "/name/x", "/bot/x", "/z"]
CHAIN_SEGS = ["b", "bar", "c", "bc", "x"]
FILLERS = [T.NUMBER, T.STRING, T.tc("/float64"), T.tc("/time"), T.tc("/duration"), T.tc("/bytes")]


def _is_prefix_ty(t):
    return t[0] == "c" and t[1] not in T.BASE


def overlap_leaf(rng, root, nested=False):
    """(wide, narrow): two leaves, narrow a strict part of wide."""
    p = root
    if rng.random() < 0.35:
        p += "/" + rng.choice(CHAIN_SEGS)
    q = p + "/" + rng.choice(CHAIN_SEGS)
    if rng.random() < 0.25:
        q += "/" + rng.choice(CHAIN_SEGS)
    r = rng.random() * (0.88 if nested else 1.0)   # element types are compared with TypeConforms: no unions below
    if r < 0.60:
        return T.tc(p), T.tc(q)
    if r < 0.75:
        return T.tc(p), T.tsing(T.cname(q))                 # a singleton inside a prefix type
    if r < 0.88:
        return T.NAME, rng.choice([T.tc(p), T.tc(q), T.tsing(T.cname(q))])
    return T.tc(p), T.tunion([T.tc(q), T.tsing(T.cname(p + "/y"))])   # nested union as an alternative


def overlap_pair(rng, root, env, depth, nested=False):
    """(wide, narrow) of one shape; the wrapping constructors are the covariant ones."""
    if depth <= 0 or rng.random() < 0.2:
        return overlap_leaf(rng, root, nested)
    k = rng.choice(["list", "list", "pair", "pair", "map", "struct", "tuple"])
    if k in ("list", "pair") and rng.random() < 0.3:
        w, n = T.ANY, rng.choice(FILLERS[:3] + [T.tc(root)])       # fn:List(/any) vs fn:List(/number)
    else:
        w, n = overlap_pair(rng, root, env, depth - 1, True)
    side = rng.choice(FILLERS[:3] + [T.ANY, T.tc(root)])
    if k == "list":
        return T.tlist(w), T.tlist(n)
    if k == "pair":
        return (T.tpair(w, side), T.tpair(n, side)) if rng.random() < 0.5 else (T.tpair(side, w), T.tpair(side, n))
    if k == "map":
        return T.tmap(env["key"], w), T.tmap(env["key"], n)       # one key type per group (outside: F7b)
    if k == "struct":
        return T.tstruct([["/f", w]]), T.tstruct([["/f", n]])     # one field set per group (outside: F7c)
    return T.ttuple([side, w, side]), T.ttuple([side, n, side])


def make_overlap_group(rng, nlists):
    env = {"key": rng.choice([T.STRING, T.NAME, T.NUMBER])}
    roots = rng.sample(CHAIN_ROOTS, 3)
    depth = rng.choice([0, 1, 1, 2, 2])
    pairs = [overlap_pair(rng, roots[0], env, depth), overlap_pair(rng, roots[1], env, rng.choice([0, depth])),
             overlap_leaf(rng, roots[2])]
    (w1, n1), (w2, n2), (w3, n3) = pairs
    fill = rng.sample(FILLERS, 3)
    sh = lambda xs: rng.sample(xs, len(xs))
    shape = rng.choice(["fill", "fill", "cross", "cross", "three", "chain"])
    if shape == "fill":           # Union(/a,/number)  Union(/a/b,/string)
        us = [T.tunion(sh([w1, fill[0]])), T.tunion(sh([n1, fill[1]])), T.tunion(sh([n1, w2, fill[2]]))]
    elif shape == "cross":        # Union(/a,/b/c)  Union(/a/b,/b): each is wider in one alternative
        us = [T.tunion(sh([w1, n2])), T.tunion(sh([n1, w2])), T.tunion(sh([w1, w2, fill[0]]))]
    elif shape == "three":
        us = [T.tunion(sh([w1, w2, fill[0]])), T.tunion(sh([n1, n2, fill[1]])), T.tunion(sh([n1, w3, fill[0], fill[1]]))]
    else:                         # three levels of one chain against fillers
        if _is_prefix_ty(n1):
            n0 = T.tc(n1[1] + "/" + rng.choice(CHAIN_SEGS))
        else:
            n0 = n3
        us = [T.tunion(sh([w1, fill[0]])), T.tunion(sh([n1, fill[1]])), T.tunion(sh([n0, fill[2]]))]
    extra = [w1, n1, rng.choice([w2, n2]), T.tunion(sh([n1, n2])), T.tunion(sh([w1, w3, fill[1]])), fill[0]]
    if rng.random() < 0.3:
        extra.append(T.ANY)
    us = T.dedup(us)
    tys = T.dedup(us + extra)
    nu = len(us)
    # every order of every 2- and 3-element list of the unions; then lists mixing in the other types
    lists = [list(p) for k in (2, 3) for p in itertools.permutations(range(nu), k)]
    while len(lists) < nlists:
        k = rng.choice([2, 2, 3, 3, 4])
        l = [rng.randrange(len(tys)) for _ in range(k)]
        if sum(1 for i in l if tys[i][0] == "union") >= 1:
            lists.append(l)
    consts = separating_universe(rng, tys)
    return {"tys": tys, "consts": consts, "lists": lists[:max(nlists, 12)], "pairs": True, "stream": "union-overlap"}


# --------------------------------------- tagged-overlap stream (seeded C12-5)
# A fn:TaggedUnion handed to the bounds together with struct types over the tag field + a variant's fields whose
# TAG FIELD IS WIDER than the variant's tag (/name, /any, a name prefix, a union of singletons) and that overlap a
# variant without conforming to the tagged union (a field wider than the variant's) - so that the conformance
# shortcuts of intersectType do not answer and the meet itself has to be right - in both orders, with and without
# /any and fillers, together with the constants that separate the tag ({/kind: /zzz, ..}, {/kind: /b, /x: 1}).
# Verdict unchanged: go_unsound_bounds on Go's own answers, classified by the judge per LIST (Fixed bound = Strict
# bound -> inside the fragment -> VIOLATION); the lists on which the unchanged tree already returns a lower bound
# with a member outside the tagged union are exactly those where a struct conforms to the tagged union through
# its /name expansion (F7f): there Fixed (the struct) differs from Strict (empty) and the item is counted as known.
TAG_FIELDS = ["/kind", "/k", "/type"]
VARIANT_TAGS = ["/a", "/b", "/c", "/a/b"]
OTHER_FIELDS = ["/x", "/y", "/z"]
NARROW_WIDE = [(T.NUMBER, T.ANY), (T.STRING, T.ANY), (T.tc("/p/q"), T.tc("/p")), (T.tc("/p"), T.NAME),
               (T.tsing(T.cname("/p/q")), T.tc("/p")), (T.tlist(T.NUMBER), T.tlist(T.ANY)),
               (T.NUMBER, T.tunion([T.NUMBER, T.STRING])), (T.tpair(T.NUMBER, T.STRING), T.tpair(T.ANY, T.STRING))]
MEMBERS = {json.dumps(t): m for t, m in [
    (T.NUMBER, [T.cnum(1), T.cnum(0)]), (T.STRING, [T.cstr("s"), T.cstr("")]),
    (T.tc("/p/q"), [T.cname("/p/q/r"), T.cname("/p/q")]), (T.tc("/p"), [T.cname("/p/x"), T.cname("/p/q/r")]),
    (T.tsing(T.cname("/p/q")), [T.cname("/p/q")]), (T.tlist(T.NUMBER), [T.clist([T.cnum(1)]), T.clist([])]),
    (T.tpair(T.NUMBER, T.STRING), [T.cpair(T.cnum(1), T.cstr("s"))])]}
FIELD_VALUES = [T.cnum(1), T.cstr("s"), T.cname("/p/q"), T.cname("/p/x"), T.cname("/zzz"), T.clist([T.cnum(1)]),
                T.clist([T.cstr("s")]), T.cpair(T.cnum(1), T.cstr("s")), T.cpair(T.cstr("s"), T.cstr("s"))]


def make_tagged_group(rng, nlists):
    tag = rng.choice(TAG_FIELDS)
    vtags = rng.sample(VARIANT_TAGS, rng.choice([1, 2, 2, 3]))
    same_fields = rng.random() < 0.35          # all variants over one field set / each over its own
    fsets, variants, nw = [], [], {}
    for i, v in enumerate(vtags):
        fs = fsets[0] if same_fields and fsets else rng.sample(OTHER_FIELDS, rng.choice([1, 1, 2]))
        fsets.append(fs)
        fts = []
        for f in fs:
            n, w = rng.choice(NARROW_WIDE)
            nw[(i, f)] = (n, w)
            fts.append([f, n])
        variants.append([v, T.tstruct(fts)])
    tu = T.ttagged(tag, variants)
    other = [t for t in VARIANT_TAGS + ["/zzz"] if t not in vtags]

    def wide_tags(v):
        return [T.NAME, T.NAME, T.ANY, T.tc(v), T.tunion([T.tsing(T.cname(v)), T.tsing(T.cname(other[0]))]),
                T.tc(v.rsplit("/", 1)[0]) if v.count("/") > 1 else T.NAME]

    structs = []
    for i, (v, _) in enumerate(variants):
        fs = fsets[i]
        for _ in range(2):
            tt = rng.choice(wide_tags(v))
            # at least one field wider than the variant's: the struct does not conform to the tagged union
            widen = set(rng.sample(fs, rng.randint(1, len(fs))))
            structs.append(T.tstruct([[tag, tt]] + [[f, nw[(i, f)][1 if f in widen else 0]] for f in fs]))
        # exact tag / another tag with wider fields, wide tag with the variant's own fields (conforms through F7f)
        structs.append(T.tstruct([[tag, T.tsing(T.cname(v))]] + [[f, nw[(i, f)][1]] for f in fs]))
        structs.append(T.tstruct([[tag, rng.choice(wide_tags(v))]] + [[f, nw[(i, f)][0]] for f in fs]))
        if rng.random() < 0.5:
            structs.append(T.tstruct([[tag, T.tsing(T.cname(other[0]))]] + [[f, nw[(i, f)][1]] for f in fs]))
        if rng.random() < 0.4:                  # field order: tag last
            structs.append(T.tstruct([[f, nw[(i, f)][1]] for f in fs] + [[tag, T.NAME]]))
    structs = T.dedup(structs)
    rng.shuffle(structs)
    structs = structs[:6]
    fill = rng.sample(FILLERS, 2)
    extra = [T.tunion([structs[0], fill[0]]), T.tunion([tu, fill[1]]), T.ANY, fill[0]]
    if len(variants) > 1:
        extra.append(T.ttagged(tag, variants[:1]))
        extra.append(T.tunion([structs[0], structs[-1]]))
    tys = T.dedup([tu] + structs + extra)
    ns = len(structs)
    any_i = tys.index(T.ANY)
    # the tagged union against every struct in both orders, with /any in front / in the middle for the first ones
    lists = []
    for j in range(1, 1 + ns):
        lists += [[0, j], [j, 0]]
    for j in range(1, 1 + min(ns, 3)):
        lists += [[any_i, 0, j], [0, any_i, j], [j, 0, any_i]]
    for j in range(1 + ns, len(tys)):
        if tys[j] != T.ANY:
            lists += [[0, j], [j, 0]]
    while len(lists) < nlists:
        k = rng.choice([2, 3, 3])
        l = [rng.randrange(len(tys)) for _ in range(k)]
        if any(T.ty_kinds(tys[i], {}).get("tagged") for i in l):
            lists.append(l)
    # constants: for every variant its members (values aimed at the variant's field types) and near misses (values
    # of the wider field types), each under EVERY tag: the variants', unknown ones, a name below a variant's tag, a
    # non-name; plus a struct without the tag and one with a field too many. Aiming only: membership is Go's answer.
    tagvals = [T.cname(t) for t in vtags + other[:2] + [vtags[0] + "/q"]] + [T.cnum(1)]
    consts = []
    for i, fs in enumerate(fsets):
        inside = [MEMBERS[json.dumps(nw[(i, f)][0])] for f in fs]
        for tv in tagvals:
            consts.append(T.cstruct([[T.cname(tag), tv]] + [[T.cname(f), m[0]] for f, m in zip(fs, inside)]))
            consts.append(T.cstruct([[T.cname(tag), tv]] + [[T.cname(f), rng.choice(m)] for f, m in zip(fs, inside)]))
            consts.append(T.cstruct([[T.cname(tag), tv]] + [[T.cname(f), rng.choice(FIELD_VALUES)] for f in fs]))
        consts.append(T.cstruct([[T.cname(f), m[0]] for f, m in zip(fs, inside)]))                      # no tag
        consts.append(T.cstruct([[T.cname(tag), tagvals[0]], [T.cname("/extra"), T.cnum(1)]] +
                                [[T.cname(f), m[0]] for f, m in zip(fs, inside)]))                      # one field too many
    consts += list(BASE_REPS.values())[:3] + [T.cname("/a"), T.cstruct([])]
    return {"tys": tys, "consts": T.dedup(consts), "lists": lists, "pairs": True, "stream": "tagged-overlap"}


def _subterms(t, acc):
    acc.append(t)
    k = t[0]
    if k in ("pair", "map"):
        _subterms(t[1], acc); _subterms(t[2], acc)
    elif k == "list":
        _subterms(t[1], acc)
    elif k in ("tuple", "union"):
        for x in t[1]:
            _subterms(x, acc)
    elif k == "struct":
        for _, x in t[1] + t[2]:
            _subterms(x, acc)
    elif k == "tagged":
        for _, x in t[2]:
            _subterms(x, acc)
    return acc


BASE_REPS = {"/number": T.cnum(7), "/string": T.cstr("s"), "/float64": ["float", 4607182418800017408],
             "/time": ["time", 1000], "/duration": ["dur", 60], "/bytes": ["bytes", "x"]}


def separating_universe(rng, tys, cap=12):
    """Constants derived from the types (aiming only; membership is Go's answer):
    for every name occurring in a prefix / singleton type /p/q the names /p/q,
    /p/q/x, /p/q/x/y, /p/qx/y, /p/x (in the parent, outside the child); one
    representative per base type; and these wrapped the way the structured
    types of the group wrap their leaves."""
    subs = []
    for t in tys:
        _subterms(t, subs)
    subs = T.dedup(subs)
    prefixes = []
    for t in subs:
        if _is_prefix_ty(t):
            prefixes.append(t[1])
        elif t[0] == "sing" and t[1][0] == "name":
            prefixes.append(t[1][1])
    prefixes = sorted(set(prefixes))

    def near(p):
        out = [p, p + "/x", p + "/x/y", p + "x/y"]
        if p.count("/") > 1:
            out.append(p.rsplit("/", 1)[0] + "/x")
        for q in prefixes:
            if q != p and (q.startswith(p + "/") or p.startswith(q + "/")):
                out += [q + "/x", q]
        return out

    names = T.dedup([T.cname(s) for p in prefixes for s in near(p)])
    reps = list(BASE_REPS.values())

    def aim(t, fuel=3):
        """members and near misses of t"""
        k = t[0]
        if k == "c":
            if t[1] in BASE_REPS:
                return [BASE_REPS[t[1]], rng.choice(reps)]
            if t[1] in ("/any", "/name", "/bot"):
                return rng.sample(names, min(4, len(names))) + [T.cnum(0)]
            return [T.cname(s) for s in near(t[1])]
        if k == "sing":
            return [t[1]] + ([T.cname(s) for s in near(t[1][1])] if t[1][0] == "name" else [])
        if fuel <= 0:
            return []
        if k == "union":
            return [c for x in t[1] for c in aim(x, fuel - 1)]
        if k == "list":
            es = aim(t[1], fuel - 1)
            out = [T.clist([])] + [T.clist([e]) for e in es]
            if len(es) >= 2:
                out.append(T.clist([es[0], es[-1]]))
            return out
        if k == "pair":
            a, b = aim(t[1], fuel - 1), aim(t[2], fuel - 1)
            return [T.cpair(x, y) for x in a[:5] for y in b[:5]]
        if k == "tuple":
            cols = [aim(x, fuel - 1) for x in t[1]]
            if any(not c for c in cols):
                return []
            out = []
            for j, col in enumerate(cols):           # vary one column at a time
                for v in col[:5]:
                    ms = [c[0] for c in cols]
                    ms[j] = v
                    r = T.cpair(ms[-2], ms[-1])
                    for m in reversed(ms[:-2]):
                        r = T.cpair(m, r)
                    out.append(r)
            return out
        if k == "map":
            ks, vs = aim(t[1], fuel - 1), aim(t[2], fuel - 1)
            return [T.cmap([])] + [T.cmap([[ks[0], v]]) for v in vs[:6] if ks] + \
                   [T.cmap([[kk, vs[0]]]) for kk in ks[1:3] if vs]
        if k == "struct":
            fs = t[1] + t[2]
            cols = [aim(x, fuel - 1) for _, x in fs]
            if any(not c for c in cols):
                return [T.cstruct([])]
            out = []
            for j, col in enumerate(cols):
                for v in col[:6]:
                    ms = [c[0] for c in cols]
                    ms[j] = v
                    out.append(T.cstruct([[T.cname(f), m] for (f, _), m in zip(fs, ms)]))
            return out
        return []

    cs = list(names) + reps
    for t in subs:
        if t[0] in ("c", "sing", "union"):
            continue
        a = T.dedup(aim(t))
        cs += a if len(a) <= cap else a[:cap // 2] + rng.sample(a[cap // 2:], cap - cap // 2)
    return T.dedup(cs)


def union_pair_lists(tys, keep=None):
    """Every ordered pair of the union types of the depth<=1 part of a grammar pool."""
    us = [i for i, t in enumerate(tys) if t[0] == "union" and T.ty_depth(t) <= 1]
    if keep is not None:
        us = [i for i in us if keep(tys[i])]
    return [[i, j] for i in us for j in us if i != j]


def exhaustive_union_group():
    """Thorough tier: both bounds of EVERY ordered pair of two-alternative unions
    Union(x, f) / Union(x, y) over a small set of alternatives x (nested name
    prefixes, a singleton, /name, and the covariant constructors over them) and
    two fillers f - the lists of two unions of the depth-2 grammar."""
    import random
    leaves = [T.tc("/a"), T.tc("/a/b"), T.tc("/ab"), T.tsing(T.cname("/a/b")), T.NAME]
    inner = [T.ANY, T.NUMBER, T.tc("/a"), T.tc("/a/b")]
    alts = leaves + [T.tlist(l) for l in inner] + [T.tpair(l, T.NUMBER) for l in inner] + \
        [T.tpair(T.NUMBER, l) for l in inner[2:]] + [T.tstruct([["/f", l]]) for l in inner[1:]]
    fillers = [T.STRING, T.tc("/float64")]
    tys = [T.tunion([x, f]) for x in alts for f in fillers]
    tys += [T.tunion([x, y]) for x, y in itertools.combinations(leaves, 2)]
    tys = T.dedup(tys)
    consts = separating_universe(random.Random(12), tys, cap=40)
    lists = [[i, j] for i in range(len(tys)) for j in range(len(tys)) if i != j]
    return {"tys": tys, "consts": consts, "lists": lists, "pairs": True, "stream": "exh-unions"}


# ------------------------------------------------- verdict on Go's own answers
def go_unsound_pairs(out, rows=None):
    """(i, j, c): Go affirms tys[i] <: tys[j], says consts[c] in tys[i] and not in tys[j]."""
    mem, sc = out["mem"], out["sc"]
    res = []
    members = [set(k for k, b in enumerate(m) if b) for m in mem]
    for i in (range(len(sc)) if rows is None else rows):
        for j, v in enumerate(sc[i]):
            if v == 1 and i != j:
                d = members[i] - members[j]
                if d:
                    res.append((i, j, min(d)))
    return res


def go_unsound_bounds(group, out):
    ub_bad, lb_bad = [], []
    mem = out["mem"]
    for k, (idx, b) in enumerate(zip(group["lists"], out["bounds"])):
        if b.get("panic"):
            continue
        for c in range(len(group["consts"])):
            if any(mem[i][c] for i in idx) and not b["mub"][c]:
                ub_bad.append((k, c))
                break
        for c in range(len(group["consts"])):
            if b["mlb"][c] and not all(mem[i][c] for i in idx):
                lb_bad.append((k, c))
                break
    return ub_bad, lb_bad


# ------------------------------------------------------------------ Coq terms
def group_term(group, out, r0, r1, unsound, l0, l1, ub_bad, lb_bad):
    """KGroup with rows r0..r1 of the answer matrices and bound items l0..l1."""
    items = []
    for idx, b in list(zip(group["lists"], out["bounds"]))[l0:l1]:
        items.append("(%s, (%s, %s), (%s, %s))" % (
            T.cq_list(str(i) for i in idx), T.cq_ty(b["ub"]), T.cq_ty(b["lb"]),
            T.cq_bools(b["mub"]), T.cq_bools(b["mlb"])))
    return "(KGroup %s %s %s %d %s %s %s %s %s %s %s)" % (
        T.cq_list(T.cq_ty(t) for t in group["tys"]),
        T.cq_list(T.cq_const(c) for c in group["consts"]),
        T.cq_list(T.cq_bools(m) for m in out["mem"]),
        r0,
        T.cq_list(T.cq_digits4(r) for r in out["sc"][r0:r1]),
        T.cq_list(T.cq_digits4(r) for r in out["tc"][r0:r1]),
        T.cq_list("(%d, %d)" % (i, j) for i, j, _ in unsound),
        T.cq_list(T.cq_ty(t) for t in out["rank"]) if l1 > l0 else "[]",
        T.cq_list(items),
        T.cq_list(str(k - l0) for k, _ in ub_bad if l0 <= k < l1),
        T.cq_list(str(k - l0) for k, _ in lb_bad if l0 <= k < l1))


def classify(t1, t2):
    kinds = T.ty_kinds(t1, T.ty_kinds(t2, {}))
    if "tagged" in kinds:
        return "F7f"
    if "struct" in kinds:
        return "F7c"
    if "map" in kinds:
        return "F7b"
    return "other"


# ------------------------------------------------------------------- analysis
class Stats:
    def __init__(self):
        self.pairs = self.affirmed = self.nontrivial = self.implications = 0
        self.bound_items = self.bound_checks = 0
        self.outside = {}
        self.kinds = {}
        self.streams = {}
        self.distinct = set()
        self.samples = []
        self.depths = {}
        self.consts = 0
        self.corr_cells = 0


def analyse(ck, groups, outs, stats):
    """Returns the list of problems: (group index, replay dict, suffix)."""
    terms, meta = [], []
    problems = []
    for gi, (g, o) in enumerate(zip(groups, outs)):
        if "out" not in o:
            problems.append((gi, {"kind": "the harness failed on a well-formed group", "impl": o}, ""))
            continue
        out = o["out"]
        n = len(g["tys"])
        stats.streams[g["stream"]] = stats.streams.get(g["stream"], 0) + 1
        stats.consts += len(g["consts"])
        for t in g["tys"]:
            T.ty_kinds(t, stats.kinds)
            d = T.ty_depth(t)
            stats.depths[d] = stats.depths.get(d, 0) + 1
        panics = [(i, j) for i in range(n) for j in range(n) if out["sc"][i][j] == 2 or out["tc"][i][j] == 2]
        panics_b = [k for k, b in enumerate(out["bounds"]) if b.get("panic")]
        if panics or panics_b:
            rep = {"kind": "panic in the conformance / bound code on well-formed types"}
            if panics:
                i, j = panics[0]
                rep.update({"S": T.ty_text(g["tys"][i]), "T": T.ty_text(g["tys"][j])})
            else:
                rep.update({"list": [T.ty_text(g["tys"][i]) for i in g["lists"][panics_b[0]]],
                            "panic": out["bounds"][panics_b[0]]["panic"]})
            rep["no_longer_checks"] = "correspondence Run.C12.judge: the model never panics"
            problems.append((gi, rep, "no-failing-input-found"))
            # keep judging the rest of the group without the panicking bounds
            if panics_b:
                continue
        unsound = go_unsound_pairs(out)
        ub_bad, lb_bad = go_unsound_bounds(g, out)
        members = [sum(m) for m in out["mem"]]
        for i in range(n):
            for j in range(n):
                if i == j:
                    continue
                stats.pairs += 1
                if out["sc"][i][j] == 1:
                    stats.affirmed += 1
                    stats.implications += members[i]
                    if members[i] and g["tys"][i] != g["tys"][j]:
                        stats.nontrivial += 1
                        stats.distinct.add(T.ty_text(g["tys"][i]) + " <: " + T.ty_text(g["tys"][j]))
                        if len(stats.samples) < 6 and (gi % 7 == 0):
                            stats.samples.append({"S": T.ty_text(g["tys"][i]), "T": T.ty_text(g["tys"][j]),
                                                  "members_of_S_in_universe": members[i]})
        stats.corr_cells += 2 * n * n + n * len(g["consts"])
        stats.bound_items += len(g["lists"])
        stats.bound_checks += 2 * len(g["lists"]) * len(g["consts"])
        nl = len(g["lists"])
        nb = 1 if n * n + 8 * nl <= 3000 else (5 if ck.quick else 16)     # bands of a big group
        for b in range(nb):
            r0, r1 = b * n // nb, (b + 1) * n // nb
            l0, l1 = b * nl // nb, (b + 1) * nl // nb
            us = [u for u in unsound if r0 <= u[0] < r1]
            terms.append(group_term(g, out, r0, r1, us, l0, l1, ub_bad, lb_bad))
            meta.append((gi, r0, l0, us, (ub_bad, lb_bad)))
        for i, j, c in unsound:
            cls = classify(g["tys"][i], g["tys"][j])
            stats.outside[cls] = stats.outside.get(cls, 0) + 1   # corrected below if the judge says "inside"
        for k, c in ub_bad + lb_bad:
            stats.outside["bounds"] = stats.outside.get("bounds", 0) + 1
    if not terms:
        return problems
    verdicts = T.run_coq_light(ck, "C12", "judge", terms, nshards=(5 if ck.quick else 16))
    for (gi, r0, l0, us, bad), v in zip(meta, verdicts):
        if v == 0:
            continue
        g, out = groups[gi], outs[gi]["out"]
        kind, idx = divmod(v, 1000000)
        if kind == 9:
            raise RuntimeError("the Coq model ran out of fuel on group %d" % gi)
        rep = {"kind": KINDS.get(kind, "code %d" % v), "judge_code": v}
        suffix = "no-failing-input-found"
        n = len(g["tys"])
        consts_cq = T.cq_list(T.cq_const(c) for c in g["consts"])
        if kind in (1, 2, 4):
            if kind == 4:
                i, j, c = us[idx]
                suffix = ""
                rep["witness_constant"] = T.const_text(g["consts"][c])
                rep["go_says"] = {"S<:T": True, "c in S": True, "c in T": False}
            else:
                i, j = r0 + idx // n, idx % n
                rep["go_says"] = {"SetConforms": out["sc"][i][j], "TypeConforms": out["tc"][i][j]}
            rep["S"], rep["T"] = T.ty_text(g["tys"][i]), T.ty_text(g["tys"][j])
            rep["model (legacy sc, fixed sc, strict sc, fixed tc, [(c in S, c in T)])"] = T.coq_show_light(
                ck, "C12", "show_pair %s %s %s" % (T.cq_ty(g["tys"][i]), T.cq_ty(g["tys"][j]), consts_cq))
            rep["group"] = {"tys": [g["tys"][i], g["tys"][j]], "consts": g["consts"], "lists": [], "pairs": True}
        elif kind == 3:
            i, c = idx // len(g["consts"]), idx % len(g["consts"])
            rep["type"], rep["constant"] = T.ty_text(g["tys"][i]), T.const_text(g["consts"][c])
            rep["go_says"] = out["mem"][i][c]
            rep["group"] = {"tys": [g["tys"][i]], "consts": [g["consts"][c]], "lists": [], "pairs": True}
        else:
            k = l0 + idx
            lst = g["lists"][k]
            b = out["bounds"][k]
            rep["list"] = [T.ty_text(g["tys"][i]) for i in lst]
            rep["go_upper_bound"], rep["go_lower_bound"] = T.ty_text(b["ub"]), T.ty_text(b["lb"])
            if kind == 8:
                suffix = ""
                ub_bad, lb_bad = bad
                for kk, c in ub_bad:
                    if kk == k:
                        rep["witness_upper"] = T.const_text(g["consts"][c]) + " is in an argument, not in the upper bound"
                for kk, c in lb_bad:
                    if kk == k:
                        rep["witness_lower"] = T.const_text(g["consts"][c]) + " is in the lower bound, not in every argument"
            rep["model (ub fixed, ub strict, lb fixed, lb strict)"] = T.coq_show_light(
                ck, "C12", "show_bounds %s %s" % (T.cq_list(T.cq_ty(g["tys"][i]) for i in lst),
                                              T.cq_list(T.cq_ty(t) for t in out["rank"])))
            sub = [g["tys"][i] for i in lst]
            rep["group"] = {"tys": sub, "consts": g["consts"], "lists": [list(range(len(sub)))], "pairs": True}
        if suffix:
            rep["no_longer_checks"] = "correspondence Run.C12.judge (model coq/Types/Types.v vs symbols/symbols.go); " \
                                      "theorems of Props/C12.v are no longer tied to the code"
        problems.append((gi, rep, suffix))
    return problems


# --------------------------------------------------------------------- probes
def probe_groups():
    f, g, k = "/f", "/g", "/kind"
    one = T.cnum(1)
    return {
        "F7b": {"tys": [T.tmap(T.ANY, T.NUMBER), T.tmap(T.STRING, T.NUMBER)],
                "consts": [T.cmap([[one, one]])], "lists": [[0, 1]], "pairs": True},
        "F7c": {"tys": [T.tstruct([[f, T.ANY]]), T.tstruct([[f, T.ANY]], [[g, T.NUMBER]])],
                "consts": [T.cstruct([[T.cname(f), one]])], "lists": [], "pairs": True},
        "F7f": {"tys": [T.tstruct([[k, T.NAME], ["/x", T.NUMBER]]),
                        T.ttagged(k, [["/a", T.tstruct([["/x", T.NUMBER]])]])],
                "consts": [T.cstruct([[T.cname(k), T.cname("/zzz")], [T.cname("/x"), one]])],
                "lists": [], "pairs": True},
    }


def probes(ck):
    known = {k["id"] for k in known_for("C12")}
    pg = probe_groups()
    ids = [i for i in pg if i in known]
    outs = ck.run_go("c12_group", [pg[i] for i in ids])
    what = {"F7b": "fn:Map(/any,/number) <: fn:Map(/string,/number) affirmed, [1:1] is a member of the left only "
                   "(map keys contravariant in conformance, covariant in membership); LowerBound returns the left type",
            "F7c": "fn:Struct(/f,/any) <: fn:Struct(/f,/any,fn:opt(/g,/number)) affirmed, {/f:1} is a member of the left only "
                   "(width subtyping vs HasType requiring exactly the declared fields)",
            "F7f": "fn:Struct(/kind,/name,/x,/number) <: fn:TaggedUnion(/kind,/a,fn:Struct(/x,/number)) affirmed, "
                   "{/kind:/zzz,/x:1} is a member of the left only (right tagged union expanded with /name for the tag)"}
    for i, o in zip(ids, outs):
        if "out" in o and go_unsound_pairs(o["out"]):
            ck.known("%s %s" % (i, what[i]))


# ----------------------------------------------------------------- the check
def run(ck):
    ck.obligations()
    ck.build_harness()
    rng = ck.rng
    groups = []
    for path in sorted(glob.glob(os.path.join(CORPUS, "*.json"))):
        g = json.load(open(path))
        g["stream"] = "corpus"
        g["pairs"] = True
        groups.append(g)
    ncorpus = len(groups)
    nmain, nwild = ck.n(20, 300), ck.n(6, 120)
    for _ in range(nmain):
        depth = rng.choice([1, 2, 2, 3, 3, 4])
        groups.append(make_group(rng, rng.choice([8, 10, 12]), depth, False, "nice-by-construction"))
    for _ in range(nwild):
        depth = rng.choice([1, 2, 2, 3, 4])
        groups.append(make_group(rng, rng.choice([8, 10, 12]), depth, True, "wild"))
    novl = ck.n(10, 150)
    for _ in range(novl):
        groups.append(make_overlap_group(rng, rng.choice([16, 20, 24])))
    for _ in range(ck.n(8, 100)):
        groups.append(make_tagged_group(rng, rng.choice([24, 30])))
    exhaustive = not ck.quick
    if exhaustive:
        groups.append(exhaustive_union_group())
    groups.append(exhaustive_groups(small=ck.quick))
    ck.log("%d groups (%d corpus), exhaustive block: %d types x %d constants, %d bound lists"
           % (len(groups), ncorpus, len(groups[-1]["tys"]), len(groups[-1]["consts"]), len(groups[-1]["lists"])))
    payload = [{k: g[k] for k in ("tys", "consts", "lists", "pairs")} for g in groups]
    outs = ck.run_go("c12_group", payload)
    ck.log("go done")
    stats = Stats()
    problems = analyse(ck, groups, outs, stats)
    inside = 0
    for gi, rep, suffix in problems:
        rep["property"] = "C12"
        rep["stream"] = groups[gi]["stream"]
        if suffix == "":
            inside += 1
        if len(ck.violations) < 5:
            ck.violation(rep, suffix)
    probes(ck)
    ex = groups[-1]
    cov = {
        "evaluations": stats.implications + stats.bound_checks,
        "distinct_nontrivial": len(stats.distinct),
        "rule": "evaluations = (affirmed pair, member of S in the universe) implications judged on Go's own HasType answers "
                "+ (bound item, constant) checks of both bounds; non-trivial = ordered pair S != T that Go affirms and "
                "whose S has a member in the group's universe; distinct by printed pair",
        "pairs": stats.pairs, "pairs_affirmed": stats.affirmed, "pairs_affirmed_nonvacuous": stats.nontrivial,
        "bound_lists": stats.bound_items,
        "correspondence_cells": stats.corr_cells,
        "groups_by_stream": stats.streams, "type_constructors": stats.kinds, "type_depths": stats.depths,
        "constants_total": stats.consts,
        "unsound_on_go_answers_by_class (all; those inside the fragment are violations)": stats.outside,
        "unsound_on_go_answers_inside_fragment": inside,
        "exhaustive": exhaustive,
        "exhaustive_scope": ("every ordered pair of the %d type expressions of the depth-2 grammar "
                             "(checks/types_common.grammar_depth2) x %d constants; both bounds of every ordered pair "
                             "of every second type of its depth<=1 part and of every ordered pair of its unions of two leaves "
                             "(%d lists); both bounds of every ordered pair of %d two-alternative unions over nested name "
                             "prefixes / a singleton / /name / fn:List, fn:Pair, fn:Struct of them and two fillers x %d "
                             "separating constants (%d lists)"
                             % (len(ex["tys"]), len(ex["consts"]), len(ex["lists"]),
                                len(groups[-2]["tys"]), len(groups[-2]["consts"]), len(groups[-2]["lists"])))
        if exhaustive else "",
        "samples": stats.samples,
    }
    return ck.finish(cov, assumptions=[
        "model hand-written (coq/Types/Types.v); tied to symbols/symbols.go, typeexprs.go by differential runs only",
        "closed first-order types: no type variables, no fn:Fun / fn:Rel / fn:Option; struct types written with required "
        "fields first; singleton types of name constants (what WellformedType admits)",
        "soundness theorem holds on the fragment `nice` (strict and implemented judgement agree); outside it: findings F7b, F7c, F7f",
        "bound lists with a tagged union are judged unless an argument conforms to the tagged union only through the /name "
        "expansion of its tag (F7f; decided per list by the judge: Fixed bound differs from Strict bound)",
        "sort.Slice by Hash() in UpperBound enters the model as the order reported by the harness"])


def replay(ck, path):
    ck.build_harness()
    rep = json.load(open(path))
    g = rep["group"] if "group" in rep else rep
    g = dict(g, stream="replay", pairs=True)
    outs = ck.run_go("c12_group", [{k: g[k] for k in ("tys", "consts", "lists", "pairs")}])
    problems = analyse(ck, [g], outs, Stats())
    for _, r, suffix in problems:
        print("replay:", r["kind"], json.dumps({k: v for k, v in r.items() if k in ("S", "T", "list", "witness_constant")}))
    if problems:
        print("VIOLATION property=C12 replay=%s" % path)
        return 1
    print("replay: no violation")
    return 0


META = {
    "text": "Machine-checked theorems (coq/Props/C12.v) about a Gallina model of symbols.SetConforms / TypeConforms / "
            "UpperBound / LowerBound / TypeHandle.HasType on closed first-order type expressions: affirmed conformance "
            "implies inclusion of members for all types and all constants (on the fragment where the implemented judgement "
            "agrees with the strict one), the upper bound contains every member of each argument, the lower bound only "
            "members of all. Fuel sufficiency is proved: the fuelled model functions always answer (no out-of-fuel "
            "outcome in the modes Fixed and Strict, for every type expression of the model; more fuel never changes an "
            "answer), so the theorems are also stated without their `= Some ..` hypotheses (`.._total`). "
            "Every run executes the real functions on generated pools of types x universes of constants "
            "(exhaustive over a depth-2 grammar in the thorough tier; a weighted stream of unions that overlap alternative by "
            "alternative - nested name prefixes, singletons, lists / pairs / maps / structs of them - handed to both bounds in "
            "every order with the constants that separate the alternatives; a weighted stream of tagged unions against struct "
            "types that overlap one variant with the tag field typed wider than the variant's tag, both orders, with and "
            "without /any, with the constants that separate the tags), judges the three implications directly on Go's "
            "own answers and compares every answer with the model inside Coq.",
    "note": "Trusted: Coq kernel + vm_compute; the model is tied to the code by differential runs (sampled; exhaustive on "
            "the depth-2 grammar); fragment: no type variables / function / relation / option types; outside `nice` the "
            "property fails on the real code (known findings F7b map keys, F7c struct width, F7f tagged union on the right). "
            "Bound lists are classified one by one (Fixed bound = Strict bound): a list with a tagged union is outside only "
            "when some argument conforms to the tagged union through its /name expansion.",
}
