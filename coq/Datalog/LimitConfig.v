(* Datalog/LimitConfig.v - the limit model of Datalog/Limit.v with the total-size check (S)
   on the ORDINARY store switched off, as engine/seminaivebottomup.go behaves when
   opts.totalFactLimit stays 0 (every use is guarded by `totalFactLimit > 0 &&`, :623, :822).
   Witness material for Props/C17.v limit_without_store_check_refuted (added after seeded
   change C17-3: with a temporal store configured only totalTemporalFactLimit was derived
   from WithCreatedFactLimit, totalFactLimit stayed 0).
   The temporal store itself is not modelled: in the correspondence it is a configuration
   dimension (non-temporal programs are run with and without WithTemporalStore and judged
   by the same model, Datalog/Limit.v).
   Only for rules without a let-transform: check (H) is reached only through a let, and is
   switched off by the same condition in the code; here T = 0 is passed to the clause
   evaluation, which let-free rules never look at.
   No proofs in this file. *)
From Coq Require Import List ZArith Bool Arith.
From MV Require Import Datalog.Syntax Datalog.Interp Datalog.Solve Datalog.SemiNaive Datalog.Strata
     Datalog.Limit.
Import ListNotations.

(* an evaluation that returned, or one that is still running with store St when the
   model's round budget is used up *)
Inductive trace :=
| TDone (o : loutcome)
| TRunning (St : list fact).

(* loop_lim (:565-620) without the check (S) after mergeDelta; checks (J) and (D) stay *)
Fixpoint loop_lim_noS (fuel L : nat) (drules : list (clause * nat)) (St D : list fact) : trace :=
  match fuel with
  | O => TRunning St
  | S n =>
      match round_delta_lim L 0 St D drules [] with
      | REval => TDone (LEval St)
      | RLimit => TDone (LLimit St)
      | ROk nd =>
          let St' := add_all St nd in
          if is_nil nd then TDone (LOk St') else loop_lim_noS n L drules St' nd
      end
  end.

Definition eval_stratum_noS (fuel L : nat) (rules : list clause) (drules : list (clause * nat))
           (St : list fact) : trace :=
  match round0_lim L 0 St rules with
  | REval => TDone (LEval St)
  | RLimit => TDone (LLimit St)
  | ROk derived =>
      let D0 := add_all [] derived in
      if is_nil D0 then TDone (LOk St)
      else loop_lim_noS fuel L drules (add_all St D0) D0
  end.
