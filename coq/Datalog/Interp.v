(* Datalog/Interp.v - the interpretation table: evaluation of function symbols on
   constants and of the built-in comparisons. Mirrors functional/functional.go
   (EvalApplyFn :104, EvalNumericApplyFn :910, evalDiv :979, evalMult :1109,
   evalPlus :1121, evalMinus :1133) and builtin/builtin.go (Decide :225,
   getNumberValues :676). None = the Go function returns an error.
   No proofs in this file. *)
From Coq Require Import List ZArith Bool.
From MV Require Import Datalog.Syntax.
Import ListNotations.
Open Scope Z_scope.

(* int64 arithmetic wraps *)
Definition wrap64 (z : Z) : Z := (z + 9223372036854775808) mod 18446744073709551616 - 9223372036854775808.

Definition num_of (c : const) : option Z := match c with CNum n => Some n | _ => None end.

(* all arguments must be numbers (Constant.NumberValue fails otherwise) *)
Fixpoint nums_of (cs : list const) : option (list Z) :=
  match cs with
  | [] => Some []
  | c :: cs' => match num_of c, nums_of cs' with
                | Some n, Some ns => Some (n :: ns)
                | _, _ => None
                end
  end.

Definition is_list (c : const) : bool := match c with CNil | CCons _ _ => true | _ => false end.

Fixpoint list_of_consts (cs : list const) : const :=
  match cs with [] => CNil | c :: cs' => CCons c (list_of_consts cs') end.

(* length of a list constant; None if the spine does not end in [] *)
Fixpoint const_len (c : const) : option Z :=
  match c with
  | CNil => Some 0
  | CCons _ t => match const_len t with Some n => Some (n + 1) | None => None end
  | _ => None
  end.

(* evalDiv :979 for >= 2 arguments: res starts as the first argument; every divisor
   must be a number and non-zero; the loop returns 0 as soon as res becomes 0
   (later divisors are then not looked at). Go's int64 division truncates toward
   zero; MinInt64 / -1 wraps to MinInt64. *)
Fixpoint div_loop (res : Z) (ds : list const) : option Z :=
  match ds with
  | [] => Some res
  | d :: ds' => match num_of d with
                | None => None
                | Some 0 => None
                | Some dv => let r := wrap64 (Z.quot res dv) in
                             if r =? 0 then Some 0 else div_loop r ds'
                end
  end.

Definition eval_fn (f : fn) (cs : list const) : option const :=
  match f with
  | FPlus => match nums_of cs with
             | Some ns => Some (CNum (fold_left (fun a b => wrap64 (a + b)) ns 0))
             | None => None end
  | FMult => match nums_of cs with
             | Some ns => Some (CNum (fold_left (fun a b => wrap64 (a * b)) ns 1))
             | None => None end
  | FMinus => match nums_of cs with
              | Some [] => None                               (* "empty argument list" *)
              | Some [x] => Some (CNum (wrap64 (- x)))        (* unary minus *)
              | Some (x :: ns) => Some (CNum (fold_left (fun a b => wrap64 (a - b)) ns x))
              | None => None end
  | FDiv => match cs with
            | [] => None
            | [c] => match num_of c with
                     | None => None
                     | Some 0 => None                         (* ErrDivisionByZero *)
                     | Some 1 => Some (CNum 1)
                     | Some _ => Some (CNum 0)
                     end
            | c :: ds => match num_of c with
                         | None => None
                         | Some x => match div_loop x ds with Some r => Some (CNum r) | None => None end
                         end
            end
  | FPair => match cs with [a; b] => Some (CPair a b) | _ => None end
  | FCons => match cs with [a; b] => if is_list b then Some (CCons a b) else None | _ => None end
  | FList => Some (list_of_consts cs)
  | FLen => match cs with
            | [c] => match const_len c with Some n => Some (CNum n) | None => None end
            | _ => None end
  | FOther _ => None
  end.

(* built-in comparison on two evaluated arguments: both must be numbers *)
Definition eval_cmp (op : cmp) (a b : const) : option bool :=
  match num_of a, num_of b with
  | Some x, Some y => Some (match op with Lt => x <? y | Le => x <=? y | Gt => x >? y | Ge => x >=? y end)
  | _, _ => None
  end.
