(* Proofs about Datalog/AggCycle.v: a program with a flagged (aggregation / negation) edge
   on a dependency cycle has no assignment of evaluation levels under which every body
   predicate of an aggregating rule is complete (strictly lower) before the rule's head. *)
From Coq Require Import List ZArith Bool Lia.
From MV Require Import Datalog.Syntax Datalog.Rewrite Datalog.Transform Datalog.AggCycle.
Import ListNotations.
Open Scope Z_scope.

Lemma memZ_In : forall x l, memZ x l = true <-> In x l.
Proof.
  intros x l. unfold memZ. rewrite existsb_exists. split.
  - intros [y [Hin Heq]]. apply Z.eqb_eq in Heq. subst. exact Hin.
  - intros Hin. exists x. split; [exact Hin | apply Z.eqb_refl].
Qed.

Lemma dedupZ_acc_incl : forall l acc x,
  In x (fold_left (fun a v => if memZ v a then a else a ++ [v]) l acc) -> In x acc \/ In x l.
Proof.
  induction l as [|v l IH]; intros acc x Hin; cbn in Hin.
  - left. exact Hin.
  - apply IH in Hin. destruct Hin as [Hin | Hin].
    + destruct (memZ v acc) eqn:Hm.
      * left. exact Hin.
      * apply in_app_or in Hin. destruct Hin as [Hin | [Hin | []]].
        -- left. exact Hin.
        -- right. left. exact Hin.
    + right. right. exact Hin.
Qed.

Lemma dedupZ_incl : forall l x, In x (dedupZ l) -> In x l.
Proof.
  intros l x Hin. unfold dedupZ in Hin. apply dedupZ_acc_incl in Hin.
  destruct Hin as [[] | Hin]. exact Hin.
Qed.

Section Levels.
  Variable E : list edge.
  Variable lvl : Z -> Z.
  Hypothesis Hmono : forall e, In e E -> lvl (e_dst e) <= lvl (e_src e).

  Lemma reach_step_bound : forall S b,
    (forall x, In x S -> lvl x <= b) -> forall x, In x (reach_step E S) -> lvl x <= b.
  Proof.
    intros S b HS x Hin. unfold reach_step in Hin. apply in_app_or in Hin.
    destruct Hin as [Hin | Hin].
    - apply HS. exact Hin.
    - apply in_flat_map in Hin. destruct Hin as [e [HeE Hx]].
      destruct (memZ (e_src e) S) eqn:Hm.
      + destruct Hx as [Hx | []]. subst x. apply memZ_In in Hm.
        specialize (HS _ Hm). specialize (Hmono _ HeE). lia.
      + destruct Hx.
  Qed.

  Lemma reach_from_bound : forall fuel S b,
    (forall x, In x S -> lvl x <= b) -> forall x, In x (reach_from fuel E S) -> lvl x <= b.
  Proof.
    induction fuel as [|n IH]; intros S b HS x Hin; cbn in Hin.
    - apply HS. exact Hin.
    - apply (IH (dedupZ (reach_step E S)) b); [| exact Hin].
      intros y Hy. apply dedupZ_incl in Hy. apply (reach_step_bound S b HS y Hy).
  Qed.
End Levels.

Lemma strict_in_cycle_no_levels : forall (E : list edge) (lvl : Z -> Z),
  strict_in_cycle E = true ->
  (forall e, In e E -> lvl (e_dst e) <= lvl (e_src e)) ->
  (forall e, In e E -> e_strict e = true -> lvl (e_dst e) < lvl (e_src e)) ->
  False.
Proof.
  intros E lvl Hc Hmono Hstrict. unfold strict_in_cycle in Hc.
  apply existsb_exists in Hc. destruct Hc as [e [HeE Hc]].
  apply andb_true_iff in Hc. destruct Hc as [Hs Hm].
  apply memZ_In in Hm.
  assert (Hb : lvl (e_src e) <= lvl (e_dst e)).
  { apply (reach_from_bound E lvl Hmono (length E) [e_dst e] (lvl (e_dst e))); [| exact Hm].
    intros x [Hx | []]. subst x. lia. }
  specialize (Hstrict _ HeE Hs). lia.
Qed.
