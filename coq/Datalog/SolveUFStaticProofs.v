(* Datalog/SolveUFStaticProofs.v - the static counterpart of SolveUFProofs section 2:
   on a body in which no variable = variable equality is evaluated with both sides unbound
   (decided syntactically by no_alias_body), the alias-free evaluator Solve.v and the
   union-find evaluator SolveUF.v (strict = false: the Go code) have the SAME outcome -
   the same solutions, the same facts, the same error. Hence for programs all of whose
   clauses pass the test, eval_program_uf false = eval_program, and C01's exactness theorem
   holds for the union-find model with no hypothesis about a run of the old model.
   Second part: a leftover premise V = V after the binder of V can be removed. *)
From Coq Require Import List ZArith Bool Lia Arith.
From MV Require Import Datalog.Syntax Datalog.SyntaxProofs Datalog.Interp Datalog.Solve Datalog.SemiNaive
     Datalog.Strata Datalog.Lfp Datalog.SolveProofs Datalog.SolveUF Datalog.SolveUFProofs Datalog.StrataProofs.
Import ListNotations.
Open Scope Z_scope.

(* ================= 1. the syntactic test *)

(* all variables of a term (= ast.AddVars, Analysis/RuleCheck.term_vars) *)
Fixpoint tvars (t : term) : list Z :=
  match t with
  | TVar v => [v]
  | TConst _ => []
  | TApp _ args => flat_map tvars args
  end.

(* variables certainly bound to a constant in every solution that survives the premise,
   given that the variables of B are: the variables of a positive atom (those inside a
   function application must have a value for the atom to be evaluated at all); a variable
   equated with a term that is not a variable; a variable equated with a bound variable *)
Definition eq_binds (B : list Z) (l r : term) : list Z :=
  match l, r with
  | TVar x, TVar y => if memZ x B || memZ y B then x :: y :: B else B
  | TVar x, _ => x :: B
  | _, TVar y => y :: B
  | _, _ => B
  end.

Definition binds_after (B : list Z) (p : premise) : list Z :=
  match p with
  | PAtom a => flat_map tvars (aargs a) ++ B
  | PEq l r => eq_binds B l r
  | _ => B
  end.

(* a variable = variable equality needs a side that is certainly bound (or is V = V) *)
Definition alias_ok (B : list Z) (p : premise) : bool :=
  match p with
  | PEq (TVar x) (TVar y) => Z.eqb x y || memZ x B || memZ y B
  | _ => true
  end.

Fixpoint no_alias_body (B : list Z) (body : list premise) : bool :=
  match body with
  | [] => true
  | p :: b => alias_ok B p && no_alias_body (binds_after B p) b
  end.

Definition no_alias_clause (c : clause) : bool := no_alias_body [] (cbody c).
Definition no_alias_program (P : list clause) : bool := forallb no_alias_clause P.

(* ================= 2. bound variables stay bound *)
Definition bnd (s : subst) (v : Z) : Prop := lookup v s <> None.
Definition bound_in (B : list Z) (s : subst) : Prop := forall v, In v B -> bnd s v.

Lemma bnd_cons_same v c s : bnd ((v, c) :: s) v.
Proof. unfold bnd. simpl. rewrite Z.eqb_refl. discriminate. Qed.

Lemma bnd_cons_mono k c s v : bnd s v -> bnd ((k, c) :: s) v.
Proof. unfold bnd. simpl. destruct (v =? k); [discriminate | auto]. Qed.

Lemma unify1_bnd s pv c u : unify1 s pv c = Some u ->
  (forall v, bnd s v -> bnd u v) /\ (forall v, pv = VVar v -> bnd u v).
Proof.
  destruct pv as [d|w]; cbn [unify1].
  - destruct (const_eqb d c); [|discriminate]. intros [= <-]. split; [auto | discriminate].
  - destruct (lookup w s) as [d|] eqn:E.
    + destruct (const_eqb d c); [|discriminate]. intros [= <-]. split; [auto|].
      intros v [= <-]. unfold bnd. congruence.
    + intros [= <-]. split; [intros v; apply bnd_cons_mono|]. intros v [= <-]. apply bnd_cons_same.
Qed.

Lemma unify_args_bnd pvs : forall s cs u, unify_args s pvs cs = Some u ->
  (forall v, bnd s v -> bnd u v) /\ (forall v, In (VVar v) pvs -> bnd u v).
Proof.
  induction pvs as [|pv pvs IH]; intros s [|c cs] u H; cbn [unify_args] in H; try discriminate.
  - injection H as <-. split; [auto | intros v []].
  - destruct (unify1 s pv c) as [s1|] eqn:E; [|discriminate].
    destruct (unify1_bnd _ _ _ _ E) as [M1 N1]. destruct (IH _ _ _ H) as [M2 N2].
    split; [auto|]. intros v [->|Hin]; [apply M2; apply N1; reflexivity | auto].
Qed.

Lemma eval_term_tvar s x : eval_term s (TVar x) = Some (get_of s x).
Proof. reflexivity. Qed.

Lemma eval_term_nonvar s t a : (forall y, t <> TVar y) -> eval_term s t = Some a -> exists c, a = VConst c.
Proof. intros Hn H. rewrite eval_term_get_of in H. eapply eval_term_g_nonvar; eauto. Qed.

(* an unbound result comes from an unbound variable *)
Lemma eval_term_var_inv s t v : eval_term s t = Some (VVar v) -> t = TVar v /\ lookup v s = None.
Proof.
  intros H. split; [|eapply eval_term_var; eauto].
  destruct t as [x|c|f args].
  - rewrite eval_term_tvar in H. unfold get_of in H. destruct (lookup x s); congruence.
  - discriminate.
  - destruct (eval_term_nonvar s (TApp f args) (VVar v)) as (c & Hc); [discriminate | exact H | discriminate].
Qed.

(* a term with a value has all its variables bound *)
Lemma eval_term_const_vars s : forall t c, eval_term s t = Some (VConst c) -> forall v, In v (tvars t) -> bnd s v.
Proof.
  induction t as [x|d|f args IH] using term_ind2; intros c H v Hv.
  - destruct Hv as [<-|[]]. rewrite eval_term_tvar in H. unfold get_of in H. unfold bnd.
    destruct (lookup x s); [discriminate | congruence].
  - destruct Hv.
  - rewrite eval_term_app in H. destruct (eval_consts s args) as [cs|] eqn:E; [|discriminate].
    cbn [tvars] in Hv. apply in_flat_map in Hv as (a & Ha & Hv).
    destruct (map_opt_spec _ _ _ E) as [Hd _]. destruct (Hd _ Ha) as (ca & Hca).
    rewrite Forall_forall in IH.
    destruct (eval_term s a) as [[d|w]|] eqn:Ea; try discriminate. eapply IH; eauto.
Qed.

Lemma eval_term_vars_cases s t pv v : eval_term s t = Some pv -> In v (tvars t) -> pv = VVar v \/ bnd s v.
Proof.
  intros H Hv. destruct pv as [c|w].
  - right. eapply eval_term_const_vars; eauto.
  - left. apply eval_term_var_inv in H as [-> _]. destruct Hv as [<-|[]]. reflexivity.
Qed.

Lemma get_of_bnd s x : bnd s x -> exists c, get_of s x = VConst c.
Proof. unfold bnd, get_of. destruct (lookup x s); [eauto | congruence]. Qed.

(* what an equality does to the substitution *)
Lemma step_eq_bnd l r s us u : step_pure (PEq l r) s = Some us -> In u us ->
  (forall v, bnd s v -> bnd u v) /\
  (forall x c, l = TVar x -> eval_term s r = Some (VConst c) -> bnd u x) /\
  (forall x c, r = TVar x -> eval_term s l = Some (VConst c) -> bnd u x).
Proof.
  cbn [step_pure]. intros H Hu.
  destruct (eval_term s l) as [[a|v]|] eqn:El; [| |discriminate];
    destruct (eval_term s r) as [[b|w]|] eqn:Er; try discriminate.
  - injection H as <-. destruct (const_eqb a b); [|destruct Hu]. destruct Hu as [<-|[]].
    split; [auto|]. split; intros x c ->.
    + rewrite eval_term_tvar in El. unfold get_of in El. unfold bnd. destruct (lookup x s); congruence.
    + rewrite eval_term_tvar in Er. unfold get_of in Er. unfold bnd. destruct (lookup x s); congruence.
  - injection H as <-. destruct Hu as [<-|[]]. split; [intros v; apply bnd_cons_mono|]. split; intros x c ->.
    + discriminate.
    + intros _. apply eval_term_var_inv in Er as [[= <-] _]. apply bnd_cons_same.
  - injection H as <-. destruct Hu as [<-|[]]. split; [intros x; apply bnd_cons_mono|]. split; intros x c ->.
    + intros _. apply eval_term_var_inv in El as [[= <-] _]. apply bnd_cons_same.
    + discriminate.
  - destruct (v =? w); [|discriminate]. injection H as <-. destruct Hu as [<-|[]].
    split; [auto|]. split; intros x c _; discriminate.
Qed.

Lemma step_bound Sneg Spos B p s us u :
  bound_in B s -> step Sneg Spos p s = Some us -> In u us -> bound_in (binds_after B p) u.
Proof.
  intros Hb H Hu. destruct p as [a|a|l r|l r|op l r]; cbn [step binds_after] in *.
  - destruct (eval_args s (aargs a)) as [pvs|] eqn:Ea; [|discriminate]. injection H as <-.
    apply in_fmap in Hu as (f & _ & Hm). unfold match_fact in Hm. destruct (fst f =? apred a); [|discriminate].
    destruct (unify_args_bnd _ _ _ _ Hm) as [M N].
    intros v Hv. apply in_app_or in Hv as [Hv|Hv]; [|auto].
    apply in_flat_map in Hv as (t & Ht & Hvt).
    destruct (map_opt_spec _ _ _ Ea) as [Hd Hr]. destruct (Hd _ Ht) as (pv & Hpv).
    assert (Hin : In pv pvs) by (apply Hr; eauto).
    destruct (eval_term_vars_cases _ _ _ _ Hpv Hvt) as [->|Hbs]; [apply N; exact Hin | apply M; exact Hbs].
  - destruct (eval_args s (aargs a)) as [pvs|]; [|discriminate]. injection H as <-.
    destruct (existsb _ Sneg); [destruct Hu|]. destruct Hu as [<-|[]]. exact Hb.
  - assert (Hev : exists a b, eval_term s l = Some a /\ eval_term s r = Some b).
    { cbn [step_pure] in H. destruct (eval_term s l) as [a|]; [|discriminate].
      destruct (eval_term s r) as [b|]; [eauto | destruct a; discriminate]. }
    destruct Hev as (a & b & El & Er).
    destruct (step_eq_bnd _ _ _ _ _ H Hu) as (M & NL & NR).
    assert (Hmono : bound_in B u) by (intros v Hv; auto).
    assert (HL : forall x, l = TVar x -> (forall y, r <> TVar y) -> bnd u x).
    { intros x -> Hn. destruct (eval_term_nonvar _ _ _ Hn Er) as (c & ->). eapply NL; eauto. }
    assert (HR : forall x, r = TVar x -> (forall y, l <> TVar y) -> bnd u x).
    { intros x -> Hn. destruct (eval_term_nonvar _ _ _ Hn El) as (c & ->). eapply NR; eauto. }
    assert (Hcons : forall x, bnd u x -> bound_in (x :: B) u) by (intros x Hx v [<-|Hv]; auto).
    destruct l as [x|c|f args], r as [y|d|g args']; cbn [eq_binds]; try exact Hmono;
      try (apply Hcons; first [solve [apply HL; [reflexivity | discriminate]] | solve [apply HR; [reflexivity | discriminate]]]).
    destruct (memZ x B || memZ y B) eqn:Em; [|exact Hmono].
    apply orb_true_iff in Em as [Em|Em]; apply memZ_spec in Em.
    + destruct (get_of_bnd s x (Hb _ Em)) as (c & Hc). rewrite eval_term_tvar in El.
      intros v [<-|[<-|Hv]]; [apply M; auto | eapply NR; [reflexivity|] | auto]. rewrite eval_term_tvar, Hc. reflexivity.
    + destruct (get_of_bnd s y (Hb _ Em)) as (c & Hc).
      intros v [<-|[<-|Hv]]; [eapply NL; [reflexivity|] | apply M; auto | auto]. rewrite eval_term_tvar, Hc. reflexivity.
  - cbn [step_pure] in H. destruct (eval_term s l) as [[a|v]|]; [| |discriminate];
      destruct (eval_term s r) as [[b|w]|]; try discriminate; injection H as <-; try destruct Hu.
    destruct (const_eqb a b); [destruct Hu|]. destruct Hu as [<-|[]]. exact Hb.
  - cbn [step_pure] in H. destruct (eval_term s l) as [[a|v]|]; try discriminate.
    destruct (eval_term s r) as [[b|w]|]; try discriminate.
    destruct (eval_cmp op a b) as [[|]|]; try discriminate; injection H as <-; [|destruct Hu].
    destruct Hu as [<-|[]]. exact Hb.
Qed.

(* ================= 3. the missing direction: where Solve.v errs on an alias-free premise,
   the union-find evaluator errs too *)
Lemma step_none_inj Sneg Spos B p s : nodupk s -> bound_in B s -> alias_ok B p = true ->
  step Sneg Spos p s = None -> step_uf false Sneg Spos p (inj s) = None.
Proof.
  intros Hn Hb Ha H. destruct p as [a|a|l r|l r|op l r]; cbn [step step_uf step_pure step_pure_uf andb] in *.
  - rewrite (eval_args_uf_inj _ _ Hn). destruct (eval_args s (aargs a)); [discriminate | reflexivity].
  - rewrite (eval_args_uf_inj _ _ Hn). destruct (eval_args s (aargs a)); [discriminate | reflexivity].
  - rewrite !(eval_term_uf_inj _ _ Hn).
    destruct (eval_term s l) as [[a|v]|] eqn:El; [| |reflexivity];
      destruct (eval_term s r) as [[b|w]|] eqn:Er; try discriminate; try reflexivity.
    exfalso. destruct (Z.eqb_spec v w) as [|Hne]; [discriminate|].
    apply eval_term_var_inv in El as [-> Hv]. apply eval_term_var_inv in Er as [-> Hw].
    cbn [alias_ok] in Ha. apply orb_true_iff in Ha as [Ha|Ha]; [apply orb_true_iff in Ha as [Ha|Ha]|].
    + apply Z.eqb_eq in Ha. auto.
    + apply memZ_spec in Ha. exact (Hb _ Ha Hv).
    + apply memZ_spec in Ha. exact (Hb _ Ha Hw).
  - rewrite !(eval_term_uf_inj _ _ Hn).
    destruct (eval_term s l) as [[a|v]|]; [| |reflexivity];
      destruct (eval_term s r) as [[b|w]|]; try discriminate; reflexivity.
  - rewrite !(eval_term_uf_inj _ _ Hn).
    destruct (eval_term s l) as [[a|v]|]; try reflexivity.
    destruct (eval_term s r) as [[b|w]|]; try reflexivity.
    destruct (eval_cmp op a b) as [[|]|]; try discriminate; reflexivity.
Qed.

Lemma flat_map_opt_none_inj (Q : subst -> Prop) (f : subst -> option (list subst)) (g : usubst -> option (list usubst)) sols :
  Forall Q sols -> (forall s, Q s -> f s = None -> g (inj s) = None) ->
  flat_map_opt f sols = None -> flat_map_opt g (map inj sols) = None.
Proof.
  intros Hs Hfg. induction sols as [|s sols IH]; intros H; simpl in *; [discriminate|].
  inversion Hs as [|? ? Hq Hs']; subst.
  destruct (f s) as [us|] eqn:Ef.
  - destruct (flat_map_opt f sols) as [r|]; [discriminate|]. rewrite (IH Hs' eq_refl).
    destruct (g (inj s)); reflexivity.
  - rewrite (Hfg _ Hq Ef). reflexivity.
Qed.

Lemma Forall_and {A} (P Q : A -> Prop) l : Forall P l -> Forall Q l -> Forall (fun a => P a /\ Q a) l.
Proof. intros HP HQ. apply Forall_forall. intros a Ha. split; eapply Forall_forall; eauto. Qed.

(* the two evaluators agree on an alias-free body: same solutions, or both report an error *)
Theorem solve_uf_static Sneg sel body : forall B k sols,
  no_alias_body B body = true -> Forall nodupk sols -> Forall (bound_in B) sols ->
  solve_uf false Sneg sel k body (map inj sols) = option_map (map inj) (solve Sneg sel k body sols).
Proof.
  induction body as [|p b IH]; intros B k sols Ha Hn Hb; cbn [solve solve_uf no_alias_body] in *; [reflexivity|].
  apply andb_true_iff in Ha as [Hp Ha].
  destruct (flat_map_opt (step Sneg (sel k) p) sols) as [sols'|] eqn:E.
  - destruct (flat_map_opt_inj _ (step_uf false Sneg (sel k) p) _ _ Hn
                (fun s us Hs Hst => step_inj Sneg (sel k) p s us Hs Hst) E) as [E' Hn'].
    rewrite E'. apply (IH (binds_after B p)); auto.
    apply Forall_forall. intros u Hu. destruct (flat_map_opt_spec _ _ _ E) as [_ Hin].
    apply Hin in Hu as (s & us & Hs & Hst & Hu).
    eapply step_bound; eauto. eapply Forall_forall in Hb; eauto.
  - rewrite (flat_map_opt_none_inj (fun s => nodupk s /\ bound_in B s) (step Sneg (sel k) p) (step_uf false Sneg (sel k) p) sols
               (Forall_and _ _ _ Hn Hb)); [reflexivity| |exact E].
    intros s [Hs Hbs]. eapply step_none_inj; eauto.
Qed.

(* the named lemma *)
Corollary solve_none_uf_none Sneg sel body B k sols :
  no_alias_body B body = true -> Forall nodupk sols -> Forall (bound_in B) sols ->
  solve Sneg sel k body sols = None -> solve_uf false Sneg sel k body (map inj sols) = None.
Proof. intros Ha Hn Hb H. rewrite (solve_uf_static _ _ _ _ _ _ Ha Hn Hb), H. reflexivity. Qed.

Lemma bound_in_nil s : bound_in [] s.
Proof. intros v []. Qed.

Theorem eval_clause_uf_static Sneg sel c :
  no_alias_clause c = true -> eval_clause_uf false Sneg sel c = eval_clause Sneg sel c.
Proof.
  unfold no_alias_clause, eval_clause_uf, eval_clause. intros Ha.
  assert (H0 : Forall nodupk [[]]) by (repeat constructor).
  assert (H1 : Forall (bound_in []) [[]]) by (repeat constructor; apply bound_in_nil).
  pose proof (solve_uf_static Sneg sel (cbody c) [] 0%nat [[]] Ha H0 H1) as E.
  change (map inj [[]]) with ([[]] : list usubst) in E. rewrite E.
  destruct (solve Sneg sel 0 (cbody c) [[]]) as [sols|] eqn:Es; [|reflexivity]. cbn [option_map].
  destruct (solve_inj _ _ _ _ _ _ H0 Es) as [_ Hs].
  rewrite map_opt_map. apply map_opt_ext_in. intros s Hin. apply emit_head_inj.
  eapply Forall_forall in Hs; eauto.
Qed.

(* ================= 4. the loop over two clause evaluators that agree on the program's clauses *)
Section Agree.
Variables ce1 ce2 : list fact -> (nat -> list fact) -> clause -> option (list fact).
Variable Q : clause -> Prop.
Hypothesis Hag : forall St sel c, Q c -> ce1 St sel c = ce2 St sel c.

Lemma flat_map_opt_ext_in {A B} (f g : A -> option (list B)) l :
  (forall a, In a l -> f a = g a) -> flat_map_opt f l = flat_map_opt g l.
Proof.
  induction l as [|a l IH]; intros H; simpl; [reflexivity|].
  rewrite (H a) by (left; reflexivity). rewrite IH by (intros; apply H; right; assumption). reflexivity.
Qed.

Lemma loop_g_agree fuel : forall drules St D,
  (forall ci, In ci drules -> Q (fst ci)) -> loop_g ce1 fuel drules St D = loop_g ce2 fuel drules St D.
Proof.
  induction fuel as [|n IH]; intros drules St D Hq; cbn [loop_g]; [reflexivity|].
  unfold round_delta_g.
  rewrite (flat_map_opt_ext_in (fun ci => ce1 St (sel_delta St D (snd ci)) (fst ci))
             (fun ci => ce2 St (sel_delta St D (snd ci)) (fst ci)) drules) by (intros ci Hci; apply Hag; auto).
  destruct (flat_map_opt _ drules); [|reflexivity]. destruct (is_nil _); [reflexivity | apply IH; auto].
Qed.

Lemma eval_stratum_g_agree fuel rules drules St :
  (forall c, In c rules -> Q c) -> (forall ci, In ci drules -> Q (fst ci)) ->
  eval_stratum_g ce1 fuel rules drules St = eval_stratum_g ce2 fuel rules drules St.
Proof.
  intros Hr Hd. unfold eval_stratum_g, round0_g.
  rewrite (flat_map_opt_ext_in (ce1 St (sel_all St)) (ce2 St (sel_all St)) rules) by (intros c Hc; apply Hag; auto).
  destruct (flat_map_opt _ rules); [|reflexivity]. destruct (is_nil _); [reflexivity | apply loop_g_agree; auto].
Qed.

Lemma eval_strata_g_agree fuel strata : forall St,
  (forall s, In s strata -> (forall c, In c (s_rules s) -> Q c) /\ (forall ci, In ci (s_drules s) -> Q (fst ci))) ->
  eval_strata_g ce1 fuel strata St = eval_strata_g ce2 fuel strata St.
Proof.
  induction strata as [|s rest IH]; intros St Hq; cbn [eval_strata_g]; [reflexivity|].
  destruct (Hq s (or_introl eq_refl)) as [Hr Hd]. rewrite (eval_stratum_g_agree _ _ _ _ Hr Hd).
  destruct (eval_stratum_g ce2 fuel (s_rules s) (s_drules s) St); auto.
  apply IH. intros s' Hs'. apply Hq. right; auto.
Qed.
End Agree.

Lemma rules_of_in P ps c : In c (rules_of P ps) -> In c P.
Proof. unfold rules_of. intros H. apply in_flat_map in H as (p & _ & H). apply filter_In in H. tauto. Qed.

Lemma delta_rules_in P ps dps ci : In ci (delta_rules P ps dps) -> In (fst ci) P.
Proof.
  unfold delta_rules. intros H. apply in_flat_map in H as (c & Hc & H). apply in_map_iff in H as (i & <- & _).
  simpl. eapply rules_of_in; eauto.
Qed.

(* the program level: the union-find model and the alias-free model have the same outcome *)
Theorem eval_program_uf_static fuel P layers store init :
  no_alias_program P = true ->
  eval_program_uf false fuel P layers store init = eval_program fuel P layers store init.
Proof.
  intros Ha. rewrite <- eval_program_g_solve. unfold eval_program_uf, eval_program_g.
  apply (eval_strata_g_agree (eval_clause_uf false) eval_clause (fun c => In c P)).
  - intros St sel c Hc. apply eval_clause_uf_static.
    unfold no_alias_program in Ha. rewrite forallb_forall in Ha. auto.
  - intros s Hs. apply in_map_iff in Hs as (ps & <- & _). cbn [mk_stratum s_rules s_drules]. split.
    + intros c. apply rules_of_in.
    + intros ci. apply delta_rules_in.
Qed.

Theorem eval_program_uf_exact_static fuel P layers store init Res :
  valid_stratification P layers -> no_alias_program P = true ->
  eval_program_uf false fuel P layers store init = Ok Res ->
  forall f, In f Res <-> slfp P layers (fun g => In g (add_all store init)) f.
Proof.
  intros Hv Ha H. rewrite (eval_program_uf_static _ _ _ _ _ Ha) in H.
  exact (eval_program_exact fuel P layers store init Res Hv H).
Qed.

(* ================= 5. a premise V = V is a no-op of the union-find evaluator (strict or not):
   both sides evaluate to the root of V's class, the roots are equal, nothing is written.
   So the equality that alias elimination (SolveUFProofs.alias_elimination: W := V turns
   W = V into V = V and leaves it in place) leaves behind can be removed; the premises
   behind it move one position to the front, and so do the stores they read. *)
Lemma step_uf_eq_refl strict Sneg Spos v s : uwf s -> step_uf strict Sneg Spos (PEq (TVar v) (TVar v)) s = Some [s].
Proof.
  intros Hw. cbn [step_uf step_pure_uf eval_term_uf eval_term_g]. unfold unify_uf.
  rewrite (resolve_val_idem _ Hw). destruct (resolve s v) as [c|w]; cbn [unify_roots].
  - rewrite (proj2 (const_eqb_spec c c) eq_refl). reflexivity.
  - rewrite Z.eqb_refl. reflexivity.
Qed.

Lemma flat_map_opt_single {A} (f : A -> option (list A)) l :
  (forall a, In a l -> f a = Some [a]) -> flat_map_opt f l = Some l.
Proof.
  induction l as [|a l IH]; intros H; simpl; [reflexivity|].
  rewrite (H a) by (left; reflexivity). rewrite IH by (intros; apply H; right; assumption). reflexivity.
Qed.

Lemma solve_uf_app strict Sneg sel b1 : forall b2 k sols,
  solve_uf strict Sneg sel k (b1 ++ b2) sols =
  match solve_uf strict Sneg sel k b1 sols with
  | Some R => solve_uf strict Sneg sel (k + length b1) b2 R
  | None => None
  end.
Proof.
  induction b1 as [|p b IH]; intros b2 k sols; cbn [app solve_uf length].
  - rewrite Nat.add_0_r. reflexivity.
  - destruct (flat_map_opt (step_uf strict Sneg (sel k) p) sols) as [sols'|]; [|reflexivity].
    rewrite IH. replace (S k + length b)%nat with (k + S (length b))%nat by lia. reflexivity.
Qed.

(* only the stores of the positions of the body are read *)
Lemma solve_uf_sel strict Sneg sel sel' body : forall k k' sols,
  (forall j, (j < length body)%nat -> sel (k + j)%nat = sel' (k' + j)%nat) ->
  solve_uf strict Sneg sel k body sols = solve_uf strict Sneg sel' k' body sols.
Proof.
  induction body as [|p b IH]; intros k k' sols H; cbn [solve_uf]; [reflexivity|].
  pose proof (H 0%nat) as H0. rewrite !Nat.add_0_r in H0. rewrite <- H0 by (simpl; lia).
  destruct (flat_map_opt (step_uf strict Sneg (sel k) p) sols) as [sols'|]; [|reflexivity].
  apply IH. intros j Hj. specialize (H (S j)). rewrite !Nat.add_succ_r in H. apply H. simpl; lia.
Qed.

Definition sel_skip (n : nat) (sel : nat -> list fact) : nat -> list fact :=
  fun j => if (j <? n)%nat then sel j else sel (S j).

Theorem solve_uf_eq_refl_removable strict Sneg sel b1 b2 v sols :
  Forall uwf sols ->
  solve_uf strict Sneg sel 0 (b1 ++ PEq (TVar v) (TVar v) :: b2) sols =
  solve_uf strict Sneg (sel_skip (length b1) sel) 0 (b1 ++ b2) sols.
Proof.
  intros Hs. rewrite !solve_uf_app.
  rewrite (solve_uf_sel strict Sneg (sel_skip (length b1) sel) sel b1 0 0 sols).
  2:{ intros j Hj. unfold sel_skip. simpl. destruct (Nat.ltb_spec j (length b1)); [reflexivity | lia]. }
  destruct (solve_uf strict Sneg sel 0 b1 sols) as [R|] eqn:E; [|reflexivity].
  cbn [solve_uf].
  rewrite flat_map_opt_single.
  2:{ intros s Hin. apply step_uf_eq_refl. exact (proj1 (solve_uf_props _ _ _ _ _ _ _ Hs E s Hin)). }
  apply solve_uf_sel. intros j Hj. unfold sel_skip.
  destruct (Nat.ltb_spec (0 + length b1 + j) (length b1)); [lia|]. reflexivity.
Qed.

Theorem eval_clause_uf_eq_refl_removable strict Sneg sel h b1 b2 lets v :
  eval_clause_uf strict Sneg sel (mkClause h (b1 ++ PEq (TVar v) (TVar v) :: b2) lets) =
  eval_clause_uf strict Sneg (sel_skip (length b1) sel) (mkClause h (b1 ++ b2) lets).
Proof.
  unfold eval_clause_uf. cbn [cbody].
  rewrite (solve_uf_eq_refl_removable strict Sneg sel b1 b2 v [[]] uwf_start).
  destruct (solve_uf strict Sneg (sel_skip (length b1) sel) 0 (b1 ++ b2) [[]]); reflexivity.
Qed.

(* alias elimination with the leftover equality removed: the clause with the aliasing
   equality W = V (or V = W) at body position |b1| derives the same facts as the clause
   without that premise in which W is replaced by V everywhere *)
Lemma sub_term_alias W V : sub_term W V (TVar W) = TVar V /\ sub_term W V (TVar V) = TVar V.
Proof. cbn [sub_term]. rewrite Z.eqb_refl. destruct (V =? W); auto. Qed.

Theorem alias_elimination_removed Sneg sel h b1 b2 lets e W V fs' fs :
  W <> V -> e = PEq (TVar W) (TVar V) \/ e = PEq (TVar V) (TVar W) ->
  (forall v, In v (bvars (b1 ++ e :: b2)) -> ~ In v (map fst lets)) ->
  eval_clause_uf true Sneg sel (mkClause h (b1 ++ e :: b2) lets) = Some fs' ->
  eval_clause_uf true Sneg (sel_skip (length b1) sel) (sub_clause W V (mkClause h (b1 ++ b2) lets)) = Some fs ->
  forall f, In f fs' <-> In f fs.
Proof.
  intros Hne He Hlet E' E.
  apply (alias_elimination Sneg sel (mkClause h (b1 ++ e :: b2) lets) W V fs' fs Hne); auto.
  - cbn [cbody]. destruct He as [->| ->]; [left | right]; apply in_elt.
  - rewrite <- E. unfold sub_clause. cbn [chead cbody clet]. rewrite !map_app. cbn [map].
    assert (Hs : sub_premise W V e = PEq (TVar V) (TVar V)).
    { destruct (sub_term_alias W V) as [A B]. destruct He as [->| ->]; cbn [sub_premise]; rewrite A, B; reflexivity. }
    rewrite Hs. rewrite eval_clause_uf_eq_refl_removable. rewrite map_length. reflexivity.
Qed.

(* ================= 6. the test is implied by C04's: a clause that CheckRule accepts (the
   model Analysis/RuleCheck.check) and that is alias_free there (every variable = variable
   equality has a side CheckRule counts as bound at that point) passes no_alias_body after
   ReplaceWildcards - the form in which the engine model evaluates it. What CheckRule
   counts as bound (cs_bound) is always among the certainly bound variables of
   binds_after. Only the model file of the analysis is used, qualified. *)
From MV Require Analysis.RuleCheck.

Lemma tvars_term_vars : forall t, RuleCheck.term_vars t = tvars t.
Proof.
  intros t. reflexivity.   (* the two fixpoints are the same term *)
Qed.

Lemma atom_vars_tvars a : RuleCheck.atom_vars a = flat_map tvars (aargs a).
Proof.
  unfold RuleCheck.atom_vars, RuleCheck.terms_vars. induction (aargs a) as [|t l IH]; [reflexivity|].
  cbn [flat_map]. rewrite tvars_term_vars, IH. reflexivity.
Qed.

Lemma memZ_incl x B B' : incl B B' -> memZ x B = true -> memZ x B' = true.
Proof. intros Hi H. apply memZ_spec. apply Hi. apply memZ_spec. exact H. Qed.

Lemma alias_ok_mono B B' p : incl B B' -> alias_ok B p = true -> alias_ok B' p = true.
Proof.
  intros Hi. destruct p as [a|a|l r|l r|op l r]; auto. destruct l as [x|c|f args]; auto. destruct r as [y|d|g args']; auto.
  cbn [alias_ok]. intros H. apply orb_true_iff in H as [H|H]; [apply orb_true_iff in H as [H|H]|].
  - rewrite H. reflexivity.
  - rewrite (memZ_incl _ _ _ Hi H). rewrite orb_true_r. reflexivity.
  - rewrite (memZ_incl _ _ _ Hi H). rewrite orb_true_r. reflexivity.
Qed.

Lemma incl_cons2 {A} (x : A) l l' : incl l l' -> incl (x :: l) (x :: l').
Proof. intros H a [<-|Ha]; [left; reflexivity | right; auto]. Qed.

Lemma binds_after_mono B B' p : incl B B' -> incl (binds_after B p) (binds_after B' p).
Proof.
  intros Hi. destruct p as [a|a|l r|l r|op l r]; cbn [binds_after]; auto.
  - apply incl_app; [apply incl_appl, incl_refl | apply incl_appr; exact Hi].
  - destruct l as [x|c|f args], r as [y|d|g args']; cbn [eq_binds]; auto using incl_cons2.
    destruct (memZ x B || memZ y B) eqn:E.
    + assert (E' : memZ x B' || memZ y B' = true).
      { apply orb_true_iff in E as [E|E]; rewrite (memZ_incl _ _ _ Hi E); auto using orb_true_r. }
      rewrite E'. auto using incl_cons2.
    + destruct (memZ x B' || memZ y B'); [|exact Hi]. intros v Hv. right; right. auto.
Qed.

Lemma no_alias_body_mono body : forall B B', incl B B' -> no_alias_body B body = true -> no_alias_body B' body = true.
Proof.
  induction body as [|p b IH]; intros B B' Hi H; cbn [no_alias_body] in *; [reflexivity|].
  apply andb_true_iff in H as [H1 H2]. rewrite (alias_ok_mono _ _ _ Hi H1).
  apply (IH _ _ (binds_after_mono _ _ p Hi) H2).
Qed.

Lemma check_eq_bound st l r st1 B : RuleCheck.check_eq st l r = Some st1 ->
  incl (RuleCheck.cs_bound st) B -> incl (RuleCheck.cs_bound st1) (eq_binds B l r).
Proof.
  intros H Hi.
  assert (Hc : forall x, incl (RuleCheck.cs_bound (RuleCheck.bind st [x])) (x :: B)).
  { intros x. cbn. apply incl_cons2. exact Hi. }
  assert (Hxy : forall x y, incl (RuleCheck.cs_bound st) (eq_binds B (TVar x) (TVar y))).
  { intros x y. cbn [eq_binds]. destruct (memZ x B || memZ y B); [|exact Hi]. intros v Hv. right; right; auto. }
  unfold RuleCheck.check_eq in H.
  destruct l as [x|c|f args], r as [y|d|g args']; cbn [RuleCheck.is_app andb] in H;
    repeat match type of H with (if ?b then _ else _) = Some _ => destruct b end;
    try discriminate; injection H as <-; cbn [eq_binds]; auto.
  exact (Hxy x y).
Qed.

Lemma check_premise_bound st o p st1 B : RuleCheck.check_premise st o p = Some st1 ->
  incl (RuleCheck.cs_bound st) B -> incl (RuleCheck.cs_bound st1) (binds_after B p).
Proof.
  intros H Hi. destruct p as [a|a|l r|l r|op l r]; cbn [RuleCheck.check_premise binds_after] in *.
  - injection H as <-. cbn. rewrite atom_vars_tvars. apply incl_app; [apply incl_appl, incl_refl | apply incl_appr; exact Hi].
  - destruct o as [| a' | | |]; try discriminate. destruct (forallb _ _); [|discriminate]. injection H as <-. exact Hi.
  - eapply check_eq_bound; eauto.
  - destruct (forallb _ _); [|discriminate]. injection H as <-. exact Hi.
  - destruct (RuleCheck.subsetZ _ _); [|discriminate]. injection H as <-. exact Hi.
Qed.

Lemma rc_alias_ok B st p : incl (RuleCheck.cs_bound st) B -> RuleCheck.alias_ok st p = true -> alias_ok B p = true.
Proof.
  intros Hi. destruct p as [a|a|l r|l r|op l r]; auto. destruct l as [x|c|f args]; auto. destruct r as [y|d|g args']; auto.
  cbn [RuleCheck.alias_ok alias_ok]. intros H. apply orb_true_iff in H as [H|H];
    rewrite (memZ_incl _ _ _ Hi H); destruct (x =? y); simpl; auto using orb_true_r.
Qed.

Lemma alias_free_body_no_alias origs : forall ps st st' B,
  RuleCheck.check_body st origs ps = Some st' -> RuleCheck.alias_free_body st origs ps = true ->
  length origs = length ps -> incl (RuleCheck.cs_bound st) B -> no_alias_body B ps = true.
Proof.
  induction origs as [|o origs IH]; intros [|p ps] st st' B Hc Ha Hl Hi; try discriminate; [reflexivity|].
  cbn [RuleCheck.check_body RuleCheck.alias_free_body no_alias_body] in *.
  destruct (RuleCheck.check_premise st o p) as [st1|] eqn:E; [|discriminate].
  apply andb_true_iff in Ha as [Ha1 Ha2]. rewrite (rc_alias_ok _ _ _ Hi Ha1).
  apply (IH ps st1 st' _ Hc Ha2); [simpl in Hl; congruence|]. eapply check_premise_bound; eauto.
Qed.

Lemma rw_body_length b : forall n, length (RuleCheck.rw_body n b) = length b.
Proof.
  induction b as [|p b IH]; intros n; cbn [RuleCheck.rw_body]; [reflexivity|].
  destruct (RuleCheck.rw_premise n p) as [n' p']. simpl. rewrite IH. reflexivity.
Qed.

Theorem checked_alias_free_static cr :
  RuleCheck.check cr = true -> RuleCheck.alias_free cr = true ->
  no_alias_clause (RuleCheck.replace_wildcards cr) = true.
Proof.
  unfold RuleCheck.check, RuleCheck.alias_free, no_alias_clause. intros Hc Ha.
  destruct (RuleCheck.check_body _ (cbody cr) (cbody (RuleCheck.replace_wildcards cr))) as [st'|] eqn:E; [|discriminate].
  eapply alias_free_body_no_alias; eauto.
  - cbn [RuleCheck.replace_wildcards cbody]. rewrite rw_body_length. reflexivity.
  - cbn. apply incl_refl.
Qed.

(* programs made of checked alias-free clauses (evaluated, as always, after ReplaceWildcards) *)
Theorem eval_program_uf_exact_checked fuel Pr layers store init Res :
  (forall cr, In cr Pr -> RuleCheck.check cr = true /\ RuleCheck.alias_free cr = true) ->
  valid_stratification (map RuleCheck.replace_wildcards Pr) layers ->
  eval_program_uf false fuel (map RuleCheck.replace_wildcards Pr) layers store init = Ok Res ->
  forall f, In f Res <-> slfp (map RuleCheck.replace_wildcards Pr) layers (fun g => In g (add_all store init)) f.
Proof.
  intros Hc Hv H. apply (eval_program_uf_exact_static fuel _ layers store init Res Hv); [|exact H].
  unfold no_alias_program. apply forallb_forall. intros c Hin. apply in_map_iff in Hin as (cr & <- & Hcr).
  destruct (Hc _ Hcr). apply checked_alias_free_static; auto.
Qed.
