(* Datalog/InvarianceProofs.v - the specification (Lfp.v) and therefore, through C01's
   exactness theorems, the result of the engine model do not depend on the presentation:
   order of clauses and facts, order of rules inside a round, choice of the valid
   stratification. (Renamings: InvarianceRename.v.) *)
From Coq Require Import List ZArith Bool Lia Arith Permutation.
From MV Require Import Datalog.Syntax Datalog.SyntaxProofs Datalog.Interp Datalog.Solve Datalog.Lfp
     Datalog.SolveProofs Datalog.SemiNaive Datalog.SemiNaiveProofs Datalog.Strata Datalog.StrataProofs.
Import ListNotations.
Open Scope Z_scope.

(* ================= A. order of clauses and of base facts ================= *)

Lemma layer_rules_ext P P' ps :
  (forall c, In c P <-> In c P') -> forall c, In c (layer_rules P ps) <-> In c (layer_rules P' ps).
Proof. intros H c. rewrite !in_layer_rules, H. tauto. Qed.

Lemma slfp_ext2 P P' layers :
  (forall c, In c P <-> In c P') ->
  forall (B B' : factset), (forall f, B f <-> B' f) -> forall f, slfp P layers B f <-> slfp P' layers B' f.
Proof.
  intros HP. induction layers as [|ps rest IH]; intros B B' HB f; simpl; [apply HB|].
  apply IH. intros g. split; apply lfp_ext.
  - apply layer_rules_ext; exact HP.
  - exact HB.
  - intros c. apply iff_sym. apply layer_rules_ext; exact HP.
  - intros h. apply iff_sym. apply HB.
Qed.

Lemma lfp_perm R R' (E E' : list fact) :
  Permutation R R' -> Permutation E E' ->
  forall f, lfp R (fun g => In g E) f <-> lfp R' (fun g => In g E') f.
Proof.
  intros HR HE f. split; apply lfp_ext.
  - intros c. split; [apply Permutation_in; exact HR | apply Permutation_in; apply Permutation_sym; exact HR].
  - intros g. split; [apply Permutation_in; exact HE | apply Permutation_in; apply Permutation_sym; exact HE].
  - intros c. split; [apply Permutation_in; apply Permutation_sym; exact HR | apply Permutation_in; exact HR].
  - intros g. split; [apply Permutation_in; apply Permutation_sym; exact HE | apply Permutation_in; exact HE].
Qed.

(* ================= B. choice of the stratification ================= *)

Lemma derives_head N I c f : derives N I c f -> fst f = apred (chead c).
Proof. intros (t & _ & He). eapply emit_head_pred; eauto. Qed.

Lemma lfp_origin R (B : factset) f : lfp R B f -> B f \/ In (fst f) (heads R).
Proof.
  intros H. destruct H as [f H | I c f _ Hc Hd]; [left; exact H | right].
  rewrite (derives_head _ _ _ _ Hd). apply in_heads. exact Hc.
Qed.

Lemma slfp_mono P layers : forall (B : factset) f, B f -> slfp P layers B f.
Proof.
  induction layers as [|ps rest IH]; intros B f H; simpl; [exact H|].
  apply IH. apply lfp_base. exact H.
Qed.

Lemma slfp_app P l1 : forall l2 (B : factset), slfp P (l1 ++ l2) B = slfp P l2 (slfp P l1 B).
Proof. induction l1 as [|ps l1 IH]; intros l2 B; simpl; [reflexivity | apply IH]. Qed.

Lemma slfp_split P pre ps post (B : factset) :
  slfp P (pre ++ ps :: post) B = slfp P post (lfp (layer_rules P ps) (slfp P pre B)).
Proof. rewrite slfp_app. reflexivity. Qed.

Lemma slfp_origin P layers : forall (B : factset) f, slfp P layers B f ->
  B f \/ (In (fst f) (concat layers) /\ exists c, In c P /\ apred (chead c) = fst f).
Proof.
  induction layers as [|ps rest IH]; intros B f H; simpl in H; [left; exact H|].
  destruct (IH _ _ H) as [H1 | (H1 & H2)].
  - destruct (lfp_origin _ _ _ H1) as [H3|H3]; [left; exact H3 | right].
    unfold heads in H3. apply in_map_iff in H3 as (c & He & Hc).
    apply in_layer_rules in Hc as (HcP & Hps). split.
    + simpl. apply in_or_app. left. rewrite <- He. exact Hps.
    + exists c. split; assumption.
  - right. split; [|exact H2]. simpl. apply in_or_app. right. exact H1.
Qed.

(* later layers never add facts of a predicate they do not hold *)
Lemma slfp_keep P post (B : factset) f : slfp P post B f -> ~ In (fst f) (concat post) -> B f.
Proof. intros H Hn. destruct (slfp_origin _ _ _ _ H) as [H1|(H1 & _)]; [exact H1 | contradiction]. Qed.

(* a fact of a predicate without rules comes from the base *)
Lemma slfp_norule P L (B : factset) f :
  slfp P L B f -> (forall c, In c P -> apred (chead c) <> fst f) -> B f.
Proof.
  intros H Hn. destruct (slfp_origin _ _ _ _ H) as [H1|(_ & c & Hc & He)]; [exact H1|].
  exfalso. exact (Hn c Hc He).
Qed.

Lemma pos_preds_tail p b q : In q (pos_preds b) -> In q (pos_preds (p :: b)).
Proof. destruct p; simpl; auto. Qed.

(* the body only looks at facts of its positive predicates, and at negation on its
   negated predicates *)
Lemma sat_restrict (N N' : factset) sel sel' k b s t :
  (forall j g, In g (sel j) -> In (fst g) (pos_preds b) -> In g (sel' j)) ->
  neg_agree b N N' -> sat N sel k b s t -> sat N' sel' k b s t.
Proof.
  intros Hsel Hn Hs. induction Hs as [k s | k p b s u t Hh Hs IH].
  - constructor.
  - econstructor.
    + destruct Hh as [a s pvs f u He Hf Hm | a s pvs He Hall | p s us u He Hu].
      * eapply holds_atom; eauto. apply Hsel; [exact Hf|]. simpl. left.
        apply match_fact_pred in Hm. symmetry. exact Hm.
      * eapply holds_neg; eauto. intros f Hf.
        destruct (match_fact (apred a) pvs s f) eqn:Hm; auto.
        apply match_fact_pred in Hm as Hp.
        assert (HN : N f) by (apply (Hn a f); simpl; auto).
        rewrite (Hall f HN) in Hm. discriminate.
      * eapply holds_pure; eauto.
    + apply IH; [|eapply neg_agree_tail; eauto].
      intros j g Hg Hq. apply Hsel; [exact Hg|]. apply pos_preds_tail. exact Hq.
Qed.

Lemma derives_transfer (N N' : factset) I I' c f :
  (forall g, In g I -> In (fst g) (pos_preds (cbody c)) -> In g I') ->
  neg_agree (cbody c) N N' -> derives N I c f -> derives N' I' c f.
Proof.
  intros HI Hn (t & Hs & He). exists t. split; [|exact He].
  eapply sat_restrict; [| exact Hn | exact Hs]. intros j g. simpl. apply HI.
Qed.

Definition relevant (c : clause) (I : list fact) : list fact :=
  filter (fun g => memZ (fst g) (pos_preds (cbody c))) I.

Lemma relevant_in c I g : In g (relevant c I) <-> In g I /\ In (fst g) (pos_preds (cbody c)).
Proof. unfold relevant. rewrite filter_In, memZ_spec. tauto. Qed.

Lemma layer_of_in layers : forall p i, layer_of layers p = Some i -> In p (concat layers).
Proof.
  induction layers as [|l0 rest IH]; intros p i H; simpl in *; [discriminate|].
  destruct (memZ p l0) eqn:Hm.
  - apply in_or_app. left. apply memZ_spec. exact Hm.
  - destruct (layer_of rest p) eqn:Hl; [|discriminate]. apply in_or_app. right. eapply IH. exact Hl.
Qed.

Lemma in_concat_split (L : list (list Z)) p :
  In p (concat L) -> exists pre ps post, L = pre ++ ps :: post /\ In p ps.
Proof.
  intros H. apply in_concat in H as (ps & Hps & Hp). apply in_split in Hps as (pre & post & ->). eauto.
Qed.

Lemma in_concat_app (l1 l2 : list (list Z)) q :
  In q (concat (l1 ++ l2)) <-> In q (concat l1) \/ In q (concat l2).
Proof. rewrite concat_app, in_app_iff. tauto. Qed.

Lemma nth_error_mid {A} (pre : list A) x post : nth_error (pre ++ x :: post) (length pre) = Some x.
Proof. rewrite nth_error_app2 by lia. rewrite Nat.sub_diag. reflexivity. Qed.

Lemma valid_head_in P L c : valid_stratification P L -> In c P -> In (apred (chead c)) (concat L).
Proof. intros [_ Hcl] Hc. destruct (Hcl c Hc) as (i & Hi & _). eapply layer_of_in; eauto. Qed.

Lemma valid_norule P L q :
  valid_stratification P L -> ~ In q (concat L) -> forall c, In c P -> apred (chead c) <> q.
Proof. intros Hv Hq c Hc He. apply Hq. rewrite <- He. eapply valid_head_in; eauto. Qed.

(* validity read at a split of the layer list: a rule of layer ps has its positive
   body predicates in pre, ps or nowhere, its negated ones in pre or nowhere *)
Lemma valid_split P pre ps post c :
  valid_stratification P (pre ++ ps :: post) -> In c P -> In (apred (chead c)) ps ->
  (forall q, In q (pos_preds (cbody c)) -> ~ In q (concat post)) /\
  (forall q, In q (neg_preds (cbody c)) -> ~ In q (concat (ps :: post))).
Proof.
  intros [Hnd Hcl] Hc Hh. destruct (Hcl c Hc) as (i & Hi & Hpos & Hneg).
  rewrite (layer_of_nodup _ (length pre) ps _ Hnd (nth_error_mid pre ps post) Hh) in Hi.
  injection Hi as <-.
  assert (Hpost : forall q, In q (concat post) ->
                  exists j, layer_of (pre ++ ps :: post) q = Some (length pre + S j)%nat).
  { intros q Hq. apply in_concat in Hq as (qs & Hqs & Hq). apply In_nth_error in Hqs as (j & Hj).
    exists j. apply (layer_of_nodup _ _ qs); auto.
    rewrite nth_error_app2 by lia.
    replace (length pre + S j - length pre)%nat with (S j) by lia. exact Hj. }
  split.
  - intros q Hq Hin. destruct (Hpost q Hin) as (j & Hj). specialize (Hpos q Hq). rewrite Hj in Hpos. lia.
  - intros q Hq Hin. simpl in Hin. apply in_app_or in Hin as [Hin|Hin].
    + specialize (Hneg q Hq).
      rewrite (layer_of_nodup _ (length pre) ps q Hnd (nth_error_mid pre ps post) Hin) in Hneg. lia.
    + destruct (Hpost q Hin) as (j & Hj). specialize (Hneg q Hq). rewrite Hj in Hneg. lia.
Qed.

(* the stratified model is closed under every rule of the program when negation is
   judged against the model itself *)
Lemma slfp_closed P L (B : factset) :
  valid_stratification P L ->
  forall I c f, (forall g, In g I -> slfp P L B g) -> In c P -> derives (slfp P L B) I c f -> slfp P L B f.
Proof.
  intros Hv I c f HI Hc Hd.
  destruct (in_concat_split L _ (valid_head_in _ _ _ Hv Hc)) as (pre & ps & post & E & Hps).
  subst L. destruct (valid_split _ _ _ _ _ Hv Hc Hps) as (Hpos & Hneg).
  rewrite slfp_split in HI, Hd |- *.
  apply slfp_mono. apply lfp_step with (I := relevant c I) (c := c).
  - intros g Hg. apply relevant_in in Hg as (Hg & Hq).
    eapply slfp_keep; [apply HI; exact Hg | apply Hpos; exact Hq].
  - apply in_layer_rules. split; assumption.
  - eapply derives_transfer; [| | exact Hd].
    + intros g Hg Hq. apply relevant_in. split; assumption.
    + intros a g Ha Hg. split.
      * intros HM.
        assert (Hq : ~ In (fst g) (concat (ps :: post))).
        { apply Hneg. apply in_neg_preds. exists a. split; [exact Ha | symmetry; exact Hg]. }
        change (slfp P (ps :: post) (slfp P pre B) g) in HM. eapply slfp_keep; eauto.
      * intros HT. apply slfp_mono. apply lfp_base. exact HT.
Qed.

Section Choice.
Variable P : list clause.
Variables L1 L2 : list (list Z).
Variable B : factset.
Hypothesis V1 : valid_stratification P L1.
Hypothesis V2 : valid_stratification P L2.

Let M1 : factset := slfp P L1 B.

Lemma choice_inv : forall pre2 post2, L2 = pre2 ++ post2 ->
  (forall f, slfp P pre2 B f -> M1 f) /\
  (forall f, M1 f -> In (fst f) (concat pre2) -> slfp P pre2 B f).
Proof.
  induction pre2 as [|ps pre IH] using rev_ind; intros post2 E2.
  - split; [intros f Hf; apply slfp_mono; exact Hf | intros f _ []].
  - rewrite <- app_assoc in E2. simpl in E2. destruct (IH _ E2) as (IHa & IHb).
    assert (low2 : forall g, M1 g -> ~ In (fst g) (concat (ps :: post2)) -> slfp P pre B g).
    { intros g HM Hn. destruct (in_dec Z.eq_dec (fst g) (concat pre)) as [Hp|Hp]; [apply IHb; assumption|].
      apply slfp_mono. apply (slfp_norule P L1 B g HM).
      apply (valid_norule P L2 (fst g) V2). rewrite E2. rewrite in_concat_app. tauto. }
    split.
    + (* (a) *)
      intros f Hf. rewrite slfp_app in Hf. simpl in Hf.
      induction Hf as [f Hf | I c f _ IHI Hc Hd].
      * apply IHa. exact Hf.
      * apply in_layer_rules in Hc as (HcP & Hps).
        destruct (valid_split P pre ps post2 c) as (Hpos & Hneg); [rewrite <- E2; exact V2 | exact HcP | exact Hps |].
        apply (slfp_closed P L1 B V1 I c f IHI HcP).
        eapply derives_transfer; [intros g Hg _; exact Hg | | exact Hd].
        intros a g Ha Hg. split; [apply IHa|]. intros HM. apply low2; [exact HM|].
        apply Hneg. apply in_neg_preds. exists a. split; [exact Ha | symmetry; exact Hg].
    + (* (b) *)
      intros f HM Hin. rewrite slfp_app. simpl.
      rewrite in_concat_app in Hin. simpl in Hin. rewrite app_nil_r in Hin.
      assert (C : forall pre1 post1, L1 = pre1 ++ post1 -> forall f, slfp P pre1 B f ->
                  In (fst f) (concat pre) \/ In (fst f) ps -> lfp (layer_rules P ps) (slfp P pre B) f).
      { clear f HM Hin.
        induction pre1 as [|qs p1 IH1] using rev_ind; intros post1 E1 f Hf Hin.
        - apply lfp_base. apply slfp_mono. exact Hf.
        - rewrite <- app_assoc in E1. simpl in E1. specialize (IH1 _ E1).
          rewrite slfp_app in Hf. simpl in Hf.
          assert (Up : forall g, lfp (layer_rules P qs) (slfp P p1 B) g -> M1 g).
          { intros g Hg. unfold M1. rewrite E1, slfp_split. apply slfp_mono. exact Hg. }
          assert (Up0 : forall g, slfp P p1 B g -> M1 g) by (intros g Hg; apply Up; apply lfp_base; exact Hg).
          revert Hin. induction Hf as [f Hf | I c f HIm IHI Hc Hd]; intros Hin.
          + apply IH1; assumption.
          + assert (HfM : M1 f) by (apply Up; eapply lfp_step; eauto).
            destruct Hin as [Hin|Hin]; [apply lfp_base; apply IHb; assumption|].
            apply in_layer_rules in Hc as (HcP & Hqs).
            rewrite (derives_head _ _ _ _ Hd) in Hin.
            destruct (valid_split P pre ps post2 c) as (Hpos2 & Hneg2); [rewrite <- E2; exact V2 | exact HcP | exact Hin |].
            destruct (valid_split P p1 qs post1 c) as (Hpos1 & Hneg1); [rewrite <- E1; exact V1 | exact HcP | exact Hqs |].
            apply lfp_step with (I := relevant c I) (c := c).
            * intros g Hg. apply relevant_in in Hg as (Hg & Hq).
              destruct (in_dec Z.eq_dec (fst g) (concat pre)) as [Hp|Hp]; [apply IHI; auto|].
              destruct (in_dec Z.eq_dec (fst g) ps) as [Hp'|Hp']; [apply IHI; auto|].
              apply lfp_base. apply low2; [apply Up; apply HIm; exact Hg|].
              simpl. intros Hx. apply in_app_or in Hx as [Hx|Hx]; [contradiction | exact (Hpos2 _ Hq Hx)].
            * apply in_layer_rules. split; assumption.
            * eapply derives_transfer; [| | exact Hd].
              -- intros g Hg Hq. apply relevant_in. split; assumption.
              -- intros a g Ha Hg.
                 assert (Hq : In (fst g) (neg_preds (cbody c))).
                 { apply in_neg_preds. exists a. split; [exact Ha | symmetry; exact Hg]. }
                 split.
                 ++ intros HT. apply low2; [apply Up0; exact HT | apply Hneg2; exact Hq].
                 ++ intros HS. apply IHa in HS. unfold M1 in HS. rewrite E1, slfp_app in HS.
                    eapply slfp_keep; [exact HS | apply Hneg1; exact Hq]. }
      apply (C L1 [] (eq_sym (app_nil_r L1)) f HM Hin).
Qed.

Lemma choice_incl : forall f, slfp P L2 B f -> slfp P L1 B f.
Proof.
  intros f. destruct (choice_inv L2 [] (eq_sym (app_nil_r L2))) as (Ha & _). apply Ha.
Qed.
End Choice.

Theorem slfp_choice P L1 L2 (B : factset) :
  valid_stratification P L1 -> valid_stratification P L2 ->
  forall f, slfp P L1 B f <-> slfp P L2 B f.
Proof. intros V1 V2 f. split; apply choice_incl; assumption. Qed.

(* ================= C. the engine model ================= *)

(* two finished runs of the model on two presentations of one program (clauses in any
   order, base facts in any order and split between caller's store and program text in
   any way, any valid stratification, layers listed in any order of their predicates,
   any fuel) hold the same facts *)
Theorem eval_program_presentation fuel fuel' P P' L L' store store' init init' Res Res' :
  (forall c, In c P <-> In c P') ->
  (forall f, In f store \/ In f init <-> In f store' \/ In f init') ->
  valid_stratification P L -> valid_stratification P' L' ->
  eval_program fuel P L store init = Ok Res ->
  eval_program fuel' P' L' store' init' = Ok Res' ->
  forall f, In f Res <-> In f Res'.
Proof.
  intros HP HF V V' H H' f.
  rewrite (eval_program_exact _ _ _ _ _ _ V H f), (eval_program_exact _ _ _ _ _ _ V' H' f).
  assert (V2 : valid_stratification P L').
  { destruct V' as [Hnd Hcl]. split; [exact Hnd|]. intros c Hc. apply Hcl. apply HP. exact Hc. }
  rewrite (slfp_choice P L L' _ V V2 f).
  apply slfp_ext2; [exact HP|]. intros g. rewrite !add_all_in. apply HF.
Qed.

(* one stratum: every order of the rules in the first round and every order (and
   multiplicity) of the delta rules give the same set *)
Theorem eval_stratum_order fuel fuel' R R' drules drules' St St' Res Res' :
  (forall c, In c R <-> In c R') -> (forall f, In f St <-> In f St') ->
  neg_ok R -> drules_ok R drules -> drules_ok R' drules' ->
  eval_stratum fuel R drules St = Ok Res -> eval_stratum fuel' R' drules' St' = Ok Res' ->
  forall f, In f Res <-> In f Res'.
Proof.
  intros HR HS Hn Hd Hd' H H' f.
  assert (Hn' : neg_ok R') by (eapply neg_ok_ext; eauto).
  rewrite (eval_stratum_exact R drules St Hn Hd fuel Res H f),
          (eval_stratum_exact R' drules' St' Hn' Hd' fuel' Res' H' f).
  split; apply lfp_ext; auto; try (intros c; apply iff_sym; apply HR); intros g; apply iff_sym; apply HS.
Qed.
