(* Datalog/WildNeg.v - a negated atom with wildcards, read declaratively (property C01).

   Go: engine/premise.go premiseNegAtom :58 - after substitution the atom `!r(X, _)` still
   contains the wildcard; the premise fails iff some stored fact UNIFIES with it
   (GetFacts + UnifyTermsExtend), i.e. `!r(X, _)` holds iff there is no fact r(X, anything).
   Model: the wildcard is not a term of Syntax.v; the encoders give every occurrence of `_`
   a variable of its own that nothing binds. Solve.v `step` / Lfp.v `holds_neg` judge a
   negated atom by `match_fact` against every fact, so a variable that is still unbound
   when the atom is evaluated is read existentially.

   This file states that reading without the evaluator: under a substitution s the negated
   atom holds iff NO valuation of the variables that extends s makes the atom a fact of the
   set negation is judged against (the completed lower strata). Corollaries: `!r(X, _)`,
   `!r(_, _)` (two wildcards are independent), `!r(W, W)` with one unbound variable twice
   (the two columns must agree - that is not what two wildcards mean).
   Definitions and proofs (nothing here is executed by a check). *)
From Coq Require Import List ZArith Bool Lia.
From MV Require Import Datalog.Syntax Datalog.Interp Datalog.Solve Datalog.Lfp.
From MV Require Import Datalog.SyntaxProofs Datalog.SolveProofs.
Import ListNotations.
Open Scope Z_scope.

Definition valuation := Z -> const.

(* rho gives every variable bound in s the value s gives it *)
Definition extends (rho : valuation) (s : subst) : Prop :=
  forall v c, lookup v s = Some c -> rho v = c.

(* an evaluated argument (constant, or variable still unbound) under a valuation *)
Definition ground (rho : valuation) (pv : value) : const :=
  match pv with VConst c => c | VVar v => rho v end.

Lemma extends_cons rho s v c :
  lookup v s = None -> extends rho ((v, c) :: s) -> extends rho s.
Proof.
  intros Hn He w d Hw. apply He. cbn [lookup].
  destruct (Z.eqb_spec w v) as [->|_]; [congruence | exact Hw].
Qed.

Lemma extends_add rho s v :
  lookup v s = None -> extends rho s -> extends rho ((v, rho v) :: s).
Proof.
  intros Hn He w d. cbn [lookup].
  destruct (Z.eqb_spec w v) as [->|_]; [intros [= <-]; reflexivity | apply He].
Qed.

Lemma unify1_instance s pv c u rho :
  unify1 s pv c = Some u -> extends rho u -> extends rho s /\ ground rho pv = c.
Proof.
  unfold unify1. destruct pv as [d|v]; cbn [ground].
  - destruct (const_eqb d c) eqn:E; [|discriminate]. intros [= <-] He.
    apply const_eqb_spec in E. auto.
  - destruct (lookup v s) as [d|] eqn:L.
    + destruct (const_eqb d c) eqn:E; [|discriminate]. intros [= <-] He.
      apply const_eqb_spec in E. subst d. split; [exact He | apply He, L].
    + intros [= <-] He. split.
      * eapply extends_cons; eauto.
      * apply He. cbn [lookup]. rewrite Z.eqb_refl. reflexivity.
Qed.

Lemma unify1_complete s pv rho :
  extends rho s -> exists u, unify1 s pv (ground rho pv) = Some u /\ extends rho u.
Proof.
  intros He. unfold unify1. destruct pv as [d|v]; cbn [ground].
  - assert (E : const_eqb d d = true) by (apply const_eqb_spec; reflexivity).
    rewrite E. eauto.
  - destruct (lookup v s) as [d|] eqn:L.
    + rewrite (He _ _ L).
      assert (E : const_eqb d d = true) by (apply const_eqb_spec; reflexivity).
      rewrite E. eauto.
    + eexists. split; [reflexivity | apply extends_add; assumption].
Qed.

(* unification of the evaluated arguments with a fact's arguments succeeds iff the
   fact's arguments are an instance of them under a valuation extending s *)
Lemma unify_args_instance pvs : forall s cs,
  (exists u, unify_args s pvs cs = Some u) <->
  (exists rho, extends rho s /\ map (ground rho) pvs = cs).
Proof.
  induction pvs as [|pv pvs IH]; intros s cs.
  - destruct cs as [|c cs]; cbn [unify_args map]; split.
    + intros _. exists (fun v => match lookup v s with Some c => c | None => CNil end).
      split; [|reflexivity]. intros v c L. rewrite L. reflexivity.
    + eauto.
    + intros [u Hu]. discriminate Hu.
    + intros [rho [_ Hm]]. discriminate Hm.
  - destruct cs as [|c cs]; cbn [unify_args map].
    + split; [intros [u Hu]; discriminate Hu | intros [rho [_ Hm]]; discriminate Hm].
    + split.
      * intros [u Hu]. destruct (unify1 s pv c) as [s'|] eqn:U1; [|discriminate Hu].
        destruct (proj1 (IH s' cs)) as [rho [He Hm]]; [eauto|].
        destruct (unify1_instance _ _ _ _ _ U1 He) as [He0 Hg].
        exists rho. split; [exact He0|]. rewrite Hg, Hm. reflexivity.
      * intros [rho [He Hm]]. injection Hm as Hg Hm.
        destruct (unify1_complete s pv rho He) as [s' [U1 He']].
        rewrite Hg in U1. rewrite U1. apply IH. eauto.
Qed.

Lemma match_fact_instance p pvs s f :
  (exists u, match_fact p pvs s f = Some u) <->
  (fst f = p /\ exists rho, extends rho s /\ map (ground rho) pvs = snd f).
Proof.
  unfold match_fact. destruct (Z.eqb_spec (fst f) p) as [E|E].
  - rewrite unify_args_instance. tauto.
  - split; [intros [u Hu]; discriminate Hu | tauto].
Qed.

Lemma match_fact_none_instance p pvs s f :
  match_fact p pvs s f = None <->
  ~ (fst f = p /\ exists rho, extends rho s /\ map (ground rho) pvs = snd f).
Proof.
  rewrite <- match_fact_instance. destruct (match_fact p pvs s f) as [u|].
  - split; [discriminate | intros H; exfalso; apply H; eauto].
  - split; [intros _ [u Hu]; discriminate Hu | reflexivity].
Qed.

(* ---- the declarative reading of a negated atom (Lfp.holds on PNeg): it holds under s iff
   no valuation extending s turns the atom into a fact of N. Variables of the atom bound in
   s are fixed by [extends]; every other variable - in particular every encoded wildcard -
   ranges over all constants. *)
Theorem neg_wild_existential (N : factset) (I : list fact) (a : atom) (s : subst) (pvs : list value) :
  eval_args s (aargs a) = Some pvs ->
  (holds N I (PNeg a) s s <->
   forall rho, extends rho s -> ~ N (apred a, map (ground rho) pvs)).
Proof.
  intros Hev. split.
  - intros H. apply holds_neg_inv in H. destruct H as [_ [pvs' [Hev' Hno]]].
    rewrite Hev in Hev'. injection Hev' as <-.
    intros rho He HN. specialize (Hno _ HN).
    apply match_fact_none_instance in Hno. apply Hno. cbn [fst snd]. eauto.
  - intros H. eapply holds_neg; [exact Hev|].
    intros f HN. apply match_fact_none_instance. intros [Ep [rho [He Hm]]].
    apply (H rho He). rewrite Hm, <- Ep. destruct f; exact HN.
Qed.

(* ---- the same for the evaluator: engine.oneStepEvalPremise on a negated atom keeps the
   substitution iff no instance is stored, drops it iff one is *)
Theorem step_neg_wild (Sneg Spos : list fact) (a : atom) (s : subst) (pvs : list value) :
  eval_args s (aargs a) = Some pvs ->
  (step Sneg Spos (PNeg a) s = Some [s] <->
     forall rho, extends rho s -> ~ In (apred a, map (ground rho) pvs) Sneg) /\
  (step Sneg Spos (PNeg a) s = Some [] <->
     exists rho, extends rho s /\ In (apred a, map (ground rho) pvs) Sneg).
Proof.
  intros Hev. cbn [step]. rewrite Hev.
  destruct (existsb (fun f => is_some (match_fact (apred a) pvs s f)) Sneg) eqn:E.
  - apply existsb_exists in E. destruct E as [f [Hin Hm]].
    destruct (match_fact (apred a) pvs s f) as [u|] eqn:M; [|discriminate Hm].
    destruct (proj1 (match_fact_instance _ _ _ _) (ex_intro _ u M)) as [Ep [rho [He Hg]]].
    assert (Hf : In (apred a, map (ground rho) pvs) Sneg).
    { rewrite Hg, <- Ep. destruct f; exact Hin. }
    split; split.
    + discriminate.
    + intros H. exfalso. exact (H rho He Hf).
    + eauto.
    + reflexivity.
  - split; split.
    + intros _ rho He Hin.
      assert (X : existsb (fun f => is_some (match_fact (apred a) pvs s f)) Sneg = true).
      { apply existsb_exists. eexists. split; [exact Hin|].
        destruct (proj2 (match_fact_instance (apred a) pvs s (apred a, map (ground rho) pvs))) as [u Hu].
        - cbn [fst snd]. eauto.
        - rewrite Hu. reflexivity. }
      congruence.
    + reflexivity.
    + discriminate.
    + intros [rho [He Hin]].
      assert (X : existsb (fun f => is_some (match_fact (apred a) pvs s f)) Sneg = true).
      { apply existsb_exists. eexists. split; [exact Hin|].
        destruct (proj2 (match_fact_instance (apred a) pvs s (apred a, map (ground rho) pvs))) as [u Hu].
        - cbn [fst snd]. eauto.
        - rewrite Hu. reflexivity. }
      congruence.
Qed.

(* a valuation extending s with chosen values for two (not necessarily distinct) unbound variables *)
Definition pick (s : subst) (w1 : Z) (d1 : const) (w2 : Z) (d2 : const) : valuation :=
  fun v => if Z.eqb v w1 then d1 else if Z.eqb v w2 then d2 else
           match lookup v s with Some c => c | None => CNil end.

Lemma pick_extends s w1 d1 w2 d2 :
  lookup w1 s = None -> lookup w2 s = None -> extends (pick s w1 d1 w2 d2) s.
Proof.
  intros L1 L2 v c L. unfold pick.
  destruct (Z.eqb_spec v w1) as [->|_]; [congruence|].
  destruct (Z.eqb_spec v w2) as [->|_]; [congruence|].
  rewrite L. reflexivity.
Qed.

(* `!r(X, _)` with X bound to c: "there is no fact r(c, anything)" *)
Corollary neg_bound_wild (N : factset) (I : list fact) (r x w : Z) (s : subst) (c : const) :
  lookup x s = Some c -> lookup w s = None ->
  (holds N I (PNeg (mkAtom r [TVar x; TVar w])) s s <-> forall d, ~ N (r, [c; d])).
Proof.
  intros Lx Lw.
  assert (Hev : eval_args s (aargs (mkAtom r [TVar x; TVar w])) = Some [VConst c; VVar w]).
  { unfold eval_args. cbn [aargs map_opt eval_term]. rewrite Lx, Lw. reflexivity. }
  rewrite (neg_wild_existential N I _ s _ Hev). cbn [apred map ground]. split.
  - intros H d. specialize (H (pick s w d w d) (pick_extends s w d w d Lw Lw)).
    unfold pick in H at 1. rewrite Z.eqb_refl in H. exact H.
  - intros H rho _. apply H.
Qed.

(* `!r(_, X)` *)
Corollary neg_wild_bound (N : factset) (I : list fact) (r x w : Z) (s : subst) (c : const) :
  lookup x s = Some c -> lookup w s = None ->
  (holds N I (PNeg (mkAtom r [TVar w; TVar x])) s s <-> forall d, ~ N (r, [d; c])).
Proof.
  intros Lx Lw.
  assert (Hev : eval_args s (aargs (mkAtom r [TVar w; TVar x])) = Some [VVar w; VConst c]).
  { unfold eval_args. cbn [aargs map_opt eval_term]. rewrite Lx, Lw. reflexivity. }
  rewrite (neg_wild_existential N I _ s _ Hev). cbn [apred map ground]. split.
  - intros H d. specialize (H (pick s w d w d) (pick_extends s w d w d Lw Lw)).
    unfold pick in H at 1. rewrite Z.eqb_refl in H. exact H.
  - intros H rho _. apply H.
Qed.

(* `!r(_, _)`: two wildcards = two different variables, read independently:
   "r has no fact at all" *)
Corollary neg_two_wild (N : factset) (I : list fact) (r w1 w2 : Z) (s : subst) :
  lookup w1 s = None -> lookup w2 s = None -> w1 <> w2 ->
  (holds N I (PNeg (mkAtom r [TVar w1; TVar w2])) s s <-> forall d1 d2, ~ N (r, [d1; d2])).
Proof.
  intros L1 L2 Hne.
  assert (Hev : eval_args s (aargs (mkAtom r [TVar w1; TVar w2])) = Some [VVar w1; VVar w2]).
  { unfold eval_args. cbn [aargs map_opt eval_term]. rewrite L1, L2. reflexivity. }
  rewrite (neg_wild_existential N I _ s _ Hev). cbn [apred map ground]. split.
  - intros H d1 d2. specialize (H (pick s w1 d1 w2 d2) (pick_extends s w1 d1 w2 d2 L1 L2)).
    unfold pick in H at 1 2. rewrite Z.eqb_refl in H.
    destruct (Z.eqb_spec w2 w1) as [E|_]; [congruence|]. rewrite Z.eqb_refl in H. exact H.
  - intros H rho _. apply H.
Qed.

(* one unbound variable written twice is NOT two wildcards: only facts with equal columns count *)
Corollary neg_same_unbound_twice (N : factset) (I : list fact) (r w : Z) (s : subst) :
  lookup w s = None ->
  (holds N I (PNeg (mkAtom r [TVar w; TVar w])) s s <-> forall d, ~ N (r, [d; d])).
Proof.
  intros L.
  assert (Hev : eval_args s (aargs (mkAtom r [TVar w; TVar w])) = Some [VVar w; VVar w]).
  { unfold eval_args. cbn [aargs map_opt eval_term]. rewrite L. reflexivity. }
  rewrite (neg_wild_existential N I _ s _ Hev). cbn [apred map ground]. split.
  - intros H d. specialize (H (pick s w d w d) (pick_extends s w d w d L L)).
    unfold pick in H at 1 2. rewrite Z.eqb_refl in H. exact H.
  - intros H rho _. apply H.
Qed.

(* `!r(X, _, X)`: a bound variable repeated around a wildcard *)
Corollary neg_bound_wild_bound (N : factset) (I : list fact) (r x w : Z) (s : subst) (c : const) :
  lookup x s = Some c -> lookup w s = None ->
  (holds N I (PNeg (mkAtom r [TVar x; TVar w; TVar x])) s s <-> forall d, ~ N (r, [c; d; c])).
Proof.
  intros Lx Lw.
  assert (Hev : eval_args s (aargs (mkAtom r [TVar x; TVar w; TVar x])) = Some [VConst c; VVar w; VConst c]).
  { unfold eval_args. cbn [aargs map_opt eval_term]. rewrite Lx, Lw. reflexivity. }
  rewrite (neg_wild_existential N I _ s _ Hev). cbn [apred map ground]. split.
  - intros H d. specialize (H (pick s w d w d) (pick_extends s w d w d Lw Lw)).
    unfold pick in H at 1. rewrite Z.eqb_refl in H. exact H.
  - intros H rho _. apply H.
Qed.

(* the hypotheses are satisfiable and both outcomes occur: store {r(1,2)}, X := 1 / X := 3 *)
Example neg_bound_wild_fails :
  step [(4, [CNum 1; CNum 2])] [] (PNeg (mkAtom 4 [TVar 1; TVar 1001])) [(1, CNum 1)] = Some [].
Proof. vm_compute. reflexivity. Qed.
Example neg_bound_wild_holds :
  step [(4, [CNum 1; CNum 2])] [] (PNeg (mkAtom 4 [TVar 1; TVar 1001])) [(1, CNum 3)] = Some [[(1, CNum 3)]].
Proof. vm_compute. reflexivity. Qed.
Example neg_two_wild_fails_on_unequal_columns :
  step [(4, [CNum 1; CNum 2])] [] (PNeg (mkAtom 4 [TVar 1001; TVar 1002])) [] = Some [].
Proof. vm_compute. reflexivity. Qed.
Example neg_same_unbound_twice_holds_on_unequal_columns :
  step [(4, [CNum 1; CNum 2])] [] (PNeg (mkAtom 4 [TVar 1001; TVar 1001])) [] = Some [[]].
Proof. vm_compute. reflexivity. Qed.

Print Assumptions neg_wild_existential.
Print Assumptions step_neg_wild.
Print Assumptions neg_bound_wild.
Print Assumptions neg_wild_bound.
Print Assumptions neg_two_wild.
Print Assumptions neg_same_unbound_twice.
Print Assumptions neg_bound_wild_bound.
