(* Datalog/SolveUF.v - the clause evaluator of Solve.v with the union-find substitutions of
   unionfind/unionfind.go kept: a variable is unbound, bound to a constant, or ALIASED to
   another variable (chains Var -> Var -> constant). Solve.v abstracts the union-find to
   variable -> constant lists and treats "X = Y" with both sides unbound as an error of
   the model; here it is what the Go engine does (premiseEq -> UnifyTermsExtend -> union).
   Mirrors: unionfind.go find :77 / Get :116 / union :65 / UnifyTermsExtend :177 /
   unifyTermsUpdate :207 / AsConstSubstList :37; functional.EvalExpr :40; engine/premise.go
   premiseAtom :25, premiseNegAtom :58, premiseEq :89, premiseIneq :101; builtin.Decide :225;
   engine.oneStepEvalClause (seminaivebottomup.go:748) incl. the let path (:796
   sol.AsConstSubstList(), transformer.go evalLet :78).
   Same shapes as Solve.v (step / solve / run_let / emit_head / eval_clause), so the
   semi-naive loop runs on it: the second half of the file is SemiNaive.v/Strata.v with the
   clause evaluator as a parameter (those files call eval_clause directly).
   Additive: nothing in the existing model imports this file.
   No proofs in this file. *)
From Coq Require Import List ZArith Bool.
From MV Require Import Datalog.Syntax Datalog.Interp Datalog.Solve Datalog.SemiNaive Datalog.Strata.
Import ListNotations.
Open Scope Z_scope.

(* ---- union-find substitutions: the parent map restricted to variables that are not
   their own parent. (v, VConst c) = parent[v] is the constant c; (v, VVar w) = parent[v] is
   the variable w. Self loops (parent[x] = x, which UnifyTermsExtend :189 writes to
   register a term) carry no information and are not kept; constants as keys neither.
   New bindings are put in front. *)
Definition usubst := list (Z * value).

Fixpoint ulookup (v : Z) (s : usubst) : option value :=
  match s with
  | [] => None
  | (w, x) :: s' => if Z.eqb v w then Some x else ulookup v s'
  end.

(* unionfind.find :77 as written: follow parent pointers until a constant or a variable
   without a parent is reached; the fuel is the number of bindings (a chain visits every
   binding at most once; Go's loop has no bound and would spin on a cycle). Path compression
   does not change what find returns and is not modelled. *)
Fixpoint ufind_fuel (n : nat) (s : usubst) (v : Z) : value :=
  match ulookup v s with
  | None => VVar v
  | Some (VConst c) => VConst c
  | Some (VVar w) => match n with O => VVar w | S n' => ufind_fuel n' s w end
  end.
Definition ufind (s : usubst) (v : Z) : value := ufind_fuel (length s) s v.

(* the same function by one pass over the bindings from the oldest to the newest. Every
   binding the evaluator creates has the form (root, constant) or (root, other root) for
   variables that are roots at that moment (union :65 is called on the results of find), so
   a pointer always leads to a binding that is NEWER than the one it starts from, and one
   pass in creation order follows the whole chain. The evaluator below uses [resolve];
   SolveUFProofs.ufind_resolve shows [ufind s v = resolve s v] on every substitution the
   evaluator can produce (uwf). *)
Fixpoint resolve (s : usubst) (v : Z) : value :=
  match s with
  | [] => VVar v
  | (k, x) :: s' => match resolve s' v with
                    | VVar u => if Z.eqb u k then x else VVar u
                    | VConst c => VConst c
                    end
  end.

(* UnionFind.Get :116 on an already evaluated term *)
Definition resolve_val (s : usubst) (x : value) : value :=
  match x with VConst c => VConst c | VVar v => resolve s v end.

(* functional.EvalExpr :40 over an arbitrary ast.Subst: get v = what subst.Get returns
   for the variable (a constant, or a variable that stays). Every argument of a function
   application must evaluate to a constant (EvalExprs :62: "not a value"). *)
Fixpoint eval_term_g (get : Z -> value) (t : term) : option value :=
  match t with
  | TVar v => Some (get v)
  | TConst c => Some (VConst c)
  | TApp f args =>
      match (fix go (l : list term) : option (list const) :=
               match l with
               | [] => Some []
               | a :: l' => match eval_term_g get a with
                            | Some (VConst c) => match go l' with Some cs => Some (c :: cs) | None => None end
                            | _ => None
                            end
               end) args with
      | Some cs => match eval_fn f cs with Some c => Some (VConst c) | None => None end
      | None => None
      end
  end.

(* the substitution is the union-find itself: a variable evaluates to the root of its class *)
Definition eval_term_uf (s : usubst) (t : term) : option value := eval_term_g (resolve s) t.
Definition eval_args_uf (s : usubst) (ts : list term) : option (list value) := map_opt (eval_term_uf s) ts.

(* one pair of unifyTermsUpdate :207 on two roots: equal -> nothing to do; two different
   constants -> "cannot unify"; otherwise union :65 - a constant becomes the parent of the
   variable, of two variables the LEFT one gets the right one as parent. *)
Definition unify_roots (s : usubst) (a b : value) : option usubst :=
  match a, b with
  | VConst c, VConst d => if const_eqb c d then Some s else None
  | VVar v, VConst c => Some ((v, VConst c) :: s)
  | VConst c, VVar v => Some ((v, VConst c) :: s)
  | VVar v, VVar w => if Z.eqb v w then Some s else Some ((v, VVar w) :: s)
  end.

(* UnifyTermsExtend :177 on one pair of evaluated terms: both sides are looked up again
   (an earlier argument of the same atom may have bound the variable meanwhile: p(X,X)) *)
Definition unify_uf (s : usubst) (a b : value) : option usubst :=
  unify_roots s (resolve_val s a) (resolve_val s b).

(* evaluated pattern arguments against the constant arguments of a stored fact, left to right *)
Fixpoint unify_args_uf (s : usubst) (pvs : list value) (cs : list const) : option usubst :=
  match pvs, cs with
  | [], [] => Some s
  | pv :: pvs', c :: cs' => match unify_uf s pv (VConst c) with
                            | Some s' => unify_args_uf s' pvs' cs'
                            | None => None
                            end
  | _, _ => None
  end.

Definition match_fact_uf (p : Z) (pvs : list value) (s : usubst) (f : fact) : option usubst :=
  if Z.eqb (fst f) p then unify_args_uf s pvs (snd f) else None.

Definition is_vconst (x : value) : bool := match x with VConst _ => true | VVar _ => false end.

(* premises that do not read any store. strict = false is the Go code. strict = true is an
   instrumented evaluator that reports an error where a negated atom or a "!=" is evaluated
   with an argument that is still an unbound variable - the situations in which the Go
   result depends on the premise order (finding N19 for "!=", existential reading of a
   negated atom); CheckRule's hasValue test rejects such clauses. The order-independence
   theorems are about runs of the strict evaluator; the judge runs both and reports when
   they differ. *)
Definition step_pure_uf (strict : bool) (p : premise) (s : usubst) : option (list usubst) :=
  match p with
  | PEq l r =>                                   (* premiseEq :89: a failed unification is "no solution" *)
      match eval_term_uf s l, eval_term_uf s r with
      | Some a, Some b => Some (match unify_uf s a b with Some s' => [s'] | None => [] end)
      | _, _ => None
      end
  | PIneq l r =>                                 (* premiseIneq :101: a solution iff unification fails; with an
                                                    unbound side unification succeeds: no solution *)
      match eval_term_uf s l, eval_term_uf s r with
      | Some a, Some b =>
          if strict && negb (is_vconst a && is_vconst b) then None
          else Some (match unify_uf s a b with Some _ => [] | None => [s] end)
      | _, _ => None
      end
  | PCmp op l r =>                               (* premiseAtom :31 -> builtin.Decide :225, getNumberValues:
                                                    an unbound operand is "not a value" *)
      match eval_term_uf s l, eval_term_uf s r with
      | Some (VConst a), Some (VConst b) =>
          match eval_cmp op a b with
          | Some true => Some [s]
          | Some false => Some []
          | None => None
          end
      | _, _ => None
      end
  | _ => None
  end.

(* engine.oneStepEvalPremise :816 *)
Definition step_uf (strict : bool) (Sneg Spos : list fact) (p : premise) (s : usubst) : option (list usubst) :=
  match p with
  | PAtom a =>
      match eval_args_uf s (aargs a) with
      | None => None
      | Some pvs => Some (fmap (match_fact_uf (apred a) pvs s) Spos)
      end
  | PNeg a =>
      match eval_args_uf s (aargs a) with
      | None => None
      | Some pvs =>
          if strict && negb (forallb is_vconst pvs) then None
          else Some (if existsb (fun f => is_some (match_fact_uf (apred a) pvs s f)) Sneg then [] else [s])
      end
  | _ => step_pure_uf strict p s
  end.

(* the premise loop of oneStepEvalClause :758 *)
Fixpoint solve_uf (strict : bool) (Sneg : list fact) (sel : nat -> list fact) (k : nat) (body : list premise)
         (sols : list usubst) : option (list usubst) :=
  match body with
  | [] => Some sols
  | p :: b => match flat_map_opt (step_uf strict Sneg (sel k) p) sols with
              | None => None
              | Some sols' => solve_uf strict Sneg sel (S k) b sols'
              end
  end.

(* the row of the let path: sol.AsConstSubstList() :37 holds every variable of the
   union-find whose class has a constant; evalLet :78 extends it statement by statement
   (ConstSubstList.Extend puts the new pair in front, Get returns the first hit). The row is
   kept as the pair (lets, s): a variable is looked up in lets first, then in the
   union-find; a variable without a constant is not in the row and stays. *)
Definition urow_get (s : usubst) (lets : subst) (v : Z) : value :=
  match lookup v lets with
  | Some c => VConst c
  | None => match resolve s v with VConst c => VConst c | VVar _ => VVar v end
  end.

Fixpoint run_let_uf (s : usubst) (lets : subst) (stmts : list (Z * term)) : option subst :=
  match stmts with
  | [] => Some lets
  | (v, t) :: rest => match eval_term_g (urow_get s lets) t with
                      | Some (VConst c) => run_let_uf s ((v, c) :: lets) rest
                      | _ => None
                      end
  end.

(* head.ApplySubst(row) on an argument EvalAtom left as a variable (the root of its class) *)
Definition ground_value_uf (s : usubst) (lets : subst) (pv : value) : option const :=
  match pv with
  | VConst c => Some c
  | VVar v => match urow_get s lets v with VConst c => Some c | VVar _ => None end
  end.

(* head of one solution :773-811: EvalAtom on the head under the union-find (:774), then
   the let statements on the row, then the remaining head variables are substituted from
   the row. A head that is not ground afterwards is an error of the model. *)
Definition emit_head_uf (c : clause) (s : usubst) : option fact :=
  match eval_args_uf s (aargs (chead c)) with
  | None => None
  | Some pvs => match run_let_uf s [] (clet c) with
                | None => None
                | Some lets => match map_opt (ground_value_uf s lets) pvs with
                               | Some cs => Some (apred (chead c), cs)
                               | None => None
                               end
                end
  end.

Definition eval_clause_uf (strict : bool) (Sneg : list fact) (sel : nat -> list fact) (c : clause) : option (list fact) :=
  match solve_uf strict Sneg sel 0 (cbody c) [[]] with
  | None => None
  | Some sols => map_opt (emit_head_uf c) sols
  end.

(* ================= the semi-naive loop and the stratum driver over a clause evaluator
   SemiNaive.v (round0, round_delta, loop, eval_stratum) and Strata.v (eval_strata,
   eval_program) word for word, with eval_clause replaced by the parameter ce.
   SolveUFProofs.eval_program_g_solve: with ce = eval_clause they ARE those functions. *)
Section Generic.
Variable ce : list fact -> (nat -> list fact) -> clause -> option (list fact).

Definition round0_g (rules : list clause) (St : list fact) : option (list fact) :=
  flat_map_opt (ce St (sel_all St)) rules.

Definition round_delta_g (drules : list (clause * nat)) (St D : list fact) : option (list fact) :=
  flat_map_opt (fun ci => ce St (sel_delta St D (snd ci)) (fst ci)) drules.

Fixpoint loop_g (fuel : nat) (drules : list (clause * nat)) (St D : list fact) : outcome (list fact) :=
  match fuel with
  | O => OutOfFuel
  | S n =>
      match round_delta_g drules St D with
      | None => EvalError
      | Some derived =>
          let nd := new_delta St D derived in
          let St' := add_all St nd in
          if is_nil nd then Ok St' else loop_g n drules St' nd
      end
  end.

Definition eval_stratum_g (fuel : nat) (rules : list clause) (drules : list (clause * nat))
           (St : list fact) : outcome (list fact) :=
  match round0_g rules St with
  | None => EvalError
  | Some derived =>
      let D0 := add_all [] derived in
      if is_nil D0 then Ok St
      else loop_g fuel drules (add_all St D0) D0
  end.

Fixpoint eval_strata_g (fuel : nat) (strata : list stratum) (St : list fact) : outcome (list fact) :=
  match strata with
  | [] => Ok St
  | s :: rest => match eval_stratum_g fuel (s_rules s) (s_drules s) St with
                 | Ok St' => eval_strata_g fuel rest St'
                 | EvalError => EvalError
                 | OutOfFuel => OutOfFuel
                 end
  end.

Definition eval_program_g (fuel : nat) (P : list clause) (layers : list (list Z))
           (store init : list fact) : outcome (list fact) :=
  eval_strata_g fuel (map (fun ps => mk_stratum P ps ps) layers) (add_all store init).
End Generic.

(* engine.EvalProgram on union-find substitutions *)
Definition eval_program_uf (strict : bool) := eval_program_g (eval_clause_uf strict).
