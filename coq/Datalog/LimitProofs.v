(* Datalog/LimitProofs.v - proofs about the limit model (Limit.v):
   A. simulation: a run of the limited engine that returns LOk is a run of the unlimited
      engine (SemiNaive.v / Strata.v) with the same result, for the same fuel;
   B. bound: the store at any return holds at most nE + (R + 2) * L facts;
   C. termination: T + 1 rounds per stratum are never used up.
   Uses only the model files of C01 (no C01 proof file). *)
From Coq Require Import List ZArith Bool Arith Lia.
From MV Require Import Datalog.Syntax Datalog.Interp Datalog.Solve Datalog.SemiNaive Datalog.Strata
     Datalog.Limit.
Import ListNotations.
Local Open Scope nat_scope.

(* ================================================================ A. simulation *)
Lemma step_all_lim_ok L f sols acc r :
  step_all_lim L f sols acc = ROk r ->
  exists r', flat_map_opt f sols = Some r' /\ r = acc ++ r'.
Proof.
  revert acc r. induction sols as [|s sols IH]; intros acc r H; cbn [step_all_lim flat_map_opt] in *.
  - inversion H; subst. exists []. split; [reflexivity | now rewrite app_nil_r].
  - destruct (f s) as [ss|]; [|discriminate].
    destruct (Nat.ltb L (length (acc ++ ss))); [discriminate|].
    apply IH in H. destruct H as (r' & Hf & Hr). subst r.
    rewrite Hf. exists (ss ++ r'). split; [reflexivity | now rewrite app_assoc].
Qed.

Lemma solve_lim_ok L Sneg sel k body sols r :
  solve_lim L Sneg sel k body sols = ROk r -> solve Sneg sel k body sols = Some r.
Proof.
  revert k sols r. induction body as [|p b IH]; intros k sols r H; cbn [solve_lim solve] in *.
  - now inversion H.
  - destruct (step_all_lim L (step Sneg (sel k) p) sols []) as [sols'| |] eqn:E; try discriminate.
    apply step_all_lim_ok in E. destruct E as (r' & Hf & Hr). cbn [app] in Hr. subst sols'.
    rewrite Hf. now apply IH.
Qed.

Lemma heads_let_ok T n c sols fs :
  heads_let T n c sols = ROk fs -> map_opt (emit_head c) sols = Some fs.
Proof.
  revert fs. induction sols as [|s r IH]; intros fs H; cbn [heads_let map_opt] in *.
  - now inversion H.
  - destruct (emit_head c s) as [f|]; [|discriminate].
    destruct (Nat.ltb T n); [discriminate|].
    destruct (heads_let T n c r) as [gs| |]; try discriminate.
    inversion H; subst. now rewrite (IH gs eq_refl).
Qed.

Lemma heads_lim_ok T n c sols fs :
  heads_lim T n c sols = ROk fs -> map_opt (emit_head c) sols = Some fs.
Proof.
  unfold heads_lim. destruct (clet c).
  - destruct (map_opt (emit_head c) sols); [|discriminate]. now inversion 1.
  - apply heads_let_ok.
Qed.

Lemma eval_clause_lim_ok L T St sel c fs :
  eval_clause_lim L T St sel c = ROk fs -> eval_clause St sel c = Some fs.
Proof.
  unfold eval_clause_lim, eval_clause.
  destruct (solve_lim L St sel 0 (cbody c) [[]]) as [sols| |] eqn:E; try discriminate.
  intros H. rewrite (solve_lim_ok _ _ _ _ _ _ _ E). eapply heads_lim_ok; eauto.
Qed.

Lemma round0_lim_ok L T St rules d :
  round0_lim L T St rules = ROk d -> round0 rules St = Some d.
Proof.
  unfold round0. revert d. induction rules as [|c r IH]; intros d H; cbn [round0_lim flat_map_opt] in *.
  - now inversion H.
  - destruct (eval_clause_lim L T St (sel_all St) c) as [fs| |] eqn:E; try discriminate.
    destruct (round0_lim L T St r) as [gs| |]; try discriminate.
    inversion H; subst. rewrite (eval_clause_lim_ok _ _ _ _ _ _ E), (IH gs eq_refl). reflexivity.
Qed.

(* the step function of SemiNaive.new_delta *)
Definition nd_step (St D : list fact) : list fact -> fact -> list fact :=
  fun acc f => if mem f St || mem f D then acc else add acc f.

Lemma add_derived_ok L St D nd derived nd' :
  add_derived L St D nd derived = Some nd' -> nd' = fold_left (nd_step St D) derived nd.
Proof.
  revert nd. induction derived as [|f r IH]; intros nd H; cbn [add_derived fold_left] in *.
  - now inversion H.
  - destruct (Nat.ltb L _); [discriminate|]. apply IH in H. exact H.
Qed.

Lemma round_delta_lim_ok L T St D drules nd nd' :
  round_delta_lim L T St D drules nd = ROk nd' ->
  exists derived, round_delta drules St D = Some derived /\ nd' = fold_left (nd_step St D) derived nd.
Proof.
  unfold round_delta. revert nd.
  induction drules as [|ci r IH]; intros nd H; cbn [round_delta_lim flat_map_opt] in *.
  - inversion H; subst. exists []. split; reflexivity.
  - destruct (eval_clause_lim L T St (sel_delta St D (snd ci)) (fst ci)) as [fs| |] eqn:E; try discriminate.
    destruct (add_derived L St D nd fs) as [nd1|] eqn:E1; [|discriminate].
    apply IH in H. destruct H as (d & Hd & Hn). subst nd'.
    rewrite (eval_clause_lim_ok _ _ _ _ _ _ E), Hd. exists (fs ++ d). split; [reflexivity|].
    rewrite fold_left_app. now rewrite (add_derived_ok _ _ _ _ _ _ E1).
Qed.

Lemma new_delta_fold St D d : new_delta St D d = fold_left (nd_step St D) d [].
Proof. reflexivity. Qed.

Lemma loop_lim_ok fuel L T drules St D S :
  loop_lim fuel L T drules St D = LOk S -> loop fuel drules St D = Ok S.
Proof.
  revert St D. induction fuel as [|n IH]; intros St D H; cbn [loop_lim loop] in *; [discriminate|].
  destruct (round_delta_lim L T St D drules []) as [nd| |] eqn:E; try discriminate.
  apply round_delta_lim_ok in E. destruct E as (d & Hd & Hn). rewrite <- new_delta_fold in Hn. subst nd.
  rewrite Hd.
  destruct (Nat.ltb T _); [discriminate|].
  destruct (is_nil (new_delta St D d)); [now inversion H|]. now apply IH.
Qed.

Lemma eval_stratum_lim_ok fuel L T rules drules St S :
  eval_stratum_lim fuel L T rules drules St = LOk S -> eval_stratum fuel rules drules St = Ok S.
Proof.
  unfold eval_stratum_lim, eval_stratum.
  destruct (round0_lim L T St rules) as [d| |] eqn:E; try discriminate.
  rewrite (round0_lim_ok _ _ _ _ _ E). cbv zeta.
  destruct (is_nil (add_all [] d)); [now inversion 1|]. apply loop_lim_ok.
Qed.

Lemma eval_strata_lim_ok fuel L T strata St S :
  eval_strata_lim fuel L T strata St = LOk S -> eval_strata fuel strata St = Ok S.
Proof.
  revert St. induction strata as [|s rest IH]; intros St H; cbn [eval_strata_lim eval_strata] in *.
  - now inversion H.
  - destruct (eval_stratum_lim fuel L T (s_rules s) (s_drules s) St) as [St'|St'|St'|] eqn:E; try discriminate.
    rewrite (eval_stratum_lim_ok _ _ _ _ _ _ _ E). now apply IH.
Qed.

Theorem eval_program_lim_ok fuel L P layers store init S :
  eval_program_lim fuel L P layers store init = LOk S ->
  eval_program fuel P layers store init = Ok S.
Proof. unfold eval_program_lim, eval_program. apply eval_strata_lim_ok. Qed.

(* ================================================================ B. bound *)
Lemma add_length_le St f : length (add St f) <= S (length St).
Proof. unfold add. destruct (mem f St); [lia|]. rewrite app_length. cbn. lia. Qed.

Lemma add_length_ge St f : length St <= length (add St f).
Proof. unfold add. destruct (mem f St); [lia|]. rewrite app_length. lia. Qed.

Lemma add_all_length_le l St : length (add_all St l) <= length St + length l.
Proof.
  unfold add_all. revert St. induction l as [|a l IH]; intros St; cbn [fold_left length]; [lia|].
  specialize (IH (add St a)). pose proof (add_length_le St a). lia.
Qed.

Lemma add_all_length_ge l St : length St <= length (add_all St l).
Proof.
  unfold add_all. revert St. induction l as [|a l IH]; intros St; cbn [fold_left]; [lia|].
  specialize (IH (add St a)). pose proof (add_length_ge St a). lia.
Qed.

Lemma step_all_lim_len L f sols acc r :
  step_all_lim L f sols acc = ROk r -> length acc <= L -> length r <= L.
Proof.
  revert acc. induction sols as [|s sols IH]; intros acc H Ha; cbn [step_all_lim] in H.
  - inversion H; subst; exact Ha.
  - destruct (f s) as [ss|]; [|discriminate].
    destruct (Nat.ltb L (length (acc ++ ss))) eqn:E; [discriminate|].
    apply Nat.ltb_ge in E. eapply IH; eauto.
Qed.

Lemma solve_lim_len L Sneg sel k body sols r :
  solve_lim L Sneg sel k body sols = ROk r -> length sols <= L -> length r <= L.
Proof.
  revert k sols. induction body as [|p b IH]; intros k sols H Hs; cbn [solve_lim] in H.
  - inversion H; subst; exact Hs.
  - destruct (step_all_lim L (step Sneg (sel k) p) sols []) as [sols'| |] eqn:E; try discriminate.
    apply step_all_lim_len in E; [|cbn; lia]. eapply IH; eauto.
Qed.

Lemma map_opt_length {A B} (f : A -> option B) l r : map_opt f l = Some r -> length r = length l.
Proof.
  revert r. induction l as [|a l IH]; intros r H; cbn [map_opt] in H.
  - inversion H; reflexivity.
  - destruct (f a); [|discriminate]. destruct (map_opt f l) as [r'|]; [|discriminate].
    inversion H; subst. cbn. now rewrite (IH r' eq_refl).
Qed.

Lemma heads_lim_len T n c sols fs : heads_lim T n c sols = ROk fs -> length fs = length sols.
Proof.
  intros H. apply heads_lim_ok in H. eapply map_opt_length; eauto.
Qed.

Lemma eval_clause_lim_len L T St sel c fs :
  1 <= L -> eval_clause_lim L T St sel c = ROk fs -> length fs <= L.
Proof.
  intros HL. unfold eval_clause_lim.
  destruct (solve_lim L St sel 0 (cbody c) [[]]) as [sols| |] eqn:E; try discriminate.
  intros H. apply heads_lim_len in H. apply solve_lim_len in E; [lia | cbn; lia].
Qed.

Lemma round0_lim_len L T St rules d :
  1 <= L -> round0_lim L T St rules = ROk d -> length d <= length rules * L.
Proof.
  intros HL. revert d. induction rules as [|c r IH]; intros d H; cbn [round0_lim] in H.
  - inversion H; subst. cbn. lia.
  - destruct (eval_clause_lim L T St (sel_all St) c) as [fs| |] eqn:E; try discriminate.
    destruct (round0_lim L T St r) as [gs| |]; try discriminate.
    inversion H; subst. rewrite app_length. apply (eval_clause_lim_len _ _ _ _ _ _ HL) in E.
    specialize (IH gs eq_refl). cbn [length Nat.mul]. lia.
Qed.

Lemma add_derived_len L St D nd derived nd' :
  add_derived L St D nd derived = Some nd' -> length nd <= L -> length nd' <= L.
Proof.
  revert nd. induction derived as [|f r IH]; intros nd H Hn; cbn [add_derived] in H.
  - inversion H; subst; exact Hn.
  - cbv zeta in H. destruct (Nat.ltb L _) eqn:E; [discriminate|].
    apply Nat.ltb_ge in E. eapply IH; eauto.
Qed.

Lemma round_delta_lim_len L T St D drules nd nd' :
  round_delta_lim L T St D drules nd = ROk nd' -> length nd <= L -> length nd' <= L.
Proof.
  revert nd. induction drules as [|ci r IH]; intros nd H Hn; cbn [round_delta_lim] in H.
  - inversion H; subst; exact Hn.
  - destruct (eval_clause_lim L T St (sel_delta St D (snd ci)) (fst ci)) as [fs| |]; try discriminate.
    destruct (add_derived L St D nd fs) as [nd1|] eqn:E1; [|discriminate].
    apply add_derived_len in E1; [|exact Hn]. eapply IH; eauto.
Qed.

(* the store at any return of the loop, and at an Ok return *)
Lemma loop_lim_bound fuel L T drules St D S :
  store_of (loop_lim fuel L T drules St D) = Some S -> length S <= Nat.max (length St) T + L.
Proof.
  revert St D. induction fuel as [|n IH]; intros St D H; cbn [loop_lim] in H; [discriminate|].
  destruct (round_delta_lim L T St D drules []) as [nd| |] eqn:E.
  - apply round_delta_lim_len in E; [|cbn; lia]. cbv zeta in H.
    pose proof (add_all_length_le nd St) as Hle.
    destruct (Nat.ltb T (length (add_all St nd))) eqn:E2.
    + cbn in H. inversion H; subst. lia.
    + apply Nat.ltb_ge in E2. destruct (is_nil nd).
      * cbn in H. inversion H; subst. lia.
      * apply IH in H. lia.
  - cbn in H. inversion H; subst. lia.
  - cbn in H. inversion H; subst. lia.
Qed.

Lemma loop_lim_ok_le fuel L T drules St D S :
  loop_lim fuel L T drules St D = LOk S -> length S <= T.
Proof.
  revert St D. induction fuel as [|n IH]; intros St D H; cbn [loop_lim] in H; [discriminate|].
  destruct (round_delta_lim L T St D drules []) as [nd| |]; try discriminate.
  cbv zeta in H. destruct (Nat.ltb T (length (add_all St nd))) eqn:E2; [discriminate|].
  apply Nat.ltb_ge in E2. destruct (is_nil nd).
  - inversion H; subst. exact E2.
  - eapply IH; eauto.
Qed.

Lemma eval_stratum_lim_bound fuel L T rules drules St S :
  1 <= L -> store_of (eval_stratum_lim fuel L T rules drules St) = Some S ->
  length S <= Nat.max (length St + length rules * L) T + L.
Proof.
  intros HL. unfold eval_stratum_lim.
  destruct (round0_lim L T St rules) as [d| |] eqn:E.
  - apply (round0_lim_len _ _ _ _ _ HL) in E. cbv zeta.
    destruct (is_nil (add_all [] d)).
    + cbn. inversion 1; subst. lia.
    + intros H. apply loop_lim_bound in H.
      pose proof (add_all_length_le (add_all [] d) St). pose proof (add_all_length_le d []).
      cbn [length] in *. lia.
  - cbn. inversion 1; subst. lia.
  - cbn. inversion 1; subst. lia.
Qed.

Lemma eval_stratum_lim_ok_le fuel L T rules drules St S :
  eval_stratum_lim fuel L T rules drules St = LOk S -> length S <= Nat.max (length St) T.
Proof.
  unfold eval_stratum_lim.
  destruct (round0_lim L T St rules) as [d| |]; try discriminate. cbv zeta.
  destruct (is_nil (add_all [] d)).
  - inversion 1; subst. lia.
  - intros H. apply loop_lim_ok_le in H. lia.
Qed.

Lemma eval_strata_lim_bound fuel L T strata St M S :
  1 <= L -> length St <= M -> T <= M ->
  store_of (eval_strata_lim fuel L T strata St) = Some S ->
  length S <= M + (max_rules strata + 1) * L.
Proof.
  intros HL. revert St. induction strata as [|s rest IH]; intros St HSt HT H; cbn [eval_strata_lim max_rules] in *.
  - cbn in H. inversion H; subst. lia.
  - assert (Hm1 : length (s_rules s) * L <= Nat.max (length (s_rules s)) (max_rules rest) * L)
      by (apply Nat.mul_le_mono_r; apply Nat.le_max_l).
    assert (Hm2 : max_rules rest * L <= Nat.max (length (s_rules s)) (max_rules rest) * L)
      by (apply Nat.mul_le_mono_r; apply Nat.le_max_r).
    rewrite Nat.mul_add_distr_r, Nat.mul_1_l.
    destruct (eval_stratum_lim fuel L T (s_rules s) (s_drules s) St) as [St'|St'|St'|] eqn:E.
    + apply eval_stratum_lim_ok_le in E.
      assert (HSt' : length St' <= M) by lia.
      specialize (IH St' HSt' HT H). rewrite Nat.mul_add_distr_r, Nat.mul_1_l in IH. lia.
    + assert (E' : store_of (eval_stratum_lim fuel L T (s_rules s) (s_drules s) St) = Some St') by now rewrite E.
      apply (eval_stratum_lim_bound _ _ _ _ _ _ _ HL) in E'. cbn in H. inversion H; subst. lia.
    + assert (E' : store_of (eval_stratum_lim fuel L T (s_rules s) (s_drules s) St) = Some St') by now rewrite E.
      apply (eval_stratum_lim_bound _ _ _ _ _ _ _ HL) in E'. cbn in H. inversion H; subst. lia.
    + discriminate.
Qed.

Theorem eval_program_lim_bound fuel L P layers store init S :
  1 <= L ->
  store_of (eval_program_lim fuel L P layers store init) = Some S ->
  length S <= limit_bound_fn L (length (add_all store init))
                             (max_rules (map (fun ps => mk_stratum P ps ps) layers)).
Proof.
  intros HL H. unfold eval_program_lim in H. unfold limit_bound_fn.
  pose proof (add_all_length_ge init store) as Hge.
  set (E := add_all store init) in *. set (R := max_rules _) in *.
  apply (eval_strata_lim_bound _ _ _ _ _ (Nat.max (length E) (total_limit L store)) _ HL) in H;
    [| lia | lia].
  unfold total_limit in H.
  rewrite Nat.mul_add_distr_r in *. cbn [Nat.mul] in *. lia.
Qed.

(* ================================================================ C. termination *)
Definition fresh_for (St : list fact) (l : list fact) : Prop := Forall (fun f => mem f St = false) l.

Lemma add_derived_fresh L St D nd derived nd' :
  add_derived L St D nd derived = Some nd' -> fresh_for St nd -> fresh_for St nd'.
Proof.
  unfold fresh_for. revert nd. induction derived as [|f r IH]; intros nd H Hn; cbn [add_derived] in H.
  - inversion H; subst; exact Hn.
  - cbv zeta in H. destruct (Nat.ltb L _); [discriminate|].
    eapply IH; [exact H|].
    destruct (mem f St) eqn:Ef; cbn [orb]; [exact Hn|].
    destruct (mem f D); [exact Hn|].
    unfold add. destruct (mem f nd); [exact Hn|].
    apply Forall_app. split; [exact Hn|]. constructor; [exact Ef | constructor].
Qed.

Lemma round_delta_lim_fresh L T St D drules nd nd' :
  round_delta_lim L T St D drules nd = ROk nd' -> fresh_for St nd -> fresh_for St nd'.
Proof.
  revert nd. induction drules as [|ci r IH]; intros nd H Hn; cbn [round_delta_lim] in H.
  - inversion H; subst; exact Hn.
  - destruct (eval_clause_lim L T St (sel_delta St D (snd ci)) (fst ci)) as [fs| |]; try discriminate.
    destruct (add_derived L St D nd fs) as [nd1|] eqn:E1; [|discriminate].
    apply add_derived_fresh in E1; [|exact Hn]. eapply IH; eauto.
Qed.

Lemma add_all_grows St nd :
  is_nil nd = false -> fresh_for St nd -> length St < length (add_all St nd).
Proof.
  destruct nd as [|f r]; [discriminate|]. intros _ Hf. inversion Hf as [|? ? Hm _]; subst.
  assert (Ha : add St f = St ++ [f]) by (unfold add; now rewrite Hm).
  change (add_all St (f :: r)) with (add_all (add St f) r). rewrite Ha.
  pose proof (add_all_length_ge r (St ++ [f])) as Hge. rewrite app_length in Hge. cbn in Hge. lia.
Qed.

Lemma loop_lim_fuel fuel L T drules St D :
  T - length St < fuel -> loop_lim fuel L T drules St D <> LFuel.
Proof.
  revert St D. induction fuel as [|n IH]; intros St D Hf; [lia|]. cbn [loop_lim].
  destruct (round_delta_lim L T St D drules []) as [nd| |] eqn:E; try discriminate.
  cbv zeta. destruct (Nat.ltb T (length (add_all St nd))) eqn:E2; [discriminate|].
  apply Nat.ltb_ge in E2. destruct (is_nil nd) eqn:En; [discriminate|].
  apply IH. apply round_delta_lim_fresh in E; [|constructor].
  pose proof (add_all_grows St nd En E). lia.
Qed.

Lemma eval_stratum_lim_fuel fuel L T rules drules St :
  T < fuel -> eval_stratum_lim fuel L T rules drules St <> LFuel.
Proof.
  intros Hf. unfold eval_stratum_lim.
  destruct (round0_lim L T St rules) as [d| |]; try discriminate. cbv zeta.
  destruct (is_nil (add_all [] d)); [discriminate|]. apply loop_lim_fuel. lia.
Qed.

Lemma eval_strata_lim_fuel fuel L T strata St :
  T < fuel -> eval_strata_lim fuel L T strata St <> LFuel.
Proof.
  intros Hf. revert St. induction strata as [|s rest IH]; intros St; cbn [eval_strata_lim]; [discriminate|].
  pose proof (eval_stratum_lim_fuel fuel L T (s_rules s) (s_drules s) St Hf) as Hs.
  destruct (eval_stratum_lim fuel L T (s_rules s) (s_drules s) St); try discriminate; [apply IH | congruence].
Qed.

Theorem eval_program_lim_fuel fuel L P layers store init :
  limit_fuel L (length store) <= fuel ->
  eval_program_lim fuel L P layers store init <> LFuel.
Proof.
  unfold limit_fuel, eval_program_lim, total_limit. intros Hf. apply eval_strata_lim_fuel. lia.
Qed.

(* with NoDup layers the rules of a stratum are rules of the program, counted once *)
Lemma rules_of_length P ps : NoDup ps -> length (rules_of P ps) <= length P.
Proof.
  unfold rules_of. revert ps. induction P as [|c P IH]; intros ps Hnd.
  - induction ps as [|p ps IHps]; cbn; [lia|]. inversion Hnd; subst. now apply IHps.
  - specialize (IH ps Hnd).
    assert (H : forall qs, NoDup qs ->
              length (flat_map (fun p => filter (fun c0 => Z.eqb (apred (chead c0)) p) (c :: P)) qs)
              <= (if memZ (apred (chead c)) qs then 1 else 0)
                 + length (flat_map (fun p => filter (fun c0 => Z.eqb (apred (chead c0)) p) P) qs)).
    { induction qs as [|q qs IHq]; intros Hq; cbn [flat_map filter memZ existsb]; [cbn; lia|].
      inversion Hq as [|? ? Hnin Hq']; subst. specialize (IHq Hq'). cbn [filter] in IHq.
      rewrite !app_length. unfold memZ in *.
      destruct (Z.eqb (apred (chead c)) q) eqn:Eq; cbn [orb length].
      - apply Z.eqb_eq in Eq. subst q.
        assert (Hno : existsb (Z.eqb (apred (chead c))) qs = false).
        { destruct (existsb (Z.eqb (apred (chead c))) qs) eqn:Ex; [|reflexivity].
          apply existsb_exists in Ex. destruct Ex as (x & Hin & Hx). apply Z.eqb_eq in Hx. subst x. contradiction. }
        rewrite Hno in IHq. lia.
      - lia. }
    specialize (H ps Hnd). cbn [length]. destruct (memZ (apred (chead c)) ps); lia.
Qed.

Lemma max_rules_le P layers :
  Forall (@NoDup Z) layers -> max_rules (map (fun ps => mk_stratum P ps ps) layers) <= length P.
Proof.
  induction 1 as [|ps layers Hnd _ IH]; cbn [map max_rules]; [lia|].
  cbn [s_rules mk_stratum]. pose proof (rules_of_length P ps Hnd). lia.
Qed.
