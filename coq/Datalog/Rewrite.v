(* Datalog/Rewrite.v - rules with do-transforms and the per-stratum rewriting of
   rewrite/rewrite.go: Rewrite (:36), isSingleAtomPremise (:26), nameGen /
   freshPredicateName (:65-77), makeHead (:79), getVars (:94).
   Models the code AFTER fix F2 (pointer receiver: the counter advances) and fix F2c
   (an atom with a repeated variable or a function application is not a "single atom
   premise"); the pre-fix behaviour is kept as a flag for the refutation witnesses.

   Predicate symbols. The C01 syntax numbers predicates by Z. Here a predicate id IS its
   name: the bytes of the symbol read as a base-256 numeral after a leading 1
   (id_of_name), which is injective on byte strings. Appending text to a name is
   continuing the fold (push_bytes), so fmt.Sprintf("%s%d%s", sym, n, "__tmp") is
   fresh_id sym n. The stores key relations by (symbol, arity); the arity is the length
   of a fact's argument list.
   No proofs in this file. *)
From Coq Require Import List ZArith Bool Decimal.
From MV Require Import Datalog.Syntax.
Import ListNotations.
Open Scope Z_scope.

(* ---- names *)
Definition push_bytes (acc : Z) (bs : list Z) : Z := fold_left (fun a b => a * 256 + b) bs acc.
Definition id_of_name (bs : list Z) : Z := push_bytes 1 bs.

(* %d of a non-negative counter *)
Fixpoint uint_bytes (d : Decimal.uint) : list Z :=
  match d with
  | Decimal.Nil => []
  | Decimal.D0 d => 48 :: uint_bytes d
  | Decimal.D1 d => 49 :: uint_bytes d
  | Decimal.D2 d => 50 :: uint_bytes d
  | Decimal.D3 d => 51 :: uint_bytes d
  | Decimal.D4 d => 52 :: uint_bytes d
  | Decimal.D5 d => 53 :: uint_bytes d
  | Decimal.D6 d => 54 :: uint_bytes d
  | Decimal.D7 d => 55 :: uint_bytes d
  | Decimal.D8 d => 56 :: uint_bytes d
  | Decimal.D9 d => 57 :: uint_bytes d
  end.
Definition dec_bytes (n : Z) : list Z := uint_bytes (N.to_uint (Z.to_N n)).

(* ast.InternalPredicateSuffix = "__tmp" *)
Definition tmp_suffix : list Z := [95; 95; 116; 109; 112].

(* freshPredicateName :73 - the name only; the arity is the number of columns *)
Definition fresh_name (sym : list Z) (n : Z) : list Z := sym ++ dec_bytes n ++ tmp_suffix.
Definition fresh_id (sym : Z) (n : Z) : Z := push_bytes sym (dec_bytes n ++ tmp_suffix).

(* PredicateSym.IsInternalPredicate (ast.go:891): strings.HasSuffix(symbol, "__tmp") *)
Definition is_internal (p : Z) : bool :=
  (1099511627776 <=? p) && (p mod 1099511627776 =? push_bytes 0 tmp_suffix).

(* ---- do-transforms (ast.Transform with Statements[0] = fn:group_by(keys)) *)
Inductive reducer := RCount | RSum | RMin | RMax | RAvg | RCollect | RCollectDistinct.

Inductive dstmt :=
| DReduce (v : Z) (r : reducer) (args : list term)     (* let v = fn:<reducer>(args) *)
| DApply (v : Z) (t : term).                           (* let v = <ordinary function application> *)

Record dotrans := mkDo { d_keys : list Z; d_stmts : list dstmt }.

(* a rule = a C01 clause (head, body, let-statements) plus an optional do-transform.
   r_wild = the variables that stand for the wildcard "_" (the encoder numbers every
   occurrence apart, as in C01; Rewrite deletes "_" from the columns, :54). *)
Record rule := mkRule { r_clause : clause; r_do : option dotrans; r_wild : list Z }.

Definition r_head (r : rule) : Z := apred (chead (r_clause r)).
Definition plain (c : clause) : rule := mkRule c None [].

(* ---- isSingleAtomPremise :26 (built-in comparison atoms are ast.Atom too) *)
Fixpoint distinct_simple (wild seen : list Z) (ts : list term) : bool :=
  match ts with
  | [] => true
  | TConst _ :: r => distinct_simple wild seen r
  | TVar v :: r => if memZ v wild then distinct_simple wild seen r
                   else if memZ v seen then false
                   else distinct_simple wild (v :: seen) r
  | TApp _ _ :: _ => false
  end.

(* strict = after fix F2c; before it any single atom qualified *)
Definition single_atom_premise (strict : bool) (wild : list Z) (b : list premise) : bool :=
  match b with
  | [PAtom a] => if strict then distinct_simple wild [] (aargs a) else true
  | [PCmp _ l r] => if strict then distinct_simple wild [] [l; r] else true
  | _ => false
  end.

(* ---- getVars :94 - atoms (also built-in ones) and equalities contribute variables;
   negated atoms and inequalities do not *)
Fixpoint term_vars (t : term) : list Z :=
  match t with
  | TVar v => [v]
  | TConst _ => []
  | TApp _ args => flat_map term_vars args
  end.

Definition premise_vars (p : premise) : list Z :=
  match p with
  | PAtom a => flat_map term_vars (aargs a)
  | PCmp _ l r => term_vars l ++ term_vars r
  | PEq l r => term_vars l ++ term_vars r
  | PNeg _ => []
  | PIneq _ _ => []
  end.

Definition dedupZ (l : list Z) : list Z :=
  fold_left (fun acc v => if memZ v acc then acc else acc ++ [v]) l [].

(* the variable set of :49-54, in order of first occurrence *)
Definition body_cols (wild : list Z) (b : list premise) : list Z :=
  filter (fun v => negb (memZ v wild)) (dedupZ (flat_map premise_vars b)).

(* ---- Rewrite :36. ord = the column order chosen by makeHead :79 (Go sorts the
   variables by the hash of their names; the order is not observable - the internal
   relation is written and read through the same atom - and is an explicit argument).
   adv = the counter advances (fix F2); strict = fix F2c. *)
Fixpoint rewrite_go (adv strict : bool) (ord : list Z -> list Z) (n : Z) (rs : list rule) : list rule :=
  match rs with
  | [] => []
  | r :: rest =>
      match r_do r with
      | None => r :: rewrite_go adv strict ord n rest
      | Some d =>
          if single_atom_premise strict (r_wild r) (cbody (r_clause r))
          then r :: rewrite_go adv strict ord n rest
          else
            let n' := n + 1 in
            let ip := fresh_id (r_head r) n' in
            let nh := mkAtom ip (map TVar (ord (body_cols (r_wild r) (cbody (r_clause r))))) in
            mkRule (mkClause nh (cbody (r_clause r)) []) None (r_wild r)
            :: mkRule (mkClause (chead (r_clause r)) [PAtom nh] []) (Some d) []
            :: rewrite_go adv strict ord (if adv then n' else n) rest
      end
  end.

Definition rewrite (ord : list Z -> list Z) (rs : list rule) : list rule := rewrite_go true true ord 0 rs.
(* the code before fix F2: every generated name carries the number 1 *)
Definition rewrite_F2 (ord : list Z -> list Z) (rs : list rule) : list rule := rewrite_go false true ord 0 rs.
(* the code before fix F2c *)
Definition rewrite_F2c (ord : list Z -> list Z) (rs : list rule) : list rule := rewrite_go true false ord 0 rs.

(* the names generated by one call, in order *)
Fixpoint fresh_ids (adv strict : bool) (n : Z) (rs : list rule) : list Z :=
  match rs with
  | [] => []
  | r :: rest =>
      match r_do r with
      | None => fresh_ids adv strict n rest
      | Some _ =>
          if single_atom_premise strict (r_wild r) (cbody (r_clause r))
          then fresh_ids adv strict n rest
          else fresh_id (r_head r) (n + 1) :: fresh_ids adv strict (if adv then n + 1 else n) rest
      end
  end.
