(* Datalog/InvarianceRename.v - an injective renaming of predicate symbols (package
   prefixing) and an injective renaming of the variables of a clause (alpha-renaming)
   commute with the least model; the set-equality observer of the check. *)
From Coq Require Import List ZArith Bool Lia.
From MV Require Import Datalog.Syntax Datalog.SyntaxProofs Datalog.Interp Datalog.Solve Datalog.Lfp
     Datalog.SolveProofs Datalog.SemiNaive Datalog.SemiNaiveProofs Datalog.Strata Datalog.StrataProofs
     Datalog.Invariance Datalog.InvarianceProofs.
Import ListNotations.
Open Scope Z_scope.

Lemma same_set_correct a b : same_set a b = true <-> (forall f, In f a <-> In f b).
Proof.
  unfold same_set. rewrite andb_true_iff, !forallb_forall. split.
  - intros [H1 H2] f. split; intros H; [apply mem_spec, H1 | apply mem_spec, H2]; exact H.
  - intros H. split; intros f Hf; apply mem_spec; apply H; exact Hf.
Qed.

Lemma sat_nil_iff N sel k s t : sat N sel k [] s t <-> s = t.
Proof. split; [intros H; inversion H; auto | intros ->; constructor]. Qed.

Lemma sat_cons_iff N sel k p b s t :
  sat N sel k (p :: b) s t <-> exists u, holds N (sel k) p s u /\ sat N sel (S k) b u t.
Proof.
  split; [intros H; inversion H; subst; eauto | intros (u & H1 & H2); econstructor; eauto].
Qed.

(* ============================ predicates ============================ *)
Section Preds.
Variable r : Z -> Z.
Hypothesis Hinj : injective r.

Lemma match_fact_rp p pvs s f : match_fact (r p) pvs s (rp_fact r f) = match_fact p pvs s f.
Proof.
  unfold match_fact, rp_fact. simpl. destruct (Z.eqb_spec (fst f) p) as [->|Hne].
  - rewrite Z.eqb_refl. reflexivity.
  - destruct (Z.eqb_spec (r (fst f)) (r p)) as [He|_]; [apply Hinj in He; contradiction | reflexivity].
Qed.

Lemma step_pure_rp p s : step_pure (rp_premise r p) s = step_pure p s.
Proof. destruct p; reflexivity. Qed.

Lemma holds_rp N I p s u :
  holds N I p s u <-> holds (rp_set r N) (map (rp_fact r) I) (rp_premise r p) s u.
Proof.
  split.
  - intros H. destruct H as [a s pvs f u He Hf Hm | a s pvs He Hall | p s us u He Hu]; simpl.
    + apply holds_atom with (pvs := pvs) (f := rp_fact r f);
        [exact He | apply in_map; exact Hf | simpl; rewrite match_fact_rp; exact Hm].
    + apply holds_neg with (pvs := pvs); [exact He|]. intros g (f & -> & Hf). simpl.
      rewrite match_fact_rp. apply Hall. exact Hf.
    + apply holds_pure with (us := us); [rewrite step_pure_rp; exact He | exact Hu].
  - destruct p as [a|a|l r0|l r0|op l r0]; simpl; intros H.
    + apply holds_atom_inv in H as (pvs & g & He & Hg & Hm). simpl in He, Hm.
      apply in_map_iff in Hg as (f & <- & Hf). rewrite match_fact_rp in Hm.
      apply holds_atom with (pvs := pvs) (f := f); assumption.
    + apply holds_neg_inv in H as (-> & pvs & He & Hall). simpl in He, Hall.
      apply holds_neg with (pvs := pvs); [exact He|]. intros f Hf. rewrite <- match_fact_rp.
      apply Hall. exists f. split; [reflexivity | exact Hf].
    + apply holds_pure_inv in H as (us & He & Hu); try (intros; discriminate).
      apply holds_pure with (us := us); assumption.
    + apply holds_pure_inv in H as (us & He & Hu); try (intros; discriminate).
      apply holds_pure with (us := us); assumption.
    + apply holds_pure_inv in H as (us & He & Hu); try (intros; discriminate).
      apply holds_pure with (us := us); assumption.
Qed.

Lemma sat_rp N sel b : forall k s t,
  sat N sel k b s t <->
  sat (rp_set r N) (fun j => map (rp_fact r) (sel j)) k (map (rp_premise r) b) s t.
Proof.
  induction b as [|p b IH]; intros k s t; simpl.
  - rewrite !sat_nil_iff. tauto.
  - rewrite !sat_cons_iff. split; intros (u & H1 & H2); exists u; split.
    + apply (proj1 (holds_rp _ _ _ _ _)). exact H1.
    + apply (proj1 (IH _ _ _)). exact H2.
    + apply (proj2 (holds_rp _ _ _ _ _)). exact H1.
    + apply (proj2 (IH _ _ _)). exact H2.
Qed.

Lemma emit_head_rp c t : emit_head (rp_clause r c) t = option_map (rp_fact r) (emit_head c t).
Proof.
  unfold emit_head. simpl. destruct (eval_args t (aargs (chead c))); [|reflexivity].
  destruct (run_let t (clet c)); [|reflexivity]. destruct (map_opt _ _); reflexivity.
Qed.

Lemma derives_rp N I c g :
  derives (rp_set r N) (map (rp_fact r) I) (rp_clause r c) g <->
  exists f, g = rp_fact r f /\ derives N I c f.
Proof.
  unfold derives. split.
  - intros (t & Hs & He). rewrite emit_head_rp in He.
    destruct (emit_head c t) as [f|] eqn:Hf; [|discriminate]. injection He as <-.
    exists f. split; [reflexivity|]. exists t. split; [|exact Hf].
    exact (proj2 (sat_rp N (fun _ => I) (cbody c) 0%nat [] t) Hs).
  - intros (f & -> & t & Hs & He). exists t. split.
    + exact (proj1 (sat_rp N (fun _ => I) (cbody c) 0%nat [] t) Hs).
    + rewrite emit_head_rp, He. reflexivity.
Qed.

Lemma lfp_rp_fwd R (B : factset) f :
  lfp R B f -> lfp (map (rp_clause r) R) (rp_set r B) (rp_fact r f).
Proof.
  induction 1 as [f Hf | I c f _ IH Hc Hd].
  - apply lfp_base. exists f. split; [reflexivity | exact Hf].
  - apply lfp_step with (I := map (rp_fact r) I) (c := rp_clause r c).
    + intros g Hg. apply in_map_iff in Hg as (f0 & <- & Hf0). apply IH. exact Hf0.
    + apply in_map. exact Hc.
    + apply derives_rp. exists f. split; [reflexivity | exact Hd].
Qed.

Lemma preimage_list (Q : fact -> Prop) I' :
  (forall g, In g I' -> exists f, g = rp_fact r f /\ Q f) ->
  exists I, I' = map (rp_fact r) I /\ forall f, In f I -> Q f.
Proof.
  induction I' as [|g I' IH]; intros H.
  - exists []. split; [reflexivity | intros f []].
  - destruct (H g (or_introl eq_refl)) as (f & -> & Hf).
    destruct IH as (I & -> & HI); [intros g' Hg'; apply H; right; exact Hg'|].
    exists (f :: I). split; [reflexivity|]. intros f' [<-|Hf']; auto.
Qed.

Lemma lfp_rp_bwd R (B : factset) g :
  lfp (map (rp_clause r) R) (rp_set r B) g -> exists f, g = rp_fact r f /\ lfp R B f.
Proof.
  induction 1 as [g Hg | I' c' g _ IH Hc Hd].
  - destruct Hg as (f & -> & Hf). exists f. split; [reflexivity | apply lfp_base; exact Hf].
  - apply in_map_iff in Hc as (c & <- & Hc).
    destruct (preimage_list (lfp R B) I' IH) as (I & -> & HI).
    apply derives_rp in Hd as (f & -> & Hd). exists f. split; [reflexivity|].
    apply lfp_step with (I := I) (c := c); assumption.
Qed.

Lemma lfp_rp R (B : factset) g :
  lfp (map (rp_clause r) R) (rp_set r B) g <-> rp_set r (lfp R B) g.
Proof.
  split; [apply lfp_rp_bwd|]. intros (f & -> & Hf). apply lfp_rp_fwd. exact Hf.
Qed.

Lemma layer_rules_rp P ps c' :
  In c' (layer_rules (map (rp_clause r) P) (map r ps)) <-> In c' (map (rp_clause r) (layer_rules P ps)).
Proof.
  rewrite in_layer_rules, !in_map_iff. split.
  - intros ((c & <- & Hc) & (q & Hq & Hqs)). simpl in Hq.
    apply Hinj in Hq. subst q. exists c. split; [reflexivity|]. apply in_layer_rules. split; assumption.
  - intros (c & <- & Hc). apply in_layer_rules in Hc as (Hc & Hh). split; [exists c; split; [reflexivity | exact Hc]|].
    exists (apred (chead c)). split; [reflexivity | exact Hh].
Qed.

Lemma slfp_rp P layers : forall (B : factset) g,
  slfp (map (rp_clause r) P) (map (map r) layers) (rp_set r B) g <-> rp_set r (slfp P layers B) g.
Proof.
  induction layers as [|ps rest IH]; intros B g; simpl; [tauto|].
  rewrite <- IH. apply slfp_ext. intros h. rewrite <- lfp_rp. split; apply lfp_ext.
  - apply layer_rules_rp.
  - intros x; tauto.
  - intros c. apply iff_sym. apply layer_rules_rp.
  - intros x; tauto.
Qed.
End Preds.

(* ============================ variables ============================ *)
Definition eval_consts (s : subst) (l : list term) : option (list const) :=
  map_opt (fun a => match eval_term s a with Some (VConst c) => Some c | _ => None end) l.

Lemma eval_term_app s f args :
  eval_term s (TApp f args) =
  match eval_consts s args with
  | Some cs => match eval_fn f cs with Some c => Some (VConst c) | None => None end
  | None => None
  end.
Proof.
  cbn [eval_term].
  match goal with |- match ?g args with _ => _ end = _ => assert (E : forall l, g l = eval_consts s l) end.
  { induction l as [|a l IHl]; [reflexivity|]. unfold eval_consts. cbn [map_opt]. fold (eval_consts s l).
    rewrite <- IHl. destruct (eval_term s a) as [[c|x]|]; reflexivity. }
  rewrite E. reflexivity.
Qed.

Lemma term_ind2 (Q : term -> Prop) :
  (forall x, Q (TVar x)) -> (forall c, Q (TConst c)) ->
  (forall f args, Forall Q args -> Q (TApp f args)) -> forall t, Q t.
Proof.
  intros H1 H2 H3. fix IH 1. intros [x|c|f args]; [apply H1 | apply H2 | apply H3].
  induction args as [|a args IHa]; constructor; [apply IH | exact IHa].
Qed.

Section Vars.
Variable v : Z -> Z.
Hypothesis Vinj : injective v.

Notation rs := (rn_subst v).
Notation rv := (rn_value v).

Lemma lookup_rn x s : lookup (v x) (rs s) = lookup x s.
Proof.
  induction s as [|[w c] s IH]; simpl; [reflexivity|].
  destruct (Z.eqb_spec x w) as [->|Hne].
  - rewrite Z.eqb_refl. reflexivity.
  - destruct (Z.eqb_spec (v x) (v w)) as [He|_]; [apply Vinj in He; contradiction | exact IH].
Qed.

Lemma eval_term_rn s t : eval_term (rs s) (rn_term v t) = option_map rv (eval_term s t).
Proof.
  induction t as [x|c|f args IH] using term_ind2.
  - simpl. rewrite lookup_rn. destruct (lookup x s); reflexivity.
  - reflexivity.
  - cbn [rn_term]. rewrite !eval_term_app.
    assert (E : eval_consts (rs s) (map (rn_term v) args) = eval_consts s args).
    { unfold eval_consts. induction IH as [|a args Ha _ IHl]; [reflexivity|]. cbn [map map_opt].
      rewrite Ha, IHl. destruct (eval_term s a) as [[c|x]|]; reflexivity. }
    rewrite E. destruct (eval_consts s args) as [cs|]; [|reflexivity].
    destruct (eval_fn f cs); reflexivity.
Qed.

Lemma eval_args_rn s ts : eval_args (rs s) (map (rn_term v) ts) = option_map (map rv) (eval_args s ts).
Proof.
  unfold eval_args. induction ts as [|t ts IH]; [reflexivity|]. cbn [map map_opt].
  rewrite eval_term_rn, IH. destruct (eval_term s t); [|reflexivity]. simpl.
  destruct (map_opt (eval_term s) ts); reflexivity.
Qed.

Lemma unify1_rn s pv c : unify1 (rs s) (rv pv) c = option_map rs (unify1 s pv c).
Proof.
  destruct pv as [d|y]; simpl.
  - destruct (const_eqb d c); reflexivity.
  - rewrite lookup_rn. destruct (lookup y s) as [d|]; [destruct (const_eqb d c); reflexivity | reflexivity].
Qed.

Lemma unify_args_rn pvs : forall s cs,
  unify_args (rs s) (map rv pvs) cs = option_map rs (unify_args s pvs cs).
Proof.
  induction pvs as [|pv pvs IH]; intros s [|c cs]; simpl; try reflexivity.
  rewrite unify1_rn. destruct (unify1 s pv c); simpl; [apply IH | reflexivity].
Qed.

Lemma match_fact_rn p pvs s f : match_fact p (map rv pvs) (rs s) f = option_map rs (match_fact p pvs s f).
Proof. unfold match_fact. destruct (Z.eqb (fst f) p); [apply unify_args_rn | reflexivity]. Qed.

Lemma step_pure_rn p s : step_pure (rn_premise v p) (rs s) = option_map (map rs) (step_pure p s).
Proof.
  destruct p as [a|a|l r|l r|op l r]; simpl; try reflexivity.
  - rewrite !eval_term_rn.
    destruct (eval_term s l) as [[a|x]|], (eval_term s r) as [[b|y]|]; simpl; try reflexivity.
    + destruct (const_eqb a b); reflexivity.
    + destruct (Z.eqb_spec x y) as [->|Hne]; [rewrite Z.eqb_refl; reflexivity|].
      destruct (Z.eqb_spec (v x) (v y)) as [He|_]; [apply Vinj in He; contradiction | reflexivity].
  - rewrite !eval_term_rn.
    destruct (eval_term s l) as [[a|x]|], (eval_term s r) as [[b|y]|]; simpl; try reflexivity.
    destruct (const_eqb a b); reflexivity.
  - rewrite !eval_term_rn.
    destruct (eval_term s l) as [[a|x]|], (eval_term s r) as [[b|y]|]; simpl; try reflexivity.
    destruct (eval_cmp op a b) as [[|]|]; reflexivity.
Qed.

Lemma holds_rn N I p s u' :
  holds N I (rn_premise v p) (rs s) u' <-> exists u, u' = rs u /\ holds N I p s u.
Proof.
  split.
  - destruct p as [a|a|l r|l r|op l r]; simpl; intros H.
    + apply holds_atom_inv in H as (pvs' & f & He & Hf & Hm). simpl in He, Hm.
      rewrite eval_args_rn in He. destruct (eval_args s (aargs a)) as [pvs|] eqn:Hpv; [|discriminate].
      injection He as <-. rewrite match_fact_rn in Hm.
      destruct (match_fact (apred a) pvs s f) as [u|] eqn:Hu; [|discriminate]. injection Hm as <-.
      exists u. split; [reflexivity|]. apply holds_atom with (pvs := pvs) (f := f); assumption.
    + apply holds_neg_inv in H as (-> & pvs' & He & Hall). simpl in He, Hall.
      rewrite eval_args_rn in He. destruct (eval_args s (aargs a)) as [pvs|] eqn:Hpv; [|discriminate].
      injection He as <-. exists s. split; [reflexivity|].
      apply holds_neg with (pvs := pvs); [exact Hpv|]. intros f Hf. specialize (Hall f Hf).
      rewrite match_fact_rn in Hall. destruct (match_fact (apred a) pvs s f); [discriminate | reflexivity].
    + apply holds_pure_inv in H as (us' & He & Hu); try (intros; discriminate).
      change (step_pure (rn_premise v (PEq l r)) (rs s) = Some us') in He. rewrite step_pure_rn in He.
      destruct (step_pure (PEq l r) s) as [us|] eqn:Hus; [|discriminate]. injection He as <-.
      apply in_map_iff in Hu as (u & <- & Hu). exists u. split; [reflexivity|].
      apply holds_pure with (us := us); assumption.
    + apply holds_pure_inv in H as (us' & He & Hu); try (intros; discriminate).
      change (step_pure (rn_premise v (PIneq l r)) (rs s) = Some us') in He. rewrite step_pure_rn in He.
      destruct (step_pure (PIneq l r) s) as [us|] eqn:Hus; [|discriminate]. injection He as <-.
      apply in_map_iff in Hu as (u & <- & Hu). exists u. split; [reflexivity|].
      apply holds_pure with (us := us); assumption.
    + apply holds_pure_inv in H as (us' & He & Hu); try (intros; discriminate).
      change (step_pure (rn_premise v (PCmp op l r)) (rs s) = Some us') in He. rewrite step_pure_rn in He.
      destruct (step_pure (PCmp op l r) s) as [us|] eqn:Hus; [|discriminate]. injection He as <-.
      apply in_map_iff in Hu as (u & <- & Hu). exists u. split; [reflexivity|].
      apply holds_pure with (us := us); assumption.
  - intros (u & -> & H). destruct H as [a s pvs f u He Hf Hm | a s pvs He Hall | p s us u He Hu]; simpl.
    + apply holds_atom with (pvs := map rv pvs) (f := f).
      * simpl. rewrite eval_args_rn, He. reflexivity.
      * exact Hf.
      * simpl. rewrite match_fact_rn, Hm. reflexivity.
    + apply holds_neg with (pvs := map rv pvs).
      * simpl. rewrite eval_args_rn, He. reflexivity.
      * intros f Hf. simpl. rewrite match_fact_rn, (Hall f Hf). reflexivity.
    + apply holds_pure with (us := map rs us); [rewrite step_pure_rn, He; reflexivity | apply in_map; exact Hu].
Qed.

Lemma sat_rn N sel b : forall k s t',
  sat N sel k (map (rn_premise v) b) (rs s) t' <-> exists t, t' = rs t /\ sat N sel k b s t.
Proof.
  induction b as [|p b IH]; intros k s t'; simpl.
  - rewrite sat_nil_iff. split.
    + intros <-. exists s. split; [reflexivity | constructor].
    + intros (t & -> & H). apply sat_nil_iff in H. subst. reflexivity.
  - rewrite sat_cons_iff. split.
    + intros (u' & H1 & H2). apply holds_rn in H1 as (u & -> & H1). apply IH in H2 as (t & -> & H2).
      exists t. split; [reflexivity|]. econstructor; eauto.
    + intros (t & -> & H). apply sat_cons_iff in H as (u & H1 & H2). exists (rs u). split.
      * apply holds_rn. exists u. split; [reflexivity | exact H1].
      * apply IH. exists t. split; [reflexivity | exact H2].
Qed.

Lemma run_let_rn stmts : forall s,
  run_let (rs s) (map (fun xt => (v (fst xt), rn_term v (snd xt))) stmts) = option_map rs (run_let s stmts).
Proof.
  induction stmts as [|[x t] stmts IH]; intros s; simpl; [reflexivity|].
  rewrite eval_term_rn. destruct (eval_term s t) as [[c|y]|]; simpl; try reflexivity.
  apply (IH ((x, c) :: s)).
Qed.

Lemma ground_value_rn s pv : ground_value (rs s) (rv pv) = ground_value s pv.
Proof. destruct pv; simpl; [reflexivity | apply lookup_rn]. Qed.

Lemma map_opt_ground_rn s pvs : map_opt (ground_value (rs s)) (map rv pvs) = map_opt (ground_value s) pvs.
Proof.
  induction pvs as [|pv pvs IH]; [reflexivity|]. cbn [map map_opt]. rewrite ground_value_rn, IH. reflexivity.
Qed.

Lemma emit_head_rn c t : emit_head (rn_clause v c) (rs t) = emit_head c t.
Proof.
  unfold emit_head. simpl. rewrite eval_args_rn.
  destruct (eval_args t (aargs (chead c))) as [pvs|]; simpl; [|reflexivity].
  rewrite run_let_rn. destruct (run_let t (clet c)) as [t'|]; simpl; [|reflexivity].
  rewrite map_opt_ground_rn. reflexivity.
Qed.

Lemma derives_rn N I c f : derives N I (rn_clause v c) f <-> derives N I c f.
Proof.
  unfold derives. split.
  - intros (t' & Hs & He).
    apply (sat_rn N (fun _ => I) (cbody c) 0%nat [] t') in Hs as (t & -> & Hs).
    rewrite emit_head_rn in He. exists t. split; assumption.
  - intros (t & Hs & He). exists (rs t). split; [|rewrite emit_head_rn; exact He].
    apply (sat_rn N (fun _ => I) (cbody c) 0%nat [] (rs t)). exists t. split; [reflexivity | exact Hs].
Qed.
End Vars.

Lemma lfp_derives_ext R R' (B : factset) :
  (forall c, In c R -> exists c', In c' R' /\ forall N I f, derives N I c f -> derives N I c' f) ->
  forall f, lfp R B f -> lfp R' B f.
Proof.
  intros H f Hf. induction Hf as [f Hf | I c f _ IH Hc Hd].
  - apply lfp_base. exact Hf.
  - destruct (H c Hc) as (c' & Hc' & Hdd). apply lfp_step with (I := I) (c := c'); auto.
Qed.

Lemma alpha_derives c c' : alpha c c' -> forall N I f, derives N I c f <-> derives N I c' f.
Proof. intros (v & Hv & ->) N I f. apply iff_sym. apply derives_rn. exact Hv. Qed.

Lemma alpha_head c c' : alpha c c' -> apred (chead c') = apred (chead c).
Proof. intros (v & _ & ->). reflexivity. Qed.

Lemma Forall2_in_l {A B} (Q : A -> B -> Prop) l l' x :
  Forall2 Q l l' -> In x l -> exists y, In y l' /\ Q x y.
Proof.
  induction 1 as [|a b l l' Hab _ IH]; intros Hx; [destruct Hx|].
  destruct Hx as [<-|Hx]; [exists b; split; [left; reflexivity | exact Hab]|].
  destruct (IH Hx) as (y & Hy & Hq). exists y. split; [right; exact Hy | exact Hq].
Qed.

Lemma Forall2_in_r {A B} (Q : A -> B -> Prop) l l' y :
  Forall2 Q l l' -> In y l' -> exists x, In x l /\ Q x y.
Proof.
  induction 1 as [|a b l l' Hab _ IH]; intros Hy; [destruct Hy|].
  destruct Hy as [<-|Hy]; [exists a; split; [left; reflexivity | exact Hab]|].
  destruct (IH Hy) as (x & Hx & Hq). exists x. split; [right; exact Hx | exact Hq].
Qed.

Theorem lfp_alpha R R' (B : factset) :
  Forall2 alpha R R' -> forall f, lfp R B f <-> lfp R' B f.
Proof.
  intros H f. split; apply lfp_derives_ext.
  - intros c Hc. destruct (Forall2_in_l _ _ _ _ H Hc) as (c' & Hc' & Ha). exists c'. split; [exact Hc'|].
    intros N I g. apply (alpha_derives _ _ Ha).
  - intros c' Hc'. destruct (Forall2_in_r _ _ _ _ H Hc') as (c & Hc & Ha). exists c. split; [exact Hc|].
    intros N I g. apply (alpha_derives _ _ Ha).
Qed.

Theorem slfp_alpha P P' layers :
  Forall2 alpha P P' -> forall (B : factset) f, slfp P layers B f <-> slfp P' layers B f.
Proof.
  intros H. induction layers as [|ps rest IH]; intros B f; simpl; [tauto|].
  rewrite IH. apply slfp_ext. intros g. split; apply lfp_derives_ext.
  - intros c Hc. apply in_layer_rules in Hc as (Hc & Hh).
    destruct (Forall2_in_l _ _ _ _ H Hc) as (c' & Hc' & Ha). exists c'. split.
    + apply in_layer_rules. split; [exact Hc'|]. rewrite (alpha_head _ _ Ha). exact Hh.
    + intros N I h. apply (alpha_derives _ _ Ha).
  - intros c' Hc'. apply in_layer_rules in Hc' as (Hc' & Hh).
    destruct (Forall2_in_r _ _ _ _ H Hc') as (c & Hc & Ha). exists c. split.
    + apply in_layer_rules. split; [exact Hc|]. rewrite <- (alpha_head _ _ Ha). exact Hh.
    + intros N I h. apply (alpha_derives _ _ Ha).
Qed.

(* ============================ the engine model ============================ *)
Theorem eval_program_rp r : injective r -> forall fuel fuel' P L store init Res Res',
  valid_stratification P L -> valid_stratification (map (rp_clause r) P) (map (map r) L) ->
  eval_program fuel P L store init = Ok Res ->
  eval_program fuel' (map (rp_clause r) P) (map (map r) L) (map (rp_fact r) store) (map (rp_fact r) init) = Ok Res' ->
  forall g, In g Res' <-> exists f, g = rp_fact r f /\ In f Res.
Proof.
  intros Hr fuel fuel' P L store init Res Res' V V' H H' g.
  rewrite (eval_program_exact _ _ _ _ _ _ V' H' g).
  rewrite (slfp_ext _ _ _ (rp_set r (fun f => In f (add_all store init)))).
  - rewrite (slfp_rp r Hr). unfold rp_set.
    split; intros (f & -> & Hf); exists f; (split; [reflexivity|]);
      apply (eval_program_exact _ _ _ _ _ _ V H f); exact Hf.
  - intros h. unfold rp_set. rewrite add_all_in, !in_map_iff. split.
    + intros [(f & <- & Hf)|(f & <- & Hf)]; exists f; (split; [reflexivity|]); apply add_all_in; auto.
    + intros (f & -> & Hf). apply add_all_in in Hf as [Hf|Hf]; [left|right]; exists f; auto.
Qed.

Theorem eval_program_alpha fuel fuel' P P' L store init Res Res' :
  Forall2 alpha P P' -> valid_stratification P L -> valid_stratification P' L ->
  eval_program fuel P L store init = Ok Res -> eval_program fuel' P' L store init = Ok Res' ->
  forall f, In f Res <-> In f Res'.
Proof.
  intros Ha V V' H H' f.
  rewrite (eval_program_exact _ _ _ _ _ _ V H f), (eval_program_exact _ _ _ _ _ _ V' H' f).
  apply slfp_alpha. exact Ha.
Qed.
