(* Datalog/SemiNaive.v - the per-stratum semi-naive loop, engine.eval
   (engine/seminaivebottomup.go:513-616) AFTER fix F1 (the new delta is assigned before
   mergeDelta), plus the pre-fix variant kept for the refutation witness.
   Stores are duplicate-free lists (FactStore.Add ignores a fact already present); the
   iteration order of the Go maps is not modelled - results are compared as sets and
   the order of rules / delta rules is an explicit argument.
   No proofs in this file. *)
From Coq Require Import List ZArith Bool.
From MV Require Import Datalog.Syntax Datalog.Interp Datalog.Solve.
Import ListNotations.
Open Scope Z_scope.

Inductive outcome (A : Type) :=
| Ok (a : A)          (* evaluation returned nil *)
| EvalError           (* a premise / function / head evaluation returned an error *)
| OutOfFuel.          (* the model's round budget is exhausted (Go would keep running) *)
Arguments Ok {A} a.
Arguments EvalError {A}.
Arguments OutOfFuel {A}.

Definition mem (f : fact) (l : list fact) : bool := existsb (fact_eqb f) l.

(* FactStore.Add *)
Definition add (St : list fact) (f : fact) : list fact := if mem f St then St else St ++ [f].
Definition add_all (St : list fact) (l : list fact) : list fact := fold_left add l St.

(* which store the positive atom at body position k reads *)
Definition sel_all (St : list fact) : nat -> list fact := fun _ => St.
(* makeSingleDeltaRule :351 - only position i is renamed to the delta predicate *)
Definition sel_delta (St D : list fact) (i : nat) : nat -> list fact :=
  fun k => if Nat.eqb k i then D else St.

(* first round :516-544: every rule against the store; everything derived goes to the
   delta store (also facts the store already has) *)
Definition round0 (rules : list clause) (St : list fact) : option (list fact) :=
  flat_map_opt (eval_clause St (sel_all St)) rules.

(* one incremental round :572-603: every delta rule (clause, delta position) *)
Definition round_delta (drules : list (clause * nat)) (St D : list fact) : option (list fact) :=
  flat_map_opt (fun ci => eval_clause St (sel_delta St D (snd ci)) (fst ci)) drules.

(* :595 - a derived fact enters newDeltaStore unless store or deltaStore contain it *)
Definition new_delta (St D : list fact) (derived : list fact) : list fact :=
  fold_left (fun acc f => if mem f St || mem f D then acc else add acc f) derived [].

Definition is_nil {A} (l : list A) : bool := match l with [] => true | _ => false end.

(* the incremental loop :565-615 after fix F1:
     e.deltaStore = newDeltaStore; e.mergeDelta(); if !incrementalFactAdded { break } *)
Fixpoint loop (fuel : nat) (drules : list (clause * nat)) (St D : list fact) : outcome (list fact) :=
  match fuel with
  | O => OutOfFuel
  | S n =>
      match round_delta drules St D with
      | None => EvalError
      | Some derived =>
          let nd := new_delta St D derived in
          let St' := add_all St nd in
          if is_nil nd then Ok St' else loop n drules St' nd
      end
  end.

(* engine.eval for one stratum: rules in first-round order, delta rules in the order of
   the flattened deltaRules slice :558-561 *)
Definition eval_stratum (fuel : nat) (rules : list clause) (drules : list (clause * nat))
           (St : list fact) : outcome (list fact) :=
  match round0 rules St with
  | None => EvalError
  | Some derived =>
      let D0 := add_all [] derived in
      if is_nil D0 then Ok St                       (* :545 no incremental rounds *)
      else loop fuel drules (add_all St D0) D0      (* :562 mergeDelta, then the loop *)
  end.

(* ---- the loop as it was before fix F1:
     e.mergeDelta() (merges the PREVIOUS delta); e.deltaStore = newDeltaStore; break? *)
Fixpoint loop_prefix (fuel : nat) (drules : list (clause * nat)) (St D : list fact) : outcome (list fact) :=
  match fuel with
  | O => OutOfFuel
  | S n =>
      match round_delta drules St D with
      | None => EvalError
      | Some derived =>
          let nd := new_delta St D derived in
          let St' := add_all St D in
          if is_nil nd then Ok St' else loop_prefix n drules St' nd
      end
  end.

Definition eval_stratum_prefix (fuel : nat) (rules : list clause) (drules : list (clause * nat))
           (St : list fact) : outcome (list fact) :=
  match round0 rules St with
  | None => EvalError
  | Some derived =>
      let D0 := add_all [] derived in
      if is_nil D0 then Ok St else loop_prefix fuel drules (add_all St D0) D0
  end.
