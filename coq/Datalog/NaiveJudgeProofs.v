(* Datalog/NaiveJudgeProofs.v - what verdict 0 of Run/C20.v judge means for the two fact
   sets observed on the Go side: they are equal as sets (the property on that input),
   and each equals the result of its model. *)
From Coq Require Import List ZArith Bool Lia.
From MV Require Import Datalog.Syntax Datalog.SyntaxProofs Datalog.SemiNaive Datalog.SemiNaiveProofs Run.C20.
Import ListNotations.
Open Scope Z_scope.

Lemma subset_spec a b : subset a b = true <-> forall f, In f a -> In f b.
Proof.
  unfold subset. rewrite forallb_forall. split; intros H f Hf.
  - apply mem_spec. apply H. exact Hf.
  - apply mem_spec. apply H. exact Hf.
Qed.

Lemma set_eqb_spec a b : set_eqb a b = true <-> forall f, In f a <-> In f b.
Proof.
  unfold set_eqb. rewrite andb_true_iff, !subset_spec. split.
  - intros [H1 H2] f. split; auto.
  - intros H. split; intros f; apply H.
Qed.

Lemma judge_zero c gn gs :
  c_naive c = OFacts gn -> c_semi c = OFacts gs -> judge c = 0 ->
  (forall f, In f gn <-> In f gs) /\
  exists mn ms, model_naive c = Ok mn /\ model_semi c = Ok ms /\
                (forall f, In f mn <-> In f gn) /\ (forall f, In f ms <-> In f gs).
Proof.
  intros Hn Hs. unfold judge. rewrite Hn, Hs.
  destruct (model_naive c) as [mn| |]; destruct (model_semi c) as [ms| |];
    destruct (set_eqb gs gn) eqn:Hag; try (intros H; discriminate H).
  - destruct (set_eqb mn gn) eqn:Han; destruct (set_eqb ms gs) eqn:Has; simpl;
      try (destruct (set_eqb mn ms); intros H; discriminate H).
    intros _. split.
    + intros f. symmetry. apply (proj1 (set_eqb_spec gs gn) Hag).
    + exists mn, ms. split; [reflexivity|]. split; [reflexivity|]. split.
      * apply (proj1 (set_eqb_spec _ _) Han).
      * apply (proj1 (set_eqb_spec _ _) Has).
  - destruct (set_eqb mn gn); destruct (set_eqb ms gs); simpl; intros H; discriminate H.
Qed.
