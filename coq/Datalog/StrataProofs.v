(* Datalog/StrataProofs.v - the stratum driver computes the stratified least model. *)
From Coq Require Import List ZArith Bool Lia Arith.
From MV Require Import Datalog.Syntax Datalog.SyntaxProofs Datalog.Interp Datalog.Solve Datalog.Lfp
     Datalog.SolveProofs Datalog.SemiNaive Datalog.SemiNaiveProofs Datalog.Strata.
Import ListNotations.
Open Scope Z_scope.

Lemma in_rules_of P ps c : In c (rules_of P ps) <-> In c P /\ In (apred (chead c)) ps.
Proof.
  unfold rules_of. rewrite in_flat_map. split.
  - intros (p & Hp & Hc). apply filter_In in Hc as (Hc & He). apply Z.eqb_eq in He. subst. auto.
  - intros (Hc & Hp). exists (apred (chead c)). split; auto. apply filter_In. split; auto. apply Z.eqb_refl.
Qed.

Lemma in_layer_rules P ps c : In c (layer_rules P ps) <-> In c P /\ In (apred (chead c)) ps.
Proof. unfold layer_rules. rewrite filter_In, memZ_spec. tauto. Qed.

Lemma delta_positions_spec ps b : forall k i,
  In i (delta_positions ps k b) <->
  exists a, (k <= i)%nat /\ nth_error b (i - k) = Some (PAtom a) /\ In (apred a) ps.
Proof.
  induction b as [|p b IH]; intros k i; simpl.
  - split; [intros [] | intros (a & _ & H & _)]. destruct (i - k)%nat; discriminate.
  - assert (Tail : (exists a, (S k <= i)%nat /\ nth_error b (i - S k) = Some (PAtom a) /\ In (apred a) ps) <->
                   (exists a, (k <= i)%nat /\ i <> k /\ nth_error (p :: b) (i - k) = Some (PAtom a) /\ In (apred a) ps)).
    { split; intros (a & H1 & H2); exists a.
      - destruct H2 as (H2 & H3). repeat split; try lia; auto.
        replace (i - k)%nat with (S (i - S k)) by lia. exact H2.
      - destruct H2 as (H2 & H3 & H4). repeat split; try lia; auto.
        replace (i - k)%nat with (S (i - S k)) in H3 by lia. exact H3. }
    assert (Skip : (forall a, p <> PAtom a) \/ (exists a, p = PAtom a /\ memZ (apred a) ps = false) ->
                   (In i (delta_positions ps (S k) b) <->
                    exists a, (k <= i)%nat /\ nth_error (p :: b) (i - k) = Some (PAtom a) /\ In (apred a) ps)).
    { intros Hp. rewrite IH, Tail. split.
      - intros (a & H1 & _ & H2 & H3). exists a. auto.
      - intros (a & H1 & H2 & H3). exists a. repeat split; auto. intros ->.
        rewrite Nat.sub_diag in H2. simpl in H2. injection H2 as ->.
        destruct Hp as [Hp|(a' & [= <-] & Hm)]; [eapply Hp; eauto|].
        apply memZ_spec in H3. congruence. }
    destruct p as [a|a|l r|l r|op l r]; try (apply Skip; left; intros; discriminate).
    destruct (memZ (apred a) ps) eqn:Hm; [|apply Skip; right; eauto].
    simpl. rewrite IH, Tail. apply memZ_spec in Hm. split.
    + intros [<-|(a' & H1 & _ & H2 & H3)].
      * exists a. rewrite Nat.sub_diag. simpl. auto.
      * exists a'. auto.
    + intros (a' & H1 & H2 & H3). destruct (Nat.eq_dec i k) as [->|Hne]; [left; auto|].
      right. exists a'. auto.
Qed.

Lemma delta_rules_ok P ps dps :
  (forall p, In p ps <-> In p dps) -> drules_ok (rules_of P ps) (delta_rules P ps dps).
Proof.
  intros Hpd. unfold delta_rules. split.
  - intros c i H. apply in_flat_map in H as (c' & Hc' & Hi). apply in_map_iff in Hi as (j & [= <- <-] & _).
    apply in_rules_of in Hc' as (H1 & H2). apply in_rules_of. split; auto. apply Hpd; auto.
  - intros c i a Hc Hn Hh. apply in_flat_map. exists c. split.
    + apply in_rules_of in Hc as (H1 & H2). apply in_rules_of. split; auto. apply Hpd; auto.
    + apply in_map. apply delta_positions_spec. exists a. rewrite Nat.sub_0_r. repeat split; auto; try lia.
      unfold heads in Hh. apply in_map_iff in Hh as (c' & <- & Hc'). apply in_rules_of in Hc'. tauto.
Qed.

(* ---- the specification does not depend on the presentation of rules and base *)
Lemma lfp_ext R R' (B B' : factset) :
  (forall c, In c R <-> In c R') -> (forall f, B f <-> B' f) -> forall f, lfp R B f -> lfp R' B' f.
Proof.
  intros HR HB f Hf. induction Hf as [f Hf | I c f _ IH Hc (t & Hs & He)].
  - apply lfp_base. apply HB; auto.
  - eapply lfp_step; [exact IH | apply HR; exact Hc |]. exists t. split; auto.
    eapply sat_mono; [intros j _; apply incl_refl | | exact Hs].
    intros a g _ _. apply HB.
Qed.

Lemma slfp_ext P layers : forall (B B' : factset),
  (forall f, B f <-> B' f) -> forall f, slfp P layers B f <-> slfp P layers B' f.
Proof.
  induction layers as [|ps rest IH]; intros B B' HB f; simpl; [apply HB|].
  apply IH. intros g. split; apply lfp_ext; try (intros c; tauto); intros h; split; apply HB.
Qed.

Lemma neg_ok_ext R R' : (forall c, In c R <-> In c R') -> neg_ok R -> neg_ok R'.
Proof.
  intros HR H c q Hc Hq Hh. apply (H c q); [apply HR; auto | auto |].
  unfold heads in *. apply in_map_iff in Hh as (c' & He & Hc'). apply in_map_iff. exists c'. split; auto.
  apply HR; auto.
Qed.

Lemma rules_layer_same P ps c : In c (rules_of P ps) <-> In c (layer_rules P ps).
Proof. rewrite in_rules_of, in_layer_rules. tauto. Qed.

(* ---- the driver *)
Lemma eval_strata_exact fuel P : forall layers St Res,
  (forall ps, In ps layers -> neg_ok (layer_rules P ps)) ->
  eval_strata fuel (map (fun ps => mk_stratum P ps ps) layers) St = Ok Res ->
  forall f, In f Res <-> slfp P layers (inset St) f.
Proof.
  induction layers as [|ps rest IH]; intros St Res Hn H f; simpl in *.
  - injection H as <-. unfold inset. tauto.
  - destruct (eval_stratum fuel (rules_of P ps) (delta_rules P ps ps) St) as [St'| |] eqn:He; try discriminate.
    rewrite (IH St' Res (fun qs Hq => Hn qs (or_intror Hq)) H f).
    apply slfp_ext. intros g. unfold inset.
    rewrite (eval_stratum_exact (rules_of P ps) (delta_rules P ps ps) St
               (neg_ok_ext _ _ (fun c => iff_sym (rules_layer_same P ps c)) (Hn ps (or_introl eq_refl)))
               (delta_rules_ok P ps ps (fun p => iff_refl _)) fuel St' He g).
    split.
    + apply lfp_ext; [intros c; apply rules_layer_same | intros h; tauto].
    + apply lfp_ext; [intros c; apply iff_sym, rules_layer_same | intros h; tauto].
Qed.

Theorem eval_program_exact_weak fuel P layers store init Res :
  (forall ps, In ps layers -> neg_ok (layer_rules P ps)) ->
  eval_program fuel P layers store init = Ok Res ->
  forall f, In f Res <-> slfp P layers (fun g => In g (add_all store init)) f.
Proof. unfold eval_program. intros Hn H. apply (eval_strata_exact fuel P layers _ _ Hn H). Qed.

(* ---- a valid stratification never negates inside a layer *)
Lemma layer_of_nodup layers : forall k ps p,
  NoDup (concat layers) -> nth_error layers k = Some ps -> In p ps -> layer_of layers p = Some k.
Proof.
  induction layers as [|l0 rest IH]; intros k ps p Hnd Hk Hp; [destruct k; discriminate|].
  simpl in *. destruct k as [|k].
  - injection Hk as ->. apply memZ_spec in Hp. rewrite Hp. reflexivity.
  - destruct (memZ p l0) eqn:Hm.
    + exfalso. apply memZ_spec in Hm. simpl in Hk. apply nth_error_In in Hk.
      assert (Hc : In p (concat rest)) by (apply in_concat; exists ps; split; assumption).
      clear - Hnd Hm Hc. induction l0 as [|x l0 IHl]; simpl in *; [destruct Hm|].
      inversion Hnd; subst. destruct Hm as [->|Hm]; [apply H1; apply in_or_app; auto | auto].
    + simpl in Hk. rewrite (IH k ps p); auto. clear - Hnd. induction l0; simpl in *; auto. inversion Hnd; auto.
Qed.

Lemma valid_neg_ok P layers :
  valid_stratification P layers -> forall ps, In ps layers -> neg_ok (layer_rules P ps).
Proof.
  intros [Hnd Hcl] ps Hps c q Hc Hq Hh.
  apply in_layer_rules in Hc as (HcP & Hhd).
  unfold heads in Hh. apply in_map_iff in Hh as (c' & Hq' & Hc'). apply in_layer_rules in Hc' as (_ & Hqps).
  rewrite Hq' in Hqps.
  apply In_nth_error in Hps as (k & Hk).
  destruct (Hcl c HcP) as (i & Hi & _ & Hneg).
  rewrite (layer_of_nodup layers k ps _ Hnd Hk Hhd) in Hi. injection Hi as <-.
  specialize (Hneg q Hq). rewrite (layer_of_nodup layers k ps q Hnd Hk Hqps) in Hneg. lia.
Qed.

Theorem eval_program_exact fuel P layers store init Res :
  valid_stratification P layers ->
  eval_program fuel P layers store init = Ok Res ->
  forall f, In f Res <-> slfp P layers (fun g => In g (add_all store init)) f.
Proof. intros Hv. apply eval_program_exact_weak. apply valid_neg_ok. exact Hv. Qed.
