(* Datalog/SolveUFProofs.v - proofs about the alias-aware clause evaluator SolveUF.v:
   1. structure of union-find substitutions (uwf), resolve = the Go-shaped find
   2. conservativity: on runs of Solve.v that do not stop at an aliasing equality, SolveUF.v
      computes the same solutions / facts / program outcome
   3. every solution resolves the variables of positive atoms and their aliases
   4. the declarative reading of a strict run; elimination of an alias variable *)
From Coq Require Import List ZArith Bool Lia Arith.
From MV Require Import Datalog.Syntax Datalog.SyntaxProofs Datalog.Interp Datalog.Solve Datalog.SemiNaive
     Datalog.Strata Datalog.Lfp Datalog.SolveProofs Datalog.SolveUF.
Import ListNotations.
Open Scope Z_scope.

(* ================= 1. substitutions *)

(* what a new binding (k, x) in front does to the result of resolve *)
Definition thru (k : Z) (x y : value) : value :=
  match y with VVar u => if Z.eqb u k then x else VVar u | VConst c => VConst c end.

Lemma resolve_cons k x s v : resolve ((k, x) :: s) v = thru k x (resolve s v).
Proof. reflexivity. Qed.

Lemma resolve_val_cons k x s a : resolve_val ((k, x) :: s) a = thru k x (resolve_val s a).
Proof. destruct a; reflexivity. Qed.

(* substitutions the evaluator builds: every binding was made for a variable that was an
   unbound root at that moment and points to a constant or to another such root *)
Inductive uwf : usubst -> Prop :=
| uwf_nil : uwf []
| uwf_const k c s : uwf s -> resolve s k = VVar k -> uwf ((k, VConst c) :: s)
| uwf_var k w s : uwf s -> resolve s k = VVar k -> resolve s w = VVar w -> k <> w -> uwf ((k, VVar w) :: s).

(* resolve returns a root *)
Lemma resolve_root s : uwf s -> forall v r, resolve s v = VVar r -> resolve s r = VVar r.
Proof.
  induction 1 as [|k c s Hw IH Hk|k w s Hw IH Hk Hr Hne]; intros v r H.
  - reflexivity.
  - rewrite resolve_cons in *. destruct (resolve s v) as [d|u] eqn:E; simpl in H; [discriminate|].
    destruct (Z.eqb_spec u k); [discriminate|]. injection H as <-.
    rewrite (IH _ _ E). simpl. destruct (Z.eqb_spec u k); congruence.
  - rewrite resolve_cons in *. destruct (resolve s v) as [d|u] eqn:E; simpl in H; [discriminate|].
    destruct (Z.eqb_spec u k) as [->|Hu].
    + injection H as <-. rewrite Hr. simpl. destruct (Z.eqb_spec w k); congruence.
    + injection H as <-. rewrite (IH _ _ E). simpl. destruct (Z.eqb_spec u k); congruence.
Qed.

Lemma resolve_val_idem s : uwf s -> forall v, resolve_val s (resolve s v) = resolve s v.
Proof.
  intros Hw v. destruct (resolve s v) as [c|r] eqn:E; [reflexivity|]. simpl. eapply resolve_root; eauto.
Qed.

(* a key is never its own root; an unbound root is not a key *)
Lemma ulookup_in v x s : ulookup v s = Some x -> In (v, x) s.
Proof.
  induction s as [|[k y] s IH]; simpl; [discriminate|].
  destruct (Z.eqb_spec v k) as [->|_]; [intros [= ->]; auto | auto].
Qed.

Lemma uwf_key_not_root s : uwf s -> forall k x, In (k, x) s -> resolve s k <> VVar k.
Proof.
  induction 1 as [|k c s Hw IH Hk|k w s Hw IH Hk Hr Hne]; intros k' x' Hin.
  - destruct Hin.
  - rewrite resolve_cons. destruct Hin as [[= <- <-]|Hin].
    + rewrite Hk. simpl. rewrite Z.eqb_refl. discriminate.
    + specialize (IH _ _ Hin). destruct (resolve s k') as [d|u] eqn:E; simpl; [discriminate|].
      destruct (Z.eqb_spec u k); [discriminate|]. congruence.
  - rewrite resolve_cons. destruct Hin as [[= <- <-]|Hin].
    + rewrite Hk. simpl. rewrite Z.eqb_refl. congruence.
    + specialize (IH _ _ Hin). destruct (resolve s k') as [d|u] eqn:E; simpl; [discriminate|].
      destruct (Z.eqb_spec u k) as [->|Hu]; [|congruence].
      intros [= ->]. apply IH. congruence.
Qed.

Lemma uwf_root_no_key s : uwf s -> forall r, resolve s r = VVar r -> ulookup r s = None.
Proof.
  intros Hw r Hr. destruct (ulookup r s) as [x|] eqn:E; [|reflexivity].
  exfalso. eapply uwf_key_not_root; eauto using ulookup_in.
Qed.

(* ================= 2. conservativity *)

(* a Solve.v substitution as a union-find without aliases *)
Definition inj (s : subst) : usubst := map (fun vc => (fst vc, VConst (snd vc))) s.
Definition nodupk (s : subst) : Prop := NoDup (map fst s).
Definition get_of (s : subst) (v : Z) : value := match lookup v s with Some c => VConst c | None => VVar v end.

Lemma lookup_none_notin v s : lookup v s = None -> ~ In v (map fst s).
Proof.
  induction s as [|[k c] s IH]; simpl; [tauto|].
  destruct (Z.eqb_spec v k); [discriminate|]. intros H [E|Hin]; [congruence | exact (IH H Hin)].
Qed.

Lemma lookup_notin_none v s : ~ In v (map fst s) -> lookup v s = None.
Proof.
  induction s as [|[k c] s IH]; simpl; [reflexivity|].
  intros H. destruct (Z.eqb_spec v k) as [->|_]; [exfalso; auto | apply IH; tauto].
Qed.

Lemma resolve_inj s : nodupk s -> forall v, resolve (inj s) v = get_of s v.
Proof.
  unfold nodupk, get_of. induction s as [|[k c] s IH]; intros Hn v; [reflexivity|].
  simpl in Hn. inversion Hn as [|? ? Hk Hn']; subst. cbn [inj map fst snd]. rewrite resolve_cons.
  fold (inj s). rewrite (IH Hn'). cbn [lookup].
  destruct (Z.eqb_spec v k) as [->|Hv].
  - rewrite (lookup_notin_none _ _ Hk). simpl. rewrite Z.eqb_refl. reflexivity.
  - destruct (lookup v s); [reflexivity|]. simpl. destruct (Z.eqb_spec v k); congruence.
Qed.

(* ---- terms *)
Definition eval_consts_g (get : Z -> value) (l : list term) : option (list const) :=
  map_opt (fun a => match eval_term_g get a with Some (VConst c) => Some c | _ => None end) l.

Lemma eval_term_g_app get f args :
  eval_term_g get (TApp f args) =
  match eval_consts_g get args with
  | Some cs => match eval_fn f cs with Some c => Some (VConst c) | None => None end
  | None => None
  end.
Proof.
  cbn [eval_term_g].
  match goal with |- match ?g args with _ => _ end = _ => assert (E : forall l, g l = eval_consts_g get l) end.
  { induction l as [|a l IHl]; [reflexivity|]. unfold eval_consts_g. cbn [map_opt]. fold (eval_consts_g get l).
    rewrite <- IHl. destruct (eval_term_g get a) as [[c|x]|]; reflexivity. }
  rewrite E. reflexivity.
Qed.

Definition eval_consts (s : subst) (l : list term) : option (list const) :=
  map_opt (fun a => match eval_term s a with Some (VConst c) => Some c | _ => None end) l.

Lemma eval_term_app s f args :
  eval_term s (TApp f args) =
  match eval_consts s args with
  | Some cs => match eval_fn f cs with Some c => Some (VConst c) | None => None end
  | None => None
  end.
Proof.
  cbn [eval_term].
  match goal with |- match ?g args with _ => _ end = _ => assert (E : forall l, g l = eval_consts s l) end.
  { induction l as [|a l IHl]; [reflexivity|]. unfold eval_consts. cbn [map_opt]. fold (eval_consts s l).
    rewrite <- IHl. destruct (eval_term s a) as [[c|x]|]; reflexivity. }
  rewrite E. reflexivity.
Qed.

Lemma term_ind2 (Q : term -> Prop) :
  (forall x, Q (TVar x)) -> (forall c, Q (TConst c)) ->
  (forall f args, Forall Q args -> Q (TApp f args)) -> forall t, Q t.
Proof.
  intros H1 H2 H3. fix IH 1. intros [x|c|f args]; [apply H1 | apply H2 | apply H3].
  induction args as [|a args IHa]; constructor; [apply IH | exact IHa].
Qed.

Lemma eval_term_g_ext get get' : (forall v, get v = get' v) -> forall t, eval_term_g get t = eval_term_g get' t.
Proof.
  intros He. induction t as [x|c|f args IH] using term_ind2.
  - simpl. rewrite He. reflexivity.
  - reflexivity.
  - rewrite !eval_term_g_app.
    assert (E : eval_consts_g get args = eval_consts_g get' args).
    { unfold eval_consts_g. induction IH as [|a args Ha _ IHl]; [reflexivity|]. cbn [map_opt]. rewrite Ha, IHl. reflexivity. }
    rewrite E. reflexivity.
Qed.

Lemma eval_term_get_of s t : eval_term s t = eval_term_g (get_of s) t.
Proof.
  induction t as [x|c|f args IH] using term_ind2.
  - reflexivity.
  - reflexivity.
  - rewrite eval_term_app, eval_term_g_app.
    assert (E : eval_consts s args = eval_consts_g (get_of s) args).
    { unfold eval_consts, eval_consts_g. induction IH as [|a args Ha _ IHl]; [reflexivity|]. cbn [map_opt]. rewrite Ha, IHl. reflexivity. }
    rewrite E. reflexivity.
Qed.

Lemma eval_term_uf_inj s t : nodupk s -> eval_term_uf (inj s) t = eval_term s t.
Proof.
  intros Hn. unfold eval_term_uf. rewrite eval_term_get_of. apply eval_term_g_ext. apply resolve_inj; auto.
Qed.

Lemma map_opt_ext {A B} (f g : A -> option B) l : (forall a, f a = g a) -> map_opt f l = map_opt g l.
Proof. intros H. induction l as [|a l IH]; simpl; [reflexivity|]. rewrite H, IH. reflexivity. Qed.

Lemma eval_args_uf_inj s ts : nodupk s -> eval_args_uf (inj s) ts = eval_args s ts.
Proof. intros Hn. apply map_opt_ext. intros a. apply eval_term_uf_inj; auto. Qed.

(* an unbound result of eval_term is an unbound variable *)
Lemma eval_term_var s t v : eval_term s t = Some (VVar v) -> lookup v s = None.
Proof.
  destruct t as [x|c|f args].
  - simpl. destruct (lookup x s) eqn:E; intros [= <-]; auto.
  - discriminate.
  - rewrite eval_term_app. destruct (eval_consts s args); [|discriminate]. destruct (eval_fn f l); discriminate.
Qed.

(* ---- unification against a constant *)
Lemma unify1_inj s pv c : nodupk s ->
  unify_uf (inj s) pv (VConst c) = option_map inj (unify1 s pv c) /\ (forall s', unify1 s pv c = Some s' -> nodupk s').
Proof.
  intros Hn. unfold unify_uf. destruct pv as [d|v]; cbn [resolve_val unify1].
  - simpl. destruct (const_eqb d c); simpl; split; try reflexivity; intros s' [= <-]; auto; discriminate.
  - rewrite (resolve_inj _ Hn). unfold get_of. destruct (lookup v s) as [d|] eqn:E; simpl.
    + destruct (const_eqb d c); simpl; split; try reflexivity; intros s' [= <-]; auto; discriminate.
    + split; [reflexivity|]. intros s' [= <-]. constructor; [apply lookup_none_notin; auto | exact Hn].
Qed.

Lemma unify_args_inj pvs : forall s cs, nodupk s ->
  unify_args_uf (inj s) pvs cs = option_map inj (unify_args s pvs cs) /\ (forall s', unify_args s pvs cs = Some s' -> nodupk s').
Proof.
  induction pvs as [|pv pvs IH]; intros s [|c cs] Hn; cbn [unify_args_uf unify_args];
    try (split; [reflexivity | intros s' [= <-]; auto; discriminate]); try (split; [reflexivity|discriminate]).
  destruct (unify1_inj s pv c Hn) as [E Hn']. rewrite E.
  destruct (unify1 s pv c) as [s1|]; simpl; [|split; [reflexivity|discriminate]].
  apply IH. apply Hn'. reflexivity.
Qed.

Lemma match_fact_inj p pvs s f : nodupk s ->
  match_fact_uf p pvs (inj s) f = option_map inj (match_fact p pvs s f) /\ (forall s', match_fact p pvs s f = Some s' -> nodupk s').
Proof.
  intros Hn. unfold match_fact_uf, match_fact. destruct (fst f =? p); [apply unify_args_inj; auto|].
  split; [reflexivity|discriminate].
Qed.

Lemma fmap_inj {A} (m : A -> option subst) (m' : A -> option usubst) l :
  (forall a, m' a = option_map inj (m a)) -> fmap m' l = map inj (fmap m l).
Proof.
  intros H. unfold fmap. induction l as [|a l IH]; [reflexivity|]. cbn [flat_map]. rewrite map_app, IH, H.
  destruct (m a); reflexivity.
Qed.

(* ---- one premise. Solve.v answers None at an aliasing equality (two different unbound
   variables); wherever it answers at all, the union-find evaluator gives the same answer. *)
Lemma step_inj Sneg Spos p s us : nodupk s ->
  step Sneg Spos p s = Some us ->
  step_uf false Sneg Spos p (inj s) = Some (map inj us) /\ Forall nodupk us.
Proof.
  intros Hn H. destruct p as [a|a|l r|l r|op l r]; cbn [step step_uf step_pure step_pure_uf] in *.
  - rewrite (eval_args_uf_inj _ _ Hn). destruct (eval_args s (aargs a)) as [pvs|]; [|discriminate].
    injection H as <-. split.
    + f_equal. apply fmap_inj. intros f. apply match_fact_inj; auto.
    + apply Forall_forall. intros u Hu. apply in_fmap in Hu as (f & _ & Hm).
      eapply (proj2 (match_fact_inj _ _ _ f Hn)); eauto.
  - rewrite (eval_args_uf_inj _ _ Hn). destruct (eval_args s (aargs a)) as [pvs|]; [|discriminate].
    injection H as <-. cbn [andb].
    assert (E : existsb (fun f => is_some (match_fact_uf (apred a) pvs (inj s) f)) Sneg
                = existsb (fun f => is_some (match_fact (apred a) pvs s f)) Sneg).
    { induction Sneg as [|f S' IH]; [reflexivity|]. cbn [existsb]. rewrite IH.
      rewrite (proj1 (match_fact_inj (apred a) pvs s f Hn)). destruct (match_fact (apred a) pvs s f); reflexivity. }
    rewrite E. clear E. destruct (existsb _ Sneg); split; try reflexivity; repeat constructor; auto.
  - rewrite !(eval_term_uf_inj _ _ Hn).
    destruct (eval_term s l) as [[a|v]|] eqn:El; [| |discriminate];
      destruct (eval_term s r) as [[b|w]|] eqn:Er; try discriminate.
    + injection H as <-. unfold unify_uf. simpl. destruct (const_eqb a b); split; try reflexivity; repeat constructor; auto.
    + injection H as <-. unfold unify_uf. cbn [resolve_val]. rewrite (resolve_inj _ Hn). unfold get_of.
      rewrite (eval_term_var _ _ _ Er). simpl. split; [reflexivity|]. repeat constructor; auto.
      apply lookup_none_notin. eapply eval_term_var; eauto.
    + injection H as <-. unfold unify_uf. cbn [resolve_val]. rewrite (resolve_inj _ Hn). unfold get_of.
      rewrite (eval_term_var _ _ _ El). simpl. split; [reflexivity|]. repeat constructor; auto.
      apply lookup_none_notin. eapply eval_term_var; eauto.
    + destruct (Z.eqb_spec v w) as [->|]; [|discriminate]. injection H as <-.
      unfold unify_uf. cbn [resolve_val]. rewrite (resolve_inj _ Hn). unfold get_of.
      rewrite (eval_term_var _ _ _ El). simpl. rewrite Z.eqb_refl. split; [reflexivity|]. repeat constructor; auto.
  - rewrite !(eval_term_uf_inj _ _ Hn). cbn [andb].
    destruct (eval_term s l) as [[a|v]|] eqn:El; [| |discriminate];
      destruct (eval_term s r) as [[b|w]|] eqn:Er; try discriminate; injection H as <-;
      unfold unify_uf; cbn [resolve_val]; rewrite ?(resolve_inj _ Hn); unfold get_of;
      rewrite ?(eval_term_var _ _ _ El), ?(eval_term_var _ _ _ Er); simpl.
    + destruct (const_eqb a b); split; try reflexivity; repeat constructor; auto.
    + split; [reflexivity|constructor].
    + split; [reflexivity|constructor].
    + destruct (v =? w); split; try reflexivity; constructor.
  - rewrite !(eval_term_uf_inj _ _ Hn).
    destruct (eval_term s l) as [[a|v]|]; try discriminate.
    destruct (eval_term s r) as [[b|w]|]; try discriminate.
    destruct (eval_cmp op a b) as [[|]|]; try discriminate; injection H as <-; split; try reflexivity; repeat constructor; auto.
Qed.

Lemma flat_map_opt_inj (f : subst -> option (list subst)) (g : usubst -> option (list usubst)) sols R :
  Forall nodupk sols ->
  (forall s us, nodupk s -> f s = Some us -> g (inj s) = Some (map inj us) /\ Forall nodupk us) ->
  flat_map_opt f sols = Some R ->
  flat_map_opt g (map inj sols) = Some (map inj R) /\ Forall nodupk R.
Proof.
  intros Hs Hfg. revert R. induction sols as [|s sols IH]; intros R H; simpl in *.
  - injection H as <-. split; [reflexivity|constructor].
  - inversion Hs as [|? ? Hn Hs']; subst.
    destruct (f s) as [us|] eqn:Ef; [|discriminate].
    destruct (flat_map_opt f sols) as [r|] eqn:Er; [|discriminate]. injection H as <-.
    destruct (Hfg _ _ Hn Ef) as [Eg Hus]. destruct (IH Hs' _ eq_refl) as [Eg' Hr].
    rewrite Eg, Eg'. rewrite map_app. split; [reflexivity|]. apply Forall_app; auto.
Qed.

Lemma solve_inj Sneg sel body : forall k sols R,
  Forall nodupk sols ->
  solve Sneg sel k body sols = Some R ->
  solve_uf false Sneg sel k body (map inj sols) = Some (map inj R) /\ Forall nodupk R.
Proof.
  induction body as [|p b IH]; intros k sols R Hs H; cbn [solve solve_uf] in *.
  - injection H as <-. auto.
  - destruct (flat_map_opt (step Sneg (sel k) p) sols) as [sols'|] eqn:E; [|discriminate].
    destruct (flat_map_opt_inj _ (step_uf false Sneg (sel k) p) _ _ Hs
                (fun s us Hn Hst => step_inj Sneg (sel k) p s us Hn Hst) E) as [E' Hs'].
    rewrite E'. apply IH; auto.
Qed.

(* ---- heads and let-transforms *)
Lemma lookup_app v L s : lookup v (L ++ s) = match lookup v L with Some c => Some c | None => lookup v s end.
Proof. induction L as [|[k c] L IH]; simpl; [reflexivity|]. destruct (v =? k); auto. Qed.

Lemma urow_get_inj s L v : nodupk s -> urow_get (inj s) L v = get_of (L ++ s) v.
Proof.
  intros Hn. unfold urow_get, get_of. rewrite lookup_app, (resolve_inj _ Hn). unfold get_of.
  destruct (lookup v L); [reflexivity|]. destruct (lookup v s); reflexivity.
Qed.

Lemma run_let_inj s stmts : nodupk s -> forall L,
  run_let (L ++ s) stmts = option_map (fun L' => L' ++ s) (run_let_uf (inj s) L stmts).
Proof.
  intros Hn. induction stmts as [|[v t] rest IH]; intros L; cbn [run_let run_let_uf]; [reflexivity|].
  rewrite eval_term_get_of. rewrite (eval_term_g_ext _ _ (fun w => eq_sym (urow_get_inj s L w Hn)) t).
  destruct (eval_term_g (urow_get (inj s) L) t) as [[c|x]|]; try reflexivity.
  apply (IH ((v, c) :: L)).
Qed.

Lemma emit_head_inj c s : nodupk s -> emit_head_uf c (inj s) = emit_head c s.
Proof.
  intros Hn. unfold emit_head_uf, emit_head. rewrite (eval_args_uf_inj _ _ Hn).
  destruct (eval_args s (aargs (chead c))) as [pvs|]; [|reflexivity].
  pose proof (run_let_inj s (clet c) Hn []) as Hl. cbn [app] in Hl. rewrite Hl. clear Hl.
  destruct (run_let_uf (inj s) [] (clet c)) as [L|]; [|reflexivity]. cbn [option_map].
  assert (E : map_opt (ground_value_uf (inj s) L) pvs = map_opt (ground_value (L ++ s)) pvs).
  { apply map_opt_ext. intros [d|v]; [reflexivity|]. cbn [ground_value_uf ground_value].
    rewrite (urow_get_inj _ _ _ Hn). unfold get_of. destruct (lookup v (L ++ s)); reflexivity. }
  rewrite E. reflexivity.
Qed.

Lemma map_opt_map {A B C} (g : A -> B) (f : B -> option C) l : map_opt f (map g l) = map_opt (fun a => f (g a)) l.
Proof. induction l as [|a l IH]; simpl; [reflexivity|]. rewrite IH. reflexivity. Qed.

Lemma map_opt_ext_in {A B} (f g : A -> option B) l : (forall a, In a l -> f a = g a) -> map_opt f l = map_opt g l.
Proof.
  induction l as [|a l IH]; simpl; intros H; [reflexivity|]. rewrite (H a), IH by auto. reflexivity.
Qed.

Lemma eval_clause_inj Sneg sel c fs :
  eval_clause Sneg sel c = Some fs -> eval_clause_uf false Sneg sel c = Some fs.
Proof.
  unfold eval_clause, eval_clause_uf. intros H.
  destruct (solve Sneg sel 0 (cbody c) [[]]) as [sols|] eqn:E; [|discriminate].
  assert (H0 : Forall nodupk [[]]) by (repeat constructor).
  destruct (solve_inj _ _ _ _ _ _ H0 E) as [E' Hs]. change (map inj [[]]) with ([[]] : list usubst) in E'. rewrite E'.
  rewrite map_opt_map. rewrite <- H. apply map_opt_ext_in. intros s Hin. apply emit_head_inj.
  eapply Forall_forall in Hs; eauto.
Qed.

(* ---- the loop over a clause evaluator: with eval_clause it is SemiNaive.v / Strata.v *)
Lemma loop_g_solve fuel : forall drules St D, loop_g eval_clause fuel drules St D = loop fuel drules St D.
Proof.
  induction fuel as [|n IH]; intros; cbn [loop_g loop]; [reflexivity|].
  change (round_delta_g eval_clause drules St D) with (round_delta drules St D).
  destruct (round_delta drules St D); [|reflexivity]. destruct (is_nil _); [reflexivity|apply IH].
Qed.

Lemma eval_stratum_g_solve fuel rules drules St :
  eval_stratum_g eval_clause fuel rules drules St = eval_stratum fuel rules drules St.
Proof.
  unfold eval_stratum_g, eval_stratum. change (round0_g eval_clause rules St) with (round0 rules St).
  destruct (round0 rules St); [|reflexivity]. destruct (is_nil _); [reflexivity|apply loop_g_solve].
Qed.

Lemma eval_strata_g_solve fuel strata : forall St, eval_strata_g eval_clause fuel strata St = eval_strata fuel strata St.
Proof.
  induction strata as [|s rest IH]; intros St; cbn [eval_strata_g eval_strata]; [reflexivity|].
  rewrite eval_stratum_g_solve. destruct (eval_stratum fuel (s_rules s) (s_drules s) St); auto.
Qed.

Lemma eval_program_g_solve fuel P layers store init :
  eval_program_g eval_clause fuel P layers store init = eval_program fuel P layers store init.
Proof. apply eval_strata_g_solve. Qed.

(* ---- a clause evaluator that answers wherever another one answers gives the same
   program outcome unless the other one reports an error *)
Section Refine.
Variables ce1 ce2 : list fact -> (nat -> list fact) -> clause -> option (list fact).
Hypothesis Href : forall St sel c fs, ce1 St sel c = Some fs -> ce2 St sel c = Some fs.

Lemma flat_map_opt_ref {A} (f g : A -> option (list fact)) l R :
  (forall a r, f a = Some r -> g a = Some r) -> flat_map_opt f l = Some R -> flat_map_opt g l = Some R.
Proof.
  intros H. revert R. induction l as [|a l IH]; intros R; simpl; [auto|].
  destruct (f a) as [r|] eqn:E; [|discriminate]. rewrite (H _ _ E).
  destruct (flat_map_opt f l) as [r'|]; [|discriminate]. rewrite (IH _ eq_refl). auto.
Qed.

Lemma loop_g_ref fuel : forall drules St D o,
  loop_g ce1 fuel drules St D = o -> o <> EvalError -> loop_g ce2 fuel drules St D = o.
Proof.
  induction fuel as [|n IH]; intros drules St D o H Hne; cbn [loop_g] in *; [auto|].
  unfold round_delta_g in *.
  destruct (flat_map_opt (fun ci => ce1 St (sel_delta St D (snd ci)) (fst ci)) drules) as [d|] eqn:E; [|congruence].
  rewrite (flat_map_opt_ref _ (fun ci => ce2 St (sel_delta St D (snd ci)) (fst ci)) _ _
             (fun ci r Hc => Href _ _ _ _ Hc) E).
  destruct (is_nil _); auto.
Qed.

Lemma eval_stratum_g_ref fuel rules drules St o :
  eval_stratum_g ce1 fuel rules drules St = o -> o <> EvalError -> eval_stratum_g ce2 fuel rules drules St = o.
Proof.
  unfold eval_stratum_g, round0_g. intros H Hne.
  destruct (flat_map_opt (ce1 St (sel_all St)) rules) as [d|] eqn:E; [|congruence].
  rewrite (flat_map_opt_ref _ (ce2 St (sel_all St)) _ _ (fun c r Hc => Href _ _ _ _ Hc) E).
  destruct (is_nil _); auto. apply loop_g_ref; auto.
Qed.

Lemma eval_strata_g_ref fuel strata : forall St o,
  eval_strata_g ce1 fuel strata St = o -> o <> EvalError -> eval_strata_g ce2 fuel strata St = o.
Proof.
  induction strata as [|s rest IH]; intros St o H Hne; cbn [eval_strata_g] in *; [auto|].
  destruct (eval_stratum_g ce1 fuel (s_rules s) (s_drules s) St) as [St'| |] eqn:E.
  - rewrite (eval_stratum_g_ref _ _ _ _ _ E) by discriminate. apply IH; auto.
  - congruence.
  - rewrite (eval_stratum_g_ref _ _ _ _ _ E) by discriminate. auto.
Qed.
End Refine.

(* 2a. the program level: whenever the alias-free model finishes (or runs out of fuel), the
   union-find model does the same with the same store *)
Theorem eval_program_uf_conservative fuel P layers store init o :
  eval_program fuel P layers store init = o -> o <> EvalError ->
  eval_program_uf false fuel P layers store init = o.
Proof.
  intros H Hne. rewrite <- eval_program_g_solve in H. unfold eval_program_uf, eval_program_g in *.
  exact (eval_strata_g_ref eval_clause (eval_clause_uf false) eval_clause_inj fuel _ _ o H Hne).
Qed.

(* ================= 3. what a run preserves: well-formedness, extension *)

(* u knows everything s knows: constants stay, aliased variables stay aliased *)
Definition ext (s u : usubst) : Prop :=
  (forall v c, resolve s v = VConst c -> resolve u v = VConst c) /\
  (forall v w, resolve s v = resolve s w -> resolve u v = resolve u w).

Lemma ext_refl s : ext s s.
Proof. split; auto. Qed.

Lemma ext_trans s u t : ext s u -> ext u t -> ext s t.
Proof. intros [A B] [C D]. split; auto. Qed.

Lemma ext_cons k x s : ext s ((k, x) :: s).
Proof.
  split; intros; rewrite !resolve_cons.
  - rewrite H. reflexivity.
  - rewrite H. reflexivity.
Qed.

Lemma ext_val s u a c : ext s u -> resolve_val s a = VConst c -> resolve_val u a = VConst c.
Proof. intros [A _]. destruct a; simpl; auto. Qed.

(* the value a variable evaluated to under s, looked up again later *)
Lemma resolve_val_later s u v : uwf s -> ext s u -> resolve_val u (resolve s v) = resolve u v.
Proof.
  intros Hw [A B]. destruct (resolve s v) as [d|r] eqn:E; simpl.
  - symmetry. auto.
  - apply B. rewrite E. eapply resolve_root; eauto.
Qed.

Definition is_root (s : usubst) (a : value) : Prop :=
  match a with VVar r => resolve s r = VVar r | VConst _ => True end.

Lemma resolve_val_is_root s a : uwf s -> is_root s (resolve_val s a).
Proof.
  intros Hw. destruct a as [c|v]; simpl; [exact I|].
  destruct (resolve s v) as [d|r] eqn:E; simpl; [exact I|]. eapply resolve_root; eauto.
Qed.

Lemma unify_roots_shape s a b u : unify_roots s a b = Some u -> u = s \/ exists k x, u = (k, x) :: s.
Proof.
  destruct a as [c|v], b as [d|w]; simpl.
  - destruct (const_eqb c d); [intros [= <-]; auto | discriminate].
  - intros [= <-]. right. eauto.
  - intros [= <-]. right. eauto.
  - destruct (v =? w); intros [= <-]; [auto | right; eauto].
Qed.

Lemma unify_roots_wf s a b u : uwf s -> is_root s a -> is_root s b -> unify_roots s a b = Some u -> uwf u.
Proof.
  intros Hw Ha Hb. destruct a as [c|v], b as [d|w]; simpl in *.
  - destruct (const_eqb c d); [intros [= <-]; auto | discriminate].
  - intros [= <-]. constructor; auto.
  - intros [= <-]. constructor; auto.
  - destruct (Z.eqb_spec v w); intros [= <-]; [auto | constructor; auto].
Qed.

Lemma unify_uf_wf s a b u : uwf s -> unify_uf s a b = Some u -> uwf u.
Proof. intros Hw. apply unify_roots_wf; auto using resolve_val_is_root. Qed.

Lemma unify_uf_ext s a b u : unify_uf s a b = Some u -> ext s u.
Proof.
  intros H. apply unify_roots_shape in H as [->|(k & x & ->)]; [apply ext_refl | apply ext_cons].
Qed.

(* after a successful unification both sides resolve to the same *)
Lemma unify_uf_eq s a b u : unify_uf s a b = Some u -> resolve_val u a = resolve_val u b.
Proof.
  unfold unify_uf. intros H.
  assert (Hc : forall k x, u = (k, x) :: s ->
               thru k x (resolve_val s a) = thru k x (resolve_val s b) -> resolve_val u a = resolve_val u b).
  { intros k x -> E. rewrite !resolve_val_cons. exact E. }
  destruct (resolve_val s a) as [c|v] eqn:Ea, (resolve_val s b) as [d|w] eqn:Eb; simpl in H.
  - destruct (const_eqb c d) eqn:E; [|discriminate]. injection H as <-. apply const_eqb_spec in E. congruence.
  - injection H as <-. apply (Hc w (VConst c) eq_refl). simpl. rewrite Z.eqb_refl. reflexivity.
  - injection H as <-. apply (Hc v (VConst d) eq_refl). simpl. rewrite Z.eqb_refl. reflexivity.
  - destruct (Z.eqb_spec v w) as [->|Hne].
    + injection H as <-. congruence.
    + injection H as <-. apply (Hc v (VVar w) eq_refl). simpl. rewrite Z.eqb_refl.
      destruct (Z.eqb_spec w v); congruence.
Qed.

Lemma unify_args_uf_props pvs : forall s cs u,
  uwf s -> unify_args_uf s pvs cs = Some u ->
  uwf u /\ ext s u /\ Forall2 (fun pv c => resolve_val u pv = VConst c) pvs cs.
Proof.
  induction pvs as [|pv pvs IH]; intros s [|c cs] u Hw H; cbn [unify_args_uf] in H; try discriminate.
  - injection H as <-. split; [auto|]. split; [apply ext_refl | constructor].
  - destruct (unify_uf s pv (VConst c)) as [s1|] eqn:E; [|discriminate].
    destruct (IH _ _ _ (unify_uf_wf _ _ _ _ Hw E) H) as (Hu & He & Hf).
    split; [exact Hu|]. split.
    + eapply ext_trans; [eapply unify_uf_ext; eauto | exact He].
    + constructor; auto. eapply ext_val; eauto. apply (unify_uf_eq _ _ _ _ E).
Qed.

Lemma match_fact_uf_props p pvs s f u :
  uwf s -> match_fact_uf p pvs s f = Some u ->
  fst f = p /\ uwf u /\ ext s u /\ Forall2 (fun pv c => resolve_val u pv = VConst c) pvs (snd f).
Proof.
  unfold match_fact_uf. intros Hw H. destruct (Z.eqb_spec (fst f) p); [|discriminate].
  split; auto. eapply unify_args_uf_props; eauto.
Qed.

Lemma step_uf_props strict Sneg Spos p s us :
  uwf s -> step_uf strict Sneg Spos p s = Some us -> forall u, In u us -> uwf u /\ ext s u.
Proof.
  intros Hw H u Hu. destruct p as [a|a|l r|l r|op l r]; cbn [step_uf step_pure_uf] in H.
  - destruct (eval_args_uf s (aargs a)) as [pvs|]; [|discriminate]. injection H as <-.
    apply in_fmap in Hu as (f & _ & Hm). apply match_fact_uf_props in Hm; tauto.
  - destruct (eval_args_uf s (aargs a)) as [pvs|]; [|discriminate].
    destruct (strict && _); [discriminate|]. injection H as <-.
    destruct (existsb _ Sneg); [destruct Hu|]. destruct Hu as [<-|[]]. split; auto using ext_refl.
  - destruct (eval_term_uf s l) as [a|]; [|discriminate]. destruct (eval_term_uf s r) as [b|]; [|discriminate].
    injection H as <-. destruct (unify_uf s a b) as [s'|] eqn:E; [|destruct Hu].
    destruct Hu as [<-|[]]. split; [eapply unify_uf_wf; eauto | eapply unify_uf_ext; eauto].
  - destruct (eval_term_uf s l) as [a|]; [|discriminate]. destruct (eval_term_uf s r) as [b|]; [|discriminate].
    destruct (strict && _); [discriminate|]. injection H as <-.
    destruct (unify_uf s a b); [destruct Hu|]. destruct Hu as [<-|[]]. split; auto using ext_refl.
  - destruct (eval_term_uf s l) as [[a|?]|]; try discriminate. destruct (eval_term_uf s r) as [[b|?]|]; try discriminate.
    destruct (eval_cmp op a b) as [[|]|]; try discriminate; injection H as <-; [|destruct Hu].
    destruct Hu as [<-|[]]. split; auto using ext_refl.
Qed.

Lemma solve_uf_props strict Sneg sel body : forall k sols R,
  Forall uwf sols -> solve_uf strict Sneg sel k body sols = Some R ->
  forall t, In t R -> uwf t /\ exists s, In s sols /\ ext s t.
Proof.
  induction body as [|p b IH]; intros k sols R Hs H t Ht; cbn [solve_uf] in H.
  - injection H as <-. split; [eapply Forall_forall; eauto | exists t; auto using ext_refl].
  - destruct (flat_map_opt (step_uf strict Sneg (sel k) p) sols) as [sols'|] eqn:E; [|discriminate].
    destruct (flat_map_opt_spec _ _ _ E) as [_ Hin].
    assert (Hs' : Forall uwf sols').
    { apply Forall_forall. intros u Hu. apply Hin in Hu as (s & us & Hsin & Hst & Huin).
      assert (Hws : uwf s) by (exact (proj1 (Forall_forall _ _) Hs s Hsin)).
      exact (proj1 (step_uf_props _ _ _ _ _ _ Hws Hst u Huin)). }
    destruct (IH _ _ _ Hs' H t Ht) as (Hwt & u & Hu & Hext). split; auto.
    apply Hin in Hu as (s & us & Hsin & Hst & Huin). exists s. split; auto.
    eapply ext_trans; [|exact Hext].
    assert (Hws : uwf s) by (exact (proj1 (Forall_forall _ _) Hs s Hsin)).
    exact (proj2 (step_uf_props _ _ _ _ _ _ Hws Hst u Huin)).
Qed.

(* every premise of the body was stepped through on the way to a solution *)
Lemma solve_uf_premise strict Sneg sel body : forall k sols R,
  Forall uwf sols -> solve_uf strict Sneg sel k body sols = Some R ->
  forall p t, In p body -> In t R ->
  exists i s us u, step_uf strict Sneg (sel i) p s = Some us /\ uwf s /\ In u us /\ ext u t.
Proof.
  induction body as [|q b IH]; intros k sols R Hs H p t Hp Ht; cbn [solve_uf] in H; [destruct Hp|].
  destruct (flat_map_opt (step_uf strict Sneg (sel k) q) sols) as [sols'|] eqn:E; [|discriminate].
  destruct (flat_map_opt_spec _ _ _ E) as [_ Hin].
  assert (Hs' : Forall uwf sols').
  { apply Forall_forall. intros u Hu. apply Hin in Hu as (s & us & Hsin & Hst & Huin).
    assert (Hws : uwf s) by (exact (proj1 (Forall_forall _ _) Hs s Hsin)).
    exact (proj1 (step_uf_props _ _ _ _ _ _ Hws Hst u Huin)). }
  destruct Hp as [->|Hp].
  - destruct (solve_uf_props _ _ _ _ _ _ _ Hs' H t Ht) as (_ & u & Hu & Hext).
    apply Hin in Hu as (s & us & Hsin & Hst & Huin). exists k, s, us, u.
    split; [exact Hst|]. split; [exact (proj1 (Forall_forall _ _) Hs s Hsin)|]. split; [exact Huin | exact Hext].
  - eapply IH; eauto.
Qed.

(* ---- 3c. the variables a solution must give a constant to *)
Inductive must_bound (body : list premise) : Z -> Prop :=
| mb_atom a v : In (PAtom a) body -> In (TVar v) (aargs a) -> must_bound body v
| mb_val_l x t : In (PEq (TVar x) t) body -> (forall y, t <> TVar y) -> must_bound body x
| mb_val_r x t : In (PEq t (TVar x)) body -> (forall y, t <> TVar y) -> must_bound body x
| mb_alias_l x y : In (PEq (TVar x) (TVar y)) body -> must_bound body y -> must_bound body x
| mb_alias_r x y : In (PEq (TVar x) (TVar y)) body -> must_bound body x -> must_bound body y.

Lemma map_opt_Forall2 {A B} (f : A -> option B) l r : map_opt f l = Some r -> Forall2 (fun a b => f a = Some b) l r.
Proof.
  revert r. induction l as [|a l IH]; intros r; simpl.
  - intros [= <-]. constructor.
  - destruct (f a) as [b|] eqn:E; [|discriminate]. destruct (map_opt f l) as [r'|]; [|discriminate].
    intros [= <-]. constructor; auto.
Qed.

Lemma Forall2_chain {A B C} (P : A -> B -> Prop) (Q : B -> C -> Prop) la lb lc a :
  Forall2 P la lb -> Forall2 Q lb lc -> In a la -> exists b c, P a b /\ Q b c.
Proof.
  intros H. revert lc. induction H as [|x y la lb Hxy H IH]; intros lc HQ Hin; [destruct Hin|].
  inversion HQ as [|? z ? lc' Hyz HQ']; subst. destruct Hin as [->|Hin]; [eauto | eapply IH; eauto].
Qed.

(* a term that is not a variable evaluates to a constant *)
Lemma eval_term_g_nonvar get t x : (forall y, t <> TVar y) -> eval_term_g get t = Some x -> exists c, x = VConst c.
Proof.
  destruct t as [y|c|f args]; intros Hn H.
  - exfalso. eapply Hn; eauto.
  - injection H as <-. eauto.
  - rewrite eval_term_g_app in H. destruct (eval_consts_g get args); [|discriminate].
    destruct (eval_fn f l); [|discriminate]. injection H as <-. eauto.
Qed.

Lemma step_eq_effect strict Sneg Spos l r s us u :
  uwf s -> step_uf strict Sneg Spos (PEq l r) s = Some us -> In u us ->
  exists a b, eval_term_uf s l = Some a /\ eval_term_uf s r = Some b /\ ext s u /\ resolve_val u a = resolve_val u b.
Proof.
  intros Hw H Hu. cbn [step_uf step_pure_uf] in H.
  destruct (eval_term_uf s l) as [a|]; [|discriminate]. destruct (eval_term_uf s r) as [b|]; [|discriminate].
  injection H as <-. destruct (unify_uf s a b) as [s'|] eqn:E; [|destruct Hu]. destruct Hu as [<-|[]].
  exists a, b. split; [reflexivity|]. split; [reflexivity|].
  split; [eapply unify_uf_ext; eauto | eapply unify_uf_eq; eauto].
Qed.

Theorem solve_uf_resolved_all strict Sneg sel body k sols R t :
  Forall uwf sols -> solve_uf strict Sneg sel k body sols = Some R -> In t R ->
  forall v, must_bound body v -> exists c, resolve t v = VConst c.
Proof.
  intros Hs H Ht v Hv.
  induction Hv as [a v Ha Hv | x tm Hp Hn | x tm Hp Hn | x y Hp Hy IH | x y Hp Hx IH].
  - destruct (solve_uf_premise _ _ _ _ _ _ _ Hs H _ _ Ha Ht) as (i & s & us & u & Hst & Hw & Hu & Hext).
    cbn [step_uf] in Hst. destruct (eval_args_uf s (aargs a)) as [pvs|] eqn:Ea; [|discriminate].
    injection Hst as <-. apply in_fmap in Hu as (f & _ & Hm).
    apply match_fact_uf_props in Hm as (_ & _ & Hsu & Hf); auto.
    destruct (Forall2_chain _ _ _ _ _ _ (map_opt_Forall2 _ _ _ Ea) Hf Hv) as (pv & c & Hpv & Hc).
    injection Hpv as <-. rewrite (resolve_val_later _ _ _ Hw Hsu) in Hc.
    exists c. apply (proj1 Hext). exact Hc.
  - destruct (solve_uf_premise _ _ _ _ _ _ _ Hs H _ _ Hp Ht) as (i & s & us & u & Hst & Hw & Hu & Hext).
    destruct (step_eq_effect _ _ _ _ _ _ _ _ Hw Hst Hu) as (a & b & Ea & Eb & Hsu & He).
    injection Ea as <-. destruct (eval_term_g_nonvar _ _ _ Hn Eb) as (c & ->).
    rewrite (resolve_val_later _ _ _ Hw Hsu) in He. exists c. apply (proj1 Hext). exact He.
  - destruct (solve_uf_premise _ _ _ _ _ _ _ Hs H _ _ Hp Ht) as (i & s & us & u & Hst & Hw & Hu & Hext).
    destruct (step_eq_effect _ _ _ _ _ _ _ _ Hw Hst Hu) as (a & b & Ea & Eb & Hsu & He).
    injection Eb as <-. destruct (eval_term_g_nonvar _ _ _ Hn Ea) as (c & ->).
    rewrite (resolve_val_later _ _ _ Hw Hsu) in He. exists c. apply (proj1 Hext). symmetry. exact He.
  - destruct IH as (c & Hc).
    destruct (solve_uf_premise _ _ _ _ _ _ _ Hs H _ _ Hp Ht) as (i & s & us & u & Hst & Hw & Hu & Hext).
    destruct (step_eq_effect _ _ _ _ _ _ _ _ Hw Hst Hu) as (a & b & Ea & Eb & Hsu & He).
    injection Ea as <-. injection Eb as <-. rewrite !(resolve_val_later _ _ _ Hw Hsu) in He.
    exists c. rewrite <- Hc. apply (proj2 Hext). exact He.
  - destruct IH as (c & Hc).
    destruct (solve_uf_premise _ _ _ _ _ _ _ Hs H _ _ Hp Ht) as (i & s & us & u & Hst & Hw & Hu & Hext).
    destruct (step_eq_effect _ _ _ _ _ _ _ _ Hw Hst Hu) as (a & b & Ea & Eb & Hsu & He).
    injection Ea as <-. injection Eb as <-. rewrite !(resolve_val_later _ _ _ Hw Hsu) in He.
    exists c. rewrite <- Hc. apply (proj2 Hext). symmetry. exact He.
Qed.

(* ================= 4. the declarative reading of a strict run *)
Definition val := Z -> const.
Definition den (rho : val) (x : value) : const := match x with VConst c => c | VVar v => rho v end.
(* rho satisfies the constraints s stands for *)
Definition models (rho : val) (s : usubst) : Prop := forall k x, In (k, x) s -> rho k = den rho x.

Lemma models_nil rho : models rho [].
Proof. intros k x []. Qed.

Lemma models_cons rho k x s : models rho ((k, x) :: s) <-> rho k = den rho x /\ models rho s.
Proof.
  split.
  - intros H. split; [apply H; left; auto | intros k' x' Hin; apply H; right; auto].
  - intros [H1 H2] k' x' [[= <- <-]|Hin]; auto.
Qed.

Lemma resolve_sound rho s : models rho s -> forall v, den rho (resolve s v) = rho v.
Proof.
  induction s as [|[k x] s IH]; intros Hm v; [reflexivity|].
  apply models_cons in Hm as [Hk Hs]. rewrite resolve_cons. specialize (IH Hs v).
  destruct (resolve s v) as [c|u]; simpl in *; [exact IH|].
  destruct (Z.eqb_spec u k) as [->|_]; [congruence | exact IH].
Qed.

Lemma resolve_val_sound rho s a : models rho s -> den rho (resolve_val s a) = den rho a.
Proof. intros Hm. destruct a; simpl; [reflexivity | apply resolve_sound; auto]. Qed.

(* ---- ground evaluation under a valuation *)
Fixpoint geval (rho : val) (t : term) : option const :=
  match t with
  | TVar v => Some (rho v)
  | TConst c => Some c
  | TApp f args =>
      match (fix go (l : list term) : option (list const) :=
               match l with
               | [] => Some []
               | a :: l' => match geval rho a with
                            | Some c => match go l' with Some cs => Some (c :: cs) | None => None end
                            | None => None
                            end
               end) args with
      | Some cs => eval_fn f cs
      | None => None
      end
  end.
Definition gargs (rho : val) (ts : list term) : option (list const) := map_opt (geval rho) ts.

Lemma geval_app rho f args :
  geval rho (TApp f args) = match gargs rho args with Some cs => eval_fn f cs | None => None end.
Proof.
  cbn [geval].
  match goal with |- match ?g args with _ => _ end = _ => assert (E : forall l, g l = gargs rho l) end.
  { induction l as [|a l IHl]; [reflexivity|]. unfold gargs. cbn [map_opt]. fold (gargs rho l).
    rewrite <- IHl. destruct (geval rho a); reflexivity. }
  rewrite E. reflexivity.
Qed.

Lemma eval_term_g_sound get rho : (forall v, den rho (get v) = rho v) ->
  forall t x, eval_term_g get t = Some x -> geval rho t = Some (den rho x).
Proof.
  intros Hg. induction t as [v|c|f args IH] using term_ind2; intros x H.
  - injection H as <-. simpl. rewrite Hg. reflexivity.
  - injection H as <-. reflexivity.
  - rewrite eval_term_g_app in H. rewrite geval_app.
    destruct (eval_consts_g get args) as [cs|] eqn:E; [|discriminate].
    assert (Ea : gargs rho args = Some cs).
    { clear H. revert cs E. unfold eval_consts_g, gargs. induction IH as [|a args Ha _ IHl]; intros cs E; cbn [map_opt] in *.
      - exact E.
      - destruct (eval_term_g get a) as [[c|?]|] eqn:Et; try discriminate.
        rewrite (Ha _ eq_refl). simpl.
        destruct (map_opt _ args) as [r|]; [|discriminate]. rewrite (IHl _ eq_refl). exact E. }
    rewrite Ea. destruct (eval_fn f cs); [|discriminate]. injection H as <-. reflexivity.
Qed.

Lemma eval_term_uf_sound rho s t x : models rho s -> eval_term_uf s t = Some x -> geval rho t = Some (den rho x).
Proof. intros Hm. apply eval_term_g_sound. intros v. apply resolve_sound; auto. Qed.

Lemma eval_args_uf_sound rho s : models rho s -> forall ts pvs,
  eval_args_uf s ts = Some pvs -> gargs rho ts = Some (map (den rho) pvs).
Proof.
  intros Hm. unfold eval_args_uf, gargs. induction ts as [|t ts IH]; intros pvs H; cbn [map_opt] in *.
  - injection H as <-. reflexivity.
  - destruct (eval_term_uf s t) as [x|] eqn:E; [|discriminate].
    destruct (map_opt (eval_term_uf s) ts) as [r|]; [|discriminate]. injection H as <-.
    rewrite (eval_term_uf_sound _ _ _ _ Hm E), (IH _ eq_refl). reflexivity.
Qed.

(* ---- what the premises say about a valuation *)
Definition gholds (Sneg Spos : list fact) (rho : val) (p : premise) : Prop :=
  match p with
  | PAtom a => exists cs, gargs rho (aargs a) = Some cs /\ In (apred a, cs) Spos
  | PNeg a => exists cs, gargs rho (aargs a) = Some cs /\ ~ In (apred a, cs) Sneg
  | PEq l r => exists c, geval rho l = Some c /\ geval rho r = Some c
  | PIneq l r => exists a b, geval rho l = Some a /\ geval rho r = Some b /\ a <> b
  | PCmp op l r => exists a b, geval rho l = Some a /\ geval rho r = Some b /\ eval_cmp op a b = Some true
  end.

Fixpoint gsat (Sneg : list fact) (sel : nat -> list fact) (k : nat) (rho : val) (body : list premise) : Prop :=
  match body with
  | [] => True
  | p :: b => gholds Sneg (sel k) rho p /\ gsat Sneg sel (S k) rho b
  end.

(* ---- unification = conjunction of an equation *)
Lemma unify_roots_models s a b :
  (forall u, unify_roots s a b = Some u -> forall rho, models rho u <-> models rho s /\ den rho a = den rho b) /\
  (unify_roots s a b = None -> forall rho, den rho a <> den rho b).
Proof.
  destruct a as [c|v], b as [d|w]; simpl.
  - destruct (const_eqb c d) eqn:E; split; try discriminate.
    + intros u [= <-] rho. apply const_eqb_spec in E. tauto.
    + intros _ rho Hcd. apply const_eqb_spec in Hcd. congruence.
  - split; [|discriminate]. intros u [= <-] rho. rewrite models_cons. simpl. split; intros [A B]; auto.
  - split; [|discriminate]. intros u [= <-] rho. rewrite models_cons. simpl. tauto.
  - split; [|destruct (v =? w); discriminate]. intros u H rho.
    destruct (Z.eqb_spec v w) as [->|_]; injection H as <-; [tauto|]. rewrite models_cons. simpl. tauto.
Qed.

Lemma unify_uf_models s a b :
  (forall u, unify_uf s a b = Some u -> forall rho, models rho u <-> models rho s /\ den rho a = den rho b) /\
  (unify_uf s a b = None -> forall rho, models rho s -> den rho a <> den rho b).
Proof.
  unfold unify_uf. destruct (unify_roots_models s (resolve_val s a) (resolve_val s b)) as [H1 H2]. split.
  - intros u Hu rho. rewrite (H1 u Hu rho). split; intros [Hm He]; split; auto.
    + rewrite <- (resolve_val_sound rho s a Hm), <- (resolve_val_sound rho s b Hm). exact He.
    + rewrite (resolve_val_sound rho s a Hm), (resolve_val_sound rho s b Hm). exact He.
  - intros Hn rho Hm. rewrite <- (resolve_val_sound rho s a Hm), <- (resolve_val_sound rho s b Hm). apply H2; auto.
Qed.

Lemma unify_args_uf_models pvs : forall s cs,
  (forall u, unify_args_uf s pvs cs = Some u -> forall rho, models rho u <-> models rho s /\ map (den rho) pvs = cs) /\
  (unify_args_uf s pvs cs = None -> forall rho, models rho s -> map (den rho) pvs <> cs).
Proof.
  induction pvs as [|pv pvs IH]; intros s [|c cs]; cbn [unify_args_uf map].
  - split; [|discriminate]. intros u [= <-] rho. tauto.
  - split; [discriminate|]. intros _ rho _. discriminate.
  - split; [discriminate|]. intros _ rho _. discriminate.
  - destruct (unify_uf_models s pv (VConst c)) as [U1 U2].
    destruct (unify_uf s pv (VConst c)) as [s1|] eqn:E.
    + destruct (IH s1 cs) as [I1 I2]. split.
      * intros u Hu rho. rewrite (I1 u Hu rho), (U1 s1 eq_refl rho). simpl. split.
        -- intros [[Hm He] Ht]. split; auto. congruence.
        -- intros [Hm [= He Ht]]. auto.
      * intros Hn rho Hm [= He Ht]. apply (I2 Hn rho); auto. apply (U1 s1 eq_refl rho). auto.
    + split; [discriminate|]. intros _ rho Hm [= He Ht]. apply (U2 eq_refl rho Hm). exact He.
Qed.

Lemma match_fact_uf_models p pvs s f :
  (forall u, match_fact_uf p pvs s f = Some u -> forall rho, models rho u <-> models rho s /\ f = (p, map (den rho) pvs)) /\
  (match_fact_uf p pvs s f = None -> forall rho, models rho s -> f <> (p, map (den rho) pvs)).
Proof.
  unfold match_fact_uf. destruct f as [q cs]. cbn [fst snd]. destruct (Z.eqb_spec q p) as [->|Hne].
  - destruct (unify_args_uf_models pvs s cs) as [A B]. split.
    + intros u Hu rho. rewrite (A u Hu rho). split; intros [Hm He]; split; auto; congruence.
    + intros Hn rho Hm [= He]. apply (B Hn rho Hm). auto.
  - split; [discriminate|]. intros _ rho _ [= He _]. contradiction.
Qed.

(* constants only: unification is comparison, the substitution is untouched *)
Lemma unify_args_uf_ground pvs : forall s cs u,
  forallb is_vconst pvs = true -> unify_args_uf s pvs cs = Some u -> u = s.
Proof.
  induction pvs as [|pv pvs IH]; intros s [|c cs] u Hg H; cbn [unify_args_uf] in H; try discriminate.
  - congruence.
  - cbn [forallb] in Hg. apply andb_true_iff in Hg as [Hv Hg]. destruct pv as [d|?]; [|discriminate].
    unfold unify_uf in H. simpl in H. destruct (const_eqb d c); [|discriminate]. eapply IH; eauto.
Qed.

(* ---- one premise of a strict run: the solutions' models are the models of the input
   that satisfy the premise *)
Lemma step_uf_models Sneg Spos p s us :
  step_uf true Sneg Spos p s = Some us ->
  forall rho, (exists u, In u us /\ models rho u) <-> (models rho s /\ gholds Sneg Spos rho p).
Proof.
  intros H rho. destruct p as [a|a|l r|l r|op l r]; cbn [step_uf step_pure_uf gholds andb] in *.
  - destruct (eval_args_uf s (aargs a)) as [pvs|] eqn:Ea; [|discriminate]. injection H as <-. split.
    + intros (u & Hu & Hm). apply in_fmap in Hu as (f & Hf & Hmf).
      apply (proj1 (match_fact_uf_models _ _ _ _) u Hmf rho) in Hm as [Hs ->].
      split; auto. exists (map (den rho) pvs). split; auto. eapply eval_args_uf_sound; eauto.
    + intros (Hs & cs & Hg & Hin). rewrite (eval_args_uf_sound _ _ Hs _ _ Ea) in Hg. injection Hg as <-.
      destruct (match_fact_uf (apred a) pvs s (apred a, map (den rho) pvs)) as [u|] eqn:Em.
      * exists u. split; [apply in_fmap; eauto|].
        apply (proj1 (match_fact_uf_models _ _ _ _) u Em rho). auto.
      * exfalso. apply (proj2 (match_fact_uf_models _ _ _ _) Em rho Hs). reflexivity.
  - destruct (eval_args_uf s (aargs a)) as [pvs|] eqn:Ea; [|discriminate].
    destruct (forallb is_vconst pvs) eqn:Hg; [|discriminate]. cbn [negb] in H. injection H as <-.
    destruct (existsb (fun f => is_some (match_fact_uf (apred a) pvs s f)) Sneg) eqn:Ex.
    + split; [intros (u & [] & _)|]. intros (Hs & cs & Hga & Hnin). exfalso. apply Hnin.
      apply existsb_exists in Ex as (f & Hf & Hsome).
      destruct (match_fact_uf (apred a) pvs s f) as [u|] eqn:Em; [|discriminate].
      assert (u = s).
      { unfold match_fact_uf in Em. destruct (fst f =? apred a); [|discriminate]. eapply unify_args_uf_ground; eauto. }
      subst u. rewrite (eval_args_uf_sound _ _ Hs _ _ Ea) in Hga. injection Hga as <-.
      destruct (proj1 (proj1 (match_fact_uf_models _ _ _ _) s Em rho) Hs) as [_ <-]. exact Hf.
    + split.
      * intros (u & [<-|[]] & Hm). split; auto. exists (map (den rho) pvs). split; [eapply eval_args_uf_sound; eauto|].
        intros Hin. assert (Ht : existsb (fun f => is_some (match_fact_uf (apred a) pvs s f)) Sneg = true); [|congruence].
        apply existsb_exists. exists (apred a, map (den rho) pvs). split; auto.
        destruct (match_fact_uf (apred a) pvs s (apred a, map (den rho) pvs)) eqn:Em; [reflexivity|].
        exfalso. apply (proj2 (match_fact_uf_models _ _ _ _) Em rho Hm). reflexivity.
      * intros (Hs & _). exists s. split; [left|]; auto.
  - destruct (eval_term_uf s l) as [a|] eqn:El; [|discriminate]. destruct (eval_term_uf s r) as [b|] eqn:Er; [|discriminate].
    injection H as <-. destruct (unify_uf_models s a b) as [U1 U2]. split.
    + intros (u & Hu & Hm). destruct (unify_uf s a b) as [s'|]; [|destruct Hu]. destruct Hu as [<-|[]].
      apply (U1 _ eq_refl rho) in Hm as [Hs He]. split; auto. exists (den rho a).
      rewrite (eval_term_uf_sound _ _ _ _ Hs El), (eval_term_uf_sound _ _ _ _ Hs Er), He. auto.
    + intros (Hs & c & Hl & Hr). rewrite (eval_term_uf_sound _ _ _ _ Hs El) in Hl. rewrite (eval_term_uf_sound _ _ _ _ Hs Er) in Hr.
      destruct (unify_uf s a b) as [s'|] eqn:E.
      * exists s'. split; [left; auto|]. apply (U1 _ eq_refl rho). split; auto. congruence.
      * exfalso. apply (U2 eq_refl rho Hs). congruence.
  - destruct (eval_term_uf s l) as [a|] eqn:El; [|discriminate]. destruct (eval_term_uf s r) as [b|] eqn:Er; [|discriminate].
    destruct a as [a|?]; [|discriminate]. destruct b as [b|?]; [|discriminate]. cbn [is_vconst andb negb] in H.
    injection H as <-. unfold unify_uf. simpl. split.
    + intros (u & Hu & Hm). destruct (const_eqb a b) eqn:E; [destruct Hu|]. destruct Hu as [<-|[]].
      split; auto. exists a, b. rewrite (eval_term_uf_sound _ _ _ _ Hm El), (eval_term_uf_sound _ _ _ _ Hm Er).
      repeat split; auto. intros ->. assert (const_eqb b b = true) by (apply const_eqb_spec; auto). congruence.
    + intros (Hs & a' & b' & Hl & Hr & Hne). rewrite (eval_term_uf_sound _ _ _ _ Hs El) in Hl. rewrite (eval_term_uf_sound _ _ _ _ Hs Er) in Hr.
      simpl in Hl, Hr. injection Hl as <-. injection Hr as <-.
      destruct (const_eqb a b) eqn:E; [apply const_eqb_spec in E; contradiction|]. exists s. split; [left|]; auto.
  - destruct (eval_term_uf s l) as [[a|?]|] eqn:El; try discriminate. destruct (eval_term_uf s r) as [[b|?]|] eqn:Er; try discriminate.
    split.
    + intros (u & Hu & Hm). destruct (eval_cmp op a b) as [[|]|] eqn:Ec; try discriminate; injection H as <-; [|destruct Hu].
      destruct Hu as [<-|[]]. split; auto. exists a, b.
      rewrite (eval_term_uf_sound _ _ _ _ Hm El), (eval_term_uf_sound _ _ _ _ Hm Er). auto.
    + intros (Hs & a' & b' & Hl & Hr & Hc). rewrite (eval_term_uf_sound _ _ _ _ Hs El) in Hl. rewrite (eval_term_uf_sound _ _ _ _ Hs Er) in Hr.
      simpl in Hl, Hr. injection Hl as <-. injection Hr as <-. rewrite Hc in H. injection H as <-.
      exists s. split; [left|]; auto.
Qed.

Lemma solve_uf_models Sneg sel body : forall k sols R,
  solve_uf true Sneg sel k body sols = Some R ->
  forall rho, (exists t, In t R /\ models rho t) <-> ((exists s, In s sols /\ models rho s) /\ gsat Sneg sel k rho body).
Proof.
  induction body as [|p b IH]; intros k sols R H rho; cbn [solve_uf gsat] in *.
  - injection H as <-. tauto.
  - destruct (flat_map_opt (step_uf true Sneg (sel k) p) sols) as [sols'|] eqn:E; [|discriminate].
    destruct (flat_map_opt_spec _ _ _ E) as [Hdef Hin]. rewrite (IH _ _ _ H rho). split.
    + intros ((u & Hu & Hm) & Hb). apply Hin in Hu as (s & us & Hs & Hst & Huin).
      destruct (proj1 (step_uf_models _ _ _ _ _ Hst rho) (ex_intro _ u (conj Huin Hm))) as [Hms Hp].
      split; [eauto | split; auto].
    + intros ((s & Hs & Hms) & Hp & Hb). destruct (Hdef s Hs) as (us & Hst).
      destruct (proj2 (step_uf_models _ _ _ _ _ Hst rho) (conj Hms Hp)) as (u & Huin & Hm).
      split; auto. exists u. split; auto. apply Hin. exists s, us. auto.
Qed.

(* ---- every well-formed substitution has a model *)
Definition closed (s : usubst) : Prop := forall k x, In (k, x) s -> resolve s k = resolve_val s x.

Lemma uwf_closed s : uwf s -> closed s.
Proof.
  induction 1 as [|k c s Hw IH Hk|k w s Hw IH Hk Hr Hne]; intros a y Hin.
  - destruct Hin.
  - destruct Hin as [[= <- <-]|Hin].
    + rewrite resolve_cons, Hk. simpl. rewrite Z.eqb_refl. reflexivity.
    + rewrite resolve_cons, resolve_val_cons, (IH _ _ Hin). reflexivity.
  - destruct Hin as [[= <- <-]|Hin].
    + rewrite resolve_cons, resolve_val_cons, Hk. simpl. rewrite Hr. simpl. rewrite Z.eqb_refl.
      destruct (Z.eqb_spec w k); congruence.
    + rewrite resolve_cons, resolve_val_cons, (IH _ _ Hin). reflexivity.
Qed.

Definition canon (s : usubst) : val := fun v => match resolve s v with VConst c => c | VVar _ => CNil end.

Lemma canon_models s : uwf s -> models (canon s) s.
Proof.
  intros Hw k x Hin. unfold canon at 1. rewrite (uwf_closed s Hw k x Hin). destruct x as [c|w]; reflexivity.
Qed.

(* ---- the variables a substitution mentions *)
Definition vin (P : Z -> Prop) (a : value) : Prop := match a with VVar v => P v | VConst _ => True end.
Definition svars_in (P : Z -> Prop) (s : usubst) : Prop := forall k x, In (k, x) s -> P k /\ vin P x.

Lemma resolve_vin P s : svars_in P s -> forall v, P v -> vin P (resolve s v).
Proof.
  induction s as [|[k x] s IH]; intros Hs v Hv; [exact Hv|].
  assert (Hs' : svars_in P s) by (intros k' x' Hin; apply Hs; right; auto).
  rewrite resolve_cons. specialize (IH Hs' v Hv). destruct (resolve s v) as [c|u]; simpl; [exact I|].
  destruct (u =? k); [apply (Hs k x); left; auto | exact IH].
Qed.

Lemma resolve_val_vin P s a : svars_in P s -> vin P a -> vin P (resolve_val s a).
Proof. intros Hs. destruct a; simpl; [auto | apply resolve_vin; auto]. Qed.

Lemma unify_uf_vin P s a b u : svars_in P s -> vin P a -> vin P b -> unify_uf s a b = Some u -> svars_in P u.
Proof.
  intros Hs Ha Hb. unfold unify_uf.
  pose proof (resolve_val_vin P s a Hs Ha) as Ha'. pose proof (resolve_val_vin P s b Hs Hb) as Hb'.
  destruct (resolve_val s a) as [c|v], (resolve_val s b) as [d|w]; simpl in *.
  - destruct (const_eqb c d); [intros [= <-]; auto | discriminate].
  - intros [= <-] k x [[= <- <-]|Hin]; [simpl; auto | auto].
  - intros [= <-] k x [[= <- <-]|Hin]; [simpl; auto | auto].
  - destruct (v =? w); intros [= <-]; auto. intros k x [[= <- <-]|Hin]; [simpl; auto | auto].
Qed.

Lemma unify_args_uf_vin P pvs : forall s cs u,
  svars_in P s -> Forall (vin P) pvs -> unify_args_uf s pvs cs = Some u -> svars_in P u.
Proof.
  induction pvs as [|pv pvs IH]; intros s [|c cs] u Hs Hp H; cbn [unify_args_uf] in H; try discriminate.
  - injection H as <-. exact Hs.
  - inversion Hp as [|? ? Hpv Hp']; subst.
    destruct (unify_uf s pv (VConst c)) as [s1|] eqn:E; [|discriminate].
    eapply IH; [|exact Hp'|exact H]. exact (unify_uf_vin P s pv (VConst c) s1 Hs Hpv I E).
Qed.

(* variables that occur as a whole argument / side (what is inside a function application
   is evaluated to a constant and never enters a substitution) *)
Definition dvar (t : term) : list Z := match t with TVar v => [v] | _ => [] end.
Definition pvars (p : premise) : list Z :=
  match p with
  | PAtom a | PNeg a => flat_map dvar (aargs a)
  | PEq l r | PIneq l r | PCmp _ l r => dvar l ++ dvar r
  end.
Definition bvars (body : list premise) : list Z := flat_map pvars body.

Lemma eval_term_uf_vin P s t a : svars_in P s -> (forall v, In v (dvar t) -> P v) -> eval_term_uf s t = Some a -> vin P a.
Proof.
  intros Hs Ht H. destruct t as [v|c|f args].
  - injection H as <-. apply resolve_vin; auto. apply Ht. left; auto.
  - injection H as <-. exact I.
  - unfold eval_term_uf in H. rewrite eval_term_g_app in H. destruct (eval_consts_g _ args); [|discriminate].
    destruct (eval_fn f l); [|discriminate]. injection H as <-. exact I.
Qed.

Lemma eval_args_uf_vin P s : svars_in P s -> forall ts pvs,
  (forall v, In v (flat_map dvar ts) -> P v) -> eval_args_uf s ts = Some pvs -> Forall (vin P) pvs.
Proof.
  intros Hs. unfold eval_args_uf. induction ts as [|t ts IH]; intros pvs Ht H; cbn [map_opt] in H.
  - injection H as <-. constructor.
  - destruct (eval_term_uf s t) as [x|] eqn:E; [|discriminate].
    destruct (map_opt (eval_term_uf s) ts) as [r|]; [|discriminate]. injection H as <-. constructor.
    + eapply eval_term_uf_vin; eauto. intros v Hv. apply Ht. cbn [flat_map]. apply in_or_app. auto.
    + apply IH; auto. intros v Hv. apply Ht. cbn [flat_map]. apply in_or_app. auto.
Qed.

Lemma step_uf_vin P strict Sneg Spos p s us :
  svars_in P s -> (forall v, In v (pvars p) -> P v) -> step_uf strict Sneg Spos p s = Some us ->
  forall u, In u us -> svars_in P u.
Proof.
  intros Hs Hp H u Hu. destruct p as [a|a|l r|l r|op l r]; cbn [step_uf step_pure_uf pvars] in *.
  - destruct (eval_args_uf s (aargs a)) as [pvs|] eqn:Ea; [|discriminate]. injection H as <-.
    apply in_fmap in Hu as (f & _ & Hm). unfold match_fact_uf in Hm. destruct (fst f =? apred a); [|discriminate].
    eapply unify_args_uf_vin; [exact Hs| |exact Hm]. eapply eval_args_uf_vin; eauto.
  - destruct (eval_args_uf s (aargs a)) as [pvs|]; [|discriminate]. destruct (strict && _); [discriminate|].
    injection H as <-. destruct (existsb _ Sneg); [destruct Hu|]. destruct Hu as [<-|[]]. exact Hs.
  - destruct (eval_term_uf s l) as [a|] eqn:El; [|discriminate]. destruct (eval_term_uf s r) as [b|] eqn:Er; [|discriminate].
    injection H as <-. destruct (unify_uf s a b) as [s'|] eqn:E; [|destruct Hu]. destruct Hu as [<-|[]].
    eapply unify_uf_vin; [exact Hs| | |exact E].
    + eapply eval_term_uf_vin; eauto. intros v Hv. apply Hp. apply in_or_app. auto.
    + eapply eval_term_uf_vin; eauto. intros v Hv. apply Hp. apply in_or_app. auto.
  - destruct (eval_term_uf s l) as [a|]; [|discriminate]. destruct (eval_term_uf s r) as [b|]; [|discriminate].
    destruct (strict && _); [discriminate|]. injection H as <-.
    destruct (unify_uf s a b); [destruct Hu|]. destruct Hu as [<-|[]]. exact Hs.
  - destruct (eval_term_uf s l) as [[a|?]|]; try discriminate. destruct (eval_term_uf s r) as [[b|?]|]; try discriminate.
    destruct (eval_cmp op a b) as [[|]|]; try discriminate; injection H as <-; [|destruct Hu].
    destruct Hu as [<-|[]]. exact Hs.
Qed.

Lemma solve_uf_vin P strict Sneg sel body : forall k sols R,
  Forall (svars_in P) sols -> (forall v, In v (bvars body) -> P v) ->
  solve_uf strict Sneg sel k body sols = Some R -> Forall (svars_in P) R.
Proof.
  induction body as [|p b IH]; intros k sols R Hs Hb H; cbn [solve_uf] in H.
  - injection H as <-. exact Hs.
  - destruct (flat_map_opt (step_uf strict Sneg (sel k) p) sols) as [sols'|] eqn:E; [|discriminate].
    destruct (flat_map_opt_spec _ _ _ E) as [_ Hin].
    eapply IH; [| |exact H].
    + apply Forall_forall. intros u Hu. apply Hin in Hu as (s & us & Hsin & Hst & Huin).
      eapply step_uf_vin; [exact (proj1 (Forall_forall _ _) Hs s Hsin)| |exact Hst|exact Huin].
      intros v Hv. apply Hb. unfold bvars. cbn [flat_map]. apply in_or_app. auto.
    + intros v Hv. apply Hb. unfold bvars. cbn [flat_map]. apply in_or_app. auto.
Qed.

(* ---- the head of a solution is a function of any of its models *)
Definition upd (rho : val) (v : Z) (c : const) : val := fun w => if w =? v then c else rho w.

Fixpoint glet (rho : val) (stmts : list (Z * term)) : option val :=
  match stmts with
  | [] => Some rho
  | (v, t) :: rest => match geval rho t with Some c => glet (upd rho v c) rest | None => None end
  end.

Definition ghead (rho : val) (c : clause) : option fact :=
  match glet rho (clet c) with
  | None => None
  | Some rho' => match gargs rho' (aargs (chead c)) with Some cs => Some (apred (chead c), cs) | None => None end
  end.

Lemma models_upd rho s v c : svars_in (fun w => w <> v) s -> models rho s -> models (upd rho v c) s.
Proof.
  intros Hs Hm k x Hin. destruct (Hs k x Hin) as [Hk Hx]. unfold upd at 1.
  destruct (Z.eqb_spec k v); [contradiction|]. rewrite (Hm k x Hin). destruct x as [d|w]; simpl; [reflexivity|].
  simpl in Hx. unfold upd. destruct (Z.eqb_spec w v); [contradiction | reflexivity].
Qed.

Lemma urow_get_sound rho s L : models rho s -> (forall v c, lookup v L = Some c -> rho v = c) ->
  forall v, den rho (urow_get s L v) = rho v.
Proof.
  intros Hm HL v. unfold urow_get. destruct (lookup v L) as [c|] eqn:E.
  - simpl. symmetry. auto.
  - pose proof (resolve_sound rho s Hm v) as Hr. destruct (resolve s v); simpl in *; auto.
Qed.

Lemma run_let_uf_sound s stmts : forall L rho L',
  svars_in (fun w => ~ In w (map fst stmts)) s ->
  models rho s -> (forall v c, lookup v L = Some c -> rho v = c) ->
  run_let_uf s L stmts = Some L' ->
  exists rho', glet rho stmts = Some rho' /\ models rho' s /\ (forall v c, lookup v L' = Some c -> rho' v = c).
Proof.
  induction stmts as [|[v t] rest IH]; intros L rho L' Hd Hm HL H; cbn [run_let_uf glet] in *.
  - injection H as <-. eauto.
  - destruct (eval_term_g (urow_get s L) t) as [[c|?]|] eqn:E; try discriminate.
    rewrite (eval_term_g_sound _ rho (urow_get_sound rho s L Hm HL) _ _ E). simpl.
    apply (IH ((v, c) :: L) (upd rho v c) L'); auto.
    + intros k x Hin. destruct (Hd k x Hin) as [A B]. split.
      * intros Hk. apply A. right. exact Hk.
      * destruct x as [d|w]; [exact I|]. cbn [vin map fst] in *. intros Hw. apply B. right. exact Hw.
    + apply models_upd; auto. intros k x Hin. destruct (Hd k x Hin) as [A B]. split.
      * intros ->. apply A. left. reflexivity.
      * destruct x as [d|w]; [exact I|]. cbn [vin map fst] in *. intros ->. apply B. left. reflexivity.
    + intros w d. cbn [lookup]. unfold upd. destruct (w =? v); [intros [= <-]; auto | auto].
Qed.

Lemma emit_head_uf_sound rho c s f :
  svars_in (fun w => ~ In w (map fst (clet c))) s -> models rho s ->
  emit_head_uf c s = Some f -> ghead rho c = Some f.
Proof.
  intros Hd Hm H. unfold emit_head_uf in H. unfold ghead.
  destruct (eval_args_uf s (aargs (chead c))) as [pvs|] eqn:Ea; [|discriminate].
  destruct (run_let_uf s [] (clet c)) as [L|] eqn:El; [|discriminate].
  assert (H0 : forall v c0, lookup v [] = Some c0 -> rho v = c0) by (intros ? ? Hx; discriminate Hx).
  destruct (run_let_uf_sound s (clet c) [] rho L Hd Hm H0 El) as (rho' & Hg & Hm' & HL).
  rewrite Hg.
  destruct (map_opt (ground_value_uf s L) pvs) as [cs|] eqn:Eg; [|discriminate]. injection H as <-.
  rewrite (eval_args_uf_sound _ _ Hm' _ _ Ea).
  assert (E : map (den rho') pvs = cs).
  { clear Ea. revert cs Eg. induction pvs as [|pv pvs IH]; intros cs Eg; cbn [map_opt map] in *.
    - congruence.
    - destruct (ground_value_uf s L pv) as [c0|] eqn:Ep; [|discriminate].
      destruct (map_opt (ground_value_uf s L) pvs) as [r|]; [|discriminate]. injection Eg as <-.
      rewrite (IH _ eq_refl). f_equal. destruct pv as [d|v]; simpl in *; [congruence|].
      pose proof (urow_get_sound rho' s L Hm' HL v) as Hu. destruct (urow_get s L v); [|discriminate].
      simpl in Hu. congruence. }
  rewrite E. reflexivity.
Qed.

(* ---- eliminating an alias variable: W is replaced by V everywhere *)
Fixpoint sub_term (W V : Z) (t : term) : term :=
  match t with
  | TVar v => TVar (if Z.eqb v W then V else v)
  | TConst c => t
  | TApp f args => TApp f (map (sub_term W V) args)
  end.
Definition sub_atom (W V : Z) (a : atom) : atom := mkAtom (apred a) (map (sub_term W V) (aargs a)).
Definition sub_premise (W V : Z) (p : premise) : premise :=
  match p with
  | PAtom a => PAtom (sub_atom W V a)
  | PNeg a => PNeg (sub_atom W V a)
  | PEq l r => PEq (sub_term W V l) (sub_term W V r)
  | PIneq l r => PIneq (sub_term W V l) (sub_term W V r)
  | PCmp op l r => PCmp op (sub_term W V l) (sub_term W V r)
  end.
(* the variable a let-statement defines is not an occurrence *)
Definition sub_clause (W V : Z) (c : clause) : clause :=
  mkClause (sub_atom W V (chead c)) (map (sub_premise W V) (cbody c))
           (map (fun vt => (fst vt, sub_term W V (snd vt))) (clet c)).

Lemma geval_sub rho W V : rho W = rho V -> forall t, geval rho (sub_term W V t) = geval rho t.
Proof.
  intros He. induction t as [v|c|f args IH] using term_ind2.
  - simpl. destruct (Z.eqb_spec v W); congruence.
  - reflexivity.
  - cbn [sub_term]. rewrite !geval_app.
    assert (E : gargs rho (map (sub_term W V) args) = gargs rho args).
    { unfold gargs. induction IH as [|a args Ha _ IHl]; [reflexivity|]. cbn [map map_opt]. rewrite Ha, IHl. reflexivity. }
    rewrite E. reflexivity.
Qed.

Lemma gargs_sub rho W V ts : rho W = rho V -> gargs rho (map (sub_term W V) ts) = gargs rho ts.
Proof.
  intros He. unfold gargs. induction ts as [|t ts IH]; [reflexivity|]. cbn [map map_opt].
  rewrite (geval_sub rho W V He), IH. reflexivity.
Qed.

Lemma gholds_sub Sneg Spos rho W V p : rho W = rho V ->
  (gholds Sneg Spos rho (sub_premise W V p) <-> gholds Sneg Spos rho p).
Proof.
  intros He. destruct p as [a|a|l r|l r|op l r]; cbn [gholds sub_premise sub_atom aargs apred];
    rewrite ?(gargs_sub rho W V _ He), ?(geval_sub rho W V He); tauto.
Qed.

Lemma gsat_sub Sneg sel rho W V body : rho W = rho V -> forall k,
  (gsat Sneg sel k rho (map (sub_premise W V) body) <-> gsat Sneg sel k rho body).
Proof.
  intros He. induction body as [|p b IH]; intros k; cbn [map gsat]; [tauto|].
  rewrite (gholds_sub _ _ _ _ _ _ He), IH. tauto.
Qed.

Lemma gsat_in Sneg sel rho body : forall k p, gsat Sneg sel k rho body -> In p body -> exists i, gholds Sneg (sel i) rho p.
Proof.
  induction body as [|q b IH]; intros k p H Hin; [destruct Hin|]. destruct H as [Hq Hb].
  destruct Hin as [->|Hin]; [eauto | eapply IH; eauto].
Qed.

Lemma glet_sub W V stmts : forall rho, rho W = rho V -> ~ In W (map fst stmts) -> ~ In V (map fst stmts) ->
  glet rho (map (fun vt => (fst vt, sub_term W V (snd vt))) stmts) = glet rho stmts.
Proof.
  induction stmts as [|[v t] rest IH]; intros rho He HW HV; cbn [map glet fst snd]; [reflexivity|].
  rewrite (geval_sub rho W V He). destruct (geval rho t) as [c|]; [|reflexivity].
  apply IH.
  - unfold upd. destruct (Z.eqb_spec W v) as [->|_]; [exfalso; apply HW; left; reflexivity|].
    destruct (Z.eqb_spec V v) as [->|_]; [exfalso; apply HV; left; reflexivity | exact He].
  - intros H. apply HW. right. exact H.
  - intros H. apply HV. right. exact H.
Qed.

Lemma glet_keeps stmts : forall rho rho' v, glet rho stmts = Some rho' -> ~ In v (map fst stmts) -> rho' v = rho v.
Proof.
  induction stmts as [|[w t] rest IH]; intros rho rho' v H Hv; cbn [glet] in H.
  - congruence.
  - destruct (geval rho t) as [c|]; [|discriminate]. rewrite (IH _ _ _ H).
    + unfold upd. destruct (Z.eqb_spec v w) as [->|_]; [exfalso; apply Hv; left; reflexivity | reflexivity].
    + intros Hin. apply Hv. right. exact Hin.
Qed.

Lemma ghead_sub rho W V c : rho W = rho V -> ~ In W (map fst (clet c)) -> ~ In V (map fst (clet c)) ->
  ghead rho (sub_clause W V c) = ghead rho c.
Proof.
  intros He HW HV. unfold ghead. cbn [sub_clause clet chead sub_atom aargs apred].
  rewrite (glet_sub W V _ rho He HW HV). destruct (glet rho (clet c)) as [rho'|] eqn:E; [|reflexivity].
  rewrite gargs_sub; [reflexivity|]. rewrite (glet_keeps _ _ _ W E HW), (glet_keeps _ _ _ V E HV). exact He.
Qed.

Lemma dvar_sub W V t v : In v (dvar (sub_term W V t)) -> (v = V /\ In W (dvar t)) \/ (v <> W /\ In v (dvar t)).
Proof.
  destruct t as [x|c|f args]; simpl; try tauto.
  destruct (Z.eqb_spec x W) as [->|Hx]; intros [<-|[]]; [left | right]; auto.
Qed.

Lemma pvars_sub W V p v : In v (pvars (sub_premise W V p)) -> (v = V /\ In W (pvars p)) \/ (v <> W /\ In v (pvars p)).
Proof.
  assert (Hl : forall ts, In v (flat_map dvar (map (sub_term W V) ts)) ->
                          (v = V /\ In W (flat_map dvar ts)) \/ (v <> W /\ In v (flat_map dvar ts))).
  { induction ts as [|t ts IH]; cbn [map flat_map]; [tauto|]. rewrite !in_app_iff.
    intros [H|H]; [apply dvar_sub in H | apply IH in H]; tauto. }
  destruct p as [a|a|l r|l r|op l r]; cbn [pvars sub_premise sub_atom aargs]; try apply Hl;
    rewrite !in_app_iff; intros [H|H]; apply dvar_sub in H; tauto.
Qed.

Lemma bvars_sub W V body v : In v (bvars (map (sub_premise W V) body)) ->
  (v = V /\ In W (bvars body)) \/ (v <> W /\ In v (bvars body)).
Proof.
  unfold bvars. induction body as [|p b IH]; cbn [map flat_map]; [tauto|]. rewrite !in_app_iff.
  intros [H|H]; [apply pvars_sub in H | apply IH in H]; tauto.
Qed.

(* ---- 4b. a strict run computes the declarative reading of the clause; eliminating an
   alias variable does not change the derived facts *)
Lemma svars_in_nil P : Forall (svars_in P) [[]].
Proof. constructor; [intros k x []|constructor]. Qed.

Lemma uwf_start : Forall uwf [[]].
Proof. repeat constructor. Qed.

Theorem eval_clause_uf_declarative Sneg sel c fs :
  (forall v, In v (bvars (cbody c)) -> ~ In v (map fst (clet c))) ->
  eval_clause_uf true Sneg sel c = Some fs ->
  forall f, In f fs <-> exists rho, gsat Sneg sel 0 rho (cbody c) /\ ghead rho c = Some f.
Proof.
  intros Hlet H f. unfold eval_clause_uf in H.
  destruct (solve_uf true Sneg sel 0 (cbody c) [[]]) as [R|] eqn:E; [|discriminate].
  destruct (map_opt_spec _ _ _ H) as [Hdef Hin].
  assert (Hd : forall t, In t R -> svars_in (fun w => ~ In w (map fst (clet c))) t).
  { intros t Ht. pose proof (solve_uf_vin (fun w => In w (bvars (cbody c))) _ _ _ _ _ _ _ (svars_in_nil _) (fun v Hv => Hv) E) as Hv.
    pose proof (proj1 (Forall_forall _ _) Hv t Ht) as Hvt. intros k x Hkx. destruct (Hvt k x Hkx) as [A B].
    split; [auto|]. destruct x as [d|w]; simpl in *; auto. }
  rewrite Hin. split.
  - intros (t & Ht & He). destruct (solve_uf_props _ _ _ _ _ _ _ uwf_start E t Ht) as [Hw _].
    exists (canon t). split.
    + apply (proj1 (solve_uf_models _ _ _ _ _ _ E (canon t)) (ex_intro _ t (conj Ht (canon_models t Hw)))).
    + eapply emit_head_uf_sound; eauto using canon_models.
  - intros (rho & Hg & Hh).
    destruct (proj2 (solve_uf_models _ _ _ _ _ _ E rho)) as (t & Ht & Hm).
    { split; [exists []; split; [left; auto | apply models_nil] | exact Hg]. }
    exists t. split; auto. destruct (Hdef t Ht) as (f2 & Hf2).
    rewrite (emit_head_uf_sound rho c t f2 (Hd t Ht) Hm Hf2) in Hh. congruence.
Qed.

(* a derived fact has a witnessing valuation that moreover treats a variable W, which the
   body does not mention, like any chosen V *)
Lemma eval_clause_uf_witness Sneg sel c fs W V :
  (forall v, In v (bvars (cbody c)) -> ~ In v (map fst (clet c))) ->
  ~ In W (bvars (cbody c)) ->
  eval_clause_uf true Sneg sel c = Some fs ->
  forall f, In f fs -> exists rho, rho W = rho V /\ gsat Sneg sel 0 rho (cbody c) /\ ghead rho c = Some f.
Proof.
  intros Hlet HW H f Hf. unfold eval_clause_uf in H.
  destruct (solve_uf true Sneg sel 0 (cbody c) [[]]) as [R|] eqn:E; [|discriminate].
  destruct (map_opt_spec _ _ _ H) as [_ Hin]. apply Hin in Hf as (t & Ht & He).
  pose proof (solve_uf_vin (fun w => In w (bvars (cbody c))) _ _ _ _ _ _ _ (svars_in_nil _) (fun v Hv => Hv) E) as Hv.
  pose proof (proj1 (Forall_forall _ _) Hv t Ht) as Hvt.
  destruct (solve_uf_props _ _ _ _ _ _ _ uwf_start E t Ht) as [Hw _].
  destruct (Z.eq_dec W V) as [->|Hne].
  - exists (canon t). split; [reflexivity|]. split.
    + apply (proj1 (solve_uf_models _ _ _ _ _ _ E (canon t)) (ex_intro _ t (conj Ht (canon_models t Hw)))).
    + eapply emit_head_uf_sound; eauto using canon_models.
      intros k x Hkx. destruct (Hvt k x Hkx) as [A B]. split; [auto|]. destruct x as [d|w]; simpl in *; auto.
  - set (rho := upd (canon t) W (canon t V)).
    assert (Hm : models rho t).
    { apply models_upd; [|apply canon_models; auto]. intros k x Hkx. destruct (Hvt k x Hkx) as [A B]. split.
      - intros ->. contradiction.
      - destruct x as [d|w]; [exact I|]. simpl in *. intros ->. contradiction. }
    exists rho. split; [|split].
    + unfold rho, upd. rewrite Z.eqb_refl. destruct (Z.eqb_spec V W); [congruence | reflexivity].
    + apply (proj1 (solve_uf_models _ _ _ _ _ _ E rho) (ex_intro _ t (conj Ht Hm))).
    + eapply emit_head_uf_sound; eauto.
      intros k x Hkx. destruct (Hvt k x Hkx) as [A B]. split; [auto|]. destruct x as [d|w]; simpl in *; auto.
Qed.

Theorem alias_elimination Sneg sel c W V fs' fs :
  W <> V ->
  In (PEq (TVar W) (TVar V)) (cbody c) \/ In (PEq (TVar V) (TVar W)) (cbody c) ->
  (forall v, In v (bvars (cbody c)) -> ~ In v (map fst (clet c))) ->
  eval_clause_uf true Sneg sel c = Some fs' ->
  eval_clause_uf true Sneg sel (sub_clause W V c) = Some fs ->
  forall f, In f fs' <-> In f fs.
Proof.
  intros Hne Heq Hlet E' E f.
  assert (HWV : In W (bvars (cbody c)) /\ In V (bvars (cbody c))).
  { unfold bvars. split; apply in_flat_map; destruct Heq as [H|H];
      (eexists; split; [exact H|]); simpl; auto. }
  destruct HWV as [HWb HVb].
  assert (HlW : ~ In W (map fst (clet c))) by auto. assert (HlV : ~ In V (map fst (clet c))) by auto.
  assert (Hlet2 : forall v, In v (bvars (cbody (sub_clause W V c))) -> ~ In v (map fst (clet (sub_clause W V c)))).
  { cbn [sub_clause cbody clet]. rewrite map_map. cbn [fst]. intros v Hv.
    apply bvars_sub in Hv as [[-> _]|[_ Hv]]; auto. }
  assert (HW2 : ~ In W (bvars (cbody (sub_clause W V c)))).
  { cbn [sub_clause cbody]. intros Hv. apply bvars_sub in Hv as [[-> _]|[Hc _]]; congruence. }
  assert (Hmodel : forall rho, gsat Sneg sel 0 rho (cbody c) -> rho W = rho V).
  { intros rho Hg. destruct Heq as [H|H]; destruct (gsat_in _ _ _ _ _ _ Hg H) as (i & c0 & Hl & Hr); simpl in *; congruence. }
  split.
  - intros Hf. apply (eval_clause_uf_declarative _ _ _ _ Hlet E' f) in Hf as (rho & Hg & Hh).
    pose proof (Hmodel rho Hg) as He.
    apply (eval_clause_uf_declarative _ _ _ _ Hlet2 E f). exists rho. split.
    + cbn [sub_clause cbody]. apply gsat_sub; auto.
    + rewrite ghead_sub; auto.
  - intros Hf. destruct (eval_clause_uf_witness _ _ _ _ W V Hlet2 HW2 E f Hf) as (rho & He & Hg & Hh).
    apply (eval_clause_uf_declarative _ _ _ _ Hlet E' f). exists rho. split.
    + cbn [sub_clause cbody] in Hg. exact (proj1 (gsat_sub Sneg sel rho W V (cbody c) He 0%nat) Hg).
    + rewrite ghead_sub in Hh; auto.
Qed.

(* ---- a strict run that succeeds is the run of the Go-shaped evaluator *)
Lemma step_uf_strict_lax Sneg Spos p s us : step_uf true Sneg Spos p s = Some us -> step_uf false Sneg Spos p s = Some us.
Proof.
  destruct p as [a|a|l r|l r|op l r]; cbn [step_uf step_pure_uf andb]; auto.
  - destruct (eval_args_uf s (aargs a)); auto. destruct (negb _); [discriminate | auto].
  - destruct (eval_term_uf s l); auto. destruct (eval_term_uf s r); auto. destruct (negb _); [discriminate | auto].
Qed.

Lemma flat_map_opt_ref2 {A B} (f g : A -> option (list B)) l R :
  (forall a r, f a = Some r -> g a = Some r) -> flat_map_opt f l = Some R -> flat_map_opt g l = Some R.
Proof.
  intros H. revert R. induction l as [|a l IH]; intros R; simpl; [auto|].
  destruct (f a) as [r|] eqn:E; [|discriminate]. rewrite (H _ _ E).
  destruct (flat_map_opt f l) as [r'|]; [|discriminate]. rewrite (IH _ eq_refl). auto.
Qed.

Lemma solve_uf_strict_lax Sneg sel body : forall k sols R,
  solve_uf true Sneg sel k body sols = Some R -> solve_uf false Sneg sel k body sols = Some R.
Proof.
  induction body as [|p b IH]; intros k sols R H; cbn [solve_uf] in *; [exact H|].
  destruct (flat_map_opt (step_uf true Sneg (sel k) p) sols) as [sols'|] eqn:E; [|discriminate].
  rewrite (flat_map_opt_ref2 _ (step_uf false Sneg (sel k) p) _ _ (fun s us Hs => step_uf_strict_lax _ _ _ _ _ Hs) E).
  auto.
Qed.

Lemma eval_clause_uf_strict_lax Sneg sel c fs :
  eval_clause_uf true Sneg sel c = Some fs -> eval_clause_uf false Sneg sel c = Some fs.
Proof.
  unfold eval_clause_uf. destruct (solve_uf true Sneg sel 0 (cbody c) [[]]) as [R|] eqn:E; [|discriminate].
  rewrite (solve_uf_strict_lax _ _ _ _ _ _ E). auto.
Qed.

(* ---- the C01 theorem about finished evaluations, for the union-find evaluator *)
From MV Require Import Datalog.StrataProofs.

Lemma eval_program_uf_exact fuel P layers store init Res :
  valid_stratification P layers ->
  eval_program fuel P layers store init <> EvalError ->
  eval_program_uf false fuel P layers store init = Ok Res ->
  forall f, In f Res <-> slfp P layers (fun g => In g (add_all store init)) f.
Proof.
  intros Hv Hne H.
  destruct (eval_program fuel P layers store init) as [Res'| |] eqn:E; [| congruence |].
  - rewrite (eval_program_uf_conservative _ _ _ _ _ _ E) in H by discriminate. injection H as <-.
    exact (eval_program_exact fuel P layers store init Res' Hv E).
  - rewrite (eval_program_uf_conservative _ _ _ _ _ _ E) in H by discriminate. discriminate.
Qed.

(* ================= 5. the Go-shaped find (chain following, fuel = number of bindings)
   returns what the one-pass resolve returns, on every substitution the evaluator builds *)
Lemma ufind_fuel_eq n s v :
  ufind_fuel n s v = match ulookup v s with
                     | None => VVar v
                     | Some (VConst c) => VConst c
                     | Some (VVar w) => match n with O => VVar w | S n' => ufind_fuel n' s w end
                     end.
Proof. destruct n; reflexivity. Qed.

Lemma ufind_step k x s : uwf ((k, x) :: s) -> forall n v,
  ufind_fuel n s v = resolve s v -> ufind_fuel (S n) ((k, x) :: s) v = resolve ((k, x) :: s) v.
Proof.
  intros Hw1.
  assert (Hw : uwf s) by (inversion Hw1; auto).
  assert (Hk : resolve s k = VVar k) by (inversion Hw1; auto).
  assert (Hkk : ulookup k s = None) by (apply uwf_root_no_key; auto).
  assert (Hx : forall w m, x = VVar w -> ufind_fuel m ((k, x) :: s) w = VVar w).
  { intros w m ->. inversion Hw1; subst. rewrite ufind_fuel_eq. cbn [ulookup].
    destruct (Z.eqb_spec w k); [congruence|]. rewrite (uwf_root_no_key s Hw w); auto. }
  assert (Hkcase : forall n, ufind_fuel (S n) ((k, x) :: s) k = resolve ((k, x) :: s) k).
  { intros n. rewrite ufind_fuel_eq, resolve_cons, Hk. cbn [ulookup thru]. rewrite !Z.eqb_refl.
    destruct x as [c|w]; [reflexivity|]. exact (Hx w n eq_refl). }
  assert (Hnk : forall v, v <> k -> ulookup v ((k, x) :: s) = ulookup v s).
  { intros v Hvk. cbn [ulookup]. destruct (Z.eqb_spec v k); [contradiction | reflexivity]. }
  induction n as [|n IH]; intros v Hv; (destruct (Z.eqb_spec v k) as [->|Hvk]; [apply Hkcase|]);
    rewrite ufind_fuel_eq, resolve_cons, (Hnk v Hvk); rewrite ufind_fuel_eq in Hv.
  - destruct (ulookup v s) as [[c|w]|] eqn:E.
    + rewrite <- Hv. reflexivity.
    + (* no fuel on s and still the right answer: w is a root of s *)
      rewrite <- Hv. cbn [thru].
      assert (Hr : resolve s w = VVar w).
      { pose proof (uwf_closed s Hw v (VVar w) (ulookup_in _ _ _ E)) as Hc. simpl in Hc. congruence. }
      rewrite ufind_fuel_eq. destruct (Z.eqb_spec w k) as [->|Hwk].
      * cbn [ulookup]. rewrite Z.eqb_refl. destruct x; reflexivity.
      * rewrite (Hnk w Hwk), (uwf_root_no_key s Hw w Hr). reflexivity.
    + rewrite <- Hv. cbn [thru]. destruct (Z.eqb_spec v k); congruence.
  - destruct (ulookup v s) as [[c|w]|] eqn:E.
    + rewrite <- Hv. reflexivity.
    + pose proof (uwf_closed s Hw v (VVar w) (ulookup_in _ _ _ E)) as Hc. simpl in Hc.
      rewrite (IH w) by congruence. rewrite resolve_cons, Hc. reflexivity.
    + rewrite <- Hv. cbn [thru]. destruct (Z.eqb_spec v k); congruence.
Qed.

Theorem ufind_resolve s : uwf s -> forall v, ufind s v = resolve s v.
Proof.
  unfold ufind. intros Hw. induction Hw as [|k c s Hw IH Hk|k w s Hw IH Hk Hr Hne]; intros v.
  - reflexivity.
  - apply (ufind_step k (VConst c) s); [constructor; auto | apply IH].
  - apply (ufind_step k (VVar w) s); [constructor; auto | apply IH].
Qed.
