(* Datalog/SolveUFProofs.v - proofs about the alias-aware clause evaluator SolveUF.v:
   1. structure of union-find substitutions (uwf), resolve = the Go-shaped find
   2. conservativity: on runs of Solve.v that do not stop at an aliasing equality, SolveUF.v
      computes the same solutions / facts / program outcome
   3. every solution resolves the variables of positive atoms and their aliases
   4. the declarative reading of a strict run; elimination of an alias variable *)
From Coq Require Import List ZArith Bool Lia Arith.
From MV Require Import Datalog.Syntax Datalog.SyntaxProofs Datalog.Interp Datalog.Solve Datalog.SemiNaive
     Datalog.Strata Datalog.Lfp Datalog.SolveProofs Datalog.SolveUF.
Import ListNotations.
Open Scope Z_scope.

(* ================= 1. substitutions *)

(* what a new binding (k, x) in front does to the result of resolve *)
Definition thru (k : Z) (x y : value) : value :=
  match y with VVar u => if Z.eqb u k then x else VVar u | VConst c => VConst c end.

Lemma resolve_cons k x s v : resolve ((k, x) :: s) v = thru k x (resolve s v).
Proof. reflexivity. Qed.

Lemma resolve_val_cons k x s a : resolve_val ((k, x) :: s) a = thru k x (resolve_val s a).
Proof. destruct a; reflexivity. Qed.

(* substitutions the evaluator builds: every binding was made for a variable that was an
   unbound root at that moment and points to a constant or to another such root *)
Inductive uwf : usubst -> Prop :=
| uwf_nil : uwf []
| uwf_const k c s : uwf s -> resolve s k = VVar k -> uwf ((k, VConst c) :: s)
| uwf_var k w s : uwf s -> resolve s k = VVar k -> resolve s w = VVar w -> k <> w -> uwf ((k, VVar w) :: s).

(* resolve returns a root *)
Lemma resolve_root s : uwf s -> forall v r, resolve s v = VVar r -> resolve s r = VVar r.
Proof.
  induction 1 as [|k c s Hw IH Hk|k w s Hw IH Hk Hr Hne]; intros v r H.
  - reflexivity.
  - rewrite resolve_cons in *. destruct (resolve s v) as [d|u] eqn:E; simpl in H; [discriminate|].
    destruct (Z.eqb_spec u k); [discriminate|]. injection H as <-.
    rewrite (IH _ _ E). simpl. destruct (Z.eqb_spec u k); congruence.
  - rewrite resolve_cons in *. destruct (resolve s v) as [d|u] eqn:E; simpl in H; [discriminate|].
    destruct (Z.eqb_spec u k) as [->|Hu].
    + injection H as <-. rewrite Hr. simpl. destruct (Z.eqb_spec w k); congruence.
    + injection H as <-. rewrite (IH _ _ E). simpl. destruct (Z.eqb_spec u k); congruence.
Qed.

Lemma resolve_val_idem s : uwf s -> forall v, resolve_val s (resolve s v) = resolve s v.
Proof.
  intros Hw v. destruct (resolve s v) as [c|r] eqn:E; [reflexivity|]. simpl. eapply resolve_root; eauto.
Qed.

(* a key is never its own root; an unbound root is not a key *)
Lemma ulookup_in v x s : ulookup v s = Some x -> In (v, x) s.
Proof.
  induction s as [|[k y] s IH]; simpl; [discriminate|].
  destruct (Z.eqb_spec v k) as [->|_]; [intros [= ->]; auto | auto].
Qed.

Lemma uwf_key_not_root s : uwf s -> forall k x, In (k, x) s -> resolve s k <> VVar k.
Proof.
  induction 1 as [|k c s Hw IH Hk|k w s Hw IH Hk Hr Hne]; intros k' x' Hin.
  - destruct Hin.
  - rewrite resolve_cons. destruct Hin as [[= <- <-]|Hin].
    + rewrite Hk. simpl. rewrite Z.eqb_refl. discriminate.
    + specialize (IH _ _ Hin). destruct (resolve s k') as [d|u] eqn:E; simpl; [discriminate|].
      destruct (Z.eqb_spec u k); [discriminate|]. congruence.
  - rewrite resolve_cons. destruct Hin as [[= <- <-]|Hin].
    + rewrite Hk. simpl. rewrite Z.eqb_refl. congruence.
    + specialize (IH _ _ Hin). destruct (resolve s k') as [d|u] eqn:E; simpl; [discriminate|].
      destruct (Z.eqb_spec u k) as [->|Hu]; [|congruence].
      intros [= ->]. apply IH. rewrite <- E at 2.
      (* resolve s k' = VVar k and k' = w: then w is a root, so k = w *)
      rewrite Hr in E. congruence.
Qed.

Lemma uwf_root_no_key s : uwf s -> forall r, resolve s r = VVar r -> ulookup r s = None.
Proof.
  intros Hw r Hr. destruct (ulookup r s) as [x|] eqn:E; [|reflexivity].
  exfalso. eapply uwf_key_not_root; eauto using ulookup_in.
Qed.

(* ================= 2. conservativity *)

(* a Solve.v substitution as a union-find without aliases *)
Definition inj (s : subst) : usubst := map (fun vc => (fst vc, VConst (snd vc))) s.
Definition nodupk (s : subst) : Prop := NoDup (map fst s).
Definition get_of (s : subst) (v : Z) : value := match lookup v s with Some c => VConst c | None => VVar v end.

Lemma lookup_none_notin v s : lookup v s = None -> ~ In v (map fst s).
Proof.
  induction s as [|[k c] s IH]; simpl; [tauto|].
  destruct (Z.eqb_spec v k); [discriminate|]. intros H [E|Hin]; [congruence | exact (IH H Hin)].
Qed.

Lemma lookup_notin_none v s : ~ In v (map fst s) -> lookup v s = None.
Proof.
  induction s as [|[k c] s IH]; simpl; [reflexivity|].
  intros H. destruct (Z.eqb_spec v k) as [->|_]; [exfalso; auto | apply IH; tauto].
Qed.

Lemma resolve_inj s : nodupk s -> forall v, resolve (inj s) v = get_of s v.
Proof.
  unfold nodupk, get_of. induction s as [|[k c] s IH]; intros Hn v; [reflexivity|].
  simpl in Hn. inversion Hn as [|? ? Hk Hn']; subst. cbn [inj map fst snd]. rewrite resolve_cons.
  fold (inj s). rewrite (IH Hn'). cbn [lookup].
  destruct (Z.eqb_spec v k) as [->|Hv].
  - rewrite (lookup_notin_none _ _ Hk). simpl. rewrite Z.eqb_refl. reflexivity.
  - destruct (lookup v s); [reflexivity|]. simpl. destruct (Z.eqb_spec v k); congruence.
Qed.

(* ---- terms *)
Definition eval_consts_g (get : Z -> value) (l : list term) : option (list const) :=
  map_opt (fun a => match eval_term_g get a with Some (VConst c) => Some c | _ => None end) l.

Lemma eval_term_g_app get f args :
  eval_term_g get (TApp f args) =
  match eval_consts_g get args with
  | Some cs => match eval_fn f cs with Some c => Some (VConst c) | None => None end
  | None => None
  end.
Proof.
  cbn [eval_term_g].
  match goal with |- match ?g args with _ => _ end = _ => assert (E : forall l, g l = eval_consts_g get l) end.
  { induction l as [|a l IHl]; [reflexivity|]. unfold eval_consts_g. cbn [map_opt]. fold (eval_consts_g get l).
    rewrite <- IHl. destruct (eval_term_g get a) as [[c|x]|]; reflexivity. }
  rewrite E. reflexivity.
Qed.

Definition eval_consts (s : subst) (l : list term) : option (list const) :=
  map_opt (fun a => match eval_term s a with Some (VConst c) => Some c | _ => None end) l.

Lemma eval_term_app s f args :
  eval_term s (TApp f args) =
  match eval_consts s args with
  | Some cs => match eval_fn f cs with Some c => Some (VConst c) | None => None end
  | None => None
  end.
Proof.
  cbn [eval_term].
  match goal with |- match ?g args with _ => _ end = _ => assert (E : forall l, g l = eval_consts s l) end.
  { induction l as [|a l IHl]; [reflexivity|]. unfold eval_consts. cbn [map_opt]. fold (eval_consts s l).
    rewrite <- IHl. destruct (eval_term s a) as [[c|x]|]; reflexivity. }
  rewrite E. reflexivity.
Qed.

Lemma term_ind2 (Q : term -> Prop) :
  (forall x, Q (TVar x)) -> (forall c, Q (TConst c)) ->
  (forall f args, Forall Q args -> Q (TApp f args)) -> forall t, Q t.
Proof.
  intros H1 H2 H3. fix IH 1. intros [x|c|f args]; [apply H1 | apply H2 | apply H3].
  induction args as [|a args IHa]; constructor; [apply IH | exact IHa].
Qed.

Lemma eval_term_g_ext get get' : (forall v, get v = get' v) -> forall t, eval_term_g get t = eval_term_g get' t.
Proof.
  intros He. induction t as [x|c|f args IH] using term_ind2.
  - simpl. rewrite He. reflexivity.
  - reflexivity.
  - rewrite !eval_term_g_app.
    assert (E : eval_consts_g get args = eval_consts_g get' args).
    { unfold eval_consts_g. induction IH as [|a args Ha _ IHl]; [reflexivity|]. cbn [map_opt]. rewrite Ha, IHl. reflexivity. }
    rewrite E. reflexivity.
Qed.

Lemma eval_term_get_of s t : eval_term s t = eval_term_g (get_of s) t.
Proof.
  induction t as [x|c|f args IH] using term_ind2.
  - reflexivity.
  - reflexivity.
  - rewrite eval_term_app, eval_term_g_app.
    assert (E : eval_consts s args = eval_consts_g (get_of s) args).
    { unfold eval_consts, eval_consts_g. induction IH as [|a args Ha _ IHl]; [reflexivity|]. cbn [map_opt]. rewrite Ha, IHl. reflexivity. }
    rewrite E. reflexivity.
Qed.

Lemma eval_term_uf_inj s t : nodupk s -> eval_term_uf (inj s) t = eval_term s t.
Proof.
  intros Hn. unfold eval_term_uf. rewrite eval_term_get_of. apply eval_term_g_ext. apply resolve_inj; auto.
Qed.

Lemma map_opt_ext {A B} (f g : A -> option B) l : (forall a, f a = g a) -> map_opt f l = map_opt g l.
Proof. intros H. induction l as [|a l IH]; simpl; [reflexivity|]. rewrite H, IH. reflexivity. Qed.

Lemma eval_args_uf_inj s ts : nodupk s -> eval_args_uf (inj s) ts = eval_args s ts.
Proof. intros Hn. apply map_opt_ext. intros a. apply eval_term_uf_inj; auto. Qed.

(* an unbound result of eval_term is an unbound variable *)
Lemma eval_term_var s t v : eval_term s t = Some (VVar v) -> lookup v s = None.
Proof.
  destruct t as [x|c|f args].
  - simpl. destruct (lookup x s) eqn:E; intros [= <-]; auto.
  - discriminate.
  - rewrite eval_term_app. destruct (eval_consts s args); [|discriminate]. destruct (eval_fn f l); discriminate.
Qed.

(* ---- unification against a constant *)
Lemma unify1_inj s pv c : nodupk s ->
  unify_uf (inj s) pv (VConst c) = option_map inj (unify1 s pv c) /  (forall s', unify1 s pv c = Some s' -> nodupk s').
Proof.
  intros Hn. unfold unify_uf. destruct pv as [d|v]; cbn [resolve_val unify1].
  - simpl. destruct (const_eqb d c); simpl; split; try reflexivity; intros s' [= <-]; auto; discriminate.
  - rewrite (resolve_inj _ Hn). unfold get_of. destruct (lookup v s) as [d|] eqn:E; simpl.
    + destruct (const_eqb d c); simpl; split; try reflexivity; intros s' [= <-]; auto; discriminate.
    + split; [reflexivity|]. intros s' [= <-]. constructor; [apply lookup_none_notin; auto | exact Hn].
Qed.

Lemma unify_args_inj pvs : forall s cs, nodupk s ->
  unify_args_uf (inj s) pvs cs = option_map inj (unify_args s pvs cs) /  (forall s', unify_args s pvs cs = Some s' -> nodupk s').
Proof.
  induction pvs as [|pv pvs IH]; intros s [|c cs] Hn; cbn [unify_args_uf unify_args];
    try (split; [reflexivity | intros s' [= <-]; auto; discriminate]); try (split; [reflexivity|discriminate]).
  destruct (unify1_inj s pv c Hn) as [E Hn']. rewrite E.
  destruct (unify1 s pv c) as [s1|]; simpl; [|split; [reflexivity|discriminate]].
  apply IH. apply Hn'. reflexivity.
Qed.

Lemma match_fact_inj p pvs s f : nodupk s ->
  match_fact_uf p pvs (inj s) f = option_map inj (match_fact p pvs s f) /  (forall s', match_fact p pvs s f = Some s' -> nodupk s').
Proof.
  intros Hn. unfold match_fact_uf, match_fact. destruct (fst f =? p); [apply unify_args_inj; auto|].
  split; [reflexivity|discriminate].
Qed.

Lemma fmap_inj {A} (m : A -> option subst) (m' : A -> option usubst) l :
  (forall a, m' a = option_map inj (m a)) -> fmap m' l = map inj (fmap m l).
Proof.
  intros H. unfold fmap. induction l as [|a l IH]; [reflexivity|]. cbn [flat_map]. rewrite map_app, IH, H.
  destruct (m a); reflexivity.
Qed.

(* ---- one premise. Solve.v answers None at an aliasing equality (two different unbound
   variables); wherever it answers at all, the union-find evaluator gives the same answer. *)
Lemma step_inj Sneg Spos p s us : nodupk s ->
  step Sneg Spos p s = Some us ->
  step_uf false Sneg Spos p (inj s) = Some (map inj us) /\ Forall nodupk us.
Proof.
  intros Hn H. destruct p as [a|a|l r|l r|op l r]; cbn [step step_uf step_pure step_pure_uf] in *.
  - rewrite (eval_args_uf_inj _ _ Hn). destruct (eval_args s (aargs a)) as [pvs|]; [|discriminate].
    injection H as <-. split.
    + f_equal. apply fmap_inj. intros f. apply match_fact_inj; auto.
    + apply Forall_forall. intros u Hu. apply in_fmap in Hu as (f & _ & Hm).
      eapply (proj2 (match_fact_inj _ _ _ f Hn)); eauto.
  - rewrite (eval_args_uf_inj _ _ Hn). destruct (eval_args s (aargs a)) as [pvs|]; [|discriminate].
    injection H as <-. cbn [andb].
    assert (E : existsb (fun f => is_some (match_fact_uf (apred a) pvs (inj s) f)) Sneg
                = existsb (fun f => is_some (match_fact (apred a) pvs s f)) Sneg).
    { induction Sneg as [|f S' IH]; [reflexivity|]. cbn [existsb]. rewrite IH.
      rewrite (proj1 (match_fact_inj (apred a) pvs s f Hn)). destruct (match_fact (apred a) pvs s f); reflexivity. }
    rewrite E. destruct (existsb _ Sneg); split; try reflexivity; repeat constructor; auto.
  - rewrite !(eval_term_uf_inj _ _ Hn).
    destruct (eval_term s l) as [[a|v]|] eqn:El; [| |discriminate];
      destruct (eval_term s r) as [[b|w]|] eqn:Er; try discriminate.
    + injection H as <-. unfold unify_uf. simpl. destruct (const_eqb a b); split; try reflexivity; repeat constructor; auto.
    + injection H as <-. unfold unify_uf. cbn [resolve_val]. rewrite (resolve_inj _ Hn). unfold get_of.
      rewrite (eval_term_var _ _ _ Er). simpl. split; [reflexivity|]. repeat constructor; auto.
      apply lookup_none_notin. eapply eval_term_var; eauto.
    + injection H as <-. unfold unify_uf. cbn [resolve_val]. rewrite (resolve_inj _ Hn). unfold get_of.
      rewrite (eval_term_var _ _ _ El). simpl. split; [reflexivity|]. repeat constructor; auto.
      apply lookup_none_notin. eapply eval_term_var; eauto.
    + destruct (Z.eqb_spec v w) as [->|]; [|discriminate]. injection H as <-.
      unfold unify_uf. cbn [resolve_val]. rewrite (resolve_inj _ Hn). unfold get_of.
      rewrite (eval_term_var _ _ _ El). simpl. rewrite Z.eqb_refl. split; [reflexivity|]. repeat constructor; auto.
  - rewrite !(eval_term_uf_inj _ _ Hn). cbn [andb].
    destruct (eval_term s l) as [[a|v]|] eqn:El; [| |discriminate];
      destruct (eval_term s r) as [[b|w]|] eqn:Er; try discriminate; injection H as <-;
      unfold unify_uf; cbn [resolve_val]; rewrite ?(resolve_inj _ Hn); unfold get_of;
      rewrite ?(eval_term_var _ _ _ El), ?(eval_term_var _ _ _ Er); simpl.
    + destruct (const_eqb a b); split; try reflexivity; repeat constructor; auto.
    + split; [reflexivity|constructor].
    + split; [reflexivity|constructor].
    + destruct (v =? w); split; try reflexivity; constructor.
  - rewrite !(eval_term_uf_inj _ _ Hn).
    destruct (eval_term s l) as [[a|v]|]; try discriminate.
    destruct (eval_term s r) as [[b|w]|]; try discriminate.
    destruct (eval_cmp op a b) as [[|]|]; try discriminate; injection H as <-; split; try reflexivity; repeat constructor; auto.
Qed.

Lemma flat_map_opt_inj (f : subst -> option (list subst)) (g : usubst -> option (list usubst)) sols R :
  Forall nodupk sols ->
  (forall s us, nodupk s -> f s = Some us -> g (inj s) = Some (map inj us) /\ Forall nodupk us) ->
  flat_map_opt f sols = Some R ->
  flat_map_opt g (map inj sols) = Some (map inj R) /\ Forall nodupk R.
Proof.
  intros Hs Hfg. revert R. induction sols as [|s sols IH]; intros R H; simpl in *.
  - injection H as <-. split; [reflexivity|constructor].
  - inversion Hs as [|? ? Hn Hs']; subst.
    destruct (f s) as [us|] eqn:Ef; [|discriminate].
    destruct (flat_map_opt f sols) as [r|] eqn:Er; [|discriminate]. injection H as <-.
    destruct (Hfg _ _ Hn Ef) as [Eg Hus]. destruct (IH Hs' _ eq_refl) as [Eg' Hr].
    rewrite Eg, Eg'. rewrite map_app. split; [reflexivity|]. apply Forall_app; auto.
Qed.

Lemma solve_inj Sneg sel body : forall k sols R,
  Forall nodupk sols ->
  solve Sneg sel k body sols = Some R ->
  solve_uf false Sneg sel k body (map inj sols) = Some (map inj R) /\ Forall nodupk R.
Proof.
  induction body as [|p b IH]; intros k sols R Hs H; cbn [solve solve_uf] in *.
  - injection H as <-. auto.
  - destruct (flat_map_opt (step Sneg (sel k) p) sols) as [sols'|] eqn:E; [|discriminate].
    destruct (flat_map_opt_inj _ (step_uf false Sneg (sel k) p) _ _ Hs
                (fun s us Hn Hst => step_inj Sneg (sel k) p s us Hn Hst) E) as [E' Hs'].
    rewrite E'. apply IH; auto.
Qed.
