(* Datalog/Solve.v - evaluation of one clause: the left-to-right join of
   engine.oneStepEvalClause (engine/seminaivebottomup.go:736) with the premise
   evaluators of engine/premise.go (premiseAtom :25, premiseNegAtom :58, premiseEq :89,
   premiseIneq :101) and evalLet (engine/transformer.go:78).
   Substitutions are association lists variable -> constant; the union-find of
   unionfind/unionfind.go is abstracted (a variable is either unbound or bound to a
   constant; variable-variable aliasing, which only unsafe clauses can produce, is an
   evaluation error of the model). None = Go returns an error.
   No proofs in this file. *)
From Coq Require Import List ZArith Bool.
From MV Require Import Datalog.Syntax Datalog.Interp.
Import ListNotations.
Open Scope Z_scope.

Definition subst := list (Z * const).

Fixpoint lookup (v : Z) (s : subst) : option const :=
  match s with
  | [] => None
  | (w, c) :: s' => if Z.eqb v w then Some c else lookup v s'
  end.

(* result of functional.EvalExpr on a base term: a constant, or a still unbound variable *)
Inductive value := VConst (c : const) | VVar (v : Z).

(* functional.EvalExpr :40 / EvalApplyFn :104 / EvalExprs :62 - every argument of a
   function application must evaluate to a constant ("not a value" otherwise). *)
Fixpoint eval_term (s : subst) (t : term) : option value :=
  match t with
  | TVar v => Some (match lookup v s with Some c => VConst c | None => VVar v end)
  | TConst c => Some (VConst c)
  | TApp f args =>
      match (fix go (l : list term) : option (list const) :=
               match l with
               | [] => Some []
               | a :: l' => match eval_term s a with
                            | Some (VConst c) => match go l' with Some cs => Some (c :: cs) | None => None end
                            | _ => None
                            end
               end) args with
      | Some cs => match eval_fn f cs with Some c => Some (VConst c) | None => None end
      | None => None
      end
  end.

Fixpoint map_opt {A B} (f : A -> option B) (l : list A) : option (list B) :=
  match l with
  | [] => Some []
  | a :: l' => match f a with
               | None => None
               | Some b => match map_opt f l' with Some r => Some (b :: r) | None => None end
               end
  end.

Fixpoint flat_map_opt {A B} (f : A -> option (list B)) (l : list A) : option (list B) :=
  match l with
  | [] => Some []
  | a :: l' => match f a with
               | None => None
               | Some bs => match flat_map_opt f l' with Some r => Some (bs ++ r) | None => None end
               end
  end.

(* keep the defined results *)
Definition fmap {A B} (f : A -> option B) (l : list A) : list B :=
  flat_map (fun a => match f a with Some b => [b] | None => [] end) l.

(* functional.EvalAtom :1310 *)
Definition eval_args (s : subst) (ts : list term) : option (list value) := map_opt (eval_term s) ts.

(* unionfind.UnifyTermsExtend :177 of evaluated pattern arguments against the constant
   arguments of a stored fact, left to right; a variable bound by an earlier argument of
   the same atom (p(X,X)) is compared. *)
Definition unify1 (s : subst) (pv : value) (c : const) : option subst :=
  match pv with
  | VConst d => if const_eqb d c then Some s else None
  | VVar v => match lookup v s with
              | Some d => if const_eqb d c then Some s else None
              | None => Some ((v, c) :: s)
              end
  end.

Fixpoint unify_args (s : subst) (pvs : list value) (cs : list const) : option subst :=
  match pvs, cs with
  | [], [] => Some s
  | pv :: pvs', c :: cs' => match unify1 s pv c with
                            | Some s' => unify_args s' pvs' cs'
                            | None => None
                            end
  | _, _ => None
  end.

Definition match_fact (p : Z) (pvs : list value) (s : subst) (f : fact) : option subst :=
  if Z.eqb (fst f) p then unify_args s pvs (snd f) else None.

Definition is_some {A} (o : option A) : bool := match o with Some _ => true | None => false end.

(* premises that do not read any store *)
Definition step_pure (p : premise) (s : subst) : option (list subst) :=
  match p with
  | PEq l r =>                                   (* premiseEq :89 *)
      match eval_term s l, eval_term s r with
      | Some (VConst a), Some (VConst b) => Some (if const_eqb a b then [s] else [])
      | Some (VVar v), Some (VConst c) => Some [(v, c) :: s]
      | Some (VConst c), Some (VVar v) => Some [(v, c) :: s]
      | Some (VVar v), Some (VVar w) => if Z.eqb v w then Some [s] else None   (* aliasing: not modelled *)
      | _, _ => None
      end
  | PIneq l r =>                                 (* premiseIneq :101: a solution iff unification fails;
                                                    with an unbound side unification succeeds (finding N19) *)
      match eval_term s l, eval_term s r with
      | Some (VConst a), Some (VConst b) => Some (if const_eqb a b then [] else [s])
      | Some _, Some _ => Some []
      | _, _ => None
      end
  | PCmp op l r =>                               (* premiseAtom :31 -> builtin.Decide :225 *)
      match eval_term s l, eval_term s r with
      | Some (VConst a), Some (VConst b) =>
          match eval_cmp op a b with
          | Some true => Some [s]
          | Some false => Some []
          | None => None
          end
      | _, _ => None
      end
  | _ => None
  end.

(* engine.oneStepEvalPremise :816. Spos is the store a positive atom reads (e.store, or
   e.deltaStore for the delta position of a delta rule); negation always reads e.store. *)
Definition step (Sneg Spos : list fact) (p : premise) (s : subst) : option (list subst) :=
  match p with
  | PAtom a =>
      match eval_args s (aargs a) with
      | None => None
      | Some pvs => Some (fmap (match_fact (apred a) pvs s) Spos)
      end
  | PNeg a =>
      match eval_args s (aargs a) with
      | None => None
      | Some pvs => Some (if existsb (fun f => is_some (match_fact (apred a) pvs s f)) Sneg then [] else [s])
      end
  | _ => step_pure p s
  end.

(* the premise loop of oneStepEvalClause :744: all solutions of premise k are computed
   before premise k+1 is looked at; the first error aborts. sel k = store read by the
   positive atom at body position k. *)
Fixpoint solve (Sneg : list fact) (sel : nat -> list fact) (k : nat) (body : list premise)
         (sols : list subst) : option (list subst) :=
  match body with
  | [] => Some sols
  | p :: b => match flat_map_opt (step Sneg (sel k) p) sols with
              | None => None
              | Some sols' => solve Sneg sel (S k) b sols'
              end
  end.

(* evalLet :78: statements extend the row left to right (ConstSubstList.Extend prepends) *)
Fixpoint run_let (s : subst) (stmts : list (Z * term)) : option subst :=
  match stmts with
  | [] => Some s
  | (v, t) :: rest => match eval_term s t with
                      | Some (VConst c) => run_let ((v, c) :: s) rest
                      | _ => None
                      end
  end.

Definition ground_value (s : subst) (pv : value) : option const :=
  match pv with VConst c => Some c | VVar v => lookup v s end.

(* head of one solution (oneStepEvalClause :761-811): EvalAtom on the head, then the
   let-statements, then the remaining head variables are substituted. A head that is
   not ground afterwards is an error of the model (analysis rejects such clauses). *)
Definition emit_head (c : clause) (s : subst) : option fact :=
  match eval_args s (aargs (chead c)) with
  | None => None
  | Some pvs => match run_let s (clet c) with
                | None => None
                | Some s' => match map_opt (ground_value s') pvs with
                             | Some cs => Some (apred (chead c), cs)
                             | None => None
                             end
                end
  end.

Definition eval_clause (Sneg : list fact) (sel : nat -> list fact) (c : clause) : option (list fact) :=
  match solve Sneg sel 0 (cbody c) [[]] with
  | None => None
  | Some sols => map_opt (emit_head c) sols
  end.
