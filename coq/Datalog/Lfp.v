(* Datalog/Lfp.v - specification: the least model of the rules of one stratum over a
   base set of facts, as an inductive derivability predicate, and the stratified least
   model as the iteration over the layers. The body of a rule instance "holds" when
   there is a path through the left-to-right join (Solve.v) on which every premise
   evaluation succeeds: positive atoms are matched against facts already derived,
   negated atoms are judged against the BASE set (the completely evaluated lower strata
   and the extensional facts), never against the set under construction.
   No proofs in this file. *)
From Coq Require Import List ZArith Bool.
From MV Require Import Datalog.Syntax Datalog.Interp Datalog.Solve.
Import ListNotations.
Open Scope Z_scope.

Definition factset := fact -> Prop.

(* one premise takes substitution s to u; N = facts negation is judged against,
   I = facts a positive atom may be matched with *)
Inductive holds (N : factset) (I : list fact) : premise -> subst -> subst -> Prop :=
| holds_atom a s pvs f u :
    eval_args s (aargs a) = Some pvs -> In f I -> match_fact (apred a) pvs s f = Some u ->
    holds N I (PAtom a) s u
| holds_neg a s pvs :
    eval_args s (aargs a) = Some pvs ->
    (forall f, N f -> match_fact (apred a) pvs s f = None) ->
    holds N I (PNeg a) s s
| holds_pure p s us u :
    step_pure p s = Some us -> In u us -> holds N I p s u.

(* a body from position k on; sel k = the facts the atom at position k may use *)
Inductive sat (N : factset) (sel : nat -> list fact) : nat -> list premise -> subst -> subst -> Prop :=
| sat_nil k s : sat N sel k [] s s
| sat_cons k p b s u t : holds N (sel k) p s u -> sat N sel (S k) b u t -> sat N sel k (p :: b) s t.

(* f is the head of an instance of clause c whose body holds over I *)
Definition derives (N : factset) (I : list fact) (c : clause) (f : fact) : Prop :=
  exists t, sat N (fun _ => I) 0 (cbody c) [] t /\ emit_head c t = Some f.

Section Lfp.
Variable R : list clause.     (* the rules *)
Variable B : factset.         (* the base: extensional facts and completed lower strata *)

Inductive lfp : fact -> Prop :=
| lfp_base f : B f -> lfp f
| lfp_step I c f : (forall g, In g I -> lfp g) -> In c R -> derives B I c f -> lfp f.

(* what "model" means: contains the base and is closed under every rule instance whose
   positive premises are in the set (negation judged against B) *)
Definition is_model (M : factset) : Prop :=
  (forall f, B f -> M f) /\
  (forall I c f, (forall g, In g I -> M g) -> In c R -> derives B I c f -> M f).
End Lfp.

(* ---- stratified: layers lowest first, each sees the completed lower ones *)
Definition layer_rules (P : list clause) (ps : list Z) : list clause :=
  filter (fun c => memZ (apred (chead c)) ps) P.

Fixpoint slfp (P : list clause) (layers : list (list Z)) (B : factset) : factset :=
  match layers with
  | [] => B
  | ps :: rest => slfp P rest (lfp (layer_rules P ps) B)
  end.

(* a valid stratification of P: no predicate is in two layers, the head of every rule
   belongs to a layer, a positive body atom refers to the same or a lower layer or to an
   extensional predicate (one in no layer), a negated one to a strictly lower layer or to
   an extensional predicate. *)
Fixpoint layer_of (layers : list (list Z)) (p : Z) : option nat :=
  match layers with
  | [] => None
  | ps :: rest => if memZ p ps then Some O else option_map S (layer_of rest p)
  end.

Definition clause_stratified (layers : list (list Z)) (c : clause) : Prop :=
  exists i, layer_of layers (apred (chead c)) = Some i /\
    (forall q, In q (pos_preds (cbody c)) ->
       match layer_of layers q with Some j => (j <= i)%nat | None => True end) /\
    (forall q, In q (neg_preds (cbody c)) ->
       match layer_of layers q with Some j => (j < i)%nat | None => True end).

Definition valid_stratification (P : list clause) (layers : list (list Z)) : Prop :=
  NoDup (concat layers) /\ (forall c, In c P -> clause_stratified layers c).
