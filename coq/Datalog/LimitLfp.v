(* Datalog/LimitLfp.v - the limit model against the specification (Lfp.v): a result
   without error is the stratified least model. Simulation (LimitProofs.v, no C01 proof
   needed) composed with C01's theorem StrataProofs.eval_program_exact. Also the bound in
   terms of the number of rules of the program, and the summary "complete, or an error". *)
From Coq Require Import List ZArith Bool Arith Lia.
From MV Require Import Datalog.Syntax Datalog.Interp Datalog.Solve Datalog.SemiNaive Datalog.Strata
     Datalog.Lfp Datalog.StrataProofs Datalog.Limit Datalog.LimitProofs.
Import ListNotations.
Local Open Scope nat_scope.

Theorem eval_program_lim_complete fuel L P layers store init S :
  valid_stratification P layers ->
  eval_program_lim fuel L P layers store init = LOk S ->
  forall f, In f S <-> slfp P layers (fun g => In g (add_all store init)) f.
Proof.
  intros Hv H. apply eval_program_lim_ok in H. exact (eval_program_exact fuel P layers store init S Hv H).
Qed.

Lemma nodup_app_split (l m : list Z) : NoDup (l ++ m) -> NoDup l /\ NoDup m.
Proof.
  induction l as [|a l IH]; cbn [app]; intros H.
  - split; [constructor | exact H].
  - inversion H as [|? ? Hn Hd]; subst. destruct (IH Hd) as (Hl & Hm). split; [|exact Hm].
    constructor; [|exact Hl]. intros Hin. apply Hn. apply in_or_app. now left.
Qed.

Lemma nodup_concat_each (ls : list (list Z)) : NoDup (concat ls) -> Forall (@NoDup Z) ls.
Proof.
  induction ls as [|l ls IH]; intros H; constructor; cbn [concat] in H;
    destruct (nodup_app_split _ _ H) as (Hl & Hm); [exact Hl | exact (IH Hm)].
Qed.

Theorem eval_program_lim_bound_P fuel L P layers store init S :
  1 <= L -> Forall (@NoDup Z) layers ->
  store_of (eval_program_lim fuel L P layers store init) = Some S ->
  length S <= length (add_all store init) + (length P + 2) * L.
Proof.
  intros HL Hnd H. apply (eval_program_lim_bound _ _ _ _ _ _ _ HL) in H. unfold limit_bound_fn in H.
  pose proof (max_rules_le P layers Hnd) as Hm.
  assert ((max_rules (map (fun ps => mk_stratum P ps ps) layers) + 2) * L <= (length P + 2) * L)
    by (apply Nat.mul_le_mono_r; lia).
  lia.
Qed.

(* the property in one statement: with a limit L >= 1 and |store| + L + 1 rounds per
   stratum the evaluation returns; the store it leaves is bounded; and it either holds
   exactly the least model, or the return is an error *)
Theorem eval_program_lim_total fuel L P layers store init :
  valid_stratification P layers -> 1 <= L -> length store + L + 1 <= fuel ->
  exists S,
    length S <= length (add_all store init) + (length P + 2) * L /\
    ((eval_program_lim fuel L P layers store init = LOk S /\
      forall f, In f S <-> slfp P layers (fun g => In g (add_all store init)) f)
     \/ eval_program_lim fuel L P layers store init = LLimit S
     \/ eval_program_lim fuel L P layers store init = LEval S).
Proof.
  intros Hv HL Hf.
  pose proof (eval_program_lim_fuel fuel L P layers store init) as Hnf.
  unfold limit_fuel in Hnf. specialize (Hnf Hf).
  pose proof (fun S => eval_program_lim_bound_P fuel L P layers store init S HL
                         (nodup_concat_each layers (proj1 Hv))) as Hb.
  destruct (eval_program_lim fuel L P layers store init) as [S|S|S|] eqn:E.
  - exists S. split; [apply Hb; reflexivity|]. left. split; [reflexivity|].
    exact (eval_program_lim_complete fuel L P layers store init S Hv E).
  - exists S. split; [apply Hb; reflexivity|]. right. right. reflexivity.
  - exists S. split; [apply Hb; reflexivity|]. right. left. reflexivity.
  - contradiction.
Qed.
