(* Datalog/TransformProofs.v - evalDo groups exactly: the grouping loop of Transform.v
   (insertion into an association list keyed by the group key, the mirror of the Go map)
   equals the declarative reading "one group per distinct key, holding the rows with that
   key". *)
From Coq Require Import List ZArith Bool Lia Permutation.
From MV Require Import Datalog.Syntax Datalog.SyntaxProofs Datalog.Interp Datalog.Solve Datalog.SolveProofs
     Datalog.SemiNaive Datalog.Rewrite Datalog.Transform.
Import ListNotations.
Open Scope Z_scope.

Lemma key_eqb_spec a b : key_eqb a b = true <-> a = b.
Proof. unfold key_eqb. apply list_eqb_spec. apply const_eqb_spec. Qed.

Lemma key_eqb_refl a : key_eqb a a = true.
Proof. apply key_eqb_spec. reflexivity. Qed.

Lemma key_eqb_false a b : key_eqb a b = false <-> a <> b.
Proof.
  split.
  - intros H E. apply key_eqb_spec in E. congruence.
  - intros H. destruct (key_eqb a b) eqn:E; auto. apply key_eqb_spec in E. contradiction.
Qed.

Lemma key_eqb_sym a b : key_eqb a b = key_eqb b a.
Proof.
  destruct (key_eqb a b) eqn:E.
  - apply key_eqb_spec in E. subst. symmetry. apply key_eqb_refl.
  - symmetry. apply key_eqb_false. apply key_eqb_false in E. congruence.
Qed.

Definition mem_key (k : list const) (ks : list (list const)) : bool := existsb (key_eqb k) ks.

Lemma mem_key_spec k ks : mem_key k ks = true <-> In k ks.
Proof.
  unfold mem_key. rewrite existsb_exists. split.
  - intros (x & Hx & He). apply key_eqb_spec in He. subst. auto.
  - intros H. exists k. split; auto. apply key_eqb_refl.
Qed.

(* ---- nodup_keys *)
Lemma in_nodup_keys ks : forall k, In k (nodup_keys ks) <-> In k ks.
Proof.
  induction ks as [|k0 ks IH]; intros k; simpl; [tauto|].
  rewrite filter_In, IH. split.
  - intros [H|[H _]]; auto.
  - intros [H|H]; auto. destruct (key_eqb k0 k) eqn:E.
    + apply key_eqb_spec in E. auto.
    + right. split; auto.
Qed.

Lemma nodup_keys_NoDup ks : NoDup (nodup_keys ks).
Proof.
  induction ks as [|k0 ks IH]; simpl; constructor.
  - rewrite filter_In. intros [_ H]. rewrite key_eqb_refl in H. discriminate.
  - apply NoDup_filter. exact IH.
Qed.

Lemma filter_app_single {A} (f : A -> bool) l x :
  filter f (l ++ [x]) = filter f l ++ (if f x then [x] else []).
Proof. rewrite filter_app. reflexivity. Qed.

Lemma nodup_keys_snoc ks : forall k,
  nodup_keys (ks ++ [k]) = if mem_key k ks then nodup_keys ks else nodup_keys ks ++ [k].
Proof.
  induction ks as [|k0 ks IH]; intros k; simpl; [reflexivity|].
  rewrite IH. rewrite (key_eqb_sym k k0).
  destruct (key_eqb k0 k) eqn:E0; simpl.
  - apply key_eqb_spec in E0. subst k0.
    destruct (mem_key k ks) eqn:Em; [reflexivity|].
    rewrite filter_app_single, key_eqb_refl. simpl. rewrite app_nil_r. reflexivity.
  - destruct (mem_key k ks) eqn:Em; [reflexivity|].
    rewrite filter_app_single, E0. reflexivity.
Qed.

(* ---- the grouping loop, one row at a time from the right *)
Lemma group_rows_snoc keys rows : forall gs r,
  group_rows keys (rows ++ [r]) gs =
  match group_rows keys rows gs with
  | None => None
  | Some g => match key_of keys r with
              | Some k => Some (group_insert k r g)
              | None => None
              end
  end.
Proof.
  induction rows as [|r0 rows IH]; intros gs r; simpl.
  - destruct (key_of keys r); reflexivity.
  - destruct (key_of keys r0); [apply IH | reflexivity].
Qed.

Lemma map_opt_snoc {A B} (f : A -> option B) l x :
  map_opt f (l ++ [x]) =
  match map_opt f l with
  | None => None
  | Some bs => match f x with Some b => Some (bs ++ [b]) | None => None end
  end.
Proof.
  induction l as [|a l IH]; simpl.
  - destruct (f x); reflexivity.
  - destruct (f a); [|reflexivity]. rewrite IH. destruct (map_opt f l); [|reflexivity].
    destruct (f x); reflexivity.
Qed.

Definition groups_of (keys : list Z) (rows : list subst) (nd : list (list const)) : list group :=
  map (fun k => (k, rows_with_key keys k rows)) nd.

Lemma rows_with_key_snoc keys k rows r k' :
  key_of keys r = Some k' ->
  rows_with_key keys k (rows ++ [r]) = rows_with_key keys k rows ++ (if key_eqb k k' then [r] else []).
Proof. intros H. unfold rows_with_key. rewrite filter_app_single, H. reflexivity. Qed.

(* inserting row r (key k) into the groups of a duplicate-free key list *)
Lemma group_insert_groups keys rows r k : key_of keys r = Some k ->
  forall nd, NoDup nd ->
  (~ In k nd -> rows_with_key keys k rows = []) ->
  group_insert k r (groups_of keys rows nd) =
  groups_of keys (rows ++ [r]) (if mem_key k nd then nd else nd ++ [k]).
Proof.
  intros Hk. induction nd as [|k0 nd IH]; intros Hnd Hempty; simpl.
  - rewrite (rows_with_key_snoc _ _ _ _ _ Hk), key_eqb_refl, Hempty by (intros []). reflexivity.
  - inversion Hnd as [|? ? Hnotin Hnd']; subst.
    destruct (key_eqb k k0) eqn:E; simpl.
    + apply key_eqb_spec in E. subst k0.
      rewrite (rows_with_key_snoc _ _ _ _ _ Hk), key_eqb_refl. f_equal.
      unfold groups_of. apply map_ext_in. intros k1 Hk1.
      rewrite (rows_with_key_snoc _ _ _ _ _ Hk).
      assert (En : key_eqb k1 k = false).
      { apply key_eqb_false. intros ->. contradiction. }
      rewrite En, app_nil_r. reflexivity.
    + rewrite IH; auto.
      * assert (Hr : rows_with_key keys k0 (rows ++ [r]) = rows_with_key keys k0 rows).
        { rewrite (rows_with_key_snoc _ k0 _ _ _ Hk). rewrite (key_eqb_sym k0 k), E, app_nil_r. reflexivity. }
        destruct (mem_key k nd); simpl; rewrite Hr; reflexivity.
      * intros Hn. apply Hempty. intros [->|H]; [|contradiction].
        rewrite key_eqb_refl in E. discriminate.
Qed.

Lemma rows_with_key_in keys k rows row :
  In row (rows_with_key keys k rows) <-> In row rows /\ key_of keys row = Some k.
Proof.
  unfold rows_with_key. rewrite filter_In. split.
  - intros [Hr H]. split; auto. destruct (key_of keys row) as [k'|]; [|discriminate].
    apply key_eqb_spec in H. congruence.
  - intros [Hr H]. split; auto. rewrite H. apply key_eqb_refl.
Qed.

Lemma rows_with_key_nil keys k rows ks :
  map_opt (key_of keys) rows = Some ks -> ~ In k ks -> rows_with_key keys k rows = [].
Proof.
  intros Hm Hn. destruct (rows_with_key keys k rows) as [|x l] eqn:E; auto. exfalso.
  assert (Hx : In x (rows_with_key keys k rows)) by (rewrite E; left; auto).
  apply rows_with_key_in in Hx as [Hx Hk]. apply Hn.
  apply (proj2 (map_opt_spec _ _ _ Hm)). exists x. auto.
Qed.

Lemma group_rows_exact keys rows :
  group_rows keys rows [] =
  match map_opt (key_of keys) rows with
  | None => None
  | Some ks => Some (groups_of keys rows (nodup_keys ks))
  end.
Proof.
  induction rows as [|r rows IH] using rev_ind; [reflexivity|].
  rewrite group_rows_snoc, map_opt_snoc, IH.
  destruct (map_opt (key_of keys) rows) as [ks|] eqn:Em; [|reflexivity].
  destruct (key_of keys r) as [k|] eqn:Ek; [|reflexivity].
  rewrite nodup_keys_snoc. f_equal.
  rewrite (group_insert_groups keys rows r k Ek).
  - assert (Hm : mem_key k (nodup_keys ks) = mem_key k ks).
    { destruct (mem_key k ks) eqn:E.
      - apply (proj2 (mem_key_spec _ _)). apply (proj2 (in_nodup_keys _ _)).
        apply (proj1 (mem_key_spec _ _)). exact E.
      - destruct (mem_key k (nodup_keys ks)) eqn:E2; auto.
        apply (proj1 (mem_key_spec _ _)) in E2. apply (proj1 (in_nodup_keys _ _)) in E2.
        apply (proj2 (mem_key_spec _ _)) in E2. congruence. }
    rewrite Hm. reflexivity.
  - apply nodup_keys_NoDup.
  - intros Hn. apply (rows_with_key_nil keys k rows ks Em). intros Hi. apply Hn, in_nodup_keys. exact Hi.
Qed.

(* ---- the theorem: evalDo = the declarative fold, for every head, transform and row list *)
Theorem eval_do_spec head d rows : eval_do head d rows = spec_do head d rows.
Proof.
  unfold eval_do, spec_do. rewrite group_rows_exact.
  destruct (map_opt (key_of (d_keys d)) rows) as [ks|]; [|reflexivity].
  unfold groups_of. generalize (nodup_keys ks). intros nd.
  induction nd as [|k nd IH]; simpl; [reflexivity|].
  destruct (eval_group head d (k, rows_with_key (d_keys d) k rows)); [|reflexivity].
  rewrite IH. reflexivity.
Qed.

Lemma eval_do_nil head d : eval_do head d [] = Some [].
Proof. reflexivity. Qed.

(* membership form: the emitted facts are exactly one per key occurring among the rows *)
Lemma eval_do_facts head d rows fs : eval_do head d rows = Some fs ->
  forall f, In f fs <->
    exists row k, In row rows /\ key_of (d_keys d) row = Some k /\
                  eval_group head d (k, rows_with_key (d_keys d) k rows) = Some f.
Proof.
  rewrite eval_do_spec. unfold spec_do.
  destruct (map_opt (key_of (d_keys d)) rows) as [ks|] eqn:Em; [|discriminate].
  intros H f. destruct (map_opt_spec _ _ _ H) as [_ Hin]. rewrite Hin.
  destruct (map_opt_spec _ _ _ Em) as [Hdef Hks]. split.
  - intros (k & Hk & He). apply in_nodup_keys, Hks in Hk as (row & Hr & Hkr). exists row, k. auto.
  - intros (row & k & Hr & Hkr & He). exists k. split; auto. apply in_nodup_keys, Hks. exists row. auto.
Qed.

(* ---- reducers that do not depend on the order of the rows *)
Lemma fmap_perm {A B} (f : A -> option B) l l' : Permutation l l' -> Permutation (fmap f l) (fmap f l').
Proof.
  unfold fmap. intros H. induction H; simpl.
  - constructor.
  - apply Permutation_app_head. exact IHPermutation.
  - rewrite !app_assoc. apply Permutation_app_tail. apply Permutation_app_comm.
  - eapply Permutation_trans; eauto.
Qed.

Lemma count_perm args rows rows' : Permutation rows rows' -> reduce RCount args rows = reduce RCount args rows'.
Proof. intros H. simpl. rewrite (Permutation_length H). reflexivity. Qed.
