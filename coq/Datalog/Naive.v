(* Datalog/Naive.v - the naive bottom-up evaluator engine.EvalProgramNaive
   (engine/naivebottomup.go) AFTER fix F11, over the shared syntax of Datalog/Syntax.v
   and the premise evaluators of Datalog/Solve.v (after the fix the naive engine calls
   the same premiseNegAtom / premiseEq / premiseIneq of engine/premise.go as the
   semi-naive one), plus the pre-fix premise evaluation kept for the refutation witness.

   Differences to the semi-naive engine that the model keeps:
   * an error of a premise, function or head evaluation is NOT an error of the run: the
     naive engine drops the substitution ("Treat errors ... as false",
     naivebottomup.go:152-161, :181-204) - nstep / nhead;
   * facts derived by a clause are added to the store before the next clause of the
     same round is evaluated (Gauss-Seidel, :94-103) - npass;
   * the rules of a stratum are the rules of programInfo.Rules whose head belongs to
     the stratum, in program order (:76-82) - Lfp.layer_rules;
   * clauses with a transform are skipped by the fixpoint loop (:95); what the engine
     does with them afterwards (:108-124) is not modelled - the property is about
     transform-free programs.
   Stores are duplicate-free lists (SemiNaive.add); results are compared as sets.
   No proofs in this file. *)
From Coq Require Import List ZArith Bool.
From MV Require Import Datalog.Syntax Datalog.Interp Datalog.Solve Datalog.SemiNaive Datalog.Lfp.
Import ListNotations.
Open Scope Z_scope.

(* naiveEngine.oneStepEvalPremise :148 after fix F11: the premise evaluators of
   premise.go; every store access reads e.store; an error yields no solution *)
Definition nstep (St : list fact) (p : premise) (s : subst) : list subst :=
  match step St St p s with
  | Some sols => sols
  | None => []
  end.

(* the premise loop of naiveEngine.oneStepEvalClause :131-138 *)
Fixpoint nsolve (St : list fact) (body : list premise) (sols : list subst) : list subst :=
  match body with
  | [] => sols
  | p :: b => nsolve St b (flat_map (nstep St p) sols)
  end.

(* :140-150 after fix F11: functional.EvalAtom on the head; a failing head evaluation
   drops the solution *)
Definition nhead (c : clause) (sols : list subst) : list fact := fmap (emit_head c) sols.

Definition nclause (St : list fact) (c : clause) : list fact :=
  nhead c (nsolve St (cbody c) [[]]).

(* one round :94-103: clause by clause, the derived facts are added at once;
   the flag = some store.Add returned true *)
Fixpoint npass (rules : list clause) (St : list fact) : list fact * bool :=
  match rules with
  | [] => (St, false)
  | c :: rs =>
      let fs := if is_nil (clet c) then nclause St c else [] in     (* :95 Transform != nil -> continue *)
      let added := existsb (fun f => negb (mem f St)) fs in
      let (St', more) := npass rs (add_all St fs) in
      (St', added || more)
  end.

(* naiveEngine.eval :91-107: rounds until no fact was added; fuel bounds the rounds *)
Fixpoint nloop (fuel : nat) (rules : list clause) (St : list fact) : outcome (list fact) :=
  match fuel with
  | O => OutOfFuel
  | S n => let (St', added) := npass rules St in
           if added then nloop n rules St' else Ok St'
  end.

(* naiveEngine.evalStrata :64-87 *)
Fixpoint naive_strata (fuel : nat) (P : list clause) (layers : list (list Z)) (St : list fact)
  : outcome (list fact) :=
  match layers with
  | [] => Ok St
  | ps :: rest => match nloop fuel (layer_rules P ps) St with
                  | Ok St' => naive_strata fuel P rest St'
                  | EvalError => EvalError
                  | OutOfFuel => OutOfFuel
                  end
  end.

(* EvalProgramNaive :37 + evalStrata :60-63: the facts of the program text are added to
   the caller's store, then the strata run, lowest first *)
Definition naive_program (fuel : nat) (P : list clause) (layers : list (list Z))
           (store init : list fact) : outcome (list fact) :=
  naive_strata fuel P layers (add_all store init).

(* ---- the premise evaluation as it was before fix F11 (naivebottomup.go:179-189 of the
   unchanged tree), for atoms without function applications: GetFacts(a) enumerates the
   stored facts matching the evaluated atom; for each of them the (unevaluated) atom is
   unified with the fact again and the substitution is kept when THAT fails - but a fact
   returned by the lookup always unifies, so no substitution is ever kept. The equality
   and inequality cases of the old code panic on function applications and are not
   modelled (they agree with Solve.step on function-free terms). *)
Definition nstep_prefix (St : list fact) (p : premise) (s : subst) : list subst :=
  match p with
  | PNeg a =>
      match eval_args s (aargs a) with
      | None => []
      | Some pvs =>
          flat_map (fun f => if is_some (match_fact (apred a) pvs s f)           (* GetFacts callback *)
                             then (if is_some (match_fact (apred a) pvs s f) then [] else [s])
                             else []) St
      end
  | _ => nstep St p s
  end.

Fixpoint nsolve_prefix (St : list fact) (body : list premise) (sols : list subst) : list subst :=
  match body with
  | [] => sols
  | p :: b => nsolve_prefix St b (flat_map (nstep_prefix St p) sols)
  end.

Definition nclause_prefix (St : list fact) (c : clause) : list fact :=
  nhead c (nsolve_prefix St (cbody c) [[]]).

Fixpoint npass_prefix (rules : list clause) (St : list fact) : list fact * bool :=
  match rules with
  | [] => (St, false)
  | c :: rs =>
      let fs := if is_nil (clet c) then nclause_prefix St c else [] in
      let added := existsb (fun f => negb (mem f St)) fs in
      let (St', more) := npass_prefix rs (add_all St fs) in
      (St', added || more)
  end.

Fixpoint nloop_prefix (fuel : nat) (rules : list clause) (St : list fact) : outcome (list fact) :=
  match fuel with
  | O => OutOfFuel
  | S n => let (St', added) := npass_prefix rules St in
           if added then nloop_prefix n rules St' else Ok St'
  end.

Fixpoint naive_strata_prefix (fuel : nat) (P : list clause) (layers : list (list Z)) (St : list fact)
  : outcome (list fact) :=
  match layers with
  | [] => Ok St
  | ps :: rest => match nloop_prefix fuel (layer_rules P ps) St with
                  | Ok St' => naive_strata_prefix fuel P rest St'
                  | EvalError => EvalError
                  | OutOfFuel => OutOfFuel
                  end
  end.

Definition naive_program_prefix (fuel : nat) (P : list clause) (layers : list (list Z))
           (store init : list fact) : outcome (list fact) :=
  naive_strata_prefix fuel P layers (add_all store init).
