(* Datalog/Invariance.v - the presentation changes property C05 speaks about, as
   functions on the abstract syntax of Datalog/Syntax.v:
     rp_*  consistent renaming of predicate symbols (hence: placing a program in a
           package, packages/packages.go:160 Clauses - every head and body atom of a
           predicate defined in the package gets the prefix "<pkg>.")
     rn_*  consistent renaming of the variables of one clause (alpha-renaming)
   Reordering of clauses / facts is Permutation on lists and needs no function.
   No proofs in this file. *)
From Coq Require Import List ZArith Bool.
From MV Require Import Datalog.Syntax Datalog.Interp Datalog.Solve Datalog.SemiNaive.
Import ListNotations.
Open Scope Z_scope.

(* ---- predicate renaming *)
Definition rp_atom (r : Z -> Z) (a : atom) : atom := mkAtom (r (apred a)) (aargs a).

Definition rp_premise (r : Z -> Z) (p : premise) : premise :=
  match p with
  | PAtom a => PAtom (rp_atom r a)
  | PNeg a => PNeg (rp_atom r a)
  | _ => p
  end.

Definition rp_clause (r : Z -> Z) (c : clause) : clause :=
  mkClause (rp_atom r (chead c)) (map (rp_premise r) (cbody c)) (clet c).

Definition rp_fact (r : Z -> Z) (f : fact) : fact := (r (fst f), snd f).

(* the image of a fact set *)
Definition rp_set (r : Z -> Z) (B : fact -> Prop) : fact -> Prop :=
  fun g => exists f, g = rp_fact r f /\ B f.

(* a renaming given as a finite table (identity elsewhere) - what a test case carries *)
Fixpoint table_fn (m : list (Z * Z)) (k : Z) : Z :=
  match m with
  | [] => k
  | (a, b) :: m' => if Z.eqb k a then b else table_fn m' k
  end.

(* ---- variable renaming *)
Fixpoint rn_term (v : Z -> Z) (t : term) : term :=
  match t with
  | TVar x => TVar (v x)
  | TConst c => TConst c
  | TApp f args => TApp f (map (rn_term v) args)
  end.

Definition rn_atom (v : Z -> Z) (a : atom) : atom := mkAtom (apred a) (map (rn_term v) (aargs a)).

Definition rn_premise (v : Z -> Z) (p : premise) : premise :=
  match p with
  | PAtom a => PAtom (rn_atom v a)
  | PNeg a => PNeg (rn_atom v a)
  | PEq l r => PEq (rn_term v l) (rn_term v r)
  | PIneq l r => PIneq (rn_term v l) (rn_term v r)
  | PCmp op l r => PCmp op (rn_term v l) (rn_term v r)
  end.

Definition rn_clause (v : Z -> Z) (c : clause) : clause :=
  mkClause (rn_atom v (chead c)) (map (rn_premise v) (cbody c))
           (map (fun xt => (v (fst xt), rn_term v (snd xt))) (clet c)).

Definition rn_subst (v : Z -> Z) (s : subst) : subst := map (fun xc => (v (fst xc), snd xc)) s.

Definition rn_value (v : Z -> Z) (x : value) : value :=
  match x with VConst c => VConst c | VVar y => VVar (v y) end.

Definition injective (r : Z -> Z) : Prop := forall a b, r a = r b -> a = b.

(* ---- the comparison of two observed fact lists as sets (observer of the check) *)
Definition same_set (a b : list fact) : bool :=
  forallb (fun f => mem f b) a && forallb (fun f => mem f a) b.

(* per-clause variable renaming: c' is c with its variables renamed injectively *)
Definition alpha (c c' : clause) : Prop := exists v, injective v /\ c' = rn_clause v c.
