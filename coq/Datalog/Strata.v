(* Datalog/Strata.v - the stratum-by-stratum driver engine.evalStrata
   (engine/seminaivebottomup.go:266-327) and the construction of the rule list and the
   delta-rule list of a stratum (:296-299, makeDeltaRules :384-419).
   No proofs in this file. *)
From Coq Require Import List ZArith Bool.
From MV Require Import Datalog.Syntax Datalog.Interp Datalog.Solve Datalog.SemiNaive.
Import ListNotations.
Open Scope Z_scope.

Record stratum := mkStratum { s_rules : list clause; s_drules : list (clause * nat) }.

(* :296-299 - stratumRules = predToRules[sym] for the stratum's predicates in the order
   of e.stats.Strata[i] (map order, or sorted with WithDeterministicOrder) *)
Definition rules_of (P : list clause) (ps : list Z) : list clause :=
  flat_map (fun p => filter (fun c => Z.eqb (apred (chead c)) p) P) ps.

(* body positions holding a positive atom of one of the predicates ps *)
Fixpoint delta_positions (ps : list Z) (k : nat) (b : list premise) : list nat :=
  match b with
  | [] => []
  | PAtom a :: b' => if memZ (apred a) ps then k :: delta_positions ps (S k) b'
                     else delta_positions ps (S k) b'
  | _ :: b' => delta_positions ps (S k) b'
  end.

(* makeDeltaRules :384 - for every predicate of the stratum (order dps = the order in
   which eval :549-561 flattens the map), every clause of it, every body position whose
   predicate belongs to the stratum *)
Definition delta_rules (P : list clause) (ps dps : list Z) : list (clause * nat) :=
  flat_map (fun c => map (fun i => (c, i)) (delta_positions ps 0 (cbody c))) (rules_of P dps).

Definition mk_stratum (P : list clause) (ps dps : list Z) : stratum :=
  mkStratum (rules_of P ps) (delta_rules P ps dps).

(* evalStrata :286-326 *)
Fixpoint eval_strata (fuel : nat) (strata : list stratum) (St : list fact) : outcome (list fact) :=
  match strata with
  | [] => Ok St
  | s :: rest => match eval_stratum fuel (s_rules s) (s_drules s) St with
                 | Ok St' => eval_strata fuel rest St'
                 | EvalError => EvalError
                 | OutOfFuel => OutOfFuel
                 end
  end.

(* engine.EvalStratifiedProgramWithStats: initial facts of the program are added to the
   caller's store (:268-285), then the strata run. layers = the predicates of each
   stratum, lowest first; the same order is used for the delta rules. *)
Definition eval_program (fuel : nat) (P : list clause) (layers : list (list Z))
           (store init : list fact) : outcome (list fact) :=
  eval_strata fuel (map (fun ps => mk_stratum P ps ps) layers) (add_all store init).
