(* Datalog/AggBuiltinProofs.v - proofs about Datalog/AggBuiltin.v (C02, round 2):
   the columns of the internal relation keep every variable a body atom (built-in or not)
   can bind, so the row the do-transform reads gives the transform's variables the values of
   the body solution it comes from; the materialised built-in relations are the documented
   relations restricted to the domain. *)
From Coq Require Import List ZArith Bool Lia.
From MV Require Import Datalog.Syntax Datalog.SyntaxProofs Datalog.Interp Datalog.Solve Datalog.SemiNaive
     Datalog.Rewrite Datalog.Transform Datalog.AggBuiltin.
From MV Require Run.C02.
Import ListNotations.
Open Scope Z_scope.

(* ---- dedupZ keeps every element *)
Lemma dedupZ_acc_complete : forall l acc x,
  In x acc \/ In x l ->
  In x (fold_left (fun acc v => if memZ v acc then acc else acc ++ [v]) l acc).
Proof.
  induction l as [|y l IH]; intros acc x H; simpl.
  - destruct H as [H | []]. exact H.
  - apply IH. destruct H as [H | [H | H]].
    + left. destruct (memZ y acc); [exact H | apply in_or_app; left; exact H].
    + subst y. left. destruct (memZ x acc) eqn:E.
      * apply memZ_spec in E. exact E.
      * apply in_or_app. right. left. reflexivity.
    + right. exact H.
Qed.

Lemma dedupZ_complete : forall l x, In x l -> In x (dedupZ l).
Proof. intros l x H. unfold dedupZ. apply dedupZ_acc_complete. right. exact H. Qed.

Lemma atom_vars_premise_vars : forall b v, In v (atom_vars b) -> In v (flat_map premise_vars b).
Proof.
  induction b as [|p b IH]; intros v H; simpl in *.
  - exact H.
  - apply in_app_or in H. apply in_or_app. destruct H as [H | H].
    + left. destruct p; simpl in *; try contradiction. exact H.
    + right. apply IH. exact H.
Qed.

(* getVars: every variable of a positive atom of the body - whatever its predicate - that is
   not a wildcard is a column of the internal relation *)
Lemma body_cols_keeps_atom_vars : forall (wild : list Z) (b : list premise) (v : Z),
  In v (atom_vars b) -> ~ In v wild -> In v (body_cols wild b).
Proof.
  intros wild b v Hv Hw. unfold body_cols. apply filter_In. split.
  - apply dedupZ_complete. apply atom_vars_premise_vars. exact Hv.
  - destruct (memZ v wild) eqn:E; [|reflexivity]. apply memZ_spec in E. contradiction.
Qed.

(* ---- the row of the internal relation = the solution restricted to the columns *)
Lemma lookup_project : forall (cols : list Z) (s : subst) (v : Z),
  lookup v (Run.C02.project cols s) = if memZ v cols then lookup v s else None.
Proof.
  induction cols as [|w cols IH]; intros s v.
  - reflexivity.
  - unfold Run.C02.project, fmap in *. simpl.
    destruct (lookup w s) as [c|] eqn:Ew; simpl.
    + destruct (Z.eqb v w) eqn:E.
      * apply Z.eqb_eq in E. subst w. rewrite Ew. reflexivity.
      * apply IH.
    + destruct (Z.eqb v w) eqn:E.
      * apply Z.eqb_eq in E. subst w. rewrite IH, Ew. destruct (memZ v cols); reflexivity.
      * apply IH.
Qed.

Lemma lookup_project_in : forall cols s v, In v cols -> lookup v (Run.C02.project cols s) = lookup v s.
Proof.
  intros cols s v H. rewrite lookup_project. apply memZ_spec in H. rewrite H. reflexivity.
Qed.

Lemma map_opt_ext_in : forall {A B} (f g : A -> option B) l,
  (forall a, In a l -> f a = g a) -> map_opt f l = map_opt g l.
Proof.
  induction l as [|a l IH]; intros H; simpl; [reflexivity|].
  rewrite (H a (or_introl eq_refl)). rewrite IH; [reflexivity|].
  intros a' Ha'. apply H. right. exact Ha'.
Qed.

Lemma key_of_project : forall keys cols s,
  (forall k, In k keys -> In k cols) -> key_of keys (Run.C02.project cols s) = key_of keys s.
Proof.
  intros keys cols s H. unfold key_of. apply map_opt_ext_in.
  intros k Hk. apply lookup_project_in. apply H. exact Hk.
Qed.

(* ---- the materialised relations are the built-ins' own relations over the domain *)
Lemma bi_ids_distinct : NoDup bi_ids.
Proof.
  unfold bi_ids. repeat constructor; simpl; intuition (try discriminate).
Qed.

Lemma in_bi_facts : forall D f, In f (bi_facts D) <-> exists c, In c D /\ In f (bi_facts_of c).
Proof. intros D f. unfold bi_facts. apply in_flat_map. Qed.

Lemma opaque_struct : opaque_tag struct_tag = true. Proof. reflexivity. Qed.
Lemma opaque_map : opaque_tag map_tag = true. Proof. reflexivity. Qed.

Lemma bytes_eqb_eq : forall a b, bytes_eqb a b = true <-> a = b.
Proof. intros a b. unfold bytes_eqb. apply list_eqb_spec. apply Z.eqb_eq. Qed.

Lemma in_map_id_ne : forall {A} (g : A -> fact) (l : list A) (p : Z) (f : fact),
  (forall a, fst (g a) = p) -> fst f <> p -> ~ In f (map g l).
Proof.
  intros A g l p f Hg Hf Hin. apply in_map_iff in Hin. destruct Hin as (a & <- & _).
  apply Hf. apply Hg.
Qed.


Lemma not_in_entries : forall (id : Z) (c y : const) (f : fact),
  fst f <> id ->
  ~ In f match list_elems y with
         | Some es => map (fun kv : const * const => (id, [c; fst kv; snd kv])) (first_entries [] es)
         | None => []
         end.
Proof.
  intros id c y f Hne. destruct (list_elems y) as [es|]; [|intros []].
  apply (in_map_id_ne _ _ id); [reflexivity | exact Hne].
Qed.

Lemma not_in_members : forall (c : const) (f : fact),
  fst f <> bi_member_id ->
  ~ In f match list_elems c with
         | Some xs => map (fun x : const => (bi_member_id, [x; c])) xs
         | None => []
         end.
Proof.
  intros c f Hne. destruct (list_elems c) as [xs|]; [|intros []].
  apply (in_map_id_ne _ _ bi_member_id); [reflexivity | exact Hne].
Qed.

(* :match_pair(P, A, B): P is a pair of the domain that is not a tagged (non-pair) constant,
   A and B its components *)
Lemma bi_facts_pair_spec : forall D p a b,
  In (bi_pair_id, [p; a; b]) (bi_facts D) <-> In p D /\ p = CPair a b /\ is_opaque p = false.
Proof.
  intros D p a b. rewrite in_bi_facts. split.
  - intros (c & Hc & Hf). destruct c as [s|s|n|x y| |h t]; cbn [bi_facts_of] in Hf; try (destruct Hf; fail).
    + destruct x as [s|s|n|x1 x2| |h t];
        try (destruct Hf as [Hf | []]; injection Hf as <- <- <-; repeat split; auto).
      destruct (bytes_eqb s struct_tag) eqn:E1.
      { exfalso. revert Hf. apply not_in_entries. discriminate. }
      destruct (bytes_eqb s map_tag) eqn:E2.
      { exfalso. revert Hf. apply not_in_entries. discriminate. }
      destruct (opaque_tag s) eqn:E3; [contradiction|].
      destruct Hf as [Hf | []]. injection Hf as <- <- <-. repeat split; auto.
    + destruct Hf as [Hf | []]. discriminate.
    + destruct Hf as [Hf | Hf]; [discriminate|].
      exfalso. revert Hf. apply not_in_members. discriminate.
  - intros (Hp & -> & Ho). exists (CPair a b). split; [exact Hp|]. simpl.
    destruct a as [s|s|n|x1 x2| |h t]; try (left; reflexivity).
    simpl in Ho.
    destruct (bytes_eqb s struct_tag) eqn:E1.
    { apply bytes_eqb_eq in E1. subst s. rewrite opaque_struct in Ho. discriminate. }
    destruct (bytes_eqb s map_tag) eqn:E2.
    { apply bytes_eqb_eq in E2. subst s. rewrite opaque_map in Ho. discriminate. }
    rewrite Ho. left. reflexivity.
Qed.

(* :match_cons(L, H, T): L = [H | T] in the domain *)
Lemma bi_facts_cons_spec : forall D l h t,
  In (bi_cons_id, [l; h; t]) (bi_facts D) <-> In l D /\ l = CCons h t.
Proof.
  intros D l h t. rewrite in_bi_facts. split.
  - intros (c & Hc & Hf). destruct c as [s|s|n|x y| |h0 t0]; cbn [bi_facts_of] in Hf; try (destruct Hf; fail).
    + exfalso. destruct x as [s|s|n|x1 x2| |h1 t1];
        try (destruct Hf as [Hf | []]; discriminate).
      destruct (bytes_eqb s struct_tag).
      { revert Hf. apply not_in_entries. discriminate. }
      destruct (bytes_eqb s map_tag).
      { revert Hf. apply not_in_entries. discriminate. }
      destruct (opaque_tag s); [contradiction|]. destruct Hf as [Hf | []]. discriminate.
    + destruct Hf as [Hf | []]. discriminate.
    + destruct Hf as [Hf | Hf].
      * injection Hf as <- <- <-. split; auto.
      * exfalso. revert Hf. apply not_in_members. discriminate.
  - intros (Hl & ->). exists (CCons h t). split; [exact Hl|]. simpl. left. reflexivity.
Qed.

(* :list:member(X, L): L a non-empty list of the domain, X one of its elements *)
Lemma bi_facts_member_spec : forall D x l,
  In (bi_member_id, [x; l]) (bi_facts D) <->
  In l D /\ l <> CNil /\ exists xs, list_elems l = Some xs /\ In x xs.
Proof.
  intros D x l. rewrite in_bi_facts. split.
  - intros (c & Hc & Hf). destruct c as [s|s|n|a b| |h0 t0]; cbn [bi_facts_of] in Hf; try (destruct Hf; fail).
    + exfalso. destruct a as [s|s|n|x1 x2| |h1 t1];
        try (destruct Hf as [Hf | []]; discriminate).
      destruct (bytes_eqb s struct_tag).
      { revert Hf. apply not_in_entries. discriminate. }
      destruct (bytes_eqb s map_tag).
      { revert Hf. apply not_in_entries. discriminate. }
      destruct (opaque_tag s); [contradiction|]. destruct Hf as [Hf | []]. discriminate.
    + destruct Hf as [Hf | []]. discriminate.
    + destruct Hf as [Hf | Hf]; [discriminate|].
      destruct (list_elems (CCons h0 t0)) as [xs|] eqn:E; [|destruct Hf].
      apply in_map_iff in Hf. destruct Hf as (y & Hy & Hin). injection Hy as <- <-.
      split; [exact Hc|]. split; [discriminate|]. exists xs. split; [exact E | exact Hin].
  - intros (Hl & Hn & xs & E & Hx). exists l. split; [exact Hl|].
    destruct l as [s|s|n|a b| |h0 t0]; try discriminate.
    + contradiction.
    + cbn [bi_facts_of]. right. rewrite E. apply in_map_iff. exists x. split; [reflexivity | exact Hx].
Qed.

(* :match_nil(L): L = [] in the domain *)
Lemma bi_facts_nil_spec : forall D l,
  In (bi_nil_id, [l]) (bi_facts D) <-> In l D /\ l = CNil.
Proof.
  intros D l. rewrite in_bi_facts. split.
  - intros (c & Hc & Hf). destruct c as [s|s|n|a b| |h0 t0]; cbn [bi_facts_of] in Hf; try (destruct Hf; fail).
    + exfalso. destruct a as [s|s|n|x1 x2| |h1 t1];
        try (destruct Hf as [Hf | []]; discriminate).
      destruct (bytes_eqb s struct_tag).
      { revert Hf. apply not_in_entries. discriminate. }
      destruct (bytes_eqb s map_tag).
      { revert Hf. apply not_in_entries. discriminate. }
      destruct (opaque_tag s); [contradiction|]. destruct Hf as [Hf | []]. discriminate.
    + destruct Hf as [Hf | []]. injection Hf as <-. split; auto.
    + exfalso. destruct Hf as [Hf | Hf]; [discriminate|].
      revert Hf. apply not_in_members. discriminate.
  - intros (Hl & ->). exists CNil. split; [exact Hl|]. simpl. left. reflexivity.
Qed.

(* :match_field(S, K, V): S a struct of the domain, (K, V) the first entry of S with label K
   (first_entries keeps the first occurrence of every label, as StructValues + errFound) *)
Lemma bi_facts_field_spec : forall D s k v,
  In (bi_field_id, [s; k; v]) (bi_facts D) <->
  In s D /\ exists body es, s = CPair (CName struct_tag) body /\ list_elems body = Some es /\
                            In (k, v) (first_entries [] es).
Proof.
  intros D s k v. rewrite in_bi_facts. split.
  - intros (c & Hc & Hf). destruct c as [t|t|n|a b| |h0 t0]; cbn [bi_facts_of] in Hf; try (destruct Hf; fail).
    + destruct a as [t|t|n|x1 x2| |h1 t1];
        try (destruct Hf as [Hf | []]; discriminate).
      destruct (bytes_eqb t struct_tag) eqn:E1.
      * apply bytes_eqb_eq in E1. subst t.
        destruct (list_elems b) as [es|] eqn:E; [|destruct Hf].
        apply in_map_iff in Hf. destruct Hf as ([k' v'] & Hy & Hin). simpl in Hy.
        injection Hy as <- <- <-. split; [exact Hc|]. exists b, es. repeat split; auto.
      * exfalso. destruct (bytes_eqb t map_tag).
        { revert Hf. apply not_in_entries. discriminate. }
        destruct (opaque_tag t); [destruct Hf|]. destruct Hf as [Hf | []]. discriminate.
    + destruct Hf as [Hf | []]. discriminate.
    + exfalso. destruct Hf as [Hf | Hf]; [discriminate|].
      revert Hf. apply not_in_members. discriminate.
  - intros (Hs & body & es & -> & E & Hin). exists (CPair (CName struct_tag) body). split; [exact Hs|].
    cbn [bi_facts_of]. replace (bytes_eqb struct_tag struct_tag) with true by reflexivity.
    rewrite E. apply in_map_iff. exists (k, v). split; [reflexivity | exact Hin].
Qed.

Lemma bi_facts_entry_spec : forall D m k v,
  In (bi_entry_id, [m; k; v]) (bi_facts D) <->
  In m D /\ exists body es, m = CPair (CName map_tag) body /\ list_elems body = Some es /\
                            In (k, v) (first_entries [] es).
Proof.
  intros D m k v. rewrite in_bi_facts. split.
  - intros (c & Hc & Hf). destruct c as [t|t|n|a b| |h0 t0]; cbn [bi_facts_of] in Hf; try (destruct Hf; fail).
    + destruct a as [t|t|n|x1 x2| |h1 t1];
        try (destruct Hf as [Hf | []]; discriminate).
      destruct (bytes_eqb t struct_tag) eqn:E0.
      { exfalso. revert Hf. apply not_in_entries. discriminate. }
      destruct (bytes_eqb t map_tag) eqn:E1.
      * apply bytes_eqb_eq in E1. subst t.
        destruct (list_elems b) as [es|] eqn:E; [|destruct Hf].
        apply in_map_iff in Hf. destruct Hf as ([k' v'] & Hy & Hin). simpl in Hy.
        injection Hy as <- <- <-. split; [exact Hc|]. exists b, es. repeat split; auto.
      * exfalso. destruct (opaque_tag t); [destruct Hf|]. destruct Hf as [Hf | []]. discriminate.
    + destruct Hf as [Hf | []]. discriminate.
    + exfalso. destruct Hf as [Hf | Hf]; [discriminate|].
      revert Hf. apply not_in_members. discriminate.
  - intros (Hs & body & es & -> & E & Hin). exists (CPair (CName map_tag) body). split; [exact Hs|].
    cbn [bi_facts_of]. replace (bytes_eqb map_tag struct_tag) with false by reflexivity.
    replace (bytes_eqb map_tag map_tag) with true by reflexivity.
    rewrite E. apply in_map_iff. exists (k, v). split; [reflexivity | exact Hin].
Qed.

(* first_entries: an entry is listed iff its label is not among `seen` and no earlier entry of the
   body carries the same label *)
Lemma first_entries_in : forall es seen k v,
  In (k, v) (first_entries seen es) ->
  In (CPair k v) es /\ existsb (const_eqb k) seen = false.
Proof.
  induction es as [|e es IH]; intros seen k v H; simpl in H; [contradiction|].
  destruct e as [t|t|n|k0 v0| |h0 t0]; try (apply IH in H; destruct H as [H1 H2]; split; [right; exact H1 | exact H2]).
  destruct (existsb (const_eqb k0) seen) eqn:E.
  - apply IH in H. destruct H as [H1 H2]. split; [right; exact H1 | exact H2].
  - destruct H as [H | H].
    + injection H as <- <-. split; [left; reflexivity | exact E].
    + apply IH in H. destruct H as [H1 H2]. split; [right; exact H1|].
      simpl in H2. apply orb_false_iff in H2. destruct H2 as [_ H2]. exact H2.
Qed.

Lemma first_entries_functional : forall es seen k v1 v2,
  In (k, v1) (first_entries seen es) -> In (k, v2) (first_entries seen es) -> v1 = v2.
Proof.
  induction es as [|e es IH]; intros seen k v1 v2 H1 H2; simpl in *; [contradiction|].
  destruct e as [t|t|n|k0 v0| |h0 t0]; try (eapply IH; eassumption).
  destruct (existsb (const_eqb k0) seen) eqn:E; [eapply IH; eassumption|].
  destruct H1 as [H1 | H1]; destruct H2 as [H2 | H2].
  - injection H1 as <- <-. injection H2 as <-. reflexivity.
  - injection H1 as <- <-. apply first_entries_in in H2. destruct H2 as [_ H2].
    simpl in H2. assert (const_eqb k0 k0 = true) by (apply const_eqb_spec; reflexivity).
    rewrite H in H2. discriminate.
  - injection H2 as <- <-. apply first_entries_in in H1. destruct H1 as [_ H1].
    simpl in H1. assert (const_eqb k0 k0 = true) by (apply const_eqb_spec; reflexivity).
    rewrite H in H1. discriminate.
  - eapply IH; eassumption.
Qed.
