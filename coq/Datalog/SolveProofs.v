(* Datalog/SolveProofs.v - the computed join (Solve.v) equals the relational reading
   (Lfp.v: holds / sat); monotonicity; the delta decomposition sat_split. *)
From Coq Require Import List ZArith Bool Lia Arith.
From MV Require Import Datalog.Syntax Datalog.SyntaxProofs Datalog.Interp Datalog.Solve Datalog.Lfp.
Import ListNotations.
Open Scope Z_scope.

(* ---- option-list combinators *)
Lemma in_fmap {A B} (f : A -> option B) l b : In b (fmap f l) <-> exists a, In a l /\ f a = Some b.
Proof.
  unfold fmap. rewrite in_flat_map. split.
  - intros (a & Ha & Hb). exists a. split; auto. destruct (f a); simpl in Hb; intuition congruence.
  - intros (a & Ha & Hb). exists a. split; auto. rewrite Hb. simpl; auto.
Qed.

Lemma flat_map_opt_spec {A B} (f : A -> option (list B)) l R :
  flat_map_opt f l = Some R ->
  (forall a, In a l -> exists bs, f a = Some bs) /\
  (forall x, In x R <-> exists a bs, In a l /\ f a = Some bs /\ In x bs).
Proof.
  revert R. induction l as [|a l IH]; simpl; intros R H.
  - injection H as <-. split; [intros a []|]. intros x; split; [intros []| intros (a & bs & [] & _)].
  - destruct (f a) as [bs|] eqn:Hfa; [|discriminate].
    destruct (flat_map_opt f l) as [r|] eqn:Hr; [|discriminate].
    injection H as <-. destruct (IH r eq_refl) as [IH1 IH2]. split.
    + intros a' [<-|Ha']; eauto.
    + intros x. rewrite in_app_iff, IH2. split.
      * intros [Hx|(a' & bs' & Ha' & Hf & Hx)]; [exists a, bs; auto | exists a', bs'; auto].
      * intros (a' & bs' & [<-|Ha'] & Hf & Hx); [left; congruence | right; exists a', bs'; auto].
Qed.

Lemma map_opt_spec {A B} (f : A -> option B) l R :
  map_opt f l = Some R ->
  (forall a, In a l -> exists b, f a = Some b) /\
  (forall y, In y R <-> exists a, In a l /\ f a = Some y).
Proof.
  revert R. induction l as [|a l IH]; simpl; intros R H.
  - injection H as <-. split; [intros a []|]. intros y; split; [intros []| intros (a & [] & _)].
  - destruct (f a) as [b|] eqn:Hfa; [|discriminate].
    destruct (map_opt f l) as [r|] eqn:Hr; [|discriminate].
    injection H as <-. destruct (IH r eq_refl) as [IH1 IH2]. split.
    + intros a' [<-|Ha']; eauto.
    + intros y. simpl. rewrite IH2. split.
      * intros [<-|(a' & Ha' & Hf)]; [exists a; auto | exists a'; auto].
      * intros (a' & [<-|Ha'] & Hf); [left; congruence | right; exists a'; auto].
Qed.

(* ---- a fact of another predicate never matches *)
Lemma match_fact_pred p pvs s f u : match_fact p pvs s f = Some u -> fst f = p.
Proof. unfold match_fact. destruct (Z.eqb_spec (fst f) p); [auto | discriminate]. Qed.

(* ---- one premise: computation = relation *)
Definition inset (St : list fact) : factset := fun f => In f St.

Lemma holds_atom_inv N I a s u :
  holds N I (PAtom a) s u ->
  exists pvs f, eval_args s (aargs a) = Some pvs /\ In f I /\ match_fact (apred a) pvs s f = Some u.
Proof.
  intros H. inversion H; subst.
  - eauto.
  - match goal with X : step_pure _ _ = Some _ |- _ => simpl in X; discriminate X end.
Qed.

Lemma holds_neg_inv N I a s u :
  holds N I (PNeg a) s u ->
  u = s /\ exists pvs, eval_args s (aargs a) = Some pvs /\ forall f, N f -> match_fact (apred a) pvs s f = None.
Proof.
  intros H. inversion H; subst.
  - eauto.
  - match goal with X : step_pure _ _ = Some _ |- _ => simpl in X; discriminate X end.
Qed.

Lemma holds_pure_inv N I p s u :
  (forall a, p <> PAtom a) -> (forall a, p <> PNeg a) ->
  holds N I p s u -> exists us, step_pure p s = Some us /\ In u us.
Proof.
  intros H1 H2 H. inversion H; subst.
  - exfalso. eapply H1; eauto.
  - exfalso. eapply H2; eauto.
  - eauto.
Qed.

Lemma step_spec Sneg Spos p s us :
  step Sneg Spos p s = Some us -> forall u, In u us <-> holds (inset Sneg) Spos p s u.
Proof.
  intros H u. destruct p as [a|a|l r|l r|op l r].
  - simpl in H. destruct (eval_args s (aargs a)) as [pvs|] eqn:Hpv; [|discriminate].
    injection H as <-. rewrite in_fmap. split.
    + intros (f & Hf & Hm). eapply holds_atom; eauto.
    + intros Hh. apply holds_atom_inv in Hh as (pvs' & f & He & Hf & Hm).
      rewrite Hpv in He. injection He as <-. eauto.
  - simpl in H. destruct (eval_args s (aargs a)) as [pvs|] eqn:Hpv; [|discriminate].
    injection H as <-.
    destruct (existsb (fun f => is_some (match_fact (apred a) pvs s f)) Sneg) eqn:Hex.
    + split; [intros []|]. intros Hh. apply holds_neg_inv in Hh as (_ & pvs' & He & Hall).
      rewrite Hpv in He. injection He as <-.
      apply existsb_exists in Hex as (f & Hf & Hs). rewrite (Hall f Hf) in Hs. discriminate.
    + split.
      * intros [<-|[]]. eapply holds_neg; eauto. intros f Hf.
        destruct (match_fact (apred a) pvs s f) eqn:Hm; auto.
        assert (Ht : existsb (fun f => is_some (match_fact (apred a) pvs s f)) Sneg = true).
        { apply existsb_exists. exists f. split; auto. rewrite Hm. reflexivity. }
        congruence.
      * intros Hh. apply holds_neg_inv in Hh as (-> & _). left; auto.
  - split; [intros Hu; eapply holds_pure; [exact H | exact Hu]|]. intros Hh.
    apply holds_pure_inv in Hh as (us' & He & Hu); try (intros; discriminate).
    change (step_pure (PEq l r) s = Some us) in H. congruence.
  - split; [intros Hu; eapply holds_pure; [exact H | exact Hu]|]. intros Hh.
    apply holds_pure_inv in Hh as (us' & He & Hu); try (intros; discriminate).
    change (step_pure (PIneq l r) s = Some us) in H. congruence.
  - split; [intros Hu; eapply holds_pure; [exact H | exact Hu]|]. intros Hh.
    apply holds_pure_inv in Hh as (us' & He & Hu); try (intros; discriminate).
    change (step_pure (PCmp op l r) s = Some us) in H. congruence.
Qed.

(* ---- the whole body *)
Lemma solve_spec Sneg sel body : forall k sols R,
  solve Sneg sel k body sols = Some R ->
  forall t, In t R <-> exists s, In s sols /\ sat (inset Sneg) sel k body s t.
Proof.
  induction body as [|p b IH]; intros k sols R H t; simpl in H.
  - injection H as <-. split.
    + intros Ht. exists t. split; auto. constructor.
    + intros (s & Hs & Hsat). inversion Hsat; subst; auto.
  - destruct (flat_map_opt (step Sneg (sel k) p) sols) as [sols'|] eqn:Hfm; [|discriminate].
    destruct (flat_map_opt_spec _ _ _ Hfm) as [_ Hin].
    rewrite (IH _ _ _ H). split.
    + intros (u & Hu & Hsat). apply Hin in Hu as (s & us & Hs & Hst & Huus).
      exists s. split; auto. econstructor; eauto. eapply step_spec; eauto.
    + intros (s & Hs & Hsat). inversion Hsat; subst.
      destruct (flat_map_opt_spec _ _ _ Hfm) as [Hdef _].
      destruct (Hdef s Hs) as (us & Hus).
      exists u. split; auto. apply Hin. exists s, us. repeat split; auto.
      eapply step_spec; eauto.
Qed.

(* ---- monotonicity. Negation must be judged equally by N and N' on the predicates the
   body negates. *)
Definition neg_agree (b : list premise) (N N' : factset) : Prop :=
  forall a f, In (PNeg a) b -> fst f = apred a -> (N f <-> N' f).

Lemma neg_agree_tail p b N N' : neg_agree (p :: b) N N' -> neg_agree b N N'.
Proof. intros H a f Ha. apply H. right; auto. Qed.

Lemma holds_mono N N' I I' p s u :
  incl I I' -> neg_agree [p] N N' -> holds N I p s u -> holds N' I' p s u.
Proof.
  intros Hi Hn Hh. destruct Hh as [a s pvs f u He Hf Hm | a s pvs He Hall | p s us u He Hu].
  - eapply holds_atom; eauto.
  - eapply holds_neg; eauto. intros f Hf.
    destruct (match_fact (apred a) pvs s f) eqn:Hm; auto.
    apply match_fact_pred in Hm as Hp.
    assert (HN : N f) by (apply (Hn a f); simpl; auto).
    rewrite (Hall f HN) in Hm. discriminate.
  - eapply holds_pure; eauto.
Qed.

Lemma sat_mono N N' sel sel' k b s t :
  (forall j, (k <= j)%nat -> incl (sel j) (sel' j)) -> neg_agree b N N' ->
  sat N sel k b s t -> sat N' sel' k b s t.
Proof.
  intros Hsel Hn Hs. induction Hs.
  - constructor.
  - econstructor.
    + eapply holds_mono; [apply Hsel; lia| |eauto].
      intros a f [Ha|[]] Hf. apply (Hn a f); auto. left; auto.
    + apply IHHs; [intros j Hj; apply Hsel; lia | eapply neg_agree_tail; eauto].
Qed.

Lemma neg_agree_refl b N : neg_agree b N N.
Proof. intros a f _ _. tauto. Qed.

(* a premise that is not a positive atom does not look at I *)
Lemma holds_not_atom N I I' p s u :
  (forall a, p <> PAtom a) -> holds N I p s u -> holds N I' p s u.
Proof.
  intros Hp Hh. destruct Hh as [a s pvs f u He Hf Hm | a s pvs He Hall | p s us u He Hu].
  - exfalso. eapply Hp; eauto.
  - eapply holds_neg; eauto.
  - eapply holds_pure; eauto.
Qed.

(* ---- delta rules *)
Definition sel_d (St D : list fact) (i : nat) : nat -> list fact := fun k => if Nat.eqb k i then D else St.

(* delta decomposition: a solution over S' is a solution over S, or is found by the
   delta rule of some body position i holding a positive atom matched by a fact of D *)
Lemma sat_split N St St' D body : forall k s t,
  incl St St' -> (forall f, In f St' -> In f St \/ In f D) ->
  sat N (fun _ => St') k body s t ->
  sat N (fun _ => St) k body s t \/
  exists i a f, nth_error body i = Some (PAtom a) /\ In f D /\ fst f = apred a /\
                sat N (sel_d St' D (k + i)) k body s t.
Proof.
  intros k s t Hsub Hnew Hs.
  induction Hs as [k s|k p b s u t Hh Hs IH].
  - left. constructor.
  - destruct IH as [IH|(i & a & f & Hn & HfD & Hfp & IH)].
    + (* tail over St: look at the first premise *)
      destruct Hh as [a s pvs f u He Hf Hm | a s pvs He Hall | p s us u He Hu].
      * destruct (Hnew f Hf) as [HfS|HfD].
        -- left. econstructor; [eapply holds_atom; eauto | auto].
        -- right. exists O, a, f. repeat split; auto.
           ++ apply match_fact_pred in Hm. auto.
           ++ econstructor.
              ** unfold sel_d. replace (k + 0)%nat with k by lia. rewrite Nat.eqb_refl.
                 eapply holds_atom; eauto.
              ** eapply sat_mono; [| apply neg_agree_refl | exact IH].
                 intros j Hj. unfold sel_d. destruct (Nat.eqb_spec j (k + 0)); [lia | auto].
      * left. econstructor; [eapply holds_neg; eauto | auto].
      * left. econstructor; [eapply holds_pure; eauto | auto].
    + right. exists (S i), a, f. repeat split; auto.
      econstructor.
      * unfold sel_d. destruct (Nat.eqb_spec k (k + S i)); [lia | exact Hh].
      * replace (k + S i)%nat with (S k + i)%nat by lia. exact IH.
Qed.

(* a delta rule only finds solutions of the rule itself when D is part of the store *)
Lemma sat_delta_sound N St D i k body s t :
  incl D St -> sat N (sel_d St D i) k body s t -> sat N (fun _ => St) k body s t.
Proof.
  intros HD Hs. eapply sat_mono; [| apply neg_agree_refl | exact Hs].
  intros j _. unfold sel_d. destruct (Nat.eqb j i); auto. apply incl_refl.
Qed.

(* ---- clause level *)
Lemma eval_clause_spec Sneg sel c fs :
  eval_clause Sneg sel c = Some fs ->
  forall f, In f fs <-> exists t, sat (inset Sneg) sel 0 (cbody c) [] t /\ emit_head c t = Some f.
Proof.
  unfold eval_clause. intros H f.
  destruct (solve Sneg sel 0 (cbody c) [[]]) as [sols|] eqn:Hsol; [|discriminate].
  destruct (map_opt_spec _ _ _ H) as [_ Hin]. rewrite Hin. split.
  - intros (t & Ht & He). exists t. split; auto.
    apply (solve_spec _ _ _ _ _ _ Hsol) in Ht as (s & [<-|[]] & Hsat). auto.
  - intros (t & Hsat & He). exists t. split; auto.
    apply (solve_spec _ _ _ _ _ _ Hsol). exists []. split; simpl; auto.
Qed.
