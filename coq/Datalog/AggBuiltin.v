(* Datalog/AggBuiltin.v - aggregating rules whose bodies contain built-in predicate atoms
   that BIND variables (:match_pair :match_cons :list:member :match_field :match_entry,
   and the test :match_nil). C02, strengthened after seeding (round 2).

   Go represents such a goal as an ast.Atom whose predicate symbol IsBuiltin()
   (engine/premise.go:25 premiseAtom -> builtin.Decide, builtin/builtin.go:225 / match :500).
   The model does the same: a built-in goal is a PAtom whose predicate id is the id of the
   built-in's name (id_of_name of ":match_pair", ...). Rewrite.body_cols (= getVars,
   rewrite/rewrite.go:118) then treats it like any other atom - its variables become columns
   of the internal relation - and every theorem about rewrite applies unchanged.

   Evaluation: C01's Solve.step looks a PAtom up in a store. The built-in relations are
   therefore MATERIALISED as facts over a finite domain D of constants:
     :match_pair(P, A, B)   for every pair P = fn:pair(A, B) in D
     :match_cons(L, H, T)   for every non-empty list L = [H | T] in D
     :list:member(X, L)     for every list L in D and every element X of L
     :match_nil(L)          for L = [] in D
     :match_field(S, K, V)  for every struct S in D, K the label and V the value of the FIRST
                            entry with that label (StructValues stops at the first hit)
     :match_entry(M, K, V)  likewise for maps
   Analysis only accepts these goals with the first argument (and the key of field / entry)
   bound at the time the goal is evaluated (modes (+,-,-), (-,+), (+), (+,+,-);
   builtin.Predicates, ast.Mode.Check); the value it is bound to is an argument of a stored
   fact or a part of one obtained by an earlier destructuring goal, hence a sub-constant of the
   store. With D = all sub-constants of the store (and of the program text) the lookup in the
   materialised relation is the built-in's own semantics.

   Structs and maps are not constants of Syntax.v. They are carried as tagged pairs
     struct {k1: v1, ...}   CPair (CName "/__struct") [CPair k1 v1; ...]
     map    [k1: v1, ...]   CPair (CName "/__map")    [CPair k1 v1; ...]
   like float64 and byte strings (Transform.f64_tag): opaque for :match_pair.
   No proofs in this file. *)
From Coq Require Import List ZArith Bool.
From MV Require Import Datalog.Syntax Datalog.Interp Datalog.Solve Datalog.SemiNaive Datalog.Strata
     Datalog.Rewrite Datalog.Transform.
Import ListNotations.
Open Scope Z_scope.

(* ---- predicate ids of the built-ins: id_of_name of the symbol *)
Definition bi_pair_id : Z := id_of_name [58; 109; 97; 116; 99; 104; 95; 112; 97; 105; 114].          (* :match_pair *)
Definition bi_cons_id : Z := id_of_name [58; 109; 97; 116; 99; 104; 95; 99; 111; 110; 115].          (* :match_cons *)
Definition bi_member_id : Z := id_of_name [58; 108; 105; 115; 116; 58; 109; 101; 109; 98; 101; 114]. (* :list:member *)
Definition bi_field_id : Z := id_of_name [58; 109; 97; 116; 99; 104; 95; 102; 105; 101; 108; 100].   (* :match_field *)
Definition bi_entry_id : Z := id_of_name [58; 109; 97; 116; 99; 104; 95; 101; 110; 116; 114; 121].   (* :match_entry *)
Definition bi_nil_id : Z := id_of_name [58; 109; 97; 116; 99; 104; 95; 110; 105; 108].               (* :match_nil *)

Definition bi_ids : list Z := [bi_pair_id; bi_cons_id; bi_member_id; bi_field_id; bi_entry_id; bi_nil_id].
Definition is_builtin_id (p : Z) : bool := memZ p bi_ids.

(* ---- tagged constants *)
Definition struct_tag : list Z := [47; 95; 95; 115; 116; 114; 117; 99; 116].   (* "/__struct" *)
Definition map_tag : list Z := [47; 95; 95; 109; 97; 112].                     (* "/__map" *)

Definition bytes_eqb (a b : list Z) : bool := list_eqb Z.eqb a b.

(* a pair whose first component is a name "/__..." stands for a constant that is not a pair in Go *)
Definition opaque_tag (s : list Z) : bool :=
  match s with
  | 47 :: 95 :: 95 :: _ => true
  | _ => false
  end.

Definition is_opaque (c : const) : bool :=
  match c with
  | CPair (CName s) _ => opaque_tag s
  | _ => false
  end.

(* the elements of a proper list *)
Fixpoint list_elems (c : const) : option (list const) :=
  match c with
  | CNil => Some []
  | CCons h t => match list_elems t with Some l => Some (h :: l) | None => None end
  | _ => None
  end.

(* (label, value) of the entries of a struct / map body, first occurrence of a label only *)
Fixpoint first_entries (seen : list const) (es : list const) : list (const * const) :=
  match es with
  | [] => []
  | CPair k v :: rest =>
      if existsb (const_eqb k) seen then first_entries seen rest
      else (k, v) :: first_entries (k :: seen) rest
  | _ :: rest => first_entries seen rest
  end.

(* ---- the facts of the built-in relations one constant contributes *)
Definition bi_facts_of (c : const) : list fact :=
  match c with
  | CPair a b =>
      match a with
      | CName s =>
          if bytes_eqb s struct_tag then
            match list_elems b with
            | Some es => map (fun kv => (bi_field_id, [c; fst kv; snd kv])) (first_entries [] es)
            | None => []
            end
          else if bytes_eqb s map_tag then
            match list_elems b with
            | Some es => map (fun kv => (bi_entry_id, [c; fst kv; snd kv])) (first_entries [] es)
            | None => []
            end
          else if opaque_tag s then []
          else [(bi_pair_id, [c; a; b])]
      | _ => [(bi_pair_id, [c; a; b])]
      end
  | CCons h t =>
      (bi_cons_id, [c; h; t])
      :: match list_elems c with
         | Some xs => map (fun x => (bi_member_id, [x; c])) xs
         | None => []
         end
  | CNil => [(bi_nil_id, [c])]
  | _ => []
  end.

Definition bi_facts (D : list const) : list fact := flat_map bi_facts_of D.

(* ---- the domain: every sub-constant of the given facts and of the program text *)
Fixpoint subconsts (c : const) : list const :=
  c :: match c with
       | CPair a b => subconsts a ++ subconsts b
       | CCons h t => subconsts h ++ subconsts t
       | _ => []
       end.

Definition structured (c : const) : bool :=
  match c with CPair _ _ | CCons _ _ | CNil => true | _ => false end.

Definition dedup_consts (l : list const) : list const :=
  fold_left (fun acc c => if existsb (const_eqb c) acc then acc else acc ++ [c]) l [].

Fixpoint term_consts (t : term) : list const :=
  match t with
  | TVar _ => []
  | TConst c => [c]
  | TApp _ args => flat_map term_consts args
  end.

Definition premise_consts (p : premise) : list const :=
  match p with
  | PAtom a | PNeg a => flat_map term_consts (aargs a)
  | PEq l r | PIneq l r | PCmp _ l r => term_consts l ++ term_consts r
  end.

Definition prog_consts (P : list rule) : list const :=
  flat_map (fun r => flat_map premise_consts (cbody (r_clause r))) P.

(* only structured constants contribute facts: scalars are dropped before the quadratic dedup *)
Definition domain (P : list rule) (fs : list fact) : list const :=
  dedup_consts (filter structured
                  (flat_map subconsts (prog_consts P ++ flat_map (fun f => snd f) fs))).

Definition strip_builtin (fs : list fact) : list fact :=
  filter (fun f => negb (is_builtin_id (fst f))) fs.

(* the store extended by the built-in relations over its own sub-constants *)
Definition with_builtins (P : list rule) (St : list fact) : list fact :=
  St ++ bi_facts (domain P St).

(* ---- evaluation by layers: the relations are materialised anew before every stratum, over
   the constants of everything the completed lower strata hold. An aggregating rule reads
   lower strata only (analysis/stratification.go:55-63), so every constant one of its
   built-in goals can meet is in that domain. (Built-in goals are generated in aggregating
   rules only.) *)
Fixpoint bi_eval_layers (rw : list rule -> list rule) (fuel : nat) (P : list rule)
         (layers : list (list Z)) (St : list fact) : outcome (list fact) :=
  match layers with
  | [] => Ok St
  | ps :: rest =>
      match eval_layer rw fuel P ps (with_builtins P St) with
      | Ok St' => bi_eval_layers rw fuel P rest (strip_builtin St')
      | EvalError => EvalError
      | OutOfFuel => OutOfFuel
      end
  end.

Definition bi_eval_program (rw : list rule -> list rule) (fuel : nat) (P : list rule)
           (layers : list (list Z)) (store init : list fact) : outcome (list fact) :=
  bi_eval_layers rw fuel P layers (add_all store init).

(* ---- the seeded variant of getVars (seeded/C04-5): atoms of built-in predicates contribute
   no columns ("built-ins only test values"). Used by the refutation in Props/C02.v. *)
Definition premise_vars_skip (p : premise) : list Z :=
  match p with
  | PAtom a => if is_builtin_id (apred a) then [] else flat_map term_vars (aargs a)
  | PCmp _ _ _ => []
  | _ => premise_vars p
  end.

Definition body_cols_skip (wild : list Z) (b : list premise) : list Z :=
  filter (fun v => negb (memZ v wild)) (dedupZ (flat_map premise_vars_skip b)).

(* the variables of the positive atoms of a body (built-in atoms included) *)
Definition atom_vars (b : list premise) : list Z :=
  flat_map (fun p => match p with PAtom a => flat_map term_vars (aargs a) | _ => [] end) b.
