(* Datalog/Limit.v - the semi-naive engine with a created-fact limit:
   engine.WithCreatedFactLimit (engine/seminaivebottomup.go:117) on top of the C01 model
   (Solve.v, SemiNaive.v, Strata.v, which this file imports and does not repeat).
   Line numbers are those of /repo's working tree after fix F1 (the pinned snapshot has
   the last three checks five lines earlier: :607, :752, :808).

   L = options.createdFactLimit (>= 1; Go treats 0 as "no limit").
   T = options.totalFactLimit = store.EstimateFactCount() + L, computed ONCE at :222-224
       from the caller's store BEFORE the initial facts of the program are added (:268).

   The four places where the limit is looked at, each mirrored where it sits:
   (J) :757  inside the premise loop of oneStepEvalClause, after the solutions of ONE
             substitution were appended:  len(newsolutions) > L            -> error
   (D) :599  incremental rounds only, after EACH derived fact was offered to
             newDeltaStore:  newDeltaStore.EstimateFactCount() > L         -> error
             (the first round :516-544 has no such check)
   (S) :614  incremental rounds only, after mergeDelta, BEFORE the break test:
             store.EstimateFactCount() > T                                 -> error
   (H) :813  in the head loop of oneStepEvalClause, only for clauses with a transform
             (here: let), after each emitted solution:  store count > T    -> error
   The store is not written between two mergeDelta calls, so at every error return the
   store is the one left by the last merge (for (S): the merge just done).
   An outcome carries that store: it is observable on the Go side.
   No proofs in this file. *)
From Coq Require Import List ZArith Bool Arith.
From MV Require Import Datalog.Syntax Datalog.Interp Datalog.Solve Datalog.SemiNaive Datalog.Strata.
Import ListNotations.

(* result of one clause / one round *)
Inductive lres (A : Type) :=
| ROk (a : A)
| REval            (* premise / function / head evaluation error *)
| RLimit.          (* "fact size limit reached" *)
Arguments ROk {A} a.
Arguments REval {A}.
Arguments RLimit {A}.

(* result of an evaluation; the list is the caller's store at return *)
Inductive loutcome :=
| LOk (St : list fact)         (* nil error *)
| LEval (St : list fact)       (* evaluation error *)
| LLimit (St : list fact)      (* fact-limit error *)
| LFuel.                       (* model budget exhausted (Go would keep running) *)

(* ---- (J) the inner loop :751-760 for one premise: the solutions of each substitution
   are appended to newsolutions, the length is compared after each append *)
Fixpoint step_all_lim (L : nat) (f : subst -> option (list subst)) (sols acc : list subst)
  : lres (list subst) :=
  match sols with
  | [] => ROk acc
  | s :: r => match f s with
              | None => REval
              | Some ss => let acc' := acc ++ ss in
                           if Nat.ltb L (length acc') then RLimit else step_all_lim L f r acc'
              end
  end.

(* the premise loop :749-763 *)
Fixpoint solve_lim (L : nat) (Sneg : list fact) (sel : nat -> list fact) (k : nat)
         (body : list premise) (sols : list subst) : lres (list subst) :=
  match body with
  | [] => ROk sols
  | p :: b => match step_all_lim L (step Sneg (sel k) p) sols [] with
              | ROk sols' => solve_lim L Sneg sel (S k) b sols'
              | REval => REval
              | RLimit => RLimit
              end
  end.

(* ---- (H) the head loop :765-816. Without a transform (:783 `continue`) there is no
   check. With a let-transform each solution is: EvalAtom + evalLet (emit_head), then
   the store count n is compared with T. n does not change during the clause. *)
Fixpoint heads_let (T n : nat) (c : clause) (sols : list subst) : lres (list fact) :=
  match sols with
  | [] => ROk []
  | s :: r => match emit_head c s with
              | None => REval
              | Some f => if Nat.ltb T n then RLimit
                          else match heads_let T n c r with
                               | ROk fs => ROk (f :: fs)
                               | REval => REval
                               | RLimit => RLimit
                               end
              end
  end.

Definition heads_lim (T n : nat) (c : clause) (sols : list subst) : lres (list fact) :=
  match clet c with
  | [] => match map_opt (emit_head c) sols with Some fs => ROk fs | None => REval end
  | _ :: _ => heads_let T n c sols
  end.

(* oneStepEvalClause :741 with the limit options; St = e.store (read by negation and
   counted by (H)), sel = the store each positive atom reads *)
Definition eval_clause_lim (L T : nat) (St : list fact) (sel : nat -> list fact) (c : clause)
  : lres (list fact) :=
  match solve_lim L St sel 0 (cbody c) [[]] with
  | ROk sols => heads_lim T (length St) c sols
  | REval => REval
  | RLimit => RLimit
  end.

(* ---- first round :516-544: no check besides (J)/(H) inside the clauses *)
Fixpoint round0_lim (L T : nat) (St : list fact) (rules : list clause) : lres (list fact) :=
  match rules with
  | [] => ROk []
  | c :: r => match eval_clause_lim L T St (sel_all St) c with
              | ROk fs => match round0_lim L T St r with
                          | ROk gs => ROk (fs ++ gs)
                          | REval => REval
                          | RLimit => RLimit
                          end
              | REval => REval
              | RLimit => RLimit
              end
  end.

(* ---- (D) :580-602: the derived facts of one delta rule are offered to newDeltaStore
   one by one (:595 skips facts the store or the delta have); None = limit error *)
Fixpoint add_derived (L : nat) (St D nd : list fact) (derived : list fact) : option (list fact) :=
  match derived with
  | [] => Some nd
  | f :: r => let nd' := if mem f St || mem f D then nd else add nd f in
              if Nat.ltb L (length nd') then None else add_derived L St D nd' r
  end.

(* one incremental round :572-603, nd = newDeltaStore so far *)
Fixpoint round_delta_lim (L T : nat) (St D : list fact) (drules : list (clause * nat))
         (nd : list fact) : lres (list fact) :=
  match drules with
  | [] => ROk nd
  | ci :: r => match eval_clause_lim L T St (sel_delta St D (snd ci)) (fst ci) with
               | ROk derived => match add_derived L St D nd derived with
                                | Some nd' => round_delta_lim L T St D r nd'
                                | None => RLimit
                                end
               | REval => REval
               | RLimit => RLimit
               end
  end.

(* ---- the incremental loop :565-620 (after fix F1):
     round; e.deltaStore = newDeltaStore; mergeDelta; (S); if !incrementalFactAdded break *)
Fixpoint loop_lim (fuel L T : nat) (drules : list (clause * nat)) (St D : list fact) : loutcome :=
  match fuel with
  | O => LFuel
  | S n =>
      match round_delta_lim L T St D drules [] with
      | REval => LEval St
      | RLimit => LLimit St
      | ROk nd =>
          let St' := add_all St nd in
          if Nat.ltb T (length St') then LLimit St'
          else if is_nil nd then LOk St'
          else loop_lim n L T drules St' nd
      end
  end.

(* engine.eval :513 for one stratum *)
Definition eval_stratum_lim (fuel L T : nat) (rules : list clause) (drules : list (clause * nat))
           (St : list fact) : loutcome :=
  match round0_lim L T St rules with
  | REval => LEval St
  | RLimit => LLimit St
  | ROk derived =>
      let D0 := add_all [] derived in
      if is_nil D0 then LOk St                               (* :545 *)
      else loop_lim fuel L T drules (add_all St D0) D0       (* :562 mergeDelta (no check), loop *)
  end.

(* evalStrata :286-326 *)
Fixpoint eval_strata_lim (fuel L T : nat) (strata : list stratum) (St : list fact) : loutcome :=
  match strata with
  | [] => LOk St
  | s :: rest => match eval_stratum_lim fuel L T (s_rules s) (s_drules s) St with
                 | LOk St' => eval_strata_lim fuel L T rest St'
                 | o => o
                 end
  end.

(* :222-224 *)
Definition total_limit (L : nat) (store : list fact) : nat := (length store + L)%nat.

(* engine.EvalStratifiedProgramWithStats with WithCreatedFactLimit(L): T from the
   caller's store, then the initial facts (:268-285), then the strata *)
Definition eval_program_lim (fuel L : nat) (P : list clause) (layers : list (list Z))
           (store init : list fact) : loutcome :=
  eval_strata_lim fuel L (total_limit L store)
                  (map (fun ps => mk_stratum P ps ps) layers) (add_all store init).

(* ---- the quantities of the theorems (Props/C17.v) *)
(* largest number of rules in one stratum *)
Fixpoint max_rules (strata : list stratum) : nat :=
  match strata with
  | [] => O
  | s :: rest => Nat.max (length (s_rules s)) (max_rules rest)
  end.

(* bound on the store size at any return: nE = store size when the strata start
   (caller's facts + initial facts), R = max_rules *)
Definition limit_bound_fn (L nE R : nat) : nat := (nE + (R + 2) * L)%nat.

(* rounds that suffice: the loop continues only while the store grows and stays <= T *)
Definition limit_fuel (L n0 : nat) : nat := (n0 + L + 1)%nat.

Definition store_of (o : loutcome) : option (list fact) :=
  match o with LOk s | LEval s | LLimit s => Some s | LFuel => None end.
