(* Datalog/RewriteProofs.v - the name generator: names generated for one head symbol with
   different counter values are different; generated names are internal; and the
   "isolated relation" theorem: a relation defined by exactly one rule of a stratum whose
   body reads only completed relations holds exactly that rule's body solutions. *)
From Coq Require Import List ZArith Bool Lia Decimal DecimalN.
From MV Require Import Datalog.Syntax Datalog.SyntaxProofs Datalog.Interp Datalog.Solve Datalog.SolveProofs
     Datalog.SemiNaive Datalog.SemiNaiveProofs Datalog.Lfp Datalog.Rewrite.
Import ListNotations.
Open Scope Z_scope.

(* ---- bytes *)
Definition is_byte (b : Z) : Prop := 0 <= b < 256.

Lemma push_bytes_snoc acc l b : push_bytes acc (l ++ [b]) = push_bytes acc l * 256 + b.
Proof. unfold push_bytes. rewrite fold_left_app. reflexivity. Qed.

Lemma push_bytes_app acc l1 l2 : push_bytes acc (l1 ++ l2) = push_bytes (push_bytes acc l1) l2.
Proof. unfold push_bytes. apply fold_left_app. Qed.

Lemma push_bytes_ge acc l : 1 <= acc -> Forall is_byte l -> acc <= push_bytes acc l.
Proof.
  intros Ha. induction l as [|b l IH] using rev_ind; intros Hl.
  - simpl. lia.
  - apply Forall_app in Hl as [Hl Hb]. inversion Hb as [|? ? Hb' _]; subst. unfold is_byte in Hb'.
    rewrite push_bytes_snoc. specialize (IH Hl). nia.
Qed.

Lemma push_bytes_inj acc : 1 <= acc -> forall l1 l2, Forall is_byte l1 -> Forall is_byte l2 ->
  push_bytes acc l1 = push_bytes acc l2 -> l1 = l2.
Proof.
  intros Ha. induction l1 as [|b1 l1 IH] using rev_ind; intros l2 H1 H2 He.
  - destruct l2 as [|b2 l2] using rev_ind; [reflexivity|]. exfalso.
    apply Forall_app in H2 as [H2 Hb]. inversion Hb as [|? ? Hb' _]; subst. unfold is_byte in Hb'.
    rewrite push_bytes_snoc in He. simpl in He.
    pose proof (push_bytes_ge acc l2 Ha H2). nia.
  - apply Forall_app in H1 as [H1 Hb1]. inversion Hb1 as [|? ? Hb1' _]; subst. unfold is_byte in Hb1'.
    destruct l2 as [|b2 l2 _] using rev_ind.
    + exfalso. rewrite push_bytes_snoc in He. simpl in He.
      pose proof (push_bytes_ge acc l1 Ha H1). nia.
    + apply Forall_app in H2 as [H2 Hb2]. inversion Hb2 as [|? ? Hb2' _]; subst. unfold is_byte in Hb2'.
      rewrite !push_bytes_snoc in He.
      assert (push_bytes acc l1 = push_bytes acc l2 /\ b1 = b2) as [Hp ->] by lia.
      rewrite (IH l2 H1 H2 Hp). reflexivity.
Qed.

(* ---- decimal digits *)
Lemma uint_bytes_byte d : Forall is_byte (uint_bytes d).
Proof. induction d; simpl; constructor; auto; unfold is_byte; lia. Qed.

Lemma uint_bytes_inj : forall d d', uint_bytes d = uint_bytes d' -> d = d'.
Proof.
  induction d; destruct d'; simpl; intros H; try discriminate; try reflexivity;
    injection H as H; f_equal; auto.
Qed.

Lemma dec_bytes_inj n m : 0 <= n -> 0 <= m -> dec_bytes n = dec_bytes m -> n = m.
Proof.
  unfold dec_bytes. intros Hn Hm H. apply uint_bytes_inj in H.
  assert (Z.to_N n = Z.to_N m).
  { rewrite <- (DecimalN.Unsigned.of_to (Z.to_N n)), <- (DecimalN.Unsigned.of_to (Z.to_N m)), H. reflexivity. }
  lia.
Qed.

Lemma tmp_suffix_byte : Forall is_byte tmp_suffix.
Proof. unfold tmp_suffix, is_byte. repeat constructor; lia. Qed.

(* names generated for one head symbol with different counters are different *)
Theorem fresh_id_counter_inj sym n m :
  1 <= sym -> 0 <= n -> 0 <= m -> fresh_id sym n = fresh_id sym m -> n = m.
Proof.
  unfold fresh_id. intros Hs Hn Hm H.
  apply push_bytes_inj in H; auto.
  - apply app_inv_tail in H. apply dec_bytes_inj; auto.
  - apply Forall_app. split; [apply uint_bytes_byte | apply tmp_suffix_byte].
  - apply Forall_app. split; [apply uint_bytes_byte | apply tmp_suffix_byte].
Qed.

(* the same at the level of byte strings *)
Lemma fresh_name_counter_inj sym n m : 0 <= n -> 0 <= m -> fresh_name sym n = fresh_name sym m -> n = m.
Proof.
  unfold fresh_name. intros Hn Hm H. apply app_inv_head, app_inv_tail in H. apply dec_bytes_inj; auto.
Qed.

Lemma id_of_name_ge l : Forall is_byte l -> 1 <= id_of_name l.
Proof. intros H. unfold id_of_name. apply (push_bytes_ge 1 l); [lia | exact H]. Qed.

Lemma id_of_name_inj l1 l2 : Forall is_byte l1 -> Forall is_byte l2 -> id_of_name l1 = id_of_name l2 -> l1 = l2.
Proof. unfold id_of_name. apply push_bytes_inj. lia. Qed.

Lemma fresh_id_name sym n : fresh_id (id_of_name sym) n = id_of_name (fresh_name sym n).
Proof. unfold fresh_id, id_of_name, fresh_name. rewrite (push_bytes_app 1 sym). reflexivity. Qed.

(* a generated name is internal (ends in "__tmp") *)
Lemma push_tmp x : push_bytes x tmp_suffix = x * 1099511627776 + 409623358832.
Proof. unfold push_bytes, tmp_suffix. simpl. lia. Qed.

Lemma fresh_id_internal sym n : 1 <= sym -> is_internal (fresh_id sym n) = true.
Proof.
  intros Hs. unfold fresh_id. rewrite push_bytes_app.
  pose proof (push_bytes_ge sym (dec_bytes n) Hs (uint_bytes_byte _)) as Hge.
  set (x := push_bytes sym (dec_bytes n)) in *.
  unfold is_internal. rewrite !push_tmp.
  apply andb_true_iff. split.
  - apply Z.leb_le. lia.
  - apply Z.eqb_eq. rewrite Z.add_comm, Z.mod_add by lia. reflexivity.
Qed.

(* ---- the isolated relation *)
Lemma lfp_base_or_head R B f : lfp R B f -> B f \/ In (fst f) (heads R).
Proof.
  intros H. destruct H as [f Hb | I c f _ Hc (t & _ & He)]; auto.
  right. apply emit_head_pred in He. rewrite He. apply in_heads. exact Hc.
Qed.

(* a join only looks at facts of the predicates its positive atoms name *)
Lemma sat_restrict N (I I' : list fact) : forall k b s t,
  (forall f, In f I -> In (fst f) (pos_preds b) -> In f I') ->
  sat N (fun _ => I) k b s t -> sat N (fun _ => I') k b s t.
Proof.
  intros k b s t Hres Hs. induction Hs as [k s | k p b s u t Hh Hs IH].
  - constructor.
  - econstructor.
    + destruct Hh as [a s pvs f u He Hf Hm | a s pvs He Hall | p s us u He Hu].
      * eapply holds_atom; eauto. apply Hres; auto.
        apply match_fact_pred in Hm. rewrite Hm. simpl. left. reflexivity.
      * eapply holds_neg; eauto.
      * eapply holds_pure; eauto.
    + apply IH. intros f Hf Hp. apply Hres; auto.
      destruct p; simpl; auto.
Qed.

Section Isolated.
Variable R : list clause.
Variable drules : list (clause * nat).
Variable St0 : list fact.
Hypothesis Hneg : neg_ok R.
Hypothesis Hdr : drules_ok R drules.

Variable c : clause.
Hypothesis Hc : In c R.
(* no other rule of the stratum defines c's head predicate *)
Hypothesis Hunique : forall c', In c' R -> apred (chead c') = apred (chead c) -> c' = c.
(* the store the stratum starts from has no fact of it *)
Hypothesis Hfresh : forall f, In f St0 -> fst f <> apred (chead c).
(* c's body reads only relations that are complete before the stratum starts *)
Hypothesis Hlower : forall q, In q (pos_preds (cbody c)) -> ~ In q (heads R).

Theorem isolated_relation_exact fuel Res :
  eval_stratum fuel R drules St0 = Ok Res ->
  forall f, fst f = apred (chead c) -> (In f Res <-> derives (inset St0) St0 c f).
Proof.
  intros He f Hf. rewrite (eval_stratum_exact R drules St0 Hneg Hdr fuel Res He f). split.
  - intros Hl. destruct Hl as [f Hb | I c' f HI Hc' Hd].
    + exfalso. apply (Hfresh f Hb Hf).
    + assert (c' = c).
      { apply Hunique; auto. destruct Hd as (t & _ & Hem). apply emit_head_pred in Hem. congruence. }
      subst c'. destruct Hd as (t & Hs & Hem). exists t. split; auto.
      eapply sat_restrict; [|exact Hs].
      intros g Hg Hp. destruct (lfp_base_or_head _ _ _ (HI g Hg)) as [Hb|Hh]; [exact Hb|].
      exfalso. apply (Hlower _ Hp Hh).
  - intros Hd. eapply lfp_step; [|exact Hc|exact Hd]. intros g Hg. apply lfp_base. exact Hg.
Qed.
End Isolated.

(* ---- what the rewriting produces *)
Lemma rewrite_go_in_tmp adv strict ord : forall rs n c,
  In c (map r_clause (filter (fun r => match r_do r with None => true | Some _ => false end)
                             (rewrite_go adv strict ord n rs))) ->
  (exists r, In r rs /\ r_do r = None /\ c = r_clause r) \/
  (exists r m d, In r rs /\ r_do r = Some d /\ n <= m /\
                 single_atom_premise strict (r_wild r) (cbody (r_clause r)) = false /\
                 c = mkClause (mkAtom (fresh_id (r_head r) (m + 1))
                                      (map TVar (ord (body_cols (r_wild r) (cbody (r_clause r))))))
                              (cbody (r_clause r)) []).
Proof.
  induction rs as [|r rs IH]; intros n c Hin; simpl in Hin; [destruct Hin|].
  destruct (r_do r) as [d|] eqn:Ed.
  - destruct (single_atom_premise strict (r_wild r) (cbody (r_clause r))) eqn:Es.
    + simpl in Hin. rewrite Ed in Hin.
      destruct (IH _ _ Hin) as [(r' & Hr' & H1 & H2) | (r' & m & d' & Hr' & H1 & H2 & H3 & H4)].
      * left. exists r'. simpl. auto.
      * right. exists r', m, d'. simpl. auto 10.
    + simpl in Hin. destruct Hin as [<-|Hin].
      * right. exists r, n, d. simpl. repeat split; auto. lia.
      * destruct (IH _ _ Hin) as [(r' & Hr' & H1 & H2) | (r' & m & d' & Hr' & H1 & H2 & H3 & H4)].
        -- left. exists r'. simpl. auto.
        -- right. exists r', m, d'. simpl. repeat split; auto. destruct adv; lia.
  - simpl in Hin. rewrite Ed in Hin. simpl in Hin. destruct Hin as [<-|Hin].
    + left. exists r. simpl. auto.
    + destruct (IH _ _ Hin) as [(r' & Hr' & H1 & H2) | (r' & m & d' & Hr' & H1 & H2 & H3 & H4)].
      * left. exists r'. simpl. auto.
      * right. exists r', m, d'. simpl. auto 10.
Qed.
