(* Datalog/RewriteProofs.v - the name generator: names generated for one head symbol with
   different counter values are different; generated names are internal; and the
   "isolated relation" theorem: a relation defined by exactly one rule of a stratum whose
   body reads only completed relations holds exactly that rule's body solutions. *)
From Coq Require Import List ZArith Bool Lia Decimal DecimalN Permutation.
From MV Require Import Datalog.Syntax Datalog.SyntaxProofs Datalog.Interp Datalog.Solve Datalog.SolveProofs
     Datalog.SemiNaive Datalog.SemiNaiveProofs Datalog.Lfp Datalog.Rewrite Datalog.Transform.
Import ListNotations.
Open Scope Z_scope.

(* ---- bytes *)
Definition is_byte (b : Z) : Prop := 0 <= b < 256.

Lemma push_bytes_snoc acc l b : push_bytes acc (l ++ [b]) = push_bytes acc l * 256 + b.
Proof. unfold push_bytes. rewrite fold_left_app. reflexivity. Qed.

Lemma push_bytes_app acc l1 l2 : push_bytes acc (l1 ++ l2) = push_bytes (push_bytes acc l1) l2.
Proof. unfold push_bytes. apply fold_left_app. Qed.

Lemma push_bytes_ge acc l : 1 <= acc -> Forall is_byte l -> acc <= push_bytes acc l.
Proof.
  intros Ha. induction l as [|b l IH] using rev_ind; intros Hl.
  - simpl. lia.
  - apply Forall_app in Hl as [Hl Hb]. inversion Hb as [|? ? Hb' _]; subst. unfold is_byte in Hb'.
    rewrite push_bytes_snoc. specialize (IH Hl). nia.
Qed.

Lemma push_bytes_inj acc : 1 <= acc -> forall l1 l2, Forall is_byte l1 -> Forall is_byte l2 ->
  push_bytes acc l1 = push_bytes acc l2 -> l1 = l2.
Proof.
  intros Ha. induction l1 as [|b1 l1 IH] using rev_ind; intros l2 H1 H2 He.
  - destruct l2 as [|b2 l2] using rev_ind; [reflexivity|]. exfalso.
    apply Forall_app in H2 as [H2 Hb]. inversion Hb as [|? ? Hb' _]; subst. unfold is_byte in Hb'.
    rewrite push_bytes_snoc in He. simpl in He.
    pose proof (push_bytes_ge acc l2 Ha H2). nia.
  - apply Forall_app in H1 as [H1 Hb1]. inversion Hb1 as [|? ? Hb1' _]; subst. unfold is_byte in Hb1'.
    destruct l2 as [|b2 l2 _] using rev_ind.
    + exfalso. rewrite push_bytes_snoc in He. simpl in He.
      pose proof (push_bytes_ge acc l1 Ha H1). nia.
    + apply Forall_app in H2 as [H2 Hb2]. inversion Hb2 as [|? ? Hb2' _]; subst. unfold is_byte in Hb2'.
      rewrite !push_bytes_snoc in He.
      assert (push_bytes acc l1 = push_bytes acc l2 /\ b1 = b2) as [Hp ->] by lia.
      rewrite (IH l2 H1 H2 Hp). reflexivity.
Qed.

(* ---- decimal digits *)
Lemma uint_bytes_byte d : Forall is_byte (uint_bytes d).
Proof. induction d; simpl; constructor; auto; unfold is_byte; lia. Qed.

Lemma uint_bytes_inj : forall d d', uint_bytes d = uint_bytes d' -> d = d'.
Proof.
  induction d; destruct d'; simpl; intros H; try discriminate; try reflexivity;
    injection H as H; f_equal; auto.
Qed.

Lemma dec_bytes_inj n m : 0 <= n -> 0 <= m -> dec_bytes n = dec_bytes m -> n = m.
Proof.
  unfold dec_bytes. intros Hn Hm H. apply uint_bytes_inj in H.
  assert (Z.to_N n = Z.to_N m).
  { rewrite <- (DecimalN.Unsigned.of_to (Z.to_N n)), <- (DecimalN.Unsigned.of_to (Z.to_N m)), H. reflexivity. }
  lia.
Qed.

Lemma tmp_suffix_byte : Forall is_byte tmp_suffix.
Proof. unfold tmp_suffix, is_byte. repeat constructor; lia. Qed.

(* names generated for one head symbol with different counters are different *)
Theorem fresh_id_counter_inj sym n m :
  1 <= sym -> 0 <= n -> 0 <= m -> fresh_id sym n = fresh_id sym m -> n = m.
Proof.
  unfold fresh_id. intros Hs Hn Hm H.
  apply push_bytes_inj in H; auto.
  - apply app_inv_tail in H. apply dec_bytes_inj; auto.
  - apply Forall_app. split; [apply uint_bytes_byte | apply tmp_suffix_byte].
  - apply Forall_app. split; [apply uint_bytes_byte | apply tmp_suffix_byte].
Qed.

(* the same at the level of byte strings *)
Lemma fresh_name_counter_inj sym n m : 0 <= n -> 0 <= m -> fresh_name sym n = fresh_name sym m -> n = m.
Proof.
  unfold fresh_name. intros Hn Hm H. apply app_inv_head, app_inv_tail in H. apply dec_bytes_inj; auto.
Qed.

Lemma id_of_name_ge l : Forall is_byte l -> 1 <= id_of_name l.
Proof. intros H. unfold id_of_name. apply (push_bytes_ge 1 l); [lia | exact H]. Qed.

Lemma id_of_name_inj l1 l2 : Forall is_byte l1 -> Forall is_byte l2 -> id_of_name l1 = id_of_name l2 -> l1 = l2.
Proof. unfold id_of_name. apply push_bytes_inj. lia. Qed.

Lemma fresh_id_name sym n : fresh_id (id_of_name sym) n = id_of_name (fresh_name sym n).
Proof. unfold fresh_id, id_of_name, fresh_name. rewrite (push_bytes_app 1 sym). reflexivity. Qed.

(* a generated name is internal (ends in "__tmp") *)
Lemma push_tmp x : push_bytes x tmp_suffix = x * 1099511627776 + 409623358832.
Proof. unfold push_bytes, tmp_suffix. simpl. lia. Qed.

Lemma fresh_id_internal sym n : 1 <= sym -> is_internal (fresh_id sym n) = true.
Proof.
  intros Hs. unfold fresh_id. rewrite push_bytes_app.
  pose proof (push_bytes_ge sym (dec_bytes n) Hs (uint_bytes_byte _)) as Hge.
  set (x := push_bytes sym (dec_bytes n)) in *.
  unfold is_internal. rewrite !push_tmp.
  apply andb_true_iff. split.
  - apply Z.leb_le. lia.
  - apply Z.eqb_eq. rewrite Z.add_comm, Z.mod_add by lia. reflexivity.
Qed.

(* ---- the isolated relation *)
Lemma lfp_base_or_head R B f : lfp R B f -> B f \/ In (fst f) (heads R).
Proof.
  intros H. destruct H as [f Hb | I c f _ Hc (t & _ & He)]; auto.
  right. apply emit_head_pred in He. rewrite He. apply in_heads. exact Hc.
Qed.

(* a join only looks at facts of the predicates its positive atoms name *)
Lemma sat_restrict N (I I' : list fact) : forall k b s t,
  (forall f, In f I -> In (fst f) (pos_preds b) -> In f I') ->
  sat N (fun _ => I) k b s t -> sat N (fun _ => I') k b s t.
Proof.
  intros k b s t Hres Hs. induction Hs as [k s | k p b s u t Hh Hs IH].
  - constructor.
  - econstructor.
    + destruct Hh as [a s pvs f u He Hf Hm | a s pvs He Hall | p s us u He Hu].
      * eapply holds_atom; eauto. apply Hres; auto.
        apply match_fact_pred in Hm. rewrite Hm. simpl. left. reflexivity.
      * eapply holds_neg; eauto.
      * eapply holds_pure; eauto.
    + apply IH. intros f Hf Hp. apply Hres; auto.
      destruct p; simpl; auto.
Qed.

Section Isolated.
Variable R : list clause.
Variable drules : list (clause * nat).
Variable St0 : list fact.
Hypothesis Hneg : neg_ok R.
Hypothesis Hdr : drules_ok R drules.

Variable c : clause.
Hypothesis Hc : In c R.
(* no other rule of the stratum defines c's head predicate *)
Hypothesis Hunique : forall c', In c' R -> apred (chead c') = apred (chead c) -> c' = c.
(* the store the stratum starts from has no fact of it *)
Hypothesis Hfresh : forall f, In f St0 -> fst f <> apred (chead c).
(* c's body reads only relations that are complete before the stratum starts *)
Hypothesis Hlower : forall q, In q (pos_preds (cbody c)) -> ~ In q (heads R).

Theorem isolated_relation_exact fuel Res :
  eval_stratum fuel R drules St0 = Ok Res ->
  forall f, fst f = apred (chead c) -> (In f Res <-> derives (inset St0) St0 c f).
Proof.
  intros He f Hf. rewrite (eval_stratum_exact R drules St0 Hneg Hdr fuel Res He f). split.
  - intros Hl. destruct Hl as [f Hb | I c' f HI Hc' Hd].
    + exfalso. apply (Hfresh f Hb Hf).
    + assert (c' = c).
      { apply Hunique; auto. destruct Hd as (t & _ & Hem). apply emit_head_pred in Hem. congruence. }
      subst c'. destruct Hd as (t & Hs & Hem). exists t. split; auto.
      eapply sat_restrict; [|exact Hs].
      intros g Hg Hp. destruct (lfp_base_or_head _ _ _ (HI g Hg)) as [Hb|Hh]; [exact Hb|].
      exfalso. apply (Hlower _ Hp Hh).
  - intros Hd. eapply lfp_step; [|exact Hc|exact Hd]. intros g Hg. apply lfp_base. exact Hg.
Qed.
End Isolated.

(* ---- what the rewriting produces *)
Lemma rewrite_go_in_tmp adv strict ord : forall rs n c,
  In c (map r_clause (filter (fun r => match r_do r with None => true | Some _ => false end)
                             (rewrite_go adv strict ord n rs))) ->
  (exists r, In r rs /\ r_do r = None /\ c = r_clause r) \/
  (exists r m d, In r rs /\ r_do r = Some d /\ n <= m /\
                 single_atom_premise strict (r_wild r) (cbody (r_clause r)) = false /\
                 c = mkClause (mkAtom (fresh_id (r_head r) (m + 1))
                                      (map TVar (ord (body_cols (r_wild r) (cbody (r_clause r))))))
                              (cbody (r_clause r)) []).
Proof.
  induction rs as [|r rs IH]; intros n c Hin; simpl in Hin; [destruct Hin|].
  destruct (r_do r) as [d|] eqn:Ed.
  - destruct (single_atom_premise strict (r_wild r) (cbody (r_clause r))) eqn:Es.
    + simpl in Hin. rewrite Ed in Hin.
      destruct (IH _ _ Hin) as [(r' & Hr' & H1 & H2) | (r' & m & d' & Hr' & H1 & H2 & H3 & H4)].
      * left. exists r'. simpl. auto.
      * right. exists r', m, d'. simpl. auto 10.
    + simpl in Hin. destruct Hin as [<-|Hin].
      * right. exists r, n, d. simpl. repeat split; auto. lia.
      * destruct (IH _ _ Hin) as [(r' & Hr' & H1 & H2) | (r' & m & d' & Hr' & H1 & H2 & H3 & H4)].
        -- left. exists r'. simpl. auto.
        -- right. exists r', m, d'. simpl. repeat split; auto. destruct adv; lia.
  - simpl in Hin. rewrite Ed in Hin. simpl in Hin. destruct Hin as [<-|Hin].
    + left. exists r. simpl. auto.
    + destruct (IH _ _ Hin) as [(r' & Hr' & H1 & H2) | (r' & m & d' & Hr' & H1 & H2 & H3 & H4)].
      * left. exists r'. simpl. auto.
      * right. exists r', m, d'. simpl. auto 10.
Qed.

(* ================= positions of the generated names: which clauses Rewrite produces =====
   tmp_clause ord r k = the internal clause of rule r generated with counter value k;
   tmp_clauses = the internal clauses of one call in order (the mirror of fresh_ids). *)
Definition tmp_clause (ord : list Z -> list Z) (r : rule) (k : Z) : clause :=
  mkClause (mkAtom (fresh_id (r_head r) k) (map TVar (ord (body_cols (r_wild r) (cbody (r_clause r))))))
           (cbody (r_clause r)) [].

Definition do_clause (ord : list Z -> list Z) (r : rule) (d : dotrans) (k : Z) : rule :=
  mkRule (mkClause (chead (r_clause r)) [PAtom (chead (tmp_clause ord r k))] []) (Some d) [].

Fixpoint tmp_clauses (strict : bool) (ord : list Z -> list Z) (n : Z) (rs : list rule) : list clause :=
  match rs with
  | [] => []
  | r :: rest =>
      match r_do r with
      | None => tmp_clauses strict ord n rest
      | Some _ =>
          if single_atom_premise strict (r_wild r) (cbody (r_clause r))
          then tmp_clauses strict ord n rest
          else tmp_clause ord r (n + 1) :: tmp_clauses strict ord (n + 1) rest
      end
  end.

Lemma plain_clauses_cons r rs :
  plain_clauses (r :: rs) = if is_plain r then r_clause r :: plain_clauses rs else plain_clauses rs.
Proof. unfold plain_clauses. simpl. destruct (is_plain r); reflexivity. Qed.

Lemma tmp_clauses_heads strict ord : forall rs n,
  heads (tmp_clauses strict ord n rs) = fresh_ids true strict n rs.
Proof.
  induction rs as [|r rs IH]; intros n; [reflexivity|].
  cbn [tmp_clauses fresh_ids]. destruct (r_do r); [|apply IH].
  destruct (single_atom_premise strict (r_wild r) (cbody (r_clause r))); [apply IH|].
  unfold heads in *. cbn [map]. rewrite IH. reflexivity.
Qed.

(* the plain clauses of the rewritten list = the plain clauses of the input plus the
   internal clauses, as multisets *)
Lemma rewrite_go_plain_perm strict ord : forall rs n,
  Permutation (plain_clauses (rewrite_go true strict ord n rs))
              (plain_clauses rs ++ tmp_clauses strict ord n rs).
Proof.
  induction rs as [|r rs IH]; intros n; [apply Permutation_refl|].
  cbn [rewrite_go tmp_clauses]. destruct (r_do r) as [d|] eqn:Ed.
  - destruct (single_atom_premise strict (r_wild r) (cbody (r_clause r))) eqn:Es.
    + rewrite !plain_clauses_cons. unfold is_plain. rewrite Ed. apply IH.
    + rewrite !plain_clauses_cons. unfold is_plain. rewrite Ed. cbn [r_do r_clause].
      apply Permutation_cons_app. apply IH.
  - rewrite !plain_clauses_cons. unfold is_plain. rewrite Ed.
    rewrite <- app_comm_cons. apply perm_skip. apply IH.
Qed.

Lemma rewrite_go_plain_in strict ord rs n c :
  In c (plain_clauses (rewrite_go true strict ord n rs)) <->
  In c (plain_clauses rs) \/ In c (tmp_clauses strict ord n rs).
Proof.
  rewrite <- in_app_iff. split; apply Permutation_in.
  - apply rewrite_go_plain_perm.
  - apply Permutation_sym, rewrite_go_plain_perm.
Qed.

(* the heads of the rewritten stratum's plain clauses are exactly the heads of the user's
   plain clauses plus the generated names, each generated name once per generation *)
Theorem rewrite_go_heads_perm strict ord rs n :
  Permutation (heads (plain_clauses (rewrite_go true strict ord n rs)))
              (heads (plain_clauses rs) ++ fresh_ids true strict n rs).
Proof.
  rewrite <- tmp_clauses_heads with (ord := ord). unfold heads. rewrite <- map_app.
  apply Permutation_map. apply rewrite_go_plain_perm.
Qed.

Lemma is_plain_none c w : is_plain (mkRule c None w) = true.
Proof. reflexivity. Qed.
Lemma is_plain_some c d w : is_plain (mkRule c (Some d) w) = false.
Proof. reflexivity. Qed.

(* the rules that keep their do-transform keep their heads, in order *)
Lemma rewrite_go_do_heads adv strict ord : forall rs n,
  map r_head (filter (fun r => negb (is_plain r)) (rewrite_go adv strict ord n rs)) =
  map r_head (filter (fun r => negb (is_plain r)) rs).
Proof.
  induction rs as [|r rs IH]; intros n; [reflexivity|].
  cbn [rewrite_go]. destruct (r_do r) as [d|] eqn:Ed.
  - assert (Hp : is_plain r = false) by (unfold is_plain; rewrite Ed; reflexivity).
    destruct (single_atom_premise strict (r_wild r) (cbody (r_clause r))).
    + cbn [filter]. rewrite Hp. cbn [negb map]. rewrite IH. reflexivity.
    + cbn [filter]. rewrite Hp, is_plain_none, is_plain_some. cbn [negb map]. rewrite IH. reflexivity.
  - assert (Hp : is_plain r = true) by (unfold is_plain; rewrite Ed; reflexivity).
    cbn [filter]. rewrite Hp. cbn [negb]. apply IH.
Qed.

(* the internal clause and the transformed rule of the split rule at position |pre| *)
Lemma tmp_clauses_at strict ord : forall pre n r post d,
  r_do r = Some d -> single_atom_premise strict (r_wild r) (cbody (r_clause r)) = false ->
  In (tmp_clause ord r (n + Z.of_nat (length (fresh_ids true strict n pre)) + 1))
     (tmp_clauses strict ord n (pre ++ r :: post)).
Proof.
  induction pre as [|r0 pre IH]; intros n r post d Ed Es.
  - rewrite app_nil_l. cbn [tmp_clauses fresh_ids length]. rewrite Ed, Es. left. f_equal. simpl. lia.
  - rewrite <- app_comm_cons. cbn [tmp_clauses fresh_ids]. destruct (r_do r0); [|eapply IH; eauto].
    destruct (single_atom_premise strict (r_wild r0) (cbody (r_clause r0))); [eapply IH; eauto|].
    right. cbn [length]. rewrite Nat2Z.inj_succ.
    replace (n + Z.succ (Z.of_nat (length (fresh_ids true strict (n + 1) pre))) + 1)
      with (n + 1 + Z.of_nat (length (fresh_ids true strict (n + 1) pre)) + 1) by lia.
    eapply IH; eauto.
Qed.

Lemma rewrite_go_do_at strict ord : forall pre n r post d,
  r_do r = Some d -> single_atom_premise strict (r_wild r) (cbody (r_clause r)) = false ->
  In (do_clause ord r d (n + Z.of_nat (length (fresh_ids true strict n pre)) + 1))
     (rewrite_go true strict ord n (pre ++ r :: post)).
Proof.
  induction pre as [|r0 pre IH]; intros n r post d Ed Es.
  - rewrite app_nil_l. cbn [rewrite_go fresh_ids length]. rewrite Ed, Es. right. left.
    unfold do_clause, tmp_clause. cbn [chead]. repeat f_equal; simpl; lia.
  - rewrite <- app_comm_cons. cbn [rewrite_go fresh_ids]. destruct (r_do r0); [|right; eapply IH; eauto].
    destruct (single_atom_premise strict (r_wild r0) (cbody (r_clause r0))); [right; eapply IH; eauto|].
    right. right. cbn [length]. rewrite Nat2Z.inj_succ.
    replace (n + Z.succ (Z.of_nat (length (fresh_ids true strict (n + 1) pre))) + 1)
      with (n + 1 + Z.of_nat (length (fresh_ids true strict (n + 1) pre)) + 1) by lia.
    eapply IH; eauto.
Qed.

Lemma nodup_map_unique {A B} (f : A -> B) (l : list A) :
  NoDup (map f l) -> forall a b, In a l -> In b l -> f a = f b -> a = b.
Proof.
  induction l as [|x l IH]; intros Hnd a b Ha Hb He; [destruct Ha|].
  cbn [map] in Hnd. inversion Hnd as [|? ? Hnx Hnd']; subst.
  destruct Ha as [<-|Ha]; destruct Hb as [<-|Hb]; auto.
  - exfalso. apply Hnx. rewrite He. apply in_map. exact Hb.
  - exfalso. apply Hnx. rewrite <- He. apply in_map. exact Ha.
Qed.

(* pairwise distinct generated names none of which a user clause defines: every generated
   name heads exactly one plain clause of the rewritten stratum *)
Theorem rewrite_go_internal_unique strict ord rs n c :
  NoDup (fresh_ids true strict n rs) ->
  (forall c0, In c0 (plain_clauses rs) -> ~ In (apred (chead c0)) (fresh_ids true strict n rs)) ->
  In c (tmp_clauses strict ord n rs) ->
  forall c', In c' (plain_clauses (rewrite_go true strict ord n rs)) ->
             apred (chead c') = apred (chead c) -> c' = c.
Proof.
  intros Hnd Hu Hc c' Hc' He. apply rewrite_go_plain_in in Hc'. destruct Hc' as [Hc'|Hc'].
  - exfalso. apply (Hu c' Hc'). rewrite He, <- tmp_clauses_heads with (ord := ord).
    apply in_heads. exact Hc.
  - rewrite <- tmp_clauses_heads with (ord := ord) in Hnd.
    apply (nodup_map_unique (fun c => apred (chead c)) _ Hnd); auto.
Qed.

Lemma fresh_ids_elems adv strict : forall rs n x,
  In x (fresh_ids adv strict n rs) -> exists r m, In r rs /\ n < m /\ x = fresh_id (r_head r) m.
Proof.
  induction rs as [|r rs IH]; intros n x Hx; [destruct Hx|]. cbn [fresh_ids] in Hx.
  assert (Hrest : forall n', n <= n' -> In x (fresh_ids adv strict n' rs) ->
                             exists r0 m, In r0 (r :: rs) /\ n < m /\ x = fresh_id (r_head r0) m).
  { intros n' Hn' H. destruct (IH _ _ H) as (r0 & m & H1 & H2 & H3). exists r0, m. simpl. repeat split; auto. lia. }
  destruct (r_do r); [|apply (Hrest n); [lia|exact Hx]].
  destruct (single_atom_premise strict (r_wild r) (cbody (r_clause r))); [apply (Hrest n); [lia|exact Hx]|].
  destruct Hx as [<-|Hx].
  - exists r, (n + 1). simpl. repeat split; auto. lia.
  - apply (Hrest (if adv then n + 1 else n)); [destruct adv; lia|exact Hx].
Qed.

Lemma fresh_ids_internal adv strict rs n :
  (forall r, In r rs -> 1 <= r_head r) ->
  forall x, In x (fresh_ids adv strict n rs) -> is_internal x = true.
Proof.
  intros Hh x Hx. destruct (fresh_ids_elems _ _ _ _ _ Hx) as (r & m & Hr & _ & ->).
  apply fresh_id_internal. auto.
Qed.

(* ---- the internal relation of the split rule at position |pre| of a stratum, at full
   strength: the uniqueness of its defining clause is derived from NoDup of the generated
   names and "no user clause defines, no stored fact has, no body atom reads a generated
   name of this stratum" *)
Theorem rewrite_isolated_names strict ord pre r post d drules St0 fuel Res :
  let rs := pre ++ r :: post in
  let R := plain_clauses (rewrite_go true strict ord 0 rs) in
  let k := Z.of_nat (length (fresh_ids true strict 0 pre)) + 1 in
  let c := tmp_clause ord r k in
  r_do r = Some d -> single_atom_premise strict (r_wild r) (cbody (r_clause r)) = false ->
  NoDup (fresh_ids true strict 0 rs) ->
  (forall r', In r' rs -> r_do r' = None -> ~ In (r_head r') (fresh_ids true strict 0 rs)) ->
  (forall f, In f St0 -> fst f <> fresh_id (r_head r) k) ->
  (forall q, In q (pos_preds (cbody (r_clause r))) ->
             ~ In q (fresh_ids true strict 0 rs) /\
             (forall r', In r' rs -> r_do r' = None -> r_head r' <> q)) ->
  neg_ok R -> drules_ok R drules ->
  eval_stratum fuel R drules St0 = Ok Res ->
  In c R /\ In (do_clause ord r d k) (rewrite_go true strict ord 0 rs) /\
  (forall c', In c' R -> apred (chead c') = fresh_id (r_head r) k -> c' = c) /\
  (forall f, fst f = fresh_id (r_head r) k ->
     (In f Res <-> exists t, sat (inset St0) (fun _ => St0) 0 (cbody (r_clause r)) [] t /\
                             emit_head c t = Some f)).
Proof.
  intros rs R k c Ed Es Hnd Hu Hst Hq Hn Hdr He.
  assert (Hplain : forall c0, In c0 (plain_clauses rs) ->
                     exists r', In r' rs /\ r_do r' = None /\ c0 = r_clause r').
  { intros c0 H0. unfold plain_clauses in H0. apply in_map_iff in H0 as (r' & <- & Hr').
    apply filter_In in Hr' as [Hr' Hp]. exists r'. repeat split; auto.
    unfold is_plain in Hp. destruct (r_do r'); [discriminate|reflexivity]. }
  assert (Hct : In c (tmp_clauses strict ord 0 rs)).
  { unfold c, k, rs. apply (tmp_clauses_at strict ord pre 0 r post d Ed Es). }
  assert (HcR : In c R).
  { unfold R. apply rewrite_go_plain_in. right. exact Hct. }
  assert (Huniq : forall c', In c' R -> apred (chead c') = fresh_id (r_head r) k -> c' = c).
  { intros c' Hc' Hp. apply (rewrite_go_internal_unique strict ord rs 0 c Hnd); auto.
    intros c0 H0. destruct (Hplain c0 H0) as (r' & Hr' & Hd' & ->). apply (Hu r' Hr' Hd'). }
  split; [exact HcR|]. split.
  { unfold k, rs. apply (rewrite_go_do_at strict ord pre 0 r post d Ed Es). }
  split; [exact Huniq|].
  intros f Hf.
  refine (isolated_relation_exact R drules St0 Hn Hdr c HcR Huniq Hst _ fuel Res He f Hf).
  intros q Hqin Hh. destruct (Hq q Hqin) as [Hq1 Hq2].
  unfold R in Hh. apply (Permutation_in _ (rewrite_go_heads_perm strict ord rs 0)) in Hh.
  apply in_app_iff in Hh as [Hh|Hh]; [|exact (Hq1 Hh)].
  unfold heads in Hh. apply in_map_iff in Hh as (c0 & <- & H0).
  destruct (Hplain c0 H0) as (r' & Hr' & Hd' & ->). exact (Hq2 r' Hr' Hd' eq_refl).
Qed.

(* ================= when are generated names distinct across head symbols ============== *)
Definition is_digit (b : Z) : Prop := 48 <= b <= 57.
Definition ends_in_digit (p : Z) : Prop := 48 <= p mod 256 <= 57.

Lemma uint_bytes_digit d : Forall is_digit (uint_bytes d).
Proof. induction d; simpl; constructor; auto; unfold is_digit; lia. Qed.

(* two symbols extended by digit strings give the same name exactly when one symbol is the
   other followed by digits w and the digit strings differ by that prefix w *)
Lemma push_digits_eq : forall l1 l2 h1 h2,
  Forall is_digit l1 -> Forall is_digit l2 -> push_bytes h1 l1 = push_bytes h2 l2 ->
  exists w, Forall is_digit w /\
    ((h1 = push_bytes h2 w /\ l2 = w ++ l1) \/ (h2 = push_bytes h1 w /\ l1 = w ++ l2)).
Proof.
  induction l1 as [|b1 l1 IH] using rev_ind; intros l2 h1 h2 H1 H2 He.
  - exists l2. split; [exact H2|]. left. split; [exact He|]. rewrite app_nil_r. reflexivity.
  - destruct l2 as [|b2 l2 _] using rev_ind.
    + exists (l1 ++ [b1]). split; [exact H1|]. right. split; [symmetry; exact He|]. rewrite app_nil_r. reflexivity.
    + apply Forall_app in H1 as [H1 Hb1]. inversion Hb1 as [|? ? Hb1' _]; subst.
      apply Forall_app in H2 as [H2 Hb2]. inversion Hb2 as [|? ? Hb2' _]; subst.
      unfold is_digit in Hb1', Hb2'. rewrite !push_bytes_snoc in He.
      assert (push_bytes h1 l1 = push_bytes h2 l2 /\ b1 = b2) as [Hp ->] by lia.
      destruct (IH l2 h1 h2 H1 H2 Hp) as (w & Hw & [[Ha Hb]|[Ha Hb]]); exists w; (split; [exact Hw|]).
      * left. split; [exact Ha|]. rewrite Hb, app_assoc. reflexivity.
      * right. split; [exact Ha|]. rewrite Hb, app_assoc. reflexivity.
Qed.

Theorem fresh_id_eq_iff h1 h2 n1 n2 :
  fresh_id h1 n1 = fresh_id h2 n2 <->
  exists w, Forall is_digit w /\
    ((h1 = push_bytes h2 w /\ dec_bytes n2 = w ++ dec_bytes n1) \/
     (h2 = push_bytes h1 w /\ dec_bytes n1 = w ++ dec_bytes n2)).
Proof.
  unfold fresh_id. rewrite !push_bytes_app, !push_tmp. split.
  - intros He. apply push_digits_eq; try apply uint_bytes_digit. lia.
  - intros (w & _ & [[-> Hd]|[-> Hd]]); rewrite Hd, push_bytes_app; reflexivity.
Qed.

Lemma push_digits_ends h w : w <> [] -> Forall is_digit w -> ends_in_digit (push_bytes h w).
Proof.
  intros Hw Hd. destruct w as [|b w _] using rev_ind; [congruence|].
  apply Forall_app in Hd as [_ Hb]. inversion Hb as [|? ? Hb' _]; subst. unfold is_digit in Hb'.
  rewrite push_bytes_snoc. unfold ends_in_digit.
  rewrite Z.add_comm, Z.mod_add by lia. rewrite Z.mod_small by lia. exact Hb'.
Qed.

(* neither symbol ends in a digit: the generated name determines symbol and counter *)
Theorem fresh_id_inj_nodigit h1 h2 n1 n2 :
  ~ ends_in_digit h1 -> ~ ends_in_digit h2 -> 0 <= n1 -> 0 <= n2 ->
  fresh_id h1 n1 = fresh_id h2 n2 -> h1 = h2 /\ n1 = n2.
Proof.
  intros Hd1 Hd2 Hn1 Hn2 He. apply fresh_id_eq_iff in He as (w & Hw & Hc).
  destruct w as [|b w].
  - simpl in Hc. destruct Hc as [[-> Hd]|[-> Hd]]; split; auto; apply dec_bytes_inj; auto.
  - exfalso. assert (Hne : b :: w <> []) by discriminate.
    destruct Hc as [[-> _]|[-> _]]; [apply Hd1|apply Hd2]; apply push_digits_ends; auto.
Qed.

Lemma id_of_name_ends s b : is_byte b -> (ends_in_digit (id_of_name (s ++ [b])) <-> is_digit b).
Proof.
  intros Hb. unfold is_byte in Hb. unfold id_of_name, ends_in_digit, is_digit.
  rewrite push_bytes_snoc, Z.add_comm, Z.mod_add by lia. rewrite Z.mod_small by lia. tauto.
Qed.

(* no head symbol of the stratum ends in a digit: the names of one call are pairwise distinct *)
Theorem fresh_ids_nodup strict : forall rs n,
  0 <= n -> (forall r, In r rs -> ~ ends_in_digit (r_head r)) ->
  NoDup (fresh_ids true strict n rs).
Proof.
  induction rs as [|r rs IH]; intros n Hn Hd; [constructor|]. cbn [fresh_ids].
  assert (Hd' : forall r0, In r0 rs -> ~ ends_in_digit (r_head r0)) by (intros; apply Hd; simpl; auto).
  destruct (r_do r); [|apply IH; auto].
  destruct (single_atom_premise strict (r_wild r) (cbody (r_clause r))); [apply IH; auto|].
  constructor; [|apply IH; auto; lia].
  intros Hin. destruct (fresh_ids_elems _ _ _ _ _ Hin) as (r0 & m & Hr0 & Hm & He).
  apply fresh_id_inj_nodigit in He; [lia| | |lia|lia]; apply Hd; simpl; auto.
Qed.

(* ---- the same with the two assumptions of the plan: generated names pairwise distinct,
   no user predicate (head, stored fact, body atom) is an internal name *)
Theorem rewrite_isolated_internal ord pre r post d drules St0 fuel Res :
  let rs := pre ++ r :: post in
  let R := plain_clauses (rewrite ord rs) in
  let k := Z.of_nat (length (fresh_ids true true 0 pre)) + 1 in
  let c := tmp_clause ord r k in
  r_do r = Some d -> single_atom_premise true (r_wild r) (cbody (r_clause r)) = false ->
  NoDup (fresh_ids true true 0 rs) ->
  (forall r', In r' rs -> 1 <= r_head r' /\ is_internal (r_head r') = false) ->
  (forall f, In f St0 -> is_internal (fst f) = false) ->
  (forall q, In q (pos_preds (cbody (r_clause r))) ->
             is_internal q = false /\ (forall r', In r' rs -> r_do r' = None -> r_head r' <> q)) ->
  neg_ok R -> drules_ok R drules ->
  eval_stratum fuel R drules St0 = Ok Res ->
  In c R /\ In (do_clause ord r d k) (rewrite ord rs) /\
  (forall c', In c' R -> apred (chead c') = fresh_id (r_head r) k -> c' = c) /\
  (forall f, fst f = fresh_id (r_head r) k ->
     (In f Res <-> exists t, sat (inset St0) (fun _ => St0) 0 (cbody (r_clause r)) [] t /\
                             emit_head c t = Some f)).
Proof.
  intros rs R k c Ed Es Hnd Hu Hst Hq Hn Hdr He.
  assert (H1 : forall r', In r' rs -> 1 <= r_head r') by (intros r' Hr'; apply (Hu r' Hr')).
  assert (Hint : forall x, In x (fresh_ids true true 0 rs) -> is_internal x = true)
    by (apply fresh_ids_internal; exact H1).
  assert (Hr : In r rs) by (unfold rs; apply in_or_app; right; left; reflexivity).
  apply (rewrite_isolated_names true ord pre r post d drules St0 fuel Res Ed Es Hnd); auto.
  - intros r' Hr' _ Hin. apply Hint in Hin. destruct (Hu r' Hr') as [_ Hf]. congruence.
  - intros f Hf Hp. apply Hst in Hf. rewrite Hp, fresh_id_internal in Hf; [discriminate|auto].
  - intros q Hqin. destruct (Hq q Hqin) as [Hq1 Hq2]. split; [|exact Hq2].
    intros Hin. apply Hint in Hin. congruence.
Qed.

(* ---- and with NoDup replaced by its syntactic sufficient condition *)
Theorem rewrite_isolated_nodigit ord pre r post d drules St0 fuel Res :
  let rs := pre ++ r :: post in
  let R := plain_clauses (rewrite ord rs) in
  let k := Z.of_nat (length (fresh_ids true true 0 pre)) + 1 in
  let c := tmp_clause ord r k in
  r_do r = Some d -> single_atom_premise true (r_wild r) (cbody (r_clause r)) = false ->
  (forall r', In r' rs -> ~ (48 <= r_head r' mod 256 <= 57)) ->
  (forall r', In r' rs -> 1 <= r_head r' /\ is_internal (r_head r') = false) ->
  (forall f, In f St0 -> is_internal (fst f) = false) ->
  (forall q, In q (pos_preds (cbody (r_clause r))) ->
             is_internal q = false /\ (forall r', In r' rs -> r_do r' = None -> r_head r' <> q)) ->
  neg_ok R -> drules_ok R drules ->
  eval_stratum fuel R drules St0 = Ok Res ->
  In c R /\ In (do_clause ord r d k) (rewrite ord rs) /\
  (forall c', In c' R -> apred (chead c') = fresh_id (r_head r) k -> c' = c) /\
  (forall f, fst f = fresh_id (r_head r) k ->
     (In f Res <-> exists t, sat (inset St0) (fun _ => St0) 0 (cbody (r_clause r)) [] t /\
                             emit_head c t = Some f)).
Proof.
  intros rs R k c Ed Es Hdig. apply (rewrite_isolated_internal ord pre r post d drules St0 fuel Res Ed Es).
  apply fresh_ids_nodup; [lia|exact Hdig].
Qed.
