(* Datalog/AggCycle.v - the dependency graph of a program with do-transform rules and the
   test "some aggregation (or negation) edge lies on a cycle".
   Mirrors analysis/stratification.go: makeDepGraph (:43) - an edge head -> body predicate
   per atom premise, flagged `negated` for a negated atom and for EVERY atom premise of a
   rule that carries a do-transform (:55-63 "Recursion through a do-transform is not
   permitted. We treat this as if it was a negation.") - and the rejection test of
   Stratify (:100-114): a flagged edge whose two ends lie in one strongly connected
   component. Here the component test is spelled as reachability: the flagged edge h -> p
   lies inside a component iff h is reachable from p.
   (Go leaves out edges to extensional predicates; those have no outgoing edge and can
   never close a cycle, so keeping them changes nothing.)
   No proofs in this file. *)
From Coq Require Import List ZArith Bool.
From MV Require Import Datalog.Syntax Datalog.Rewrite Datalog.Transform.
Import ListNotations.
Open Scope Z_scope.

(* (head, body predicate, flagged) *)
Definition edge := (Z * Z * bool)%type.
Definition e_src (e : edge) : Z := fst (fst e).
Definition e_dst (e : edge) : Z := snd (fst e).
Definition e_strict (e : edge) : bool := snd e.

Definition rule_edges (r : rule) : list edge :=
  let b := cbody (r_clause r) in
  map (fun p => (r_head r, p, negb (is_plain r))) (pos_preds b)
  ++ map (fun p => (r_head r, p, true)) (neg_preds b).

Definition dep_edges (P : list rule) : list edge := flat_map rule_edges P.

(* one round of "add the targets of the edges that start in S" *)
Definition reach_step (E : list edge) (S : list Z) : list Z :=
  S ++ flat_map (fun e => if memZ (e_src e) S then [e_dst e] else []) E.

Fixpoint reach_from (fuel : nat) (E : list edge) (S : list Z) : list Z :=
  match fuel with
  | O => S
  | Datatypes.S n => reach_from n E (dedupZ (reach_step E S))
  end.

(* a flagged edge h -> p with h among the predicates p depends on *)
Definition strict_in_cycle (E : list edge) : bool :=
  existsb (fun e => e_strict e && memZ (e_src e) (reach_from (length E) E [e_dst e])) E.

Definition agg_in_cycle (P : list rule) : bool := strict_in_cycle (dep_edges P).
