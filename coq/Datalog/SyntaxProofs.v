(* Specifications of the boolean equalities of Syntax.v *)
From Coq Require Import List ZArith Bool Lia.
From MV Require Import Datalog.Syntax.
Import ListNotations.
Open Scope Z_scope.

Lemma list_eqb_spec {A} (eqb : A -> A -> bool) :
  (forall a b, eqb a b = true <-> a = b) -> forall l1 l2, list_eqb eqb l1 l2 = true <-> l1 = l2.
Proof.
  intros H. induction l1 as [|x l1 IH]; destruct l2 as [|y l2]; simpl; try (split; congruence).
  rewrite andb_true_iff, H, IH. split; [intros [-> ->]; auto | intros [= -> ->]; auto].
Qed.

(* list_eqb with a pointwise hypothesis restricted to the elements of l1 (for nested use) *)
Lemma list_eqb_spec_in {A} (eqb : A -> A -> bool) l1 :
  (forall a, In a l1 -> forall b, eqb a b = true <-> a = b) -> forall l2, list_eqb eqb l1 l2 = true <-> l1 = l2.
Proof.
  induction l1 as [|x l1 IH]; intros H; destruct l2 as [|y l2]; simpl; try (split; congruence).
  rewrite andb_true_iff, (H x (or_introl eq_refl)), IH by (intros; apply H; right; auto).
  split; [intros [-> ->]; auto | intros [= -> ->]; auto].
Qed.

Lemma const_eqb_spec : forall a b, const_eqb a b = true <-> a = b.
Proof.
  induction a; destruct b; simpl; try (split; congruence).
  - rewrite (list_eqb_spec Z.eqb Z.eqb_eq). split; congruence.
  - rewrite (list_eqb_spec Z.eqb Z.eqb_eq). split; congruence.
  - rewrite Z.eqb_eq. split; congruence.
  - rewrite andb_true_iff, IHa1, IHa2. split; [intros [-> ->]; auto | intros [= -> ->]; auto].
  - rewrite andb_true_iff, IHa1, IHa2. split; [intros [-> ->]; auto | intros [= -> ->]; auto].
Qed.

Lemma fact_eqb_spec : forall f g : fact, fact_eqb f g = true <-> f = g.
Proof.
  intros [p a] [q b]. unfold fact_eqb. simpl.
  rewrite andb_true_iff, Z.eqb_eq, (list_eqb_spec const_eqb const_eqb_spec).
  split; [intros [-> ->]; auto | intros [= -> ->]; auto].
Qed.

Lemma memZ_spec x l : memZ x l = true <-> In x l.
Proof.
  unfold memZ. rewrite existsb_exists. split.
  - intros (y & Hy & He). apply Z.eqb_eq in He. subst; auto.
  - intros H. exists x. split; auto. apply Z.eqb_refl.
Qed.

Lemma in_neg_preds b q : In q (neg_preds b) <-> exists a, In (PNeg a) b /\ apred a = q.
Proof.
  induction b as [|p b IH]; simpl.
  - split; [tauto | intros (a & [] & _)].
  - destruct p; simpl; rewrite ?IH; split;
      try (intros (a0 & Ha & He); exists a0; split; auto; fail);
      try (intros (a0 & [Ha|Ha] & He); [discriminate Ha | exists a0; split; auto]; fail).
    + intros [<-|(a0 & Ha & He)]; [exists a; auto | exists a0; auto].
    + intros (a0 & [[= <-]|Ha] & He); [left; auto | right; exists a0; auto].
Qed.

Lemma in_pos_preds b q : In q (pos_preds b) <-> exists a, In (PAtom a) b /\ apred a = q.
Proof.
  induction b as [|p b IH]; simpl.
  - split; [tauto | intros (a & [] & _)].
  - destruct p; simpl; rewrite ?IH; split;
      try (intros (a0 & Ha & He); exists a0; split; auto; fail);
      try (intros (a0 & [Ha|Ha] & He); [discriminate Ha | exists a0; split; auto]; fail).
    + intros [<-|(a0 & Ha & He)]; [exists a; auto | exists a0; auto].
    + intros (a0 & [[= <-]|Ha] & He); [left; auto | right; exists a0; auto].
Qed.
