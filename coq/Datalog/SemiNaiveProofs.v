(* Datalog/SemiNaiveProofs.v - the semi-naive loop of one stratum computes exactly the
   least model of the stratum's rules over the store it started from. *)
From Coq Require Import List ZArith Bool Lia Arith.
From MV Require Import Datalog.Syntax Datalog.SyntaxProofs Datalog.Interp Datalog.Solve Datalog.Lfp
     Datalog.SolveProofs Datalog.SemiNaive.
Import ListNotations.
Open Scope Z_scope.

(* ---- stores *)
Lemma mem_spec f l : mem f l = true <-> In f l.
Proof.
  unfold mem. rewrite existsb_exists. split.
  - intros (x & Hx & He). apply fact_eqb_spec in He. subst; auto.
  - intros H. exists f. split; auto. apply fact_eqb_spec; auto.
Qed.

Lemma mem_false f l : mem f l = false <-> ~ In f l.
Proof. rewrite <- mem_spec. destruct (mem f l); split; congruence. Qed.

Lemma add_in St g f : In f (add St g) <-> In f St \/ f = g.
Proof.
  unfold add. destruct (mem g St) eqn:Hm.
  - apply mem_spec in Hm. split; [auto | intros [H| ->]; auto].
  - rewrite in_app_iff. simpl. split; [intros [H|[H|[]]]; auto | intros [H|H]; auto].
Qed.

Lemma add_all_in l : forall St f, In f (add_all St l) <-> In f St \/ In f l.
Proof.
  unfold add_all. induction l as [|g l IH]; intros St f; simpl.
  - tauto.
  - rewrite IH, add_in. split; [intros [[H|H]|H]; auto | intros [H|[H|H]]; auto].
Qed.

Lemma new_delta_in St D l f : In f (new_delta St D l) <-> In f l /\ ~ In f St /\ ~ In f D.
Proof.
  unfold new_delta.
  assert (G : forall acc, In f (fold_left (fun acc f => if mem f St || mem f D then acc else add acc f) l acc)
                          <-> In f acc \/ (In f l /\ ~ In f St /\ ~ In f D)).
  { induction l as [|g l IH]; intros acc; simpl.
    - tauto.
    - rewrite IH. destruct (mem g St || mem g D) eqn:Hm.
      + apply orb_true_iff in Hm. rewrite !mem_spec in Hm.
        split; [intros [H|(H1 & H2 & H3)]; auto|].
        intros [H|([<-|H1] & H2 & H3)]; auto. tauto.
      + apply orb_false_iff in Hm as (Hm1 & Hm2). apply mem_false in Hm1, Hm2.
        rewrite add_in. split.
        * intros [[H| ->]|(H1 & H2 & H3)]; auto.
        * intros [H|([<-|H1] & H2 & H3)]; auto. }
  rewrite G. simpl. tauto.
Qed.

Lemma is_nil_true {A} (l : list A) : is_nil l = true -> l = [].
Proof. destruct l; simpl; congruence. Qed.

(* ---- heads *)
Lemma emit_head_pred c t f : emit_head c t = Some f -> fst f = apred (chead c).
Proof.
  unfold emit_head. destruct (eval_args t (aargs (chead c))); [|discriminate].
  destruct (run_let t (clet c)); [|discriminate].
  destruct (map_opt _ l); [|discriminate]. intros [= <-]. reflexivity.
Qed.

Lemma in_heads (R : list clause) c : In c R -> In (apred (chead c)) (heads R).
Proof. intros H. unfold heads. apply in_map_iff. exists c. auto. Qed.

(* f is the head of an instance of c found by the join reading sel *)
Definition der (N : factset) (sel : nat -> list fact) (c : clause) (f : fact) : Prop :=
  exists t, sat N sel 0 (cbody c) [] t /\ emit_head c t = Some f.

Lemma round0_spec R St ds :
  round0 R St = Some ds -> forall f, In f ds <-> exists c, In c R /\ derives (inset St) St c f.
Proof.
  unfold round0. intros H f. destruct (flat_map_opt_spec _ _ _ H) as [_ Hin]. rewrite Hin. split.
  - intros (c & fs & Hc & He & Hf). exists c. split; auto.
    apply (eval_clause_spec _ _ _ _ He) in Hf. exact Hf.
  - intros (c & Hc & Hd). destruct (flat_map_opt_spec _ _ _ H) as [Hdef _].
    destruct (Hdef c Hc) as (fs & He). exists c, fs. repeat split; auto.
    apply (eval_clause_spec _ _ _ _ He). exact Hd.
Qed.

Lemma round_delta_spec drules St D ds :
  round_delta drules St D = Some ds ->
  forall f, In f ds <-> exists c i, In (c, i) drules /\ der (inset St) (sel_delta St D i) c f.
Proof.
  unfold round_delta. intros H f. destruct (flat_map_opt_spec _ _ _ H) as [Hdef Hin]. rewrite Hin. split.
  - intros ([c i] & fs & Hc & He & Hf). exists c, i. split; auto.
    apply (eval_clause_spec _ _ _ _ He) in Hf. exact Hf.
  - intros (c & i & Hc & Hd). destruct (Hdef (c, i) Hc) as (fs & He).
    exists (c, i), fs. repeat split; auto. apply (eval_clause_spec _ _ _ _ He). exact Hd.
Qed.

(* ---- hypotheses of the theorem *)
(* negated predicates are not derived by the rules of this stratum *)
Definition neg_ok (R : list clause) : Prop :=
  forall c q, In c R -> In q (neg_preds (cbody c)) -> ~ In q (heads R).

(* the delta rules: only clauses of R, and one for every body position holding a
   positive atom of a predicate derived in this stratum *)
Definition drules_ok (R : list clause) (drules : list (clause * nat)) : Prop :=
  (forall c i, In (c, i) drules -> In c R) /\
  (forall c i a, In c R -> nth_error (cbody c) i = Some (PAtom a) -> In (apred a) (heads R) ->
                 In (c, i) drules).

Section Stratum.
Variable R : list clause.
Variable drules : list (clause * nat).
Variable St0 : list fact.
Hypothesis Hneg : neg_ok R.
Hypothesis Hdr : drules_ok R drules.

Let B : factset := inset St0.

Record Inv (Sp St D : list fact) : Prop := {
  i_base : incl St0 St;
  i_sound : forall f, In f St -> lfp R B f;
  i_prev : incl Sp St;
  i_T : forall c f, In c R -> derives B Sp c f -> In f St;
  i_new : forall f, In f St -> In f Sp \/ In f D;
  i_D : incl D St;
  i_Dh : forall f, In f D -> In (fst f) (heads R);
  i_hd : forall f, In f St -> In f St0 \/ In (fst f) (heads R) }.

(* a store that extends St0 by facts of derived predicates judges the negated atoms of
   R's bodies like St0 *)
Lemma neg_agree_store St c :
  incl St0 St -> (forall f, In f St -> In f St0 \/ In (fst f) (heads R)) -> In c R ->
  neg_agree (cbody c) (inset St) B /\ neg_agree (cbody c) B (inset St).
Proof.
  intros Hb Hh Hc.
  assert (G : forall a f, In (PNeg a) (cbody c) -> fst f = apred a -> (In f St <-> In f St0)).
  { intros a f Ha Hf. split; [|apply Hb]. intros HfS. destruct (Hh f HfS) as [|Hhd]; auto.
    exfalso. apply (Hneg c (apred a) Hc).
    - apply in_neg_preds. exists a. auto.
    - rewrite <- Hf. auto. }
  split; intros a f Ha Hf; unfold inset, B; specialize (G a f Ha Hf); tauto.
Qed.

Lemma der_N St sel c f :
  incl St0 St -> (forall g, In g St -> In g St0 \/ In (fst g) (heads R)) -> In c R ->
  (der (inset St) sel c f <-> der B sel c f).
Proof.
  intros Hb Hh Hc. destruct (neg_agree_store St c Hb Hh Hc) as [A1 A2].
  split; intros (t & Hs & He); exists t; split; auto;
    (eapply sat_mono; [intros j _; apply incl_refl | eassumption | exact Hs]).
Qed.

(* what one incremental round finds: every consequence of St is already in St or is
   derived by some delta rule *)
Lemma T_step Sp St D ds c f :
  Inv Sp St D -> round_delta drules St D = Some ds -> In c R -> derives B St c f ->
  In f St \/ In f ds.
Proof.
  intros HI Hrd Hc (t & Hs & He). destruct HI.
  destruct (sat_split B Sp St D (cbody c) 0 [] t i_prev0 i_new0 Hs)
    as [Hl|(i & a & g & Hn & HgD & Hgp & Hd)].
  - left. apply (i_T0 c f Hc). exists t. auto.
  - right. apply (round_delta_spec _ _ _ _ Hrd). exists c, i. split.
    + destruct Hdr as [_ Hcomp]. apply (Hcomp c i a Hc Hn). rewrite <- Hgp. auto.
    + apply (der_N St _ c f i_base0 i_hd0 Hc). exists t. split; auto.
Qed.

Lemma delta_sound St D ds f :
  incl St0 St -> (forall g, In g St -> In g St0 \/ In (fst g) (heads R)) -> incl D St ->
  round_delta drules St D = Some ds -> In f ds ->
  exists c, In c R /\ derives B St c f.
Proof.
  intros Hb Hh HD Hrd Hf. apply (round_delta_spec _ _ _ _ Hrd) in Hf as (c & i & Hci & Hd).
  destruct Hdr as [Hs _]. pose proof (Hs c i Hci) as Hc. exists c. split; auto.
  apply (der_N St _ c f Hb Hh Hc) in Hd as (t & Hsat & He).
  exists t. split; auto. eapply sat_delta_sound; eauto.
Qed.

Lemma loop_correct fuel : forall Sp St D Res,
  Inv Sp St D -> loop fuel drules St D = Ok Res ->
  incl St0 Res /\ (forall f, In f Res -> lfp R B f) /\
  (forall c f, In c R -> derives B Res c f -> In f Res).
Proof.
  induction fuel as [|n IH]; intros Sp St D Res HI; simpl; [discriminate|].
  destruct (round_delta drules St D) as [ds|] eqn:Hrd; [|discriminate].
  destruct (is_nil (new_delta St D ds)) eqn:Hnil.
  - intros [= <-]. apply is_nil_true in Hnil. rewrite Hnil. simpl.
    pose proof HI as HI'. destruct HI. repeat split; auto.
    intros c f Hc Hd. destruct (T_step _ _ _ _ _ _ HI' Hrd Hc Hd) as [|Hds]; auto.
    destruct (mem f St) eqn:HmS; [apply mem_spec in HmS; auto|].
    destruct (mem f D) eqn:HmD; [apply mem_spec in HmD; auto|].
    exfalso. apply mem_false in HmS, HmD.
    assert (Hin : In f (new_delta St D ds)) by (apply new_delta_in; auto).
    rewrite Hnil in Hin. destruct Hin.
  - intros HR. apply (IH St (add_all St (new_delta St D ds)) (new_delta St D ds) Res); auto.
    pose proof HI as HI'. destruct HI. constructor.
    + intros f Hf. apply add_all_in. auto.
    + intros f Hf. apply add_all_in in Hf as [Hf|Hf]; auto.
      apply new_delta_in in Hf as (Hf & _).
      destruct (delta_sound St D ds f i_base0 i_hd0 i_D0 Hrd Hf) as (c & Hc & Hd).
      eapply lfp_step; eauto.
    + intros f Hf. apply add_all_in. auto.
    + intros c f Hc Hd. apply add_all_in.
      destruct (T_step _ _ _ _ _ _ HI' Hrd Hc Hd) as [|Hds]; auto.
      destruct (mem f St) eqn:HmS; [apply mem_spec in HmS; auto|].
      destruct (mem f D) eqn:HmD; [apply mem_spec in HmD; auto|].
      right. apply mem_false in HmS, HmD. apply new_delta_in. auto.
    + intros f Hf. apply add_all_in in Hf. exact Hf.
    + intros f Hf. apply add_all_in. auto.
    + intros f Hf. apply new_delta_in in Hf as (Hf & _).
      destruct (delta_sound St D ds f i_base0 i_hd0 i_D0 Hrd Hf) as (c & Hc & (t & _ & He)).
      apply emit_head_pred in He. rewrite He. apply in_heads; auto.
    + intros f Hf. apply add_all_in in Hf as [Hf|Hf]; auto.
      right. apply new_delta_in in Hf as (Hf & _).
      destruct (delta_sound St D ds f i_base0 i_hd0 i_D0 Hrd Hf) as (c & Hc & (t & _ & He)).
      apply emit_head_pred in He. rewrite He. apply in_heads; auto.
Qed.

(* closed sets contain the least model *)
Lemma closed_complete Res :
  incl St0 Res -> (forall c f, In c R -> derives B Res c f -> In f Res) ->
  forall f, lfp R B f -> In f Res.
Proof.
  intros Hb Hcl f Hf. induction Hf as [f Hf | I c f _ IH Hc (t & Hs & He)].
  - apply Hb. exact Hf.
  - apply (Hcl c f Hc). exists t. split; auto.
    eapply sat_mono; [| apply neg_agree_refl | exact Hs]. intros j _. exact IH.
Qed.

Theorem eval_stratum_exact fuel Res :
  eval_stratum fuel R drules St0 = Ok Res -> forall f, In f Res <-> lfp R B f.
Proof.
  unfold eval_stratum. destruct (round0 R St0) as [ds|] eqn:Hr0; [|discriminate].
  destruct (is_nil (add_all [] ds)) eqn:Hnil.
  - intros [= <-] f. apply is_nil_true in Hnil. split.
    + intros Hf. apply lfp_base. exact Hf.
    + apply closed_complete; [apply incl_refl|].
      intros c g Hc Hd. exfalso.
      assert (Hg : In g (add_all [] ds)).
      { apply add_all_in. right. apply (round0_spec _ _ _ Hr0). exists c. auto. }
      rewrite Hnil in Hg. destruct Hg.
  - intros Hl f.
    assert (HI : Inv St0 (add_all St0 (add_all [] ds)) (add_all [] ds)).
    { assert (HD : forall g, In g (add_all [] ds) <-> In g ds).
      { intros g. rewrite add_all_in. simpl. tauto. }
      constructor.
      - intros g Hg. apply add_all_in. auto.
      - intros g Hg. apply add_all_in in Hg as [Hg|Hg]; [apply lfp_base; exact Hg|].
        apply HD, (round0_spec _ _ _ Hr0) in Hg as (c & Hc & Hd). eapply lfp_step; eauto.
        intros h Hh. apply lfp_base. exact Hh.
      - intros g Hg. apply add_all_in. auto.
      - intros c g Hc Hd. apply add_all_in. right. apply HD, (round0_spec _ _ _ Hr0). eauto.
      - intros g Hg. apply add_all_in in Hg. exact Hg.
      - intros g Hg. apply add_all_in. auto.
      - intros g Hg. apply HD, (round0_spec _ _ _ Hr0) in Hg as (c & Hc & (t & _ & He)).
        apply emit_head_pred in He. rewrite He. apply in_heads; auto.
      - intros g Hg. apply add_all_in in Hg as [Hg|Hg]; auto. right.
        apply HD, (round0_spec _ _ _ Hr0) in Hg as (c & Hc & (t & _ & He)).
        apply emit_head_pred in He. rewrite He. apply in_heads; auto. }
    destruct (loop_correct _ _ _ _ _ HI Hl) as (Hb & Hs & Hc). split; auto.
    apply closed_complete; auto.
Qed.
End Stratum.

(* the least model is a model and is contained in every model *)
Lemma lfp_is_model R B : is_model R B (lfp R B).
Proof. split; [apply lfp_base | intros I c f HI Hc Hd; eapply lfp_step; eauto]. Qed.

Lemma lfp_least R B M : is_model R B M -> forall f, lfp R B f -> M f.
Proof.
  intros [Hb Hcl] f Hf. induction Hf as [f Hf | I c f _ IH Hc Hd]; [auto | eapply Hcl; eauto].
Qed.
