(* Datalog/Transform.v - do-transforms: engine.evalDo (engine/transformer.go:117) with
   groupKeyString (:106), the reducers of functional.EvalReduceFn (functional/functional.go
   :1155: count, sum, min, max, avg, collect, collect_distinct; reduceNum :1366, evalAvg
   :1449), their application once after the stratum's fixpoint (engine/seminaivebottomup.go
   :617-659), and the stratum / program drivers with rewriting (evalStrata :286-326).

   Modelling decisions
   * The group map is keyed in Go by the PRINTED key (groupKeyString); here by the tuple of
     constants. The two agree when printing is injective on the keys (C08/C09); the
     correspondence run compares them on every case.
   * Go iterates the group map in map order; the model lists the groups in order of first
     occurrence. Only the set of emitted facts is compared.
   * Rows come from FactStore.GetFacts in the store's order; here in the order of the list
     that models the store. sum (wrapping), min, max, count do not depend on it; collect
     lists are compared as multisets by the runner; avg is computed from the exact integer
     sum (Go adds float64 values: exact while every partial sum stays within 2^53, finding
     N10 beyond) and the correctly rounded quotient.
   * float64 results are encoded into the C01 constants as
       CPair (CName "/__f64") (CPair (CNum m) (CNum e))   value m * 2^e, m odd or m = e = 0
       CPair (CName "/__f64") (CName "/nan")
   None = the Go code returns an error (or panics on a failed type assertion).
   No proofs in this file. *)
From Coq Require Import List ZArith Bool.
From MV Require Import Datalog.Syntax Datalog.Interp Datalog.Solve Datalog.SemiNaive Datalog.Strata Datalog.Rewrite.
Import ListNotations.
Open Scope Z_scope.

(* ---- rows of a do-transform rule (seminaivebottomup.go:624-637): every stored fact that
   factstore.Matches the premise (only constant arguments are compared, factstore.go:377)
   yields one row binding the variable positions in argument order; ConstSubstList.Extend
   appends and Get returns the first binding. *)
Fixpoint row_bind (args : list term) (cs : list const) (acc : subst) : option subst :=
  match args, cs with
  | [], [] => Some acc
  | TConst c :: args', d :: cs' => if const_eqb c d then row_bind args' cs' acc else None
  | TVar v :: args', d :: cs' => row_bind args' cs' (acc ++ [(v, d)])
  | TApp _ _ :: args', _ :: cs' => row_bind args' cs' acc
  | _, _ => None                                  (* other arity = other PredicateSym *)
  end.

Definition row_of_fact (a : atom) (f : fact) : option subst :=
  if Z.eqb (fst f) (apred a) then row_bind (aargs a) (snd f) [] else None.

Definition do_rows (St : list fact) (a : atom) : list subst := fmap (row_of_fact a) St.

(* ---- float64 quotient of two integers, round to nearest even (IEEE 754 division of two
   exactly representable operands), as a pair mantissa/exponent *)
Definition f64_tag : list Z := [47; 95; 95; 102; 54; 52].     (* "/__f64" *)
Definition nan_tag : list Z := [47; 110; 97; 110].            (* "/nan" *)
Definition f64 (m e : Z) : const := CPair (CName f64_tag) (CPair (CNum m) (CNum e)).
Definition f64_nan : const := CPair (CName f64_tag) (CName nan_tag).

Fixpoint strip2 (fuel : nat) (m e : Z) : Z * Z :=
  match fuel with
  | O => (m, e)
  | S k => if Z.eqb m 0 then (0, 0) else if Z.even m then strip2 k (m / 2) (e + 1) else (m, e)
  end.

(* q = floor(a * 2^k / n) for a possibly negative k, with the remainder test of
   round-half-even *)
Definition scaled_round (a n k : Z) : Z :=
  let num := if 0 <=? k then a * 2 ^ k else a in
  let den := if 0 <=? k then n else n * 2 ^ (- k) in
  let q := num / den in
  let r := num mod den in
  if (den <? 2 * r) || ((den =? 2 * r) && Z.odd q) then q + 1 else q.

Definition scaled_floor (a n k : Z) : Z :=
  (if 0 <=? k then a * 2 ^ k else a) / (if 0 <=? k then n else n * 2 ^ (- k)).

Definition f64_ratio (s n : Z) : const :=          (* n > 0 *)
  if Z.eqb s 0 then f64 0 0 else
  let a := Z.abs s in
  let k0 := 53 + Z.log2 n - Z.log2 a in           (* 2^52 < a*2^k0/n < 2^54 *)
  let k := if scaled_floor a n k0 <? 9007199254740992 then k0 else k0 - 1 in
  let q := scaled_round a n k in                  (* 2^52 <= q <= 2^53 *)
  let me := strip2 64 q (- k) in
  f64 (Z.sgn s * fst me) (snd me).

(* ---- reducers *)
(* rowsIter :1157: the values of v in the rows that bind it *)
Definition column (v : Z) (rows : list subst) : list const := fmap (lookup v) rows.

(* reduceNum :1366 *)
Definition reduce_num (empty : Z) (comb : Z -> Z -> Z) (cs : list const) : option const :=
  match nums_of cs with
  | None => None
  | Some [] => Some (CNum empty)
  | Some (a :: ns) => Some (CNum (fold_left comb ns a))
  end.

(* evalAvg :1449 over integers *)
Definition reduce_avg (cs : list const) : option const :=
  match nums_of cs with
  | None => None
  | Some [] => Some f64_nan
  | Some ns => Some (f64_ratio (fold_left Z.add ns 0) (Z.of_nat (length ns)))
  end.

(* fn:tuple (functional.go:210): one component = itself, more = right-nested pairs *)
Fixpoint tuple_of (cs : list const) : option const :=
  match cs with
  | [] => None
  | [c] => Some c
  | c :: rest => match tuple_of rest with Some t => Some (CPair c t) | None => None end
  end.

(* one row of collect :1178-1195: a row on which an argument does not evaluate to a
   constant is skipped *)
Definition const_of_term (s : subst) (t : term) : option const :=
  match eval_term s t with Some (VConst c) => Some c | _ => None end.
Definition collect_row (args : list term) (row : subst) : option const :=
  match map_opt (const_of_term row) args with
  | Some cs => tuple_of cs
  | None => None
  end.

Definition mem_const (c : const) (l : list const) : bool := existsb (const_eqb c) l.

(* collect_distinct walks the rows from the last to the first and keeps an element unless
   it was seen already: the last occurrence of every element survives, in row order *)
Definition distinct_last (l : list const) : list const :=
  fold_right (fun c acc => if mem_const c acc then acc else c :: acc) [] l.

Definition var_arg (args : list term) : option Z :=
  match args with TVar v :: _ => Some v | _ => None end.      (* Args[0].(ast.Variable) *)

Definition reduce (r : reducer) (args : list term) (rows : list subst) : option const :=
  match r with
  | RCount => Some (CNum (Z.of_nat (length rows)))
  | RSum => match var_arg args with
            | Some v => reduce_num 0 (fun a b => wrap64 (a + b)) (column v rows)
            | None => None end
  | RMin => match var_arg args with
            | Some v => reduce_num 9223372036854775807 Z.min (column v rows)
            | None => None end
  | RMax => match var_arg args with
            | Some v => reduce_num (-9223372036854775808) Z.max (column v rows)
            | None => None end
  | RAvg => match var_arg args with
            | Some v => reduce_avg (column v rows)
            | None => None end
  | RCollect => Some (list_of_consts (fmap (collect_row args) rows))
  | RCollectDistinct => Some (list_of_consts (distinct_last (fmap (collect_row args) rows)))
  end.

(* ---- evalDo :117 *)
Definition key_eqb (a b : list const) : bool := list_eqb const_eqb a b.

Definition key_of (keys : list Z) (row : subst) : option (list const) :=
  map_opt (fun v => lookup v row) keys.

Definition group := (list const * list subst)%type.

Fixpoint group_insert (k : list const) (row : subst) (gs : list group) : list group :=
  match gs with
  | [] => [(k, [row])]
  | (k', rows) :: gs' => if key_eqb k k' then (k', rows ++ [row]) :: gs'
                         else (k', rows) :: group_insert k row gs'
  end.

(* :129-143 *)
Fixpoint group_rows (keys : list Z) (rows : list subst) (gs : list group) : option (list group) :=
  match rows with
  | [] => Some gs
  | row :: rest => match key_of keys row with
                   | Some k => group_rows keys rest (group_insert k row gs)
                   | None => None
                   end
  end.

(* :150-166, one statement *)
Definition run_stmt (rows : list subst) (s : subst) (st : dstmt) : option subst :=
  match st with
  | DReduce v r args => match reduce r args rows with
                        | Some c => Some (s ++ [(v, c)])
                        | None => None
                        end
  | DApply v t => match eval_term s t with
                  | Some (VConst c) => Some (s ++ [(v, c)])
                  | _ => None
                  end
  end.

Fixpoint run_stmts (rows : list subst) (s : subst) (sts : list dstmt) : option subst :=
  match sts with
  | [] => Some s
  | st :: rest => match run_stmt rows s st with
                  | Some s' => run_stmts rows s' rest
                  | None => None
                  end
  end.

(* :145-175 for one group; the head is instantiated and evaluated (:174, :644) *)
Definition eval_group (head : atom) (d : dotrans) (g : group) : option fact :=
  match run_stmts (snd g) (combine (d_keys d) (fst g)) (d_stmts d) with
  | Some s => emit_head (mkClause head [] []) s
  | None => None
  end.

Definition eval_do (head : atom) (d : dotrans) (rows : list subst) : option (list fact) :=
  match group_rows (d_keys d) rows [] with
  | None => None
  | Some gs => map_opt (eval_group head d) gs
  end.

(* ---- seminaivebottomup.go:617-659: one do-transform rule applied to the store *)
Definition apply_do (St : list fact) (r : rule) : option (list fact) :=
  match r_do r with
  | None => Some St
  | Some d =>
      match cbody (r_clause r) with
      | PAtom a :: _ =>
          match eval_do (chead (r_clause r)) d (do_rows St a) with
          | Some fs => Some (add_all St fs)
          | None => None
          end
      | PCmp _ _ _ :: _ => Some St        (* a built-in atom has no stored facts: no rows *)
      | _ => None                         (* "expected first premise of clause to be an atom" *)
      end
  end.

Fixpoint apply_dos (St : list fact) (rs : list rule) : option (list fact) :=
  match rs with
  | [] => Some St
  | r :: rest => match apply_do St r with
                 | Some St' => apply_dos St' rest
                 | None => None
                 end
  end.

Definition is_plain (r : rule) : bool := match r_do r with None => true | Some _ => false end.
Definition plain_clauses (rs : list rule) : list clause := map r_clause (filter is_plain rs).

(* engine.eval :513 on the rewritten rules rw of a stratum: first round and delta rounds
   skip do-transform rules (:520, :390), which are applied at the very end *)
Definition eval_stratum_do (fuel : nat) (rw : list rule) (drules : list (clause * nat))
           (St : list fact) : outcome (list fact) :=
  match eval_stratum fuel (plain_clauses rw) drules St with
  | Ok St' => match apply_dos St' rw with
              | Some St'' => Ok St''
              | None => EvalError
              end
  | EvalError => EvalError
  | OutOfFuel => OutOfFuel
  end.

(* evalStrata :286-326: the rules of the stratum's predicates in the order ps, rewritten
   with a fresh name generator per stratum; delta rules come from the ORIGINAL rules of
   the declared predicates (:549, e.predToRules), do-transform rules skipped (:390) *)
Definition rules_of_r (P : list rule) (ps : list Z) : list rule :=
  flat_map (fun p => filter (fun r => Z.eqb (r_head r) p) P) ps.

Definition eval_layer (rw : list rule -> list rule) (fuel : nat) (P : list rule) (ps : list Z)
           (St : list fact) : outcome (list fact) :=
  eval_stratum_do fuel (rw (rules_of_r P ps)) (delta_rules (plain_clauses P) ps ps) St.

Fixpoint eval_layers (rw : list rule -> list rule) (fuel : nat) (P : list rule)
         (layers : list (list Z)) (St : list fact) : outcome (list fact) :=
  match layers with
  | [] => Ok St
  | ps :: rest => match eval_layer rw fuel P ps St with
                  | Ok St' => eval_layers rw fuel P rest St'
                  | EvalError => EvalError
                  | OutOfFuel => OutOfFuel
                  end
  end.

Definition eval_program_do (rw : list rule -> list rule) (fuel : nat) (P : list rule)
           (layers : list (list Z)) (store init : list fact) : outcome (list fact) :=
  eval_layers rw fuel P layers (add_all store init).

(* ================= specification side (used by the theorems and by the observer) *)

(* the distinct keys of a row list, in order of first occurrence *)
Fixpoint nodup_keys (ks : list (list const)) : list (list const) :=
  match ks with
  | [] => []
  | k :: rest => k :: filter (fun k' => negb (key_eqb k k')) (nodup_keys rest)
  end.

(* the rows of one group: those whose key is k, in row order *)
Definition rows_with_key (keys : list Z) (k : list const) (rows : list subst) : list subst :=
  filter (fun row => match key_of keys row with Some k' => key_eqb k k' | None => false end) rows.

(* what the property asks of one aggregating rule: one fact per distinct key, every
   aggregated column = its reducer over exactly the rows of that key *)
Definition spec_do (head : atom) (d : dotrans) (rows : list subst) : option (list fact) :=
  match map_opt (key_of (d_keys d)) rows with
  | None => None
  | Some ks => map_opt (fun k => eval_group head d (k, rows_with_key (d_keys d) k rows)) (nodup_keys ks)
  end.
