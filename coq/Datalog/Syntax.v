(* Datalog/Syntax.v - abstract syntax of the modelled fragment of Mangle.
   Shared foundation for the engine properties (C01, C02, C04, C05, C11, C15, C17, C20).
   Mirrors ast/ast.go: Constant (:257), Variable (:915), ApplyFn (:1130), Atom (:957),
   NegAtom (:1056), Eq (:1192), Ineq (:1216), Clause (:1242), Transform (:1110).
   No proofs in this file. *)
From Coq Require Import List ZArith Bool.
Import ListNotations.
Open Scope Z_scope.

(* ---- constants (ast.Constant). Names and strings are byte lists; pairs and lists
   are cons structures as in Go (PairShape / ListShape, ListNil). Floats, times,
   durations, bytes, maps and structs are not modelled. *)
Inductive const :=
| CName (s : list Z)              (* /a/b  : NameType, Symbol = bytes incl. the leading '/' *)
| CStr (s : list Z)               (* "abc" : StringType *)
| CNum (n : Z)                    (* int64 : NumberType; always kept in [-2^63, 2^63) *)
| CPair (a b : const)             (* fn:pair(a,b) *)
| CNil                            (* [] *)
| CCons (h t : const).            (* fn:cons(h,t) ; [h, ...t] *)

(* ---- function symbols of the interpretation table (Interp.v) *)
Inductive fn :=
| FPlus | FMinus | FMult | FDiv           (* fn:plus fn:minus fn:mult fn:div (n-ary, int64) *)
| FPair | FCons | FList | FLen            (* fn:pair fn:cons fn:list fn:len *)
| FOther (id : Z).                        (* any function the table does not know: evaluation error *)

(* ---- terms (ast.BaseTerm): variables are numbered (printed X<n>); the wildcard
   "_" is not a term of the model - the encoder replaces every occurrence by a fresh
   variable, as analysis.CheckRule does (clause.ReplaceWildcards, rulecheck.go:56). *)
Inductive term :=
| TVar (v : Z)
| TConst (c : const)
| TApp (f : fn) (args : list term).

(* ---- atoms: predicate symbols are numbered (printed p<n>); the arity is the length
   of the argument list (ast.PredicateSym{Symbol, Arity}). *)
Record atom := mkAtom { apred : Z; aargs : list term }.

Inductive cmp := Lt | Le | Gt | Ge.       (* built-in predicates :lt :le :gt :ge *)

Inductive premise :=
| PAtom (a : atom)                         (* p(t1..tn) *)
| PNeg (a : atom)                          (* !p(t1..tn) *)
| PEq (l r : term)                         (* l = r *)
| PIneq (l r : term)                       (* l != r *)
| PCmp (op : cmp) (l r : term).            (* l < r etc. (ast.Atom with a built-in predicate) *)

(* ---- clauses. clet = the statements of an optional let-transform
   ("|> let V1 = f1(..), let V2 = f2(..)."); [] = no transform (the two are
   observationally the same in oneStepEvalClause). Do-transforms are C02's. *)
Record clause := mkClause { chead : atom; cbody : list premise; clet : list (Z * term) }.

(* ---- facts = ground atoms *)
Definition fact := (Z * list const)%type.
Definition fpred (f : fact) : Z := fst f.
Definition fargs (f : fact) : list const := snd f.

Definition program := list clause.

(* ---- decidable equality (boolean) *)
Fixpoint list_eqb {A} (eqb : A -> A -> bool) (l1 l2 : list A) : bool :=
  match l1, l2 with
  | [], [] => true
  | x :: l1', y :: l2' => eqb x y && list_eqb eqb l1' l2'
  | _, _ => false
  end.

Fixpoint const_eqb (a b : const) : bool :=
  match a, b with
  | CName s, CName t => list_eqb Z.eqb s t
  | CStr s, CStr t => list_eqb Z.eqb s t
  | CNum n, CNum m => Z.eqb n m
  | CPair a1 a2, CPair b1 b2 => const_eqb a1 b1 && const_eqb a2 b2
  | CNil, CNil => true
  | CCons a1 a2, CCons b1 b2 => const_eqb a1 b1 && const_eqb a2 b2
  | _, _ => false
  end.

Definition fact_eqb (f g : fact) : bool :=
  Z.eqb (fst f) (fst g) && list_eqb const_eqb (snd f) (snd g).

(* ---- syntactic helpers used by the engine model and by analyses *)
Definition heads (P : list clause) : list Z := map (fun c => apred (chead c)) P.

Definition memZ (x : Z) (l : list Z) : bool := existsb (Z.eqb x) l.

(* predicates of negated atoms of a body *)
Fixpoint neg_preds (b : list premise) : list Z :=
  match b with
  | [] => []
  | PNeg a :: b' => apred a :: neg_preds b'
  | _ :: b' => neg_preds b'
  end.

(* predicates of positive atoms of a body *)
Fixpoint pos_preds (b : list premise) : list Z :=
  match b with
  | [] => []
  | PAtom a :: b' => apred a :: pos_preds b'
  | _ :: b' => pos_preds b'
  end.
