(* Datalog/NaiveProofs.v - the naive loop of one stratum (Naive.v) computes exactly the
   least model of the stratum's rules over the store it started from; lifted to the
   strata driver; equality with the semi-naive result (SemiNaiveProofs / StrataProofs). *)
From Coq Require Import List ZArith Bool Lia Arith.
From MV Require Import Datalog.Syntax Datalog.SyntaxProofs Datalog.Interp Datalog.Solve Datalog.Lfp
     Datalog.SolveProofs Datalog.SemiNaive Datalog.SemiNaiveProofs Datalog.Strata Datalog.StrataProofs
     Datalog.Naive.
Import ListNotations.
Open Scope Z_scope.

(* ---- one premise: the error-dropping evaluation = the relational reading *)
Lemma step_none_no_holds Sneg Spos p s u :
  step Sneg Spos p s = None -> ~ holds (inset Sneg) Spos p s u.
Proof.
  intros H Hh. destruct p as [a|a|l r|l r|op l r].
  - apply holds_atom_inv in Hh as (pvs & f & He & _). simpl in H. rewrite He in H. discriminate.
  - apply holds_neg_inv in Hh as (_ & pvs & He & _). simpl in H. rewrite He in H. discriminate.
  - apply holds_pure_inv in Hh as (us & He & _); try (intros; discriminate).
    change (step_pure (PEq l r) s = None) in H. congruence.
  - apply holds_pure_inv in Hh as (us & He & _); try (intros; discriminate).
    change (step_pure (PIneq l r) s = None) in H. congruence.
  - apply holds_pure_inv in Hh as (us & He & _); try (intros; discriminate).
    change (step_pure (PCmp op l r) s = None) in H. congruence.
Qed.

Lemma nstep_spec St p s u : In u (nstep St p s) <-> holds (inset St) St p s u.
Proof.
  unfold nstep. destruct (step St St p s) as [us|] eqn:Hs.
  - apply (step_spec _ _ _ _ _ Hs).
  - split; [intros [] | intros Hh; exfalso; eapply step_none_no_holds; eauto].
Qed.

(* ---- the whole body *)
Lemma nsolve_spec St body : forall k sols t,
  In t (nsolve St body sols) <-> exists s, In s sols /\ sat (inset St) (fun _ => St) k body s t.
Proof.
  induction body as [|p b IH]; intros k sols t; simpl.
  - split.
    + intros Ht. exists t. split; auto. constructor.
    + intros (s & Hs & Hsat). inversion Hsat; subst; auto.
  - rewrite (IH (S k)). split.
    + intros (u & Hu & Hsat). apply in_flat_map in Hu as (s & Hs & Hu).
      exists s. split; auto. econstructor; [apply nstep_spec; exact Hu | exact Hsat].
    + intros (s & Hs & Hsat). inversion Hsat; subst.
      exists u. split; auto. apply in_flat_map. exists s. split; auto. apply nstep_spec. auto.
Qed.

Lemma nclause_spec St c f : In f (nclause St c) <-> derives (inset St) St c f.
Proof.
  unfold nclause, nhead, derives. rewrite in_fmap. split.
  - intros (t & Ht & He). exists t. split; auto.
    apply (nsolve_spec St (cbody c) 0) in Ht as (s & [<-|[]] & Hsat). exact Hsat.
  - intros (t & Hsat & He). exists t. split; auto.
    apply (nsolve_spec St (cbody c) 0). exists []. split; simpl; auto.
Qed.

(* ---- stores *)
Lemma add_all_same St l : (forall f, In f l -> mem f St = true) -> add_all St l = St.
Proof.
  unfold add_all. revert St. induction l as [|g l IH]; intros St H; simpl; auto.
  assert (Hg : mem g St = true) by (apply H; left; auto).
  unfold add at 2. rewrite Hg. apply IH. intros f Hf. apply H. right; auto.
Qed.

Lemma existsb_not_mem_false St l :
  existsb (fun f => negb (mem f St)) l = false -> forall f, In f l -> mem f St = true.
Proof.
  intros H f Hf. destruct (mem f St) eqn:Hm; auto.
  assert (Ht : existsb (fun f => negb (mem f St)) l = true).
  { apply existsb_exists. exists f. split; auto. rewrite Hm. reflexivity. }
  congruence.
Qed.

Section Stratum.
Variable R : list clause.
Variable St0 : list fact.
Hypothesis Hneg : neg_ok R.
Hypothesis Hfree : forall c, In c R -> clet c = [].      (* transform-free *)

Let B : factset := inset St0.

(* the invariant of the naive loop: the store extends the base by facts of derived
   predicates that belong to the least model *)
Record NInv (St : list fact) : Prop := {
  n_base : incl St0 St;
  n_sound : forall f, In f St -> lfp R B f;
  n_hd : forall f, In f St -> In f St0 \/ In (fst f) (heads R) }.

Lemma ninv_init : NInv St0.
Proof.
  constructor; [apply incl_refl | intros f Hf; apply lfp_base; exact Hf | auto].
Qed.

(* negation judged against the growing store = negation judged against the base *)
Lemma derives_base St c f :
  NInv St -> In c R -> (derives (inset St) St c f <-> derives B St c f).
Proof.
  intros [Hb _ Hh] Hc. destruct (neg_agree_store R St0 Hneg St c Hb Hh Hc) as [A1 A2].
  split; intros (t & Hs & He); exists t; split; auto;
    (eapply sat_mono; [intros j _; apply incl_refl | eassumption | exact Hs]).
Qed.

Lemma nclause_sound St c f :
  NInv St -> In c R -> In f (nclause St c) -> lfp R B f /\ In (fst f) (heads R).
Proof.
  intros HI Hc Hf. apply nclause_spec in Hf. apply (derives_base St c f HI Hc) in Hf.
  split.
  - eapply lfp_step; [| exact Hc | exact Hf]. intros g Hg. apply (n_sound St HI g Hg).
  - destruct Hf as (t & _ & He). apply emit_head_pred in He. rewrite He. apply in_heads. exact Hc.
Qed.

Lemma ninv_add St fs :
  NInv St -> (forall f, In f fs -> lfp R B f /\ In (fst f) (heads R)) -> NInv (add_all St fs).
Proof.
  intros [Hb Hs Hh] Hfs. constructor.
  - intros f Hf. apply add_all_in. left. auto.
  - intros f Hf. apply add_all_in in Hf as [Hf|Hf]; [auto | apply (Hfs f Hf)].
  - intros f Hf. apply add_all_in in Hf as [Hf|Hf]; [auto | right; apply (Hfs f Hf)].
Qed.

(* one round keeps the invariant, for every list of rules of the stratum (any order,
   any multiplicity) *)
Lemma npass_inv rules : forall St,
  (forall c, In c rules -> In c R) -> NInv St -> NInv (fst (npass rules St)).
Proof.
  induction rules as [|c rs IH]; intros St Hin HI; simpl; auto.
  destruct (npass rs (add_all St (if is_nil (clet c) then nclause St c else []))) as [St' more] eqn:Hp.
  simpl. change St' with (fst (St', more)). rewrite <- Hp. apply IH.
  - intros c' Hc'. apply Hin. right; auto.
  - apply ninv_add; auto. intros f Hf. destruct (is_nil (clet c)); [|destruct Hf].
    apply (nclause_sound St c f HI); auto. apply Hin. left; auto.
Qed.

(* a round that reports "no fact added" did not change the store, and every fact
   derived by any of its transform-free clauses is in the store *)
Lemma npass_fix rules : forall St,
  snd (npass rules St) = false ->
  fst (npass rules St) = St /\
  (forall c f, In c rules -> clet c = [] -> In f (nclause St c) -> In f St).
Proof.
  induction rules as [|c rs IH]; intros St H; simpl in *.
  - split; auto. intros c f [].
  - destruct (npass rs (add_all St (if is_nil (clet c) then nclause St c else []))) as [St' more] eqn:Hp.
    simpl in H. apply orb_false_iff in H as (Ha & Hm).
    pose proof (existsb_not_mem_false _ _ Ha) as Hall.
    rewrite (add_all_same St _ Hall) in Hp.
    specialize (IH St). rewrite Hp in IH. simpl in IH. destruct (IH Hm) as (IH1 & IH2).
    simpl. split; auto.
    intros c' f [<-|Hc'] Hl Hf; [|eapply IH2; eauto].
    rewrite Hl in Hall. simpl in Hall. apply mem_spec. apply Hall. exact Hf.
Qed.

Lemma nloop_correct fuel rules : forall St Res,
  (forall c, In c rules <-> In c R) -> NInv St -> nloop fuel rules St = Ok Res ->
  NInv Res /\ (forall c f, In c R -> derives B Res c f -> In f Res).
Proof.
  induction fuel as [|n IH]; intros St Res Hr HI; simpl; [discriminate|].
  destruct (npass rules St) as [St' added] eqn:Hp.
  assert (HI' : NInv St').
  { change St' with (fst (St', added)). rewrite <- Hp. apply npass_inv; auto. intros c; apply Hr. }
  destruct added.
  - intros H. apply (IH St' Res Hr HI' H).
  - intros [= <-]. split; auto.
    destruct (npass_fix rules St) as (Hsame & Hcl); [rewrite Hp; reflexivity|].
    rewrite Hp in Hsame. simpl in Hsame. subst St'.
    intros c f Hc Hd. apply (Hcl c f); [apply Hr; exact Hc | apply Hfree; exact Hc |].
    apply nclause_spec. apply (derives_base St c f HI Hc). exact Hd.
Qed.

Theorem nloop_exact fuel rules Res :
  (forall c, In c rules <-> In c R) ->
  nloop fuel rules St0 = Ok Res -> forall f, In f Res <-> lfp R B f.
Proof.
  intros Hr H f. destruct (nloop_correct fuel rules St0 Res Hr ninv_init H) as ([Hb Hs _] & Hcl).
  split; [apply Hs|]. apply (closed_complete R St0 Res Hb Hcl).
Qed.
End Stratum.

(* ---- the driver *)
Definition transform_free (P : list clause) : Prop := forall c, In c P -> clet c = [].

Lemma naive_strata_exact fuel P : forall layers St Res,
  transform_free P ->
  (forall ps, In ps layers -> neg_ok (layer_rules P ps)) ->
  naive_strata fuel P layers St = Ok Res ->
  forall f, In f Res <-> slfp P layers (inset St) f.
Proof.
  induction layers as [|ps rest IH]; intros St Res Hf Hn H f; simpl in *.
  - injection H as <-. unfold inset. tauto.
  - destruct (nloop fuel (layer_rules P ps) St) as [St'| |] eqn:He; try discriminate.
    rewrite (IH St' Res Hf (fun qs Hq => Hn qs (or_intror Hq)) H f).
    apply slfp_ext. intros g. unfold inset.
    apply (nloop_exact (layer_rules P ps) St (Hn ps (or_introl eq_refl))) with (fuel := fuel) (rules := layer_rules P ps).
    + intros c Hc. apply Hf. apply in_layer_rules in Hc. tauto.
    + intros c. tauto.
    + exact He.
Qed.

Theorem naive_program_exact_weak fuel P layers store init Res :
  transform_free P ->
  (forall ps, In ps layers -> neg_ok (layer_rules P ps)) ->
  naive_program fuel P layers store init = Ok Res ->
  forall f, In f Res <-> slfp P layers (fun g => In g (add_all store init)) f.
Proof. unfold naive_program. intros Hf Hn H. apply (naive_strata_exact fuel P layers _ _ Hf Hn H). Qed.

Theorem naive_program_exact fuel P layers store init Res :
  transform_free P -> valid_stratification P layers ->
  naive_program fuel P layers store init = Ok Res ->
  forall f, In f Res <-> slfp P layers (fun g => In g (add_all store init)) f.
Proof. intros Hf Hv. apply naive_program_exact_weak; auto. apply valid_neg_ok. exact Hv. Qed.

(* the naive engine has no error path *)
Lemma nloop_no_error fuel rules : forall St, nloop fuel rules St <> EvalError.
Proof.
  induction fuel as [|n IH]; intros St; simpl; [discriminate|].
  destruct (npass rules St) as [St' added]. destruct added; [apply IH | discriminate].
Qed.

Lemma naive_strata_no_error fuel P : forall layers St, naive_strata fuel P layers St <> EvalError.
Proof.
  induction layers as [|ps rest IH]; intros St; simpl; [discriminate|].
  destruct (nloop fuel (layer_rules P ps) St) as [St'| |] eqn:He; [apply IH | | discriminate].
  exfalso. eapply nloop_no_error; eauto.
Qed.

(* ---- both engines *)
Theorem naive_eq_seminaive_weak fuel1 fuel2 P layers store init Rn Rs :
  transform_free P ->
  (forall ps, In ps layers -> neg_ok (layer_rules P ps)) ->
  naive_program fuel1 P layers store init = Ok Rn ->
  eval_program fuel2 P layers store init = Ok Rs ->
  forall f, In f Rn <-> In f Rs.
Proof.
  intros Hf Hn H1 H2 f.
  rewrite (naive_program_exact_weak fuel1 P layers store init Rn Hf Hn H1 f).
  rewrite (eval_program_exact_weak fuel2 P layers store init Rs Hn H2 f). tauto.
Qed.

(* more fuel does not change a finished run *)
Lemma nloop_fuel_mono fuel rules : forall St Res m,
  nloop fuel rules St = Ok Res -> nloop (fuel + m) rules St = Ok Res.
Proof.
  induction fuel as [|n IH]; intros St Res m; simpl; [discriminate|].
  destruct (npass rules St) as [St' added]. destruct added; auto.
Qed.
