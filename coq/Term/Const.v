(* Model of ast.Constant (ast/ast.go:225-428): the representation of constants,
   the public constructors, Constant.Equals (ast/ast.go:746) and Constant.Hash
   (ast/ast.go:867). Hash arithmetic is in Hash.v. Executable definitions only;
   proofs are in ConstProofs.v.

   Bytes are integers 0..255 (list Z), int64 / uint64 values are Z with the
   wrap written out. *)
From Coq Require Import List ZArith Bool.
From MV Require Export Term.Hash.
Import ListNotations.
Open Scope Z_scope.

(* ast.ConstantType (ast/ast.go:225): iota order is the numeric value that
   hashPair shifts by. *)
Inductive ctype :=
| NameT | StringT | BytesT | NumberT | Float64T | TimeT | DurationT
| PairS | ListS | MapS | StructS.

Definition ctype_code (t : ctype) : Z :=
  match t with
  | NameT => 0 | StringT => 1 | BytesT => 2 | NumberT => 3 | Float64T => 4
  | TimeT => 5 | DurationT => 6 | PairS => 7 | ListS => 8 | MapS => 9 | StructS => 10
  end.

Definition ctype_eqb (a b : ctype) : bool := ctype_code a =? ctype_code b.

(* ast.Constant{Type, Symbol, NumValue, fst, snd} (ast/ast.go:257).
   CLeaf: fst = snd = nil (scalars and the three empty shapes ListNil, MapNil,
   StructNil). CCell: fst and snd both non-nil, Symbol = "" (what pair()
   ast/ast.go:335 builds). A cell with exactly one nil pointer cannot be built
   from non-nil arguments of the public constructors and is not represented. *)
Inductive const :=
| CLeaf (t : ctype) (sym : list Z) (num : Z)
| CCell (t : ctype) (num : Z) (fst snd : const).

Definition ctype_of (c : const) : ctype :=
  match c with CLeaf t _ _ => t | CCell t _ _ _ => t end.
Definition num_of (c : const) : Z :=
  match c with CLeaf _ _ n => n | CCell _ n _ _ => n end.
Definition sym_of (c : const) : list Z :=
  match c with CLeaf _ s _ => s | CCell _ _ _ _ => [] end.

(* Constant.Hash (ast/ast.go:867): uint64(c.NumValue) *)
Definition hash (c : const) : Z := to_uint64 (num_of c).

(* hashPair (ast/ast.go:823) with snd non-nil: left = fst.Hash() << tpe (uint64
   shift drops the high bits), result int64(szudzikElegantPair(left, right)). *)
Definition hash_pair (f s : const) (t : ctype) : Z :=
  to_int64 (szudzik (shl64 (hash f) (ctype_code t)) (hash s)).

(* ---- constructors ------------------------------------------------------ *)

(* ast.Name (ast/ast.go:284): the checks, then the constant. *)
Fixpoint has_byte (b : Z) (s : list Z) : bool :=
  match s with [] => false | x :: r => (x =? b) || has_byte b r end.
(* strings.Split(symbol[1:], "/") contains an empty part iff the tail is empty,
   starts or ends with '/', or contains "//"; written as a scan: [prev_slash]
   is true at the start and after each '/'. *)
Fixpoint no_empty_part (prev_slash : bool) (s : list Z) : bool :=
  match s with
  | [] => negb prev_slash
  | x :: r => if x =? 47 then (if prev_slash then false else no_empty_part true r)
              else no_empty_part false r
  end.
Definition name_ok (s : list Z) : bool :=
  match s with
  | [] => false
  | [_] => false
  | x :: r => (x =? 47) && negb (has_byte 34 s) && no_empty_part true r
  end.
Definition mk_name (s : list Z) : const := CLeaf NameT s (to_int64 (fnv64 s)).
Definition mk_string (s : list Z) : const := CLeaf StringT s (to_int64 (fnv64 s)).
Definition mk_bytes (s : list Z) : const := CLeaf BytesT s (to_int64 (fnv64 s)).
(* ast.Number / Time / Duration: the int64 is the payload *)
Definition mk_number (n : Z) : const := CLeaf NumberT [] n.
Definition mk_time (n : Z) : const := CLeaf TimeT [] n.
Definition mk_duration (n : Z) : const := CLeaf DurationT [] n.
(* ast.Float64: int64(math.Float64bits(f)); the argument is the uint64 bit pattern *)
Definition mk_float (bits : Z) : const := CLeaf Float64T [] (to_int64 bits).

(* pair() (ast/ast.go:335) *)
Definition mk_cell (t : ctype) (f s : const) : const := CCell t (hash_pair f s t) f s.
Definition mk_pair := mk_cell PairS.
Definition list_cons := mk_cell ListS.
Definition list_nil : const := CLeaf ListS [] 0.
Definition map_nil : const := CLeaf MapS [] 0.
Definition struct_nil : const := CLeaf StructS [] 0.
(* MapCons / StructCons (ast/ast.go:350, :356) *)
Definition map_cons (k v rest : const) : const := mk_cell MapS (mk_pair k v) rest.
Definition struct_cons (k v rest : const) : const := mk_cell StructS (mk_pair k v) rest.
(* ast.List (ast/ast.go:371) *)
Definition mk_list (l : list const) : const := fold_right list_cons list_nil l.

(* ---- Constant.Equals (ast/ast.go:746) ----------------------------------- *)
Fixpoint bytes_eqb (a b : list Z) : bool :=
  match a, b with
  | [], [] => true
  | x :: a', y :: b' => (x =? y) && bytes_eqb a' b'
  | _, _ => false
  end.

(* First the short-cut on Type and NumValue, then the switch on c.Type.
   Where Go would dereference a nil fst/snd (a leaf carrying PairShape) the
   model answers false; such values are excluded by [wf]. *)
Fixpoint equals (c u : const) {struct c} : bool :=
  if negb (ctype_eqb (ctype_of c) (ctype_of u)) || negb (num_of c =? num_of u) then false
  else match ctype_of c with
  | NameT | StringT | BytesT => bytes_eqb (sym_of c) (sym_of u)
  | NumberT | Float64T | TimeT | DurationT => true
  | PairS =>
      match c, u with
      | CCell _ _ f s, CCell _ _ f' s' => equals f f' && equals s s'
      | _, _ => false
      end
  | ListS | MapS | StructS =>
      match c, u with
      | CLeaf _ _ _, CLeaf _ _ _ => true       (* both IsListNil *)
      | CLeaf _ _ _, CCell _ _ _ _ => false
      | CCell _ _ _ _, CLeaf _ _ _ => false
      | CCell _ _ f s, CCell _ _ f' s' => equals f f' && equals s s'
      end
  end.

(* ---- well-formed constants: the image of the public constructors -------- *)
Definition is_nil {A} (l : list A) : bool := match l with [] => true | _ => false end.
Definition int64_ok (n : Z) : bool := (- 2 ^ 63 <=? n) && (n <? 2 ^ 63).
Definition is_pair_cell (c : const) : bool :=
  match c with CCell PairS _ _ _ => true | _ => false end.

Fixpoint wf (c : const) : bool :=
  match c with
  | CLeaf t s n =>
      match t with
      | NameT | StringT | BytesT => n =? to_int64 (fnv64 s)
      | NumberT | Float64T | TimeT | DurationT => is_nil s && int64_ok n
      | PairS => false
      | ListS | MapS | StructS => is_nil s && (n =? 0)
      end
  | CCell t n f s =>
      wf f && wf s && (n =? hash_pair f s t) &&
      match t with
      | PairS => true
      | ListS => ctype_eqb (ctype_of s) ListS
      | MapS => ctype_eqb (ctype_of s) MapS && is_pair_cell f
      | StructS => ctype_eqb (ctype_of s) StructS && is_pair_cell f
      | _ => false
      end
  end.
