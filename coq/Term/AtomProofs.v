(* Proofs about Atom.v: Atom.Equals is structural equality on atoms built by
   NewAtom from well-formed constants and variables. *)
From Coq Require Import List ZArith Bool Lia.
From MV Require Import Term.Hash Term.Const Term.ConstProofs Term.Print Term.Atom.
Import ListNotations.
Open Scope Z_scope.

Definition bterm_wf (t : bterm) : bool := match t with TConst c => wf c | TVar _ => true end.

Lemma bterm_equals_iff : forall a b, bterm_wf a = true -> bterm_wf b = true ->
  (bterm_equals a b = true <-> a = b).
Proof.
  intros [c|x] [d|y] Wa Wb; cbn [bterm_equals bterm_wf] in *; split; intro H; try discriminate.
  - f_equal; apply equals_iff_eq_lemma; assumption.
  - injection H as ->; apply equals_refl; assumption.
  - f_equal; apply bytes_eqb_eq; exact H.
  - injection H as ->; apply bytes_eqb_eq; reflexivity.
Qed.

Lemma args_equals_iff : forall a b, forallb bterm_wf a = true -> forallb bterm_wf b = true ->
  (args_equals a b = true <-> a = b).
Proof.
  induction a as [|x a IH]; destruct b as [|y b]; cbn [args_equals forallb]; intros Wa Wb; split; intro H;
  try discriminate; try reflexivity.
  - apply andb_true_iff in Wa, Wb, H. destruct Wa as [W1 W2], Wb as [W3 W4], H as [H1 H2].
    apply (bterm_equals_iff _ _ W1 W3) in H1. apply (IH _ W2 W4) in H2. subst; reflexivity.
  - injection H as -> ->. apply andb_true_iff in Wa. destruct Wa as [W1 W2].
    apply andb_true_iff; split; [apply bterm_equals_iff; auto | apply IH; auto].
Qed.

Lemma atom_equals_iff_lemma : forall sym args sym' args',
  forallb bterm_wf args = true -> forallb bterm_wf args' = true ->
  (atom_equals (new_atom sym args) (new_atom sym' args') = true <-> new_atom sym args = new_atom sym' args').
Proof.
  intros sym args sym' args' W W'. unfold atom_equals, new_atom; cbn [a_sym a_arity a_args]. split; intro H.
  - apply andb_true_iff in H; destruct H as [H H4].
    apply andb_true_iff in H; destruct H as [H H3].
    apply andb_true_iff in H; destruct H as [H1 H2].
    apply bytes_eqb_eq in H1. apply (args_equals_iff _ _ W W') in H4. subst; reflexivity.
  - injection H as -> _ ->. rewrite Z.eqb_refl.
    assert (E1 : bytes_eqb sym' sym' = true) by (apply bytes_eqb_eq; reflexivity).
    assert (E2 : args_equals args' args' = true) by (apply args_equals_iff; auto).
    rewrite E1, E2. reflexivity.
Qed.
