(* Model of the printers: Constant.String (ast/ast.go:562, after fix N18), FormatNumber
   (:87), FormatFloat64 (:92, after fix F6), Escape (ast/serde.go:18, after fix F5) with the part of
   utf8.DecodeRuneInString it uses. Executable definitions only; proofs are in
   PrintProofs.v.

   strconv.FormatFloat, time.Format and time.Duration.String are library code:
   their results enter as the section variables [fmt_float], [fmt_time],
   [fmt_dur] (instantiated per case from texts observed on the Go side). *)
From Coq Require Import List ZArith Bool Ascii String.
From MV Require Export Term.Const.
Import ListNotations.
Open Scope Z_scope.

(* text literal -> bytes *)
Definition bs (s : string) : list Z :=
  List.map (fun a => Z.of_N (N_of_ascii a)) (list_ascii_of_string s).

Definition s_bad : list Z := Eval vm_compute in bs "<bad>".
Definition s_time_open : list Z := Eval vm_compute in bs "fn:time:parse_rfc3339(""".
Definition s_dur_open : list Z := Eval vm_compute in bs "fn:duration:parse(""".
Definition s_call_close : list Z := Eval vm_compute in bs """)".
Definition s_pair_open : list Z := Eval vm_compute in bs "fn:pair(".
Definition s_comma : list Z := Eval vm_compute in bs ", ".
Definition s_colon : list Z := Eval vm_compute in bs " : ".
Definition s_list_nil : list Z := Eval vm_compute in bs "[]".
Definition s_map_nil : list Z := Eval vm_compute in bs "fn:map()".
Definition s_struct_nil : list Z := Eval vm_compute in bs "{}".

(* ---- FormatNumber: fmt.Sprintf("%d", int64) ----------------------------- *)
Fixpoint uint_bytes (d : Decimal.uint) : list Z :=
  match d with
  | Decimal.Nil => []
  | Decimal.D0 d => 48 :: uint_bytes d | Decimal.D1 d => 49 :: uint_bytes d
  | Decimal.D2 d => 50 :: uint_bytes d | Decimal.D3 d => 51 :: uint_bytes d
  | Decimal.D4 d => 52 :: uint_bytes d | Decimal.D5 d => 53 :: uint_bytes d
  | Decimal.D6 d => 54 :: uint_bytes d | Decimal.D7 d => 55 :: uint_bytes d
  | Decimal.D8 d => 56 :: uint_bytes d | Decimal.D9 d => 57 :: uint_bytes d
  end.
Definition print_number (z : Z) : list Z :=
  match Z.to_int z with
  | Decimal.Pos d => uint_bytes d
  | Decimal.Neg d => 45 :: uint_bytes d
  end.

(* ---- Escape (ast/serde.go:18) ------------------------------------------- *)
(* hexdigit (serde.go:223) *)
Definition hexdigit (n : Z) : Z := if n <? 10 then 48 + n else 87 + n.
Definition hex2 (b : Z) : list Z := [hexdigit (b / 16); hexdigit (b mod 16)].
Definition esc_x (b : Z) : list Z := 92 :: 120 :: hex2 b.      (* \xHH *)

(* one byte < 0x80, the switch at serde.go:23 *)
Definition esc_ascii (is_bytes : bool) (c : Z) : list Z :=
  if c =? 39 then (if is_bytes then esc_x c else [92; 39])
  else if c =? 34 then (if is_bytes then esc_x c else [92; 34])
  else if c =? 10 then (if is_bytes then esc_x c else [92; 110])
  else if c =? 9 then (if is_bytes then esc_x c else [92; 116])
  else if c =? 13 then esc_x c                      (* fix F5: CR is \x0d in both modes *)
  else if c =? 92 then (if is_bytes then esc_x c else [92; 92])
  else [c].

(* isBytes mode: every byte independently *)
Definition esc_byte (c : Z) : list Z := if c <? 128 then esc_ascii true c else esc_x c.
Definition esc_bytes (s : list Z) : list Z := flat_map esc_byte s.

(* utf8.DecodeRuneInString on a string whose first byte is >= 0x80: Some (rune,
   width) for a well-formed sequence, None for RuneError of width 1 (Escape
   then fails with "invalid UTF-8 encoding"). Bit operations written as
   arithmetic on the admissible byte ranges. *)
Definition in_range (lo hi x : Z) : bool := (lo <=? x) && (x <=? hi).
Definition cont (b : Z) : bool := in_range 128 191 b.
Definition utf8_decode (s : list Z) : option (Z * nat) :=
  match s with
  | b0 :: b1 :: r1 =>
      if in_range 194 223 b0 then
        (if cont b1 then Some ((b0 - 192) * 64 + (b1 - 128), 2%nat) else None)
      else if in_range 224 239 b0 then
        match r1 with
        | b2 :: _ =>
            if in_range (if b0 =? 224 then 160 else 128) (if b0 =? 237 then 159 else 191) b1 && cont b2
            then Some ((b0 - 224) * 4096 + (b1 - 128) * 64 + (b2 - 128), 3%nat) else None
        | [] => None
        end
      else if in_range 240 244 b0 then
        match r1 with
        | b2 :: b3 :: _ =>
            if in_range (if b0 =? 240 then 144 else 128) (if b0 =? 244 then 143 else 191) b1
               && cont b2 && cont b3
            then Some ((b0 - 240) * 262144 + (b1 - 128) * 4096 + (b2 - 128) * 64 + (b3 - 128), 4%nat)
            else None
        | _ => None
        end
      else None
  | _ => None
  end.

(* \u{hhhhhh}: the three low bytes of the rune, two hex digits each (serde.go:77) *)
Definition esc_rune (r : Z) : list Z :=
  [92; 117; 123] ++ hex2 ((r / 65536) mod 256) ++ hex2 ((r / 256) mod 256) ++ hex2 (r mod 256) ++ [125].

(* !isBytes mode. [skip] = continuation bytes of the rune just written that are
   still to be passed over (Go: str = rest). None = Escape returned an error. *)
Fixpoint esc_string (skip : nat) (s : list Z) : option (list Z) :=
  match s with
  | [] => Some []
  | c :: r =>
      match skip with
      | S k => esc_string k r
      | O =>
          if c <? 128 then option_map (app (esc_ascii false c)) (esc_string 0 r)
          else match utf8_decode s with
               | None => None
               | Some (rune, n) => option_map (app (esc_rune rune)) (esc_string (Nat.pred n) r)
               end
      end
  end.

(* writeAfterBracket (ast/ast.go, fix N18): the text of the first element of a list
   or map, right after '[', is set off by a blank when it starts with '-' or '+'
   ("[-" and "[+" are tokens of the temporal operators). *)
Definition after_bracket (t : list Z) : list Z :=
  match t with
  | c :: _ => if (c =? 45) || (c =? 43) then 32 :: t else t
  | [] => t
  end.

(* ---- FormatFloat64 ------------------------------------------------------ *)
(* exponent field all ones: +Inf, -Inf, NaN *)
Definition float_special (bits : Z) : bool := (bits / 2 ^ 52) mod 2048 =? 2047.

Section Print.
  (* strconv.FormatFloat(math.Float64frombits(bits), 'f', -1, 64) *)
  Variable fmt_float : Z -> list Z.
  (* ast.FormatTime(nanos), ast.FormatDuration(nanos) *)
  Variable fmt_time : Z -> list Z.
  Variable fmt_dur : Z -> list Z.

  (* FormatFloat64 after fix F6: a finite value always carries a '.' *)
  Definition format_float64 (bits : Z) : list Z :=
    let s := fmt_float bits in
    if float_special bits || has_byte 46 s then s else s ++ [46; 48].
  (* FormatFloat64 before the fix *)
  Definition format_float64_prefix (bits : Z) : list Z := fmt_float bits.

  Section Gen.
    Variable ff : Z -> list Z.    (* the float formatter in use *)

    (* the scalar cases of Constant.String; the three empty shapes *)
    Definition print_scalar (t : ctype) (s : list Z) (n : Z) : list Z :=
      match t with
      | NameT => s
      | StringT => match esc_string 0 s with Some e => 34 :: e ++ [34] | None => s_bad end
      | BytesT => 98 :: 34 :: esc_bytes s ++ [34]
      | NumberT => print_number n
      | Float64T => ff (to_uint64 n)
      | TimeT => s_time_open ++ fmt_time n ++ s_call_close
      | DurationT => s_dur_open ++ fmt_dur n ++ s_call_close
      | PairS => []                       (* nil dereference in Go; excluded by wf *)
      | ListS => s_list_nil
      | MapS => s_map_nil
      | StructS => s_struct_nil
      end.

    (* Constant.String. The loops over list / map / struct tails stop at a leaf
       (Is...Nil; a leaf of another type would be a nil dereference in Go and is
       excluded by wf) and do not look at the type of the cells they walk. *)
    Fixpoint print_gen (c : const) : list Z :=
      match c with
      | CLeaf t s n => print_scalar t s n
      | CCell t n f s =>
          match t with
          | PairS => s_pair_open ++ print_gen f ++ s_comma ++ print_gen s ++ [41]
          | ListS => 91 :: after_bracket (print_gen f) ++ print_ltail s ++ [93]
          | MapS =>
              91 :: after_bracket (match f with
                                   | CCell _ _ k v => print_gen k ++ s_colon ++ print_gen v
                                   | CLeaf _ _ _ => []
                                   end) ++ print_mtail s ++ [93]
          | StructS =>
              123 :: match f with
                     | CCell _ _ k v => print_gen k ++ s_colon ++ print_gen v
                     | CLeaf _ _ _ => []
                     end ++ print_mtail s ++ [125]
          | _ => print_scalar t [] n
          end
      end
    with print_ltail (c : const) : list Z :=
      match c with
      | CLeaf _ _ _ => []
      | CCell _ _ f s => s_comma ++ print_gen f ++ print_ltail s
      end
    with print_mtail (c : const) : list Z :=
      match c with
      | CLeaf _ _ _ => []
      | CCell _ _ e s =>
          s_comma ++ match e with
                     | CCell _ _ k v => print_gen k ++ s_colon ++ print_gen v
                     | CLeaf _ _ _ => []
                     end ++ print_mtail s
      end.
  End Gen.

  Definition print : const -> list Z := print_gen format_float64.
  Definition print_prefix : const -> list Z := print_gen format_float64_prefix.
End Print.

(* ---- the domain of print injectivity ------------------------------------ *)
(* CONSTANT : '/' CONSTANT_CHAR+ ('/' CONSTANT_CHAR+)* with
   CONSTANT_CHAR : LETTER | DIGIT | '.' | '-' | '_' | '~' | '%' (parse/gen/Mangle.g4:186) *)
Definition is_digit (c : Z) : bool := in_range 48 57 c.
Definition is_letter (c : Z) : bool := in_range 65 90 c || in_range 97 122 c.
Definition constant_char (c : Z) : bool :=
  is_letter c || is_digit c || (c =? 46) || (c =? 45) || (c =? 95) || (c =? 126) || (c =? 37).
Definition name_valid (s : list Z) : bool :=
  name_ok s && forallb (fun c => constant_char c || (c =? 47)) s.

Definition byte_ok (b : Z) : bool := (0 <=? b) && (b <? 256).
(* every string is valid UTF-8 (Escape succeeds), bytes are bytes, names are
   lexer-valid, floats are finite *)
Fixpoint valid (c : const) : bool :=
  match c with
  | CLeaf t s n =>
      match t with
      | NameT => name_valid s
      | StringT => forallb byte_ok s && match esc_string 0 s with Some _ => true | None => false end
      | BytesT => forallb byte_ok s
      | Float64T => negb (float_special (to_uint64 n))
      | _ => true
      end
  | CCell _ _ f s => valid f && valid s
  end.
