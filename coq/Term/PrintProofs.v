(* Proofs about Print.v: decimal printing of numbers is injective; after fix F6
   the text of a finite float always contains a '.', the text of a number never
   does; printing is injective on number and float constants. *)
From Coq Require Import List ZArith Bool Lia DecimalZ DecimalPos.
From MV Require Import Term.Hash Term.Const Term.ConstProofs Term.Print.
Import ListNotations.
Open Scope Z_scope.

Lemma uint_bytes_inj : forall d d', uint_bytes d = uint_bytes d' -> d = d'.
Proof.
  induction d as [|d IH|d IH|d IH|d IH|d IH|d IH|d IH|d IH|d IH|d IH]; destruct d'; cbn [uint_bytes]; intro H;
  try discriminate; try reflexivity; injection H as H; f_equal; apply IH; exact H.
Qed.

Lemma uint_bytes_digits : forall d, Forall (fun c => 48 <= c <= 57) (uint_bytes d).
Proof. induction d; cbn [uint_bytes]; constructor; try lia; assumption. Qed.

Lemma print_number_inj_lemma : forall a b, print_number a = print_number b -> a = b.
Proof.
  intros a b H. apply DecimalZ.to_int_inj. unfold print_number in H.
  destruct (Z.to_int a) as [d|d], (Z.to_int b) as [d'|d'].
  - f_equal; apply uint_bytes_inj; exact H.
  - exfalso. destruct d; cbn [uint_bytes] in H; discriminate.
  - exfalso. destruct d'; cbn [uint_bytes] in H; discriminate.
  - injection H as H. f_equal; apply uint_bytes_inj; exact H.
Qed.

Lemma has_byte_In : forall b s, has_byte b s = true <-> In b s.
Proof.
  intros b s; induction s as [|x r IH]; cbn [has_byte In]; split; intro H; try discriminate; try contradiction.
  - apply orb_true_iff in H; destruct H as [H|H]; [left; apply Z.eqb_eq; exact H | right; apply IH; exact H].
  - apply orb_true_iff; destruct H as [H|H]; [left; apply Z.eqb_eq; exact H | right; apply IH; exact H].
Qed.

Lemma print_number_no_dot : forall n, has_byte 46 (print_number n) = false.
Proof.
  intro n. destruct (has_byte 46 (print_number n)) eqn:E; [|reflexivity]. exfalso.
  apply has_byte_In in E. unfold print_number in E.
  assert (D : forall d, In 46 (uint_bytes d) -> False).
  { intros d I. pose proof (uint_bytes_digits d) as F. rewrite Forall_forall in F. specialize (F _ I). lia. }
  destruct (Z.to_int n) as [d|d]; [exact (D d E)|]. destruct E as [E|E]; [discriminate | exact (D d E)].
Qed.

Section Laws.
  Variable fmt_float fmt_time fmt_dur : Z -> list Z.

  (* after the fix every finite float carries a '.', whatever strconv returns *)
  Lemma format_float64_dot : forall bits, float_special bits = false ->
    has_byte 46 (format_float64 fmt_float bits) = true.
  Proof.
    intros bits F. unfold format_float64. rewrite F. cbn [orb].
    destruct (has_byte 46 (fmt_float bits)) eqn:E; [exact E|].
    apply has_byte_In. apply in_or_app. right. left. reflexivity.
  Qed.

  Lemma number_float_distinct : forall n m,
    float_special (to_uint64 m) = false ->
    print fmt_float fmt_time fmt_dur (CLeaf NumberT [] n) <> print fmt_float fmt_time fmt_dur (CLeaf Float64T [] m).
  Proof.
    intros n m F H. unfold print in H. cbn [print_gen print_scalar] in H.
    pose proof (print_number_no_dot n) as D. rewrite H in D. rewrite (format_float64_dot _ F) in D. discriminate.
  Qed.

  Lemma to_uint64_inj : forall a b, int64_ok a = true -> int64_ok b = true -> to_uint64 a = to_uint64 b -> a = b.
  Proof.
    intros a b Ha Hb H. unfold int64_ok in *. apply andb_true_iff in Ha, Hb. destruct Ha as [A1 A2], Hb as [B1 B2].
    apply Z.leb_le in A1, B1. apply Z.ltb_lt in A2, B2. unfold to_uint64, two64 in H.
    assert (Ea : a mod 2 ^ 64 = if a <? 0 then a + 2 ^ 64 else a).
    { destruct (a <? 0) eqn:E; [apply Z.ltb_lt in E | apply Z.ltb_ge in E].
      - symmetry; apply Z.mod_unique with (q := -1); lia.
      - apply Z.mod_small; lia. }
    assert (Eb : b mod 2 ^ 64 = if b <? 0 then b + 2 ^ 64 else b).
    { destruct (b <? 0) eqn:E; [apply Z.ltb_lt in E | apply Z.ltb_ge in E].
      - symmetry; apply Z.mod_unique with (q := -1); lia.
      - apply Z.mod_small; lia. }
    rewrite Ea, Eb in H.
    destruct (a <? 0) eqn:E1; destruct (b <? 0) eqn:E2;
      try apply Z.ltb_lt in E1; try apply Z.ltb_ge in E1; try apply Z.ltb_lt in E2; try apply Z.ltb_ge in E2; lia.
  Qed.

  (* law of strconv (sampled by the harness through ParseFloat): the fixed
     formatter is injective on finite bit patterns *)
  Hypothesis float_inj : forall b b', float_special b = false -> float_special b' = false ->
    format_float64 fmt_float b = format_float64 fmt_float b' -> b = b'.

  Definition num_or_float (c : const) : bool :=
    match c with CLeaf NumberT _ _ | CLeaf Float64T _ _ => true | _ => false end.

  Lemma print_inj_numeric : forall c d,
    wf c = true -> wf d = true -> valid c = true -> valid d = true ->
    num_or_float c = true -> num_or_float d = true ->
    print fmt_float fmt_time fmt_dur c = print fmt_float fmt_time fmt_dur d -> c = d.
  Proof.
    intros c d Wc Wd Vc Vd Nc Nd H.
    destruct c as [t s n|]; [|discriminate]. destruct d as [t' s' n'|]; [|discriminate].
    pose proof (wf_leaf_inv _ _ _ Wc) as Ic. pose proof (wf_leaf_inv _ _ _ Wd) as Id.
    destruct t; try discriminate; destruct t'; try discriminate; subst s s'.
    - unfold print in H; cbn [print_gen print_scalar] in H. apply print_number_inj_lemma in H. subst; reflexivity.
    - exfalso. cbn [valid] in Vd. apply negb_true_iff in Vd. exact (number_float_distinct _ _ Vd H).
    - exfalso. cbn [valid] in Vc. apply negb_true_iff in Vc. symmetry in H. exact (number_float_distinct _ _ Vc H).
    - cbn [valid] in Vc, Vd. apply negb_true_iff in Vc, Vd.
      unfold print in H; cbn [print_gen print_scalar] in H.
      apply float_inj in H; try assumption.
      cbn [wf] in Wc, Wd. apply andb_true_iff in Wc, Wd. destruct Wc as [_ Wc], Wd as [_ Wd].
      rewrite (to_uint64_inj _ _ Wc Wd H). reflexivity.
  Qed.
End Laws.
