(* Proofs about Const.v: Equals is structural equality on well-formed constants. *)
From Coq Require Import List ZArith Bool Lia.
From MV Require Import Term.Hash Term.Const.
Import ListNotations.
Open Scope Z_scope.

Lemma ctype_eqb_eq : forall a b, ctype_eqb a b = true <-> a = b.
Proof.
  intros a b; split.
  - unfold ctype_eqb; intro H; apply Z.eqb_eq in H; destruct a, b; cbn in H; try discriminate; reflexivity.
  - intros ->; unfold ctype_eqb; apply Z.eqb_refl.
Qed.

Lemma ctype_eqb_refl : forall a, ctype_eqb a a = true.
Proof. intro a; apply ctype_eqb_eq; reflexivity. Qed.

Lemma bytes_eqb_eq : forall a b, bytes_eqb a b = true <-> a = b.
Proof.
  induction a as [|x a IH]; destruct b as [|y b]; cbn [bytes_eqb]; split; intro H; try discriminate; try reflexivity.
  - apply andb_true_iff in H; destruct H as [H1 H2]; apply Z.eqb_eq in H1; apply IH in H2; subst; reflexivity.
  - injection H as -> ->; rewrite Z.eqb_refl; apply IH; reflexivity.
Qed.

Lemma is_nil_true : forall A (l : list A), is_nil l = true -> l = [].
Proof. intros A [|x l]; cbn; intro H; [reflexivity|discriminate]. Qed.

(* the type / hash short-cut at the top of Equals *)
Lemma equals_shortcut : forall c u, equals c u = true ->
  ctype_of c = ctype_of u /\ num_of c = num_of u.
Proof.
  intros c u H.
  assert (E : negb (ctype_eqb (ctype_of c) (ctype_of u)) || negb (num_of c =? num_of u) = false).
  { destruct c; cbn [equals] in H;
    destruct (negb (ctype_eqb _ (ctype_of u)) || negb (_ =? num_of u)); [discriminate|reflexivity|discriminate|reflexivity]. }
  apply orb_false_elim in E; destruct E as [E1 E2].
  apply negb_false_iff in E1; apply negb_false_iff in E2.
  apply ctype_eqb_eq in E1; apply Z.eqb_eq in E2; auto.
Qed.

Lemma equals_hash_lemma : forall c u, equals c u = true -> hash c = hash u.
Proof. intros c u H. apply equals_shortcut in H. unfold hash. destruct H as [_ ->]. reflexivity. Qed.

(* unfolding of Equals once the short-cut has passed *)
Lemma equals_unfold : forall c u, ctype_of c = ctype_of u -> num_of c = num_of u ->
  equals c u =
  match ctype_of c with
  | NameT | StringT | BytesT => bytes_eqb (sym_of c) (sym_of u)
  | NumberT | Float64T | TimeT | DurationT => true
  | PairS =>
      match c, u with
      | CCell _ _ f s, CCell _ _ f' s' => equals f f' && equals s s'
      | _, _ => false
      end
  | ListS | MapS | StructS =>
      match c, u with
      | CLeaf _ _ _, CLeaf _ _ _ => true
      | CLeaf _ _ _, CCell _ _ _ _ => false
      | CCell _ _ _ _, CLeaf _ _ _ => false
      | CCell _ _ f s, CCell _ _ f' s' => equals f f' && equals s s'
      end
  end.
Proof.
  intros c u Ht Hn.
  destruct c; cbn [equals]; rewrite <- Ht, <- Hn, ctype_eqb_refl, Z.eqb_refl; reflexivity.
Qed.

Lemma wf_cell_inv : forall t n f s, wf (CCell t n f s) = true ->
  wf f = true /\ wf s = true /\ n = hash_pair f s t /\
  (t = PairS \/ t = ListS \/ t = MapS \/ t = StructS).
Proof.
  intros t n f s H. cbn [wf] in H.
  apply andb_true_iff in H; destruct H as [H H4].
  apply andb_true_iff in H; destruct H as [H H3].
  apply andb_true_iff in H; destruct H as [H1 H2].
  apply Z.eqb_eq in H3.
  repeat split; auto.
  destruct t; try discriminate; auto.
Qed.

Lemma wf_leaf_inv : forall t s n, wf (CLeaf t s n) = true ->
  match t with
  | NameT | StringT | BytesT => True
  | PairS => False
  | _ => s = []
  end.
Proof.
  intros t s n H; destruct t; cbn [wf] in H; try exact I; try discriminate;
  apply andb_true_iff in H; destruct H as [H _]; apply is_nil_true in H; exact H.
Qed.

Lemma equals_eq : forall c u, wf c = true -> wf u = true -> equals c u = true -> c = u.
Proof.
  induction c as [t s n | t n f IHf s IHs]; intros u Wc Wu E;
  destruct (equals_shortcut _ _ E) as [Ht Hn];
  rewrite (equals_unfold _ _ Ht Hn) in E;
  destruct u as [t' s' n' | t' n' f' s']; cbn [ctype_of num_of sym_of] in *; subst t' n'.
  - (* leaf, leaf *)
    pose proof (wf_leaf_inv _ _ _ Wc) as Ic; pose proof (wf_leaf_inv _ _ _ Wu) as Iu.
    destruct t; try (apply bytes_eqb_eq in E; subst; reflexivity); try contradiction; subst; reflexivity.
  - (* leaf, cell *)
    destruct (wf_cell_inv _ _ _ _ Wu) as (_ & _ & _ & [->|[->|[->| ->]]]); try discriminate;
    apply wf_leaf_inv in Wc; contradiction.
  - (* cell, leaf *)
    destruct (wf_cell_inv _ _ _ _ Wc) as (_ & _ & _ & [->|[->|[->| ->]]]); try discriminate;
    apply wf_leaf_inv in Wu; contradiction.
  - (* cell, cell *)
    destruct (wf_cell_inv _ _ _ _ Wc) as (Wf & Ws & _ & Hc).
    destruct (wf_cell_inv _ _ _ _ Wu) as (Wf' & Ws' & _ & _).
    assert (E' : equals f f' && equals s s' = true) by (destruct Hc as [->|[->|[->| ->]]]; exact E).
    apply andb_true_iff in E'; destruct E' as [E1 E2].
    rewrite (IHf _ Wf Wf' E1), (IHs _ Ws Ws' E2); reflexivity.
Qed.

Lemma equals_refl : forall c, wf c = true -> equals c c = true.
Proof.
  induction c as [t s n | t n f IHf s IHs]; intro W;
  rewrite (equals_unfold _ _ eq_refl eq_refl); cbn [ctype_of sym_of].
  - pose proof (wf_leaf_inv _ _ _ W) as I.
    destruct t; try reflexivity; try contradiction; apply bytes_eqb_eq; reflexivity.
  - destruct (wf_cell_inv _ _ _ _ W) as (Wf & Ws & _ & Hc).
    rewrite (IHf Wf), (IHs Ws). destruct Hc as [->|[->|[->| ->]]]; reflexivity.
Qed.

Lemma equals_iff_eq_lemma : forall c u, wf c = true -> wf u = true -> (equals c u = true <-> c = u).
Proof.
  intros c u Wc Wu; split.
  - apply equals_eq; assumption.
  - intros <-; apply equals_refl; assumption.
Qed.

(* the constructors produce well-formed constants *)
Lemma int64_ok_to_int64 : forall u, 0 <= u < 2 ^ 64 -> int64_ok (to_int64 u) = true.
Proof.
  intros u H. unfold int64_ok, to_int64, two64.
  destruct (u <? 2 ^ 63) eqn:E; [apply Z.ltb_lt in E | apply Z.ltb_ge in E];
  apply andb_true_iff; split; try apply Z.leb_le; try apply Z.ltb_lt; lia.
Qed.
