(* Constructor expressions: how a check (or a person) writes a constant down.
   [build] evaluates one with the model constructors of Const.v / MkMap.v, as
   the Go harness does with ast.Name, ast.String, ..., ast.List, ast.Map,
   ast.Struct (and functional.EvalExpr of fn:pair, fn:list, fn:map, fn:struct).
   Map / struct entries are listed in the order in which they were supplied. *)
From Coq Require Import List ZArith Bool.
From MV Require Export Term.Const Term.MkMap.
Import ListNotations.
Open Scope Z_scope.

Inductive cexpr :=
| EName (s : list Z)
| EStr (s : list Z)
| EBytes (s : list Z)
| ENum (n : Z)
| EFloat (bits : Z)          (* uint64 bit pattern *)
| ETime (n : Z)
| EDur (n : Z)
| EPair (a b : cexpr)
| EList (l : list cexpr)
| EMap (l : list (cexpr * cexpr))
| EStruct (l : list (cexpr * cexpr)).

Fixpoint build (e : cexpr) : const :=
  match e with
  | EName s => mk_name s
  | EStr s => mk_string s
  | EBytes s => mk_bytes s
  | ENum n => mk_number n
  | EFloat b => mk_float b
  | ETime n => mk_time n
  | EDur n => mk_duration n
  | EPair a b => mk_pair (build a) (build b)
  | EList l => mk_list (map build l)
  | EMap l => mk_map (map (fun e => (build (fst e), build (snd e))) l)
  | EStruct l => mk_struct (map (fun e => (build (fst e), build (snd e))) l)
  end.

(* Compact spellings for generated case files (a long list of small literals is
   slow to elaborate): [bz n v] = the n bytes of v, big endian;
   [bits n m] = the n lowest bits of m, lowest first. Decoding walks the binary
   representation once. *)
Fixpoint pos_bits (p : positive) : list bool :=
  match p with xH => [true] | xO q => false :: pos_bits q | xI q => true :: pos_bits q end.
Definition z_bits (v : Z) : list bool := match v with Zpos p => pos_bits p | _ => [] end.
Definition b2z (b : bool) : Z := if b then 1 else 0.
(* n bytes from a little-endian bit list, prepended (so the result is big endian) *)
Fixpoint unpack_bytes (n : nat) (l : list bool) (acc : list Z) : list Z :=
  match n with
  | O => acc
  | S n' =>
      match l with
      | b0 :: b1 :: b2 :: b3 :: b4 :: b5 :: b6 :: b7 :: r =>
          unpack_bytes n' r (b2z b0 + 2 * b2z b1 + 4 * b2z b2 + 8 * b2z b3 + 16 * b2z b4
                             + 32 * b2z b5 + 64 * b2z b6 + 128 * b2z b7 :: acc)
      | _ =>
          (* fewer than 8 bits left: the most significant byte, then zero bytes *)
          unpack_bytes n' [] (fold_right (fun b a => b2z b + 2 * a) 0 l :: acc)
      end
  end.
Definition bz (n v : Z) : list Z := unpack_bytes (Z.to_nat n) (z_bits v) [].
Fixpoint unpack_bits (n : nat) (l : list bool) : list bool :=
  match n with
  | O => []
  | S n' => match l with [] => false :: unpack_bits n' [] | b :: r => b :: unpack_bits n' r end
  end.
Definition bits (n m : Z) : list bool := unpack_bits (Z.to_nat n) (z_bits m).
