(* Proofs about the escape codes of Print.v (Escape, ast/serde.go:18): the escaped
   text of a string / byte string, followed by the closing quote, determines the
   string and the rest of the text (a prefix code whose tokens never start with
   a quote). Used by PrintInjProofs.v. *)
From Coq Require Import List ZArith Bool Lia.
From MV Require Import Term.Hash Term.Const Term.Print.
Import ListNotations.
Open Scope Z_scope.

(* ---- hex digits --------------------------------------------------------- *)
Lemma hexdigit_inj : forall a b, 0 <= a < 16 -> 0 <= b < 16 -> hexdigit a = hexdigit b -> a = b.
Proof.
  intros a b Ha Hb. unfold hexdigit.
  destruct (a <? 10) eqn:Ea; destruct (b <? 10) eqn:Eb;
    try apply Z.ltb_lt in Ea; try apply Z.ltb_ge in Ea; try apply Z.ltb_lt in Eb; try apply Z.ltb_ge in Eb; lia.
Qed.

Lemma hex2_inj : forall a b, 0 <= a < 256 -> 0 <= b < 256 -> hex2 a = hex2 b -> a = b.
Proof.
  intros a b Ha Hb H. unfold hex2 in H. injection H as H1 H2.
  assert (A1 : 0 <= a / 16 < 16) by (split; [apply Z.div_pos; lia | apply Z.div_lt_upper_bound; lia]).
  assert (B1 : 0 <= b / 16 < 16) by (split; [apply Z.div_pos; lia | apply Z.div_lt_upper_bound; lia]).
  assert (A2 : 0 <= a mod 16 < 16) by (apply Z.mod_pos_bound; lia).
  assert (B2 : 0 <= b mod 16 < 16) by (apply Z.mod_pos_bound; lia).
  apply hexdigit_inj in H1; [|assumption|assumption]. apply hexdigit_inj in H2; [|assumption|assumption].
  rewrite (Z.div_mod a 16), (Z.div_mod b 16) by lia. rewrite H1, H2. reflexivity.
Qed.

Lemma esc_x_13 : esc_x 13 = [92; 120; 48; 100].
Proof. reflexivity. Qed.

(* ---- byte strings: every byte is a token -------------------------------- *)
Lemma esc_byte_cases : forall c,
  esc_byte c = esc_x c \/ (esc_byte c = [c] /\ c <> 92 /\ c <> 34).
Proof.
  intro c. unfold esc_byte, esc_ascii.
  destruct (c <? 128); [|left; reflexivity].
  destruct (Z.eqb_spec c 39); [left; reflexivity|].
  destruct (Z.eqb_spec c 34); [left; reflexivity|].
  destruct (Z.eqb_spec c 10); [left; reflexivity|].
  destruct (Z.eqb_spec c 9); [left; reflexivity|].
  destruct (Z.eqb_spec c 13); [left; reflexivity|].
  destruct (Z.eqb_spec c 92); [left; reflexivity|].
  right. repeat split; assumption.
Qed.

Lemma byte_ok_range : forall b, byte_ok b = true -> 0 <= b < 256.
Proof. intros b H. unfold byte_ok in H. apply andb_true_iff in H. destruct H as [H1 H2]. apply Z.leb_le in H1. apply Z.ltb_lt in H2. lia. Qed.

Lemma esc_byte_tok : forall c c' x x', byte_ok c = true -> byte_ok c' = true ->
  esc_byte c ++ x = esc_byte c' ++ x' -> c = c' /\ x = x'.
Proof.
  intros c c' x x' Bc Bc' H. apply byte_ok_range in Bc, Bc'.
  destruct (esc_byte_cases c) as [E|(E & N1 & N2)]; destruct (esc_byte_cases c') as [E'|(E' & N1' & N2')];
    rewrite E, E' in H; unfold esc_x in H; cbn [app] in H.
  - injection H as H1 H2 H3. split; [|assumption].
    apply hex2_inj; [assumption|assumption|]. unfold hex2. rewrite H1, H2. reflexivity.
  - injection H as H1 _. exfalso. apply N1'. symmetry. exact H1.
  - injection H as H1 _. exfalso. apply N1. exact H1.
  - injection H as H1 H2. split; assumption.
Qed.

Lemma esc_byte_not_quote : forall c x y, esc_byte c ++ x <> 34 :: y.
Proof.
  intros c x y H. destruct (esc_byte_cases c) as [E|(E & N1 & N2)]; rewrite E in H; unfold esc_x in H; cbn [app] in H.
  - discriminate H.
  - injection H as H1 _. apply N2. exact H1.
Qed.

Lemma esc_bytes_cons : forall c r, esc_bytes (c :: r) = esc_byte c ++ esc_bytes r.
Proof. reflexivity. Qed.

Lemma esc_bytes_inj : forall s s' r r', forallb byte_ok s = true -> forallb byte_ok s' = true ->
  esc_bytes s ++ 34 :: r = esc_bytes s' ++ 34 :: r' -> s = s' /\ r = r'.
Proof.
  induction s as [|c s IH]; destruct s' as [|c' s']; intros r r' B B' H.
  - cbn [esc_bytes flat_map app] in H. injection H as H. split; [reflexivity|assumption].
  - exfalso. rewrite esc_bytes_cons, <- app_assoc in H. cbn [esc_bytes flat_map app] in H.
    symmetry in H. exact (esc_byte_not_quote _ _ _ H).
  - exfalso. rewrite esc_bytes_cons, <- app_assoc in H. cbn [esc_bytes flat_map app] in H.
    exact (esc_byte_not_quote _ _ _ H).
  - cbn [forallb] in B, B'. apply andb_true_iff in B, B'. destruct B as [B1 B2], B' as [B1' B2'].
    rewrite !esc_bytes_cons, <- !app_assoc in H.
    apply esc_byte_tok in H; [|assumption|assumption]. destruct H as [-> H].
    apply IH in H; [|assumption|assumption]. destruct H as [-> ->]. split; reflexivity.
Qed.

(* ---- strings: ASCII tokens ---------------------------------------------- *)
Lemma esc_ascii_tok : forall c c' x x',
  esc_ascii false c ++ x = esc_ascii false c' ++ x' -> c = c' /\ x = x'.
Proof.
  intros c c' x x'. unfold esc_ascii.
  destruct (Z.eqb_spec c 39); destruct (Z.eqb_spec c 34); destruct (Z.eqb_spec c 10);
  destruct (Z.eqb_spec c 9); destruct (Z.eqb_spec c 13); destruct (Z.eqb_spec c 92); try lia;
  destruct (Z.eqb_spec c' 39); destruct (Z.eqb_spec c' 34); destruct (Z.eqb_spec c' 10);
  destruct (Z.eqb_spec c' 9); destruct (Z.eqb_spec c' 13); destruct (Z.eqb_spec c' 92); try lia;
  subst; try rewrite esc_x_13; cbn [app]; intro H; try discriminate H;
  injection H; intros; subst; try lia; split; reflexivity.
Qed.

Lemma esc_ascii_head : forall c x, exists h t, esc_ascii false c ++ x = h :: t /\ h <> 34 /\
  (h = 92 -> exists h2 t2, t = h2 :: t2 /\ h2 <> 117).
Proof.
  intros c x. unfold esc_ascii.
  destruct (Z.eqb_spec c 39); [eexists; eexists; cbn [app]; split; [reflexivity|split; [lia|intros _; eexists; eexists; split; [reflexivity|lia]]]|].
  destruct (Z.eqb_spec c 34); [eexists; eexists; cbn [app]; split; [reflexivity|split; [lia|intros _; eexists; eexists; split; [reflexivity|lia]]]|].
  destruct (Z.eqb_spec c 10); [eexists; eexists; cbn [app]; split; [reflexivity|split; [lia|intros _; eexists; eexists; split; [reflexivity|lia]]]|].
  destruct (Z.eqb_spec c 9); [eexists; eexists; cbn [app]; split; [reflexivity|split; [lia|intros _; eexists; eexists; split; [reflexivity|lia]]]|].
  destruct (Z.eqb_spec c 13); [subst; rewrite esc_x_13; eexists; eexists; cbn [app]; split; [reflexivity|split; [lia|intros _; eexists; eexists; split; [reflexivity|lia]]]|].
  destruct (Z.eqb_spec c 92); [eexists; eexists; cbn [app]; split; [reflexivity|split; [lia|intros _; eexists; eexists; split; [reflexivity|lia]]]|].
  exists c, x. cbn [app]. split; [reflexivity|]. split; [assumption|]. intro; contradiction.
Qed.

(* ---- strings: rune tokens ------------------------------------------------ *)
Lemma esc_rune_shape : forall r x, exists t, esc_rune r ++ x = 92 :: 117 :: t.
Proof. intros r x. unfold esc_rune. cbn [app]. eexists. reflexivity. Qed.

Lemma three_bytes : forall r, 0 <= r < 16777216 ->
  r = 65536 * ((r / 65536) mod 256) + 256 * ((r / 256) mod 256) + r mod 256.
Proof.
  intros r H.
  assert (E : r / 65536 = r / 256 / 256) by (rewrite Z.div_div by lia; reflexivity).
  assert (S : (r / 65536) mod 256 = r / 65536).
  { apply Z.mod_small. split; [apply Z.div_pos; lia | apply Z.div_lt_upper_bound; lia]. }
  rewrite S, E.
  pose proof (Z.div_mod r 256 ltac:(lia)) as D1.
  pose proof (Z.div_mod (r / 256) 256 ltac:(lia)) as D2.
  lia.
Qed.

Lemma esc_rune_tok : forall r r' x x', 0 <= r < 16777216 -> 0 <= r' < 16777216 ->
  esc_rune r ++ x = esc_rune r' ++ x' -> r = r' /\ x = x'.
Proof.
  intros r r' x x' R R' H. unfold esc_rune in H. cbn [app hex2] in H.
  injection H as H1 H2 H3 H4 H5 H6 H7.
  assert (M : forall v, 0 <= v mod 256 < 256) by (intro v; apply Z.mod_pos_bound; lia).
  assert (A : (r / 65536) mod 256 = (r' / 65536) mod 256).
  { apply hex2_inj; [apply M|apply M|]. unfold hex2. rewrite H1, H2. reflexivity. }
  assert (B : (r / 256) mod 256 = (r' / 256) mod 256).
  { apply hex2_inj; [apply M|apply M|]. unfold hex2. rewrite H3, H4. reflexivity. }
  assert (C : r mod 256 = r' mod 256).
  { apply hex2_inj; [apply M|apply M|]. unfold hex2. rewrite H5, H6. reflexivity. }
  split; [|assumption]. rewrite (three_bytes r R), (three_bytes r' R'), A, B, C. reflexivity.
Qed.

(* ---- the UTF-8 decoder: the rune determines the bytes --------------------- *)
Lemma in_range_iff : forall lo hi x, in_range lo hi x = true <-> lo <= x <= hi.
Proof.
  intros lo hi x. unfold in_range. rewrite andb_true_iff, Z.leb_le, Z.leb_le. reflexivity.
Qed.

(* shape of a successful decoding *)
Inductive utf8_shape (s : list Z) (r : Z) (n : nat) : Prop :=
| U2 b0 b1 t : s = b0 :: b1 :: t -> n = 2%nat -> 194 <= b0 <= 223 -> 128 <= b1 <= 191 ->
    r = (b0 - 192) * 64 + (b1 - 128) -> utf8_shape s r n
| U3 b0 b1 b2 t : s = b0 :: b1 :: b2 :: t -> n = 3%nat -> 224 <= b0 <= 239 -> 128 <= b1 <= 191 -> 128 <= b2 <= 191 ->
    (b0 = 224 -> 160 <= b1) -> (b0 = 237 -> b1 <= 159) ->
    r = (b0 - 224) * 4096 + (b1 - 128) * 64 + (b2 - 128) -> utf8_shape s r n
| U4 b0 b1 b2 b3 t : s = b0 :: b1 :: b2 :: b3 :: t -> n = 4%nat -> 240 <= b0 <= 244 -> 128 <= b1 <= 191 ->
    128 <= b2 <= 191 -> 128 <= b3 <= 191 -> (b0 = 240 -> 144 <= b1) -> (b0 = 244 -> b1 <= 143) ->
    r = (b0 - 240) * 262144 + (b1 - 128) * 4096 + (b2 - 128) * 64 + (b3 - 128) -> utf8_shape s r n.

Lemma utf8_decode_shape : forall s r n, utf8_decode s = Some (r, n) -> utf8_shape s r n.
Proof.
  intros s r n H. unfold utf8_decode in H.
  destruct s as [|b0 [|b1 r1]]; try discriminate H.
  destruct (in_range 194 223 b0) eqn:R0.
  { apply in_range_iff in R0. unfold cont in H. destruct (in_range 128 191 b1) eqn:R1; [|discriminate H].
    apply in_range_iff in R1. injection H as <- <-. eapply U2; try reflexivity; lia. }
  destruct (in_range 224 239 b0) eqn:R0'.
  { apply in_range_iff in R0'. destruct r1 as [|b2 r2]; [discriminate H|].
    unfold cont in H.
    destruct (in_range (if b0 =? 224 then 160 else 128) (if b0 =? 237 then 159 else 191) b1 && in_range 128 191 b2) eqn:R1;
      [|discriminate H].
    apply andb_true_iff in R1. destruct R1 as [R1 R2]. apply in_range_iff in R1, R2. injection H as <- <-.
    destruct (Z.eqb_spec b0 224); destruct (Z.eqb_spec b0 237); eapply U3; try reflexivity; lia. }
  destruct (in_range 240 244 b0) eqn:R0''; [|discriminate H].
  apply in_range_iff in R0''. destruct r1 as [|b2 [|b3 r3]]; try discriminate H.
  unfold cont in H.
  destruct (in_range (if b0 =? 240 then 144 else 128) (if b0 =? 244 then 143 else 191) b1 && in_range 128 191 b2 && in_range 128 191 b3) eqn:R1;
    [|discriminate H].
  apply andb_true_iff in R1. destruct R1 as [R1 R3]. apply andb_true_iff in R1. destruct R1 as [R1 R2].
  apply in_range_iff in R1, R2, R3. injection H as <- <-.
  destruct (Z.eqb_spec b0 240); destruct (Z.eqb_spec b0 244); eapply U4; try reflexivity; lia.
Qed.

Lemma utf8_shape_range : forall s r n, utf8_shape s r n -> 0 <= r < 16777216 /\ (2 <= n)%nat /\ (n <= length s)%nat.
Proof.
  intros s r n [b0 b1 t -> -> ? ? ->|b0 b1 b2 t -> -> ? ? ? ? ? ->|b0 b1 b2 b3 t -> -> ? ? ? ? ? ? ->];
    cbn [length]; repeat split; lia.
Qed.

(* two decodings of the same rune read the same bytes *)
Lemma utf8_shape_inj : forall s s' r n n', utf8_shape s r n -> utf8_shape s' r n' ->
  n = n' /\ firstn n s = firstn n s'.
Proof.
  intros s s' r n n' H H'.
  destruct H as [b0 b1 t -> -> A0 A1 Er|b0 b1 b2 t -> -> A0 A1 A2 A3 A4 Er|b0 b1 b2 b3 t -> -> A0 A1 A2 A3 A4 A5 Er];
  destruct H' as [c0 c1 t' -> -> B0 B1 Er'|c0 c1 c2 t' -> -> B0 B1 B2 B3 B4 Er'|c0 c1 c2 c3 t' -> -> B0 B1 B2 B3 B4 B5 Er'];
  try (exfalso; lia).
  - assert (b0 = c0) by lia. assert (b1 = c1) by lia. subst. split; reflexivity.
  - assert (b0 = c0) by lia. assert (b1 = c1) by lia. assert (b2 = c2) by lia. subst. split; reflexivity.
  - assert (b0 = c0) by lia. assert (b1 = c1) by lia. assert (b2 = c2) by lia. assert (b3 = c3) by lia.
    subst. split; reflexivity.
Qed.

(* ---- strings: the whole text --------------------------------------------- *)
Lemma esc_string_skip : forall k r, esc_string k r = esc_string 0 (skipn k r).
Proof.
  induction k as [|k IH]; intro r; [reflexivity|].
  destruct r as [|c r]; [reflexivity|]. cbn [esc_string skipn]. apply IH.
Qed.

(* first token of an escaped string *)
Lemma esc_string_cons : forall c r e, esc_string 0 (c :: r) = Some e ->
  exists tok s1 e1, e = tok ++ e1 /\ esc_string 0 s1 = Some e1 /\ (length s1 < length (c :: r))%nat /\
    ((tok = esc_ascii false c /\ s1 = r) \/
     (exists rune n, utf8_shape (c :: r) rune n /\ tok = esc_rune rune /\ s1 = skipn n (c :: r))).
Proof.
  intros c r e H. cbn [esc_string] in H.
  destruct (c <? 128).
  - destruct (esc_string 0 r) as [e1|] eqn:E1; [|discriminate H]. cbn [option_map] in H. injection H as <-.
    exists (esc_ascii false c), r, e1. repeat split; try reflexivity; try assumption; [cbn [length]; lia|left; split; reflexivity].
  - destruct (utf8_decode (c :: r)) as [[rune n]|] eqn:D; [|discriminate H].
    apply utf8_decode_shape in D. destruct (utf8_shape_range _ _ _ D) as (_ & N2 & NL).
    rewrite esc_string_skip in H.
    destruct (esc_string 0 (skipn (Nat.pred n) r)) as [e1|] eqn:E1; [|discriminate H].
    cbn [option_map] in H. injection H as <-.
    assert (SK : skipn (Nat.pred n) r = skipn n (c :: r)).
    { destruct n as [|n]; [lia|]. reflexivity. }
    exists (esc_rune rune), (skipn n (c :: r)), e1. rewrite <- SK at 2.
    split; [reflexivity|]. split; [rewrite <- SK; exact E1|]. split.
    + rewrite skipn_length. cbn [length] in *. lia.
    + right. exists rune, n. repeat split; try assumption.
Qed.

Lemma esc_string_inj_len : forall m s s' e e' r r', (length s <= m)%nat ->
  esc_string 0 s = Some e -> esc_string 0 s' = Some e' ->
  e ++ 34 :: r = e' ++ 34 :: r' -> s = s' /\ r = r'.
Proof.
  induction m as [|m IH]; intros s s' e e' r r' L E E' H.
  - destruct s; [|cbn [length] in L; lia]. cbn [esc_string] in E. injection E as <-.
    destruct s' as [|c' s'].
    + cbn [esc_string] in E'. injection E' as <-. cbn [app] in H. injection H as H. split; [reflexivity|assumption].
    + exfalso. apply esc_string_cons in E'. destruct E' as (tok & s1 & e1 & -> & _ & _ & [[-> _]|(rune & n & _ & -> & _)]);
        rewrite <- app_assoc in H; cbn [app] in H.
      * destruct (esc_ascii_head c' (e1 ++ 34 :: r')) as (h & t & Eh & Nh & _). rewrite Eh in H. injection H as H _. lia.
      * destruct (esc_rune_shape rune (e1 ++ 34 :: r')) as (t & Eh). rewrite Eh in H. discriminate H.
  - destruct s as [|c s].
    { apply (IH [] s' e e' r r'); [cbn [length]; lia|assumption|assumption|assumption]. }
    destruct s' as [|c' s'].
    { exfalso. cbn [esc_string] in E'. injection E' as <-. cbn [app] in H.
      apply esc_string_cons in E. destruct E as (tok & s1 & e1 & -> & _ & _ & [[-> _]|(rune & n & _ & -> & _)]);
        rewrite <- app_assoc in H.
      * destruct (esc_ascii_head c (e1 ++ 34 :: r)) as (h & t & Eh & Nh & _). rewrite Eh in H. injection H as H _. lia.
      * destruct (esc_rune_shape rune (e1 ++ 34 :: r)) as (t & Eh). rewrite Eh in H. discriminate H. }
    apply esc_string_cons in E, E'.
    destruct E as (tok & s1 & e1 & -> & E1 & L1 & K). destruct E' as (tok' & s1' & e1' & -> & E1' & L1' & K').
    rewrite <- !app_assoc in H.
    destruct K as [[-> ->]|(rune & n & U & -> & ->)]; destruct K' as [[-> ->]|(rune' & n' & U' & -> & ->)].
    + apply esc_ascii_tok in H. destruct H as [-> H].
      apply (IH s s' e1 e1' r r') in H; [|cbn [length] in L; lia|assumption|assumption].
      destruct H as [-> ->]. split; reflexivity.
    + exfalso. destruct (esc_ascii_head c (e1 ++ 34 :: r)) as (h & t & Eh & _ & Nh).
      destruct (esc_rune_shape rune' (e1' ++ 34 :: r')) as (t' & Eh'). rewrite Eh, Eh' in H.
      injection H as H1 H2. destruct (Nh H1) as (h2 & t2 & -> & N2). injection H2 as H2 _. lia.
    + exfalso. destruct (esc_ascii_head c' (e1' ++ 34 :: r')) as (h & t & Eh & _ & Nh).
      destruct (esc_rune_shape rune (e1 ++ 34 :: r)) as (t' & Eh'). rewrite Eh, Eh' in H.
      injection H as H1 H2. symmetry in H1. destruct (Nh H1) as (h2 & t2 & -> & N2). injection H2 as H2 _. lia.
    + destruct (utf8_shape_range _ _ _ U) as (R & _ & NL). destruct (utf8_shape_range _ _ _ U') as (R' & _ & NL').
      apply esc_rune_tok in H; [|assumption|assumption]. destruct H as [<- H].
      destruct (utf8_shape_inj _ _ _ _ _ U U') as [<- F].
      apply (IH (skipn n (c :: s)) (skipn n (c' :: s')) e1 e1' r r') in H; [|cbn [length] in *; lia|assumption|assumption].
      destruct H as [SK ->]. split; [|reflexivity].
      rewrite <- (firstn_skipn n (c :: s)), <- (firstn_skipn n (c' :: s')), F, SK. reflexivity.
Qed.

Lemma esc_string_inj : forall s s' e e' r r',
  esc_string 0 s = Some e -> esc_string 0 s' = Some e' ->
  e ++ 34 :: r = e' ++ 34 :: r' -> s = s' /\ r = r'.
Proof. intros s s' e e' r r'. apply (esc_string_inj_len (length s)). apply le_n. Qed.
