(* Model of ast.Atom with constant and variable arguments: NewAtom
   (ast/ast.go:1042), Atom.Equals (:1000), Atom.Hash (:1018) = hashTerm (:1317),
   Atom.String (:965), Variable.Equals (:935). Executable definitions only. *)
From Coq Require Import List ZArith Bool.
From MV Require Export Term.Print.
Import ListNotations.
Open Scope Z_scope.

Inductive bterm := TConst (c : const) | TVar (name : list Z).

(* ast.Atom{Predicate: PredicateSym{Symbol, Arity}, Args} *)
Record atom := Atom { a_sym : list Z; a_arity : Z; a_args : list bterm }.
(* NewAtom: the arity is the number of arguments *)
Definition new_atom (sym : list Z) (args : list bterm) : atom :=
  Atom sym (Z.of_nat (length args)) args.

(* Constant.Equals(Variable) = false, Variable.Equals(Constant) = false *)
Definition bterm_equals (a b : bterm) : bool :=
  match a, b with
  | TConst c, TConst d => equals c d
  | TVar x, TVar y => bytes_eqb x y
  | _, _ => false
  end.
Fixpoint args_equals (a b : list bterm) : bool :=
  match a, b with
  | [], [] => true
  | x :: a', y :: b' => bterm_equals x y && args_equals a' b'
  | _, _ => false       (* excluded by the length test *)
  end.
Definition atom_equals (a b : atom) : bool :=
  bytes_eqb (a_sym a) (a_sym b) && (a_arity a =? a_arity b)
  && (Z.of_nat (length (a_args a)) =? Z.of_nat (length (a_args b)))
  && args_equals (a_args a) (a_args b).

(* hashTerm: FNV-1 over the symbol, then 8 little-endian bytes of each constant's
   hash, or the name of a variable *)
Definition bterm_hash_bytes (t : bterm) : list Z :=
  match t with TConst c => le64 (hash c) | TVar x => x end.
Definition atom_hash (a : atom) : Z :=
  fnv_write (fnv_write fnv_offset (a_sym a)) (flat_map bterm_hash_bytes (a_args a)).

Section AtomPrint.
  Variable fmt_float fmt_time fmt_dur : Z -> list Z.
  Definition print_bterm (t : bterm) : list Z :=
    match t with TConst c => print fmt_float fmt_time fmt_dur c | TVar x => x end.
  Fixpoint print_args (l : list bterm) : list Z :=
    match l with
    | [] => []
    | [x] => print_bterm x
    | x :: r => print_bterm x ++ 44 :: print_args r
    end.
  (* Atom.String: symbol "(" args joined by "," ")" *)
  Definition print_atom (a : atom) : list Z := a_sym a ++ 40 :: print_args (a_args a) ++ [41].
End AtomPrint.

(* NAME : ':'? ('a'..'z') ( NAME_CHAR | ('.' NAME_CHAR) )*,
   NAME_CHAR : LETTER | DIGIT | ':' | '_'  (parse/gen/Mangle.g4:180) *)
Definition name_char (c : Z) : bool := is_letter c || is_digit c || (c =? 58) || (c =? 95).
Definition pred_valid (s : list Z) : bool :=
  negb (is_nil s) && forallb (fun c => name_char c || (c =? 46)) s.
Definition bterm_valid (t : bterm) : bool :=
  match t with TConst c => wf c && valid c | TVar _ => false end.
