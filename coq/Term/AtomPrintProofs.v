(* Proofs about Atom.v: atoms with lexer-valid predicate names whose arguments are
   well-formed valid constants or lexer-valid variables are equal when they print
   identically (Atom.String, ast/ast.go:981). Built on the unique decodability of
   printed constants (PrintInjProofs.v). *)
From Coq Require Import List ZArith Bool Lia.
From MV Require Import Term.Hash Term.Const Term.ConstProofs Term.Print Term.PrintProofs Term.EscProofs
  Term.PrintInjProofs Term.Atom.
Import ListNotations.
Open Scope Z_scope.

(* VARIABLE : '_' | ('A'..'Z') (LETTER | DIGIT)*   (parse/gen/Mangle.g4:178) *)
Definition var_valid (x : list Z) : bool :=
  match x with
  | [] => false
  | c :: r => ((c =? 95) && is_nil r) || (in_range 65 90 c && forallb (fun c => is_letter c || is_digit c) r)
  end.

(* the arguments covered: well-formed valid constants and lexer-valid variables *)
Definition bterm_ok (t : bterm) : bool :=
  match t with TConst c => wf c && valid c | TVar x => var_valid x end.

Lemma sep_split : forall (q : Z) t t' r r', ~ In q t -> ~ In q t' ->
  t ++ q :: r = t' ++ q :: r' -> t = t' /\ r = r'.
Proof.
  intro q. induction t as [|x t IH]; destruct t' as [|y t']; cbn [app]; intros r r' N N' H.
  - injection H as H. split; [reflexivity|assumption].
  - exfalso. injection H as H _. apply N'. left. symmetry. exact H.
  - exfalso. injection H as H _. apply N. left. exact H.
  - injection H as -> H.
    assert (N1 : ~ In q t) by (intro I; apply N; right; exact I).
    assert (N1' : ~ In q t') by (intro I; apply N'; right; exact I).
    destruct (IH t' r r' N1 N1' H) as [-> ->]. split; reflexivity.
Qed.

Lemma letter_digit_wordc : forall c, is_letter c || is_digit c = true -> wordc c = true.
Proof.
  intros c H. unfold wordc, constant_char. destruct (is_letter c); destruct (is_digit c); cbn [orb] in *;
    try reflexivity; discriminate H.
Qed.

Lemma var_valid_shape : forall x, var_valid x = true ->
  forallb wordc x = true /\ exists c r, x = c :: r /\ (c = 95 \/ 65 <= c <= 90).
Proof.
  intros [|c r] H; [discriminate H|]. cbn [var_valid] in H. apply orb_true_iff in H. destruct H as [H|H].
  - apply andb_true_iff in H. destruct H as [H1 H2]. apply Z.eqb_eq in H1. apply is_nil_true in H2. subst.
    split; [reflexivity|]. exists 95, []. split; [reflexivity|left; reflexivity].
  - apply andb_true_iff in H. destruct H as [H1 H2]. split.
    + cbn [forallb]. apply andb_true_iff. split.
      * apply letter_digit_wordc. unfold is_letter. rewrite H1. reflexivity.
      * apply forallb_forall. intros y I. rewrite forallb_forall in H2. apply letter_digit_wordc. apply H2. exact I.
    + exists c, r. split; [reflexivity|]. right. apply in_range_iff. exact H1.
Qed.

Lemma var_hd : forall x r, var_valid x = true -> hd_class (x ++ r) = 0.
Proof.
  intros x r H. destruct (var_valid_shape _ H) as (_ & c & t & -> & Hc). cbn [app]. unfold hd_class.
  destruct (Z.eqb_spec c 47); [lia|]. destruct (Z.eqb_spec c 34); [lia|]. destruct (Z.eqb_spec c 98); [lia|].
  destruct (Z.eqb_spec c 102); [lia|]. destruct (Z.eqb_spec c 91); [lia|]. destruct (Z.eqb_spec c 123); [lia|].
  destruct (numc c) eqn:E; [|reflexivity]. apply numc_range in E. lia.
Qed.

Lemma pred_valid_no_paren : forall s, pred_valid s = true -> ~ In 40 s.
Proof.
  intros s H I. unfold pred_valid in H. apply andb_true_iff in H. destruct H as [_ H].
  rewrite forallb_forall in H. specialize (H 40 I). discriminate H.
Qed.

Section AtomInj.
  Variable fmt_float fmt_time fmt_dur : Z -> list Z.
  Hypothesis float_inj : forall b b', float_special b = false -> float_special b' = false ->
    format_float64 fmt_float b = format_float64 fmt_float b' -> b = b'.
  Hypothesis float_alpha : forall b, float_special b = false -> forallb numc (fmt_float b) = true.
  Hypothesis time_inj : forall n n', fmt_time n = fmt_time n' -> n = n'.
  Hypothesis time_nq : forall n, ~ In 34 (fmt_time n).
  Hypothesis dur_inj : forall n n', fmt_dur n = fmt_dur n' -> n = n'.
  Hypothesis dur_nq : forall n, ~ In 34 (fmt_dur n).

  Local Notation pr := (print fmt_float fmt_time fmt_dur).
  Local Notation pb := (print_bterm fmt_float fmt_time fmt_dur).
  Local Notation pargs := (print_args fmt_float fmt_time fmt_dur).

  Lemma bterm_decodable : forall a b r1 r2, bterm_ok a = true -> bterm_ok b = true -> follow r1 -> follow r2 ->
    pb a ++ r1 = pb b ++ r2 -> a = b /\ r1 = r2.
  Proof.
    intros [c|x] [d|y] r1 r2 Oa Ob F1 F2 H; cbn [bterm_ok print_bterm] in *.
    - apply andb_true_iff in Oa, Ob. destruct Oa as [Wc Vc], Ob as [Wd Vd].
      destruct (print_decodable fmt_float fmt_time fmt_dur float_inj float_alpha time_inj time_nq dur_inj dur_nq
                  c d r1 r2 Wc Vc Wd Vd F1 F2 H) as [-> ->]. split; reflexivity.
    - exfalso. apply andb_true_iff in Oa. destruct Oa as [Wc Vc].
      pose proof (pr_hd fmt_float fmt_time fmt_dur float_alpha c r1 Wc Vc) as K.
      rewrite H, (var_hd y r2 Ob) in K. symmetry in K. exact (cls_nonzero c Wc K).
    - exfalso. apply andb_true_iff in Ob. destruct Ob as [Wd Vd].
      pose proof (pr_hd fmt_float fmt_time fmt_dur float_alpha d r2 Wd Vd) as K.
      rewrite <- H, (var_hd x r1 Oa) in K. symmetry in K. exact (cls_nonzero d Wd K).
    - destruct (var_valid_shape _ Oa) as [A _]. destruct (var_valid_shape _ Ob) as [B _].
      destruct (word_split _ _ _ _ A B F1 F2 H) as [-> ->]. split; reflexivity.
  Qed.

  Lemma bterm_head : forall a, bterm_ok a = true -> exists x t, pb a = x :: t /\ x <> 41.
  Proof.
    intros [c|y] O; cbn [bterm_ok print_bterm] in *.
    - apply andb_true_iff in O. destruct O as [W V].
      destruct (pr_head fmt_float fmt_time fmt_dur float_alpha c W V) as (x & t & E & _ & _ & _ & N & _).
      exists x, t. split; assumption.
    - destruct (var_valid_shape _ O) as (_ & c & t & -> & Hc). exists c, t. split; [reflexivity|lia].
  Qed.

  Lemma pargs_cons : forall a l, exists X, pargs (a :: l) = pb a ++ X.
  Proof.
    intros a [|b l]; cbn [print_args].
    - exists []. rewrite app_nil_r. reflexivity.
    - eexists. reflexivity.
  Qed.

  Lemma pargs_cons2 : forall a b l, pargs (a :: b :: l) = pb a ++ 44 :: pargs (b :: l).
  Proof. reflexivity. Qed.

  Lemma args_decodable : forall l l' r1 r2, forallb bterm_ok l = true -> forallb bterm_ok l' = true ->
    pargs l ++ 41 :: r1 = pargs l' ++ 41 :: r2 -> l = l' /\ r1 = r2.
  Proof.
    induction l as [|a l IH]; destruct l' as [|b l']; intros r1 r2 O O' H.
    - cbn [print_args app] in H. injection H as H. split; [reflexivity|assumption].
    - exfalso. cbn [forallb] in O'. apply andb_true_iff in O'. destruct O' as [Ob _].
      destruct (pargs_cons b l') as [X E]. rewrite E in H. destruct (bterm_head b Ob) as (x & t & Eb & N).
      rewrite Eb in H. cbn [print_args app] in H. injection H as H _. apply N. symmetry. exact H.
    - exfalso. cbn [forallb] in O. apply andb_true_iff in O. destruct O as [Oa _].
      destruct (pargs_cons a l) as [X E]. rewrite E in H. destruct (bterm_head a Oa) as (x & t & Ea & N).
      rewrite Ea in H. cbn [print_args app] in H. injection H as H _. apply N. exact H.
    - cbn [forallb] in O, O'. apply andb_true_iff in O, O'. destruct O as [Oa O], O' as [Ob O'].
      assert (F41 : forall r, follow (41 :: r)) by (intro r; exact eq_refl).
      assert (F44 : forall r, follow (44 :: r)) by (intro r; exact eq_refl).
      destruct l as [|a2 l]; destruct l' as [|b2 l'].
      + cbn [print_args] in H. destruct (bterm_decodable a b _ _ Oa Ob (F41 _) (F41 _) H) as [-> R].
        injection R as ->. split; reflexivity.
      + exfalso. rewrite pargs_cons2 in H. cbn [print_args] in H. rewrite <- app_assoc in H. cbn [app] in H.
        destruct (bterm_decodable a b _ _ Oa Ob (F41 _) (F44 _) H) as [_ R]. discriminate R.
      + exfalso. rewrite pargs_cons2 in H. cbn [print_args] in H. rewrite <- app_assoc in H. cbn [app] in H.
        destruct (bterm_decodable a b _ _ Oa Ob (F44 _) (F41 _) H) as [_ R]. discriminate R.
      + rewrite !pargs_cons2, <- !app_assoc in H. rewrite <- !app_comm_cons in H.
        destruct (bterm_decodable a b _ _ Oa Ob (F44 _) (F44 _) H) as [-> R].
        apply cons_inv in R. destruct (IH (b2 :: l') r1 r2 O O' R) as [-> ->]. split; reflexivity.
  Qed.

  Lemma atom_print_inj_lemma : forall sym args sym' args',
    pred_valid sym = true -> pred_valid sym' = true ->
    forallb bterm_ok args = true -> forallb bterm_ok args' = true ->
    print_atom fmt_float fmt_time fmt_dur (new_atom sym args) = print_atom fmt_float fmt_time fmt_dur (new_atom sym' args') ->
    new_atom sym args = new_atom sym' args'.
  Proof.
    intros sym args sym' args' Ps Ps' O O' H. unfold print_atom, new_atom in H. cbn [a_sym a_args] in H.
    destruct (sep_split 40 _ _ _ _ (pred_valid_no_paren _ Ps) (pred_valid_no_paren _ Ps') H) as [-> R].
    destruct (args_decodable args args' [] [] O O' R) as [-> _]. reflexivity.
  Qed.
End AtomInj.
