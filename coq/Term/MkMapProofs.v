(* Proofs about MkMap.v: with pairwise distinct key hashes the constant built
   by ast.Map / ast.Struct does not depend on the order in which the entries
   are delivered (Go map iteration order). *)
From Coq Require Import List ZArith Bool Lia Permutation Sorted.
From MV Require Import Term.Hash Term.Const Term.MkMap.
Import ListNotations.
Open Scope Z_scope.

Definition key_lt (a b : kv) : Prop := kv_key a < kv_key b.

Lemma insert_perm : forall x l, Permutation (insert_kv x l) (x :: l).
Proof.
  intros x l; induction l as [|y r IH]; cbn [insert_kv].
  - apply Permutation_refl.
  - destruct (kv_key x <=? kv_key y).
    + apply Permutation_refl.
    + eapply Permutation_trans; [apply perm_skip; exact IH | apply perm_swap].
Qed.

Lemma sort_perm : forall l, Permutation (sort_kv l) l.
Proof.
  induction l as [|x l IH]; cbn [sort_kv fold_right].
  - apply Permutation_refl.
  - eapply Permutation_trans; [apply insert_perm | apply perm_skip; exact IH].
Qed.

Lemma insert_sorted : forall x l, StronglySorted key_lt l -> ~ In (kv_key x) (map kv_key l) ->
  StronglySorted key_lt (insert_kv x l).
Proof.
  intros x l; induction l as [|y r IH]; intros S N; cbn [insert_kv].
  - constructor; constructor.
  - apply StronglySorted_inv in S; destruct S as [Sr Fy].
    destruct (kv_key x <=? kv_key y) eqn:E.
    + apply Z.leb_le in E.
      assert (L : kv_key x < kv_key y).
      { destruct (Z.eq_dec (kv_key x) (kv_key y)) as [Q|Q]; [|lia]. exfalso; apply N; left; symmetry; exact Q. }
      constructor.
      * constructor; assumption.
      * constructor; [exact L|].
        eapply Forall_impl; [|exact Fy]. unfold key_lt; intros; lia.
    + apply Z.leb_gt in E. constructor.
      * apply IH; [exact Sr|]. intro H; apply N; right; exact H.
      * eapply Permutation_Forall; [apply Permutation_sym; apply insert_perm|].
        constructor; [exact E | exact Fy].
Qed.

Lemma sort_sorted : forall l, NoDup (map kv_key l) -> StronglySorted key_lt (sort_kv l).
Proof.
  induction l as [|x l IH]; intro N; cbn [sort_kv fold_right].
  - constructor.
  - cbn [map] in N. apply NoDup_cons_iff in N; destruct N as [N1 N2].
    apply insert_sorted; [apply IH; exact N2|].
    intro H; apply N1.
    eapply Permutation_in; [|exact H]. apply Permutation_map. apply sort_perm.
Qed.

Lemma sorted_perm_eq : forall l l', StronglySorted key_lt l -> StronglySorted key_lt l' ->
  Permutation l l' -> l = l'.
Proof.
  induction l as [|a l IH]; intros l' S S' P.
  - apply Permutation_nil in P; subst; reflexivity.
  - destruct l' as [|b l'].
    + apply Permutation_sym, Permutation_nil in P; discriminate.
    + apply StronglySorted_inv in S; destruct S as [Sl Fa].
      apply StronglySorted_inv in S'; destruct S' as [Sl' Fb].
      assert (Ia : In a (b :: l')) by (eapply Permutation_in; [exact P | left; reflexivity]).
      assert (Ib : In b (a :: l)) by (eapply Permutation_in; [apply Permutation_sym; exact P | left; reflexivity]).
      assert (E : a = b).
      { destruct Ia as [Q|Q]; [symmetry; exact Q|].
        destruct Ib as [Q'|Q']; [exact Q'|].
        rewrite Forall_forall in Fa, Fb. specialize (Fa _ Q'). specialize (Fb _ Q). unfold key_lt in *; lia. }
      subst b. f_equal. apply IH; try assumption. eapply Permutation_cons_inv; exact P.
Qed.

Lemma sort_kv_perm : forall l l', Permutation l l' -> NoDup (map kv_key l) -> sort_kv l = sort_kv l'.
Proof.
  intros l l' P N. apply sorted_perm_eq.
  - apply sort_sorted; exact N.
  - apply sort_sorted. eapply Permutation_NoDup; [apply Permutation_map; exact P | exact N].
  - eapply Permutation_trans; [apply sort_perm|].
    eapply Permutation_trans; [exact P | apply Permutation_sym; apply sort_perm].
Qed.

Lemma mk_map_perm_lemma : forall l l', Permutation l l' -> NoDup (map kv_key l) ->
  mk_map l = mk_map l' /\ mk_struct l = mk_struct l'.
Proof.
  intros l l' P N. unfold mk_map, mk_struct, mk_shape. rewrite (sort_kv_perm l l' P N). split; reflexivity.
Qed.
