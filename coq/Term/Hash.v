(* Hash arithmetic of ast/ast.go: hashBytes (:816, hash/fnv New64 = FNV-1),
   szudzikElegantPair (:834), the shift in hashPair (:823), and the byte
   stream of hashTerm (:1317). All uint64 arithmetic is written mod 2^64. *)
From Coq Require Import List ZArith Bool.
Import ListNotations.
Open Scope Z_scope.

Definition two64 : Z := 2 ^ 64.
Definition wrap64 (x : Z) : Z := x mod two64.

(* int64(u) for a uint64 u, and uint64(i) for an int64 i *)
Definition to_int64 (u : Z) : Z := if u <? 2 ^ 63 then u else u - two64.
Definition to_uint64 (i : Z) : Z := i mod two64.

(* hash/fnv (FNV-1, 64 bit): offset basis 14695981039346656037, prime
   1099511628211; for each byte: hash *= prime; hash ^= byte. *)
Definition fnv_offset : Z := 14695981039346656037.
Definition fnv_prime : Z := 1099511628211.
Definition fnv_step (h b : Z) : Z := Z.lxor (wrap64 (h * fnv_prime)) b.
Definition fnv_write (h : Z) (s : list Z) : Z := fold_left fnv_step s h.
Definition fnv64 (s : list Z) : Z := fnv_write fnv_offset s.

(* left << tpe on uint64 *)
Definition shl64 (x k : Z) : Z := wrap64 (x * 2 ^ k).

(* szudzikElegantPair (ast/ast.go:834), uint64 arithmetic *)
Definition szudzik (a b : Z) : Z :=
  if b <=? a then wrap64 (a * a + a + b) else wrap64 (b * b + a).

(* binary.LittleEndian.PutUint64 *)
Fixpoint le_bytes (n : nat) (x : Z) : list Z :=
  match n with O => [] | S n' => x mod 256 :: le_bytes n' (x / 256) end.
Definition le64 (x : Z) : list Z := le_bytes 8 x.
